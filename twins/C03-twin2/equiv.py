"""
Equivalence digest for the C03 refactoring (run with cwd = a checkout).

Exercises GCMAlgorithmFast.random_clustered_graph,
GCMAlgorithmCustomMotifs.random_clustered_graph / partition / __init__
through their public interface only, so that it runs unchanged on the original
and on the refactored code.  Prints results, call histories of the callbacks,
exception types/messages, RNG states afterwards and digests of the inputs.
"""
import copy
import hashlib
import os
import random
import sys

sys.path.insert(0, os.getcwd())

import numpy as np  # noqa: E402

from gcmpy.gcm_algorithm.gcm_algorithm_fast import GCMAlgorithmFast  # noqa: E402
from gcmpy.gcm_algorithm.gcm_algorithm_custom_motifs import (  # noqa: E402
    GCMAlgorithmCustomMotifs,
)
from gcmpy.gcm_algorithm.gcm_algorithm_factory import GCMAlgorithmFactory  # noqa: E402,F401
from gcmpy.names.gcm_algorithm_names import GCMAlgorithmNames as N  # noqa: E402
from gcmpy.motif_generators.clique_motif import clique_motif  # noqa: E402


def h(obj) -> str:
    return hashlib.sha256(repr(obj).encode()).hexdigest()[:16]


def srepr(obj) -> str:
    """repr without memory addresses (generators etc.)"""
    if obj is None or isinstance(obj, (list, tuple, str, np.ndarray)):
        return repr(obj)
    return type(obj).__name__


def rng_digest() -> str:
    st = random.getstate()
    nst = np.random.get_state()
    return "py=" + h(st) + " np=" + h((nst[0], nst[1].tolist(), nst[2], nst[3], nst[4]))


def seed(s: int) -> None:
    random.seed(s)
    np.random.seed(s)


LOG: list = []


def logged(name, fn):
    def wrapper(*args):
        LOG.append((name, "call", copy.deepcopy(args)))
        out = fn(*args)
        LOG.append(
            (
                name,
                "ret",
                repr(out)
                if isinstance(out, (list, tuple, str))
                else type(out).__name__,
            )
        )
        return out

    return wrapper


class LoggingFast(GCMAlgorithmFast):
    def infinite_sequence(self):
        LOG.append(("infinite_sequence", "created"))
        num = 100
        while True:
            LOG.append(("infinite_sequence", "yield", num))
            yield num
            num += 7


class LoggingCustom(GCMAlgorithmCustomMotifs):
    def infinite_sequence(self):
        LOG.append(("infinite_sequence", "created"))
        num = 100
        while True:
            LOG.append(("infinite_sequence", "yield", num))
            yield num
            num += 7

    def partition(self, lst, n):
        LOG.append(("partition", list(lst), n))
        return super().partition(lst, n)


def show_result(tag, res, jds, jds_before):
    print(tag, "type", type(res).__name__)
    print(tag, "edges", len(res.edge_list), h(res.edge_list))
    print(tag, "topologies", len(res.topologies), h(res.topologies))
    print(tag, "motif_id", len(res.motif_id), h(res.motif_id))
    if len(res.edge_list) <= 40:
        print(tag, "edge_list", res.edge_list)
        print(tag, "topologies", res.topologies)
        print(tag, "motif_ids", res.motif_id)
    print(tag, "jds identity kept", res.joint_degrees is jds)
    print(tag, "jds unchanged", srepr(jds) == jds_before, h(srepr(jds)))


def run(tag, cls, params, jds, s):
    del LOG[:]
    seed(s)
    jds_before = srepr(jds)
    params_before = repr(sorted((k.value, repr(v)) for k, v in params.items()))
    try:
        alg = cls(params)
        res = alg.random_clustered_graph(jds)
        show_result(tag, res, jds, jds_before)
    except BaseException as e:  # noqa: BLE001
        print(tag, "EXC", type(e).__name__, str(e))
        ctx = e.__context__
        print(tag, "EXC context", type(ctx).__name__ if ctx is not None else None)
    print(tag, "log", len(LOG), h(LOG))
    if len(LOG) <= 30:
        for entry in LOG:
            print(tag, "  log", entry)
    print(
        tag,
        "params unchanged",
        params_before == repr(sorted((k.value, repr(v)) for k, v in params.items())),
    )
    print(tag, "rng", rng_digest())


def fast_params(sizes, names=None, builders=None):
    return {
        N.MOTIF_SIZES: sizes,
        N.EDGE_NAMES: names
        if names is not None
        else ["%d-clique" % s for s in sizes],
        N.BUILD_FUNCTIONS: builders
        if builders is not None
        else [logged("build%d" % i, clique_motif) for i, _ in enumerate(sizes)],
    }


# ---------------------------------------------------------------- fast ----
def fast_cases():
    # four degree-1 vertices
    for s in range(6):
        run("fast/4x1/s%d" % s, GCMAlgorithmFast, fast_params([2]), [(1,)] * 4, s)

    # two topologies, lists and tuples mixed, not divisible (partial last group)
    jds = [(2, 1), [1, 0], (3, 2), (0, 1), (1, 1), (2, 0), (0, 0)]
    for s in (0, 1, 2):
        run("fast/2top/s%d" % s, GCMAlgorithmFast, fast_params([2, 3]), jds, s)
        run("fast/2top-log/s%d" % s, LoggingFast, fast_params([2, 3]), jds, s)

    # three topologies incl. size-1 and size-4 motifs
    jds = [(1, 2, 1), (0, 1, 1), (2, 0, 1), (1, 1, 1), (3, 3, 0), (0, 0, 0)]
    run("fast/3top", LoggingFast, fast_params([1, 2, 4]), jds, 11)

    # edge cases: empty sequence, all-zero sequence, single vertex
    run("fast/empty", LoggingFast, fast_params([2]), [], 3)
    run("fast/zeros", LoggingFast, fast_params([2, 3]), [(0, 0), (0, 0)], 3)
    run("fast/single", LoggingFast, fast_params([2]), [(3,)], 3)
    # negative degree is silently treated as zero by itertools.repeat
    run("fast/negative", LoggingFast, fast_params([2]), [(2,), (-1,), (2,)], 3)
    # numpy integer degrees, numpy array as jds
    arr = np.array([[2, 1], [1, 1], [3, 1], [0, 0]])
    run("fast/numpy", LoggingFast, fast_params([2, 3]), arr, 5)
    run("fast/npints", LoggingFast, fast_params([2]), [(np.int64(2),), (np.int32(1),), (True,)], 5)
    # generator as jds (consumed once)
    run("fast/gen", LoggingFast, fast_params([2]), ((d,) for d in (1, 2, 1)), 5)
    # ragged joint degrees: zip truncates
    run("fast/ragged", LoggingFast, fast_params([2, 3]), [(1, 1), (2,), (1, 3)], 5)

    # builders returning other containers / empty results
    run(
        "fast/tuple-builder",
        LoggingFast,
        fast_params([2], builders=[logged("b", lambda vs: tuple((v, v) for v in vs))]),
        [(2,), (1,), (2,)],
        8,
    )
    run(
        "fast/empty-builder",
        LoggingFast,
        fast_params([3], builders=[logged("b", lambda vs: [])]),
        [(2,), (1,), (2,), (2,)],
        8,
    )

    # error paths
    run("fast/err-float-degree", LoggingFast, fast_params([2]), [(1.0,), (1,)], 9)
    run("fast/err-size0", LoggingFast, fast_params([0]), [(1,), (1,)], 9)
    run("fast/err-size0-empty", LoggingFast, fast_params([0]), [], 9)
    run("fast/err-few-sizes", LoggingFast, fast_params([2]), [(1, 1), (1, 2)], 9)
    run(
        "fast/err-few-builders",
        LoggingFast,
        fast_params([2, 3], builders=[logged("b0", clique_motif)]),
        [(1, 1), (1, 2)],
        9,
    )
    run(
        "fast/few-builders-unused",
        LoggingFast,
        fast_params([2, 3], names=["a"], builders=[logged("b0", clique_motif)]),
        [(1, 0), (1, 0)],
        9,
    )
    run(
        "fast/err-few-names",
        LoggingFast,
        fast_params([2, 3], names=["a"]),
        [(1, 1), (1, 2)],
        9,
    )
    run(
        "fast/err-builder-raises",
        LoggingFast,
        fast_params([2], builders=[logged("b", lambda vs: 1 / 0)]),
        [(1,), (1,)],
        9,
    )
    run(
        "fast/err-builder-no-len",
        LoggingFast,
        fast_params([2], builders=[logged("b", lambda vs: iter([(vs[0], vs[-1])]))]),
        [(1,), (1,), (2,)],
        9,
    )
    run("fast/err-jds-none", LoggingFast, fast_params([2]), None, 9)
    run("fast/err-jds-ints", LoggingFast, fast_params([2]), [1, 2], 9)
    run("fast/err-missing-param", LoggingFast, {N.MOTIF_SIZES: [2]}, [(1,)], 9)

    # larger run
    seed(123)
    big = [(random.randrange(4), random.randrange(3)) for _ in range(3000)]
    run("fast/big", GCMAlgorithmFast, fast_params([2, 3], builders=[clique_motif] * 2), big, 77)

    # several calls on the same instance (call history)
    seed(42)
    alg = GCMAlgorithmFast(fast_params([2], builders=[clique_motif]))
    for i in range(3):
        jds = [(1,)] * 4
        res = alg.random_clustered_graph(jds)
        print("fast/repeat", i, res.edge_list, res.topologies, res.motif_id)
    print("fast/repeat rng", rng_digest())

    # distribution over the three perfect matchings of four degree-1 vertices
    counts: dict = {}
    seed(2024)
    alg = GCMAlgorithmFast(fast_params([2], builders=[clique_motif]))
    for _ in range(3000):
        res = alg.random_clustered_graph([(1,)] * 4)
        key = tuple(sorted(tuple(sorted(e)) for e in res.edge_list))
        counts[key] = counts.get(key, 0) + 1
    print("fast/matching-counts", sorted(counts.items()))
    print("fast/matching rng", rng_digest())


# -------------------------------------------------------------- custom ----
def diamond(vs):
    return (
        (vs[0], vs[1]),
        (vs[1], vs[2]),
        (vs[2], vs[3]),
        (vs[3], vs[1]),
        (vs[0], vs[2]),
    )


def diamond_names():
    return ("d-o", "d-o", "d-o", "d-o", "d-i")


def twoclique(vs):
    return (vs[0], vs[1])


def twoclique_names():
    return "2-clique"


def threeclique(vs):
    return (vs[0], vs[1]), (vs[0], vs[2]), (vs[1], vs[2])


def threeclique_names():
    return "3-clique", "3-clique", "3-clique"


def pentagon(vs):
    return (
        (vs[0], vs[1]),
        (vs[1], vs[2]),
        (vs[2], vs[3]),
        (vs[3], vs[4]),
        (vs[0], vs[4]),
        (vs[1], vs[3]),
    )


def pentagon_names():
    return "p01", "p12", "p23", "p34", "p40", "p13"


def path3(vs):
    # two edges given as a list of lists: must NOT be re-packed
    return [[vs[0], vs[1]], [vs[1], vs[2]]]


def path3_names():
    return ["path-a", "path-b"]


def path3_tuples(vs):
    return ((vs[0], vs[1]), (vs[1], vs[2]))


def custom_params(sizes, builders, names, indices, log=True):
    p = {
        N.MOTIF_SIZES: sizes,
        N.BUILD_FUNCTIONS: [
            logged(b.__name__, b) if log else b for b in builders
        ],
        N.EDGE_NAMES: [logged(n.__name__, n) if log else n for n in names],
    }
    if indices is not None:
        p[N.MOTIF_INDICES] = indices
    return p


MANUSCRIPT_JDS = [
    (2, 1, 0, 1, 1, 0, 0),
    (1, 1, 0, 1, 1, 0, 0),
    (3, 1, 1, 0, 0, 1, 0),
    (2, 0, 1, 0, 0, 1, 0),
    (0, 0, 0, 1, 0, 0, 1),
    (1, 0, 0, 1, 0, 0, 0),
    (1, 0, 1, 0, 0, 0, 0),
    (1, 0, 1, 0, 0, 0, 0),
    (1, 0, 0, 1, 0, 0, 0),
    (1, 0, 0, 1, 0, 0, 0),
    (1, 0, 1, 0, 0, 0, 0),
    (0, 0, 1, 0, 0, 0, 0),
]


def custom_cases():
    def manuscript(log=True):
        return custom_params(
            [2, 3, 2, 2, 2, 2, 1],
            [twoclique, threeclique, diamond, pentagon],
            [twoclique_names, threeclique_names, diamond_names, pentagon_names],
            [[0], [1], [2, 3], [4, 5, 6]],
            log,
        )

    for s in (0, 1, 2, 3):
        run("custom/manuscript/s%d" % s, GCMAlgorithmCustomMotifs, manuscript(), list(MANUSCRIPT_JDS), s)
    run("custom/manuscript-log", LoggingCustom, manuscript(), list(MANUSCRIPT_JDS), 4)

    # 2-cliques only: four degree-1 vertices (re-pack branch)
    for s in range(6):
        run(
            "custom/4x1/s%d" % s,
            LoggingCustom,
            custom_params([2], [twoclique], [twoclique_names], [[0]]),
            [(1,)] * 4,
            s,
        )

    # two-edge motifs given as lists / tuples of pairs (no re-pack)
    jds = [(1,), (2,), (1,), (1,), (1,)]
    run("custom/path-lists", LoggingCustom, custom_params([3], [path3], [path3_names], [[0]]), jds, 6)
    run("custom/path-tuples", LoggingCustom, custom_params([3], [path3_tuples], [path3_names], [[0]]), jds, 6)

    # motif type order different from slot order, shared nothing
    run(
        "custom/reordered",
        LoggingCustom,
        custom_params(
            [2, 2, 3, 2],
            [diamond, threeclique, twoclique],
            [diamond_names, threeclique_names, twoclique_names],
            [[3, 0], [2], [1]],
        ),
        [(1, 1, 1, 1), (1, 2, 1, 0), (0, 1, 1, 1), (0, 0, 0, 0), (0, 0, 0, 0)],
        7,
    )

    # stubs not divisible by the motif size: trailing short partition
    run(
        "custom/indivisible",
        LoggingCustom,
        custom_params([2], [twoclique], [twoclique_names], [[0]]),
        [(1,), (1,), (1,)],
        7,
    )
    run(
        "custom/indivisible3",
        LoggingCustom,
        custom_params([3], [threeclique], [threeclique_names], [[0]]),
        [(2,), (1,), (1,), (1,), (2,)],
        7,
    )

    # edge cases
    run("custom/empty", LoggingCustom, custom_params([2], [twoclique], [twoclique_names], [[0]]), [], 8)
    run("custom/zeros", LoggingCustom, custom_params([2], [twoclique], [twoclique_names], [[0]]), [(0,), (0,)], 8)
    run("custom/no-motif-types", LoggingCustom, custom_params([2], [], [], []), [(1,), (1,)], 8)
    run(
        "custom/numpy",
        LoggingCustom,
        custom_params([2, 3], [twoclique, threeclique], [twoclique_names, threeclique_names], [[0], [1]]),
        np.array([[1, 1], [1, 1], [2, 1], [0, 0]]),
        8,
    )
    run(
        "custom/negative",
        LoggingCustom,
        custom_params([2], [twoclique], [twoclique_names], [[0]]),
        [(2,), (-3,), (2,)],
        8,
    )
    # repeated slot inside a motif
    run(
        "custom/repeated-slot",
        LoggingCustom,
        custom_params([2], [diamond], [diamond_names], [[0, 0]]),
        [(2,), (2,), (2,), (2,)],
        8,
    )
    # negative motif size: no partitions, no motifs
    run(
        "custom/negative-size",
        LoggingCustom,
        custom_params([-2], [twoclique], [twoclique_names], [[0]]),
        [(1,), (1,), (1,)],
        8,
    )

    # error paths
    run(
        "custom/err-orbit-runs-out",
        LoggingCustom,
        custom_params([2, 2], [diamond], [diamond_names], [[0, 1]]),
        [(1, 1), (1, 0), (1, 1), (1, 0)],
        9,
    )
    run("custom/err-size0", LoggingCustom, custom_params([0], [twoclique], [twoclique_names], [[0]]), [(1,), (1,)], 9)
    run("custom/err-size0-empty", LoggingCustom, custom_params([0], [twoclique], [twoclique_names], [[0]]), [], 9)
    run("custom/err-float-size", LoggingCustom, custom_params([2.0], [twoclique], [twoclique_names], [[0]]), [(1,), (1,)], 9)
    run("custom/err-few-sizes", LoggingCustom, custom_params([2], [twoclique], [twoclique_names], [[0]]), [(1, 1), (1, 1)], 9)
    run("custom/err-bad-index", LoggingCustom, custom_params([2], [twoclique], [twoclique_names], [[5]]), [(1,), (1,)], 9)
    run("custom/err-empty-indices", LoggingCustom, custom_params([2], [twoclique], [twoclique_names], [[]]), [(1,), (1,)], 9)
    run("custom/err-few-builders", LoggingCustom, custom_params([2, 2], [twoclique], [twoclique_names], [[0], [1]]), [(1, 1), (1, 1)], 9)
    run("custom/err-few-names", LoggingCustom, custom_params([2], [twoclique], [], [[0]]), [(1,), (1,)], 9)
    run("custom/err-float-degree", LoggingCustom, custom_params([2], [twoclique], [twoclique_names], [[0]]), [(1.0,), (1,)], 9)
    run("custom/err-missing-indices", LoggingCustom, custom_params([2], [twoclique], [twoclique_names], None), [(1,), (1,)], 9)
    run("custom/err-missing-sizes", LoggingCustom, {N.MOTIF_INDICES: [[0]]}, [(1,), (1,)], 9)
    run("custom/err-jds-none", LoggingCustom, custom_params([2], [twoclique], [twoclique_names], [[0]]), None, 9)

    def raising(vs):
        raise RuntimeError("builder failed on %r" % (vs,))

    def gen_builder(vs):
        return (e for e in [(vs[0], vs[1])])

    def empty_builder(vs):
        return ()

    def short_names():
        return ("only-one",)

    def names_raise():
        raise KeyError("names")

    run("custom/err-builder-raises", LoggingCustom, custom_params([2], [raising], [twoclique_names], [[0]]), [(1,), (1,)], 9)
    run("custom/err-builder-no-len", LoggingCustom, custom_params([2], [gen_builder], [twoclique_names], [[0]]), [(1,), (1,)], 9)
    run("custom/empty-builder", LoggingCustom, custom_params([2], [empty_builder], [threeclique_names], [[0]]), [(1,), (1,), (1,), (1,)], 9)
    run("custom/short-names", LoggingCustom, custom_params([3], [threeclique], [short_names], [[0]]), [(1,), (1,), (1,)], 9)
    run("custom/err-names-raise", LoggingCustom, custom_params([3], [threeclique], [names_raise], [[0]]), [(1,), (1,), (1,)], 9)
    run("custom/err-names-raise-2clique", LoggingCustom, custom_params([2], [twoclique], [names_raise], [[0]]), [(1,), (1,)], 9)

    # partition directly
    alg = GCMAlgorithmCustomMotifs(manuscript(log=False))
    for lst, n in (([], 2), ([1], 2), ([1, 2, 3, 4], 2), ([1, 2, 3, 4, 5], 3), ([1, 2], 5), ("abcdefg", 3), ((1, 2, 3), 1), ([1, 2, 3], -1)):
        print("custom/partition", repr(lst), n, alg.partition(lst, n))
    for lst, n in (([1, 2], 0), ([1, 2], 1.5), (None, 2)):
        try:
            print("custom/partition", repr(lst), n, alg.partition(lst, n))
        except Exception as e:  # noqa: BLE001
            print("custom/partition EXC", repr(lst), n, type(e).__name__, e)

    # larger run
    seed(321)
    big = []
    for _ in range(2000):
        big.append((random.randrange(3), random.randrange(2), 0, 0, 0, 0, 0))
    # make stub counts divisible
    tot0 = sum(r[0] for r in big)
    tot1 = sum(r[1] for r in big)
    big.append(((-tot0) % 2, (-tot1) % 3, 0, 0, 0, 0, 0))
    run("custom/big", GCMAlgorithmCustomMotifs, manuscript(log=False), big, 55)

    # several calls on the same instance
    seed(43)
    alg = GCMAlgorithmCustomMotifs(manuscript(log=False))
    for i in range(3):
        res = alg.random_clustered_graph(list(MANUSCRIPT_JDS))
        print("custom/repeat", i, h(res.edge_list), h(res.topologies), h(res.motif_id))
    print("custom/repeat rng", rng_digest())

    # distribution over the three perfect matchings
    counts: dict = {}
    seed(2025)
    alg = GCMAlgorithmCustomMotifs(custom_params([2], [twoclique], [twoclique_names], [[0]], log=False))
    for _ in range(3000):
        res = alg.random_clustered_graph([(1,)] * 4)
        key = tuple(sorted(tuple(sorted(e)) for e in res.edge_list))
        counts[key] = counts.get(key, 0) + 1
    print("custom/matching-counts", sorted(counts.items()))
    print("custom/matching rng", rng_digest())


if __name__ == "__main__":
    fast_cases()
    custom_cases()
    print("final rng", rng_digest())
