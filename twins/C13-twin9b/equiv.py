import sys, os; sys.path.insert(0, os.getcwd())
import random
import hashlib
import numpy as np
import networkx as nx
from gcmpy.names.network_names import NetworkNames
from gcmpy.names.tools_names import ToolsNames
from gcmpy.tools.joint_excess_joint_degree import JointExcessJointDegree

random.seed(1302)
np.random.seed(1302)

JD = NetworkNames.JOINT_DEGREE
TOP = NetworkNames.TOPOLOGY
LINES = []


def out(*a):
    LINES.append(" ".join(str(x) for x in a))


def dump_dict(d):
    return [(repr(k), repr(v), type(v).__name__) for k, v in d.items()]


def dump_graph(G):
    return (
        [(repr(n), repr(d)) for n, d in G.nodes(data=True)],
        [repr(e) for e in G.edges(data=True)],
    )


def annotate(G, names, rng, conv=tuple):
    for e in G.edges():
        G.edges[e][TOP] = rng.choice(names)
    for n in G.nodes():
        jd = [0] * len(names)
        for nb in G[n]:
            t = G.edges[n, nb][TOP]
            jd[names.index(t)] += 2 if nb == n else 1
        G.nodes[n][JD] = conv(jd)
    return G


def attempt(tag, f):
    try:
        r = f()
        out(tag, "OK", r)
        return r
    except BaseException as e:
        out(tag, "EXC", type(e).__name__)
        return None


def run(tag, G, names, direct=()):
    params = {ToolsNames.NETWORK: G, ToolsNames.EDGE_NAMES: names}
    try:
        C = JointExcessJointDegree(params)
    except BaseException as e:
        out(tag, "ctor EXC", type(e).__name__)
        return
    out(tag, "keys", sorted(map(repr, C._degree_keys)), {k: sorted(map(repr, v)) for k, v in C._excess_degree_keys.items()})
    for rep in range(3):
        try:
            M = C.get_ejks()
            out(tag, rep, "get_ejks OK", [(repr(t), dump_dict(d)) for t, d in M.ejks.items()])
            for t, d in M.ejks.items():
                if d:
                    out(tag, rep, "sum", repr(t), repr(sum(d.values())))
            out(tag, rep, "topnames", repr(M.topology_names), "num_edges", repr(C._num_edges))
        except BaseException as e:
            out(tag, rep, "get_ejks EXC", type(e).__name__, "num_edges", repr(C._num_edges),
                "partial", None if C._ejks is None else [(repr(t), dump_dict(d)) for t, d in C._ejks.ejks.items()])
    for i, name in direct:
        attempt(f"{tag} direct({i!r},{name!r})", lambda: dump_dict(C.get_ejk(i, name)))
    out(tag, "graph-after", dump_graph(G))


rng = random.Random(77)

# valid random networks
for s in range(30):
    n = rng.randint(2, 25)
    k = rng.randint(1, 4)
    names = [f"t{j}" for j in range(k)]
    G = annotate(nx.gnp_random_graph(n, rng.random(), seed=s), names, rng)
    run(f"valid{s}", G, names, direct=[(0, names[0]), (k - 1, names[-1]), (-1, names[0]), (k, names[0]), (0, "nope")])

# list-valued joint degrees, self loops
for s in range(8):
    names = ["a", "b"]
    G = nx.gnp_random_graph(10, 0.35, seed=200 + s)
    for _ in range(3):
        u = rng.randrange(10)
        G.add_edge(u, u)
    annotate(G, names, rng, conv=list)
    run(f"loops{s}", G, names, direct=[(1, "a"), (0, "b")])

# empty / trivial
run("empty", nx.Graph(), ["a"])
G = nx.Graph(); G.add_nodes_from(range(3))
for n in G: G.nodes[n][JD] = (0, 0)
run("no_edges", G, ["a", "b"], direct=[(0, "a")])
run("no_names", annotate(nx.path_graph(4), ["a"], rng), [], direct=[(0, "a")])

# topology name missing from the names list / unused name
G = annotate(nx.cycle_graph(6), ["a", "b", "c"], rng)
run("subset_names", G, ["a", "b"], direct=[(2, "c"), (3, "c")])
G = annotate(nx.cycle_graph(6), ["a"], rng)
for n in G: G.nodes[n][JD] = tuple(G.nodes[n][JD]) + (0,)
run("unused_name", G, ["a", "zz"], direct=[(1, "zz")])

# joint degrees too short for the index: u short, v short, both
G = annotate(nx.path_graph(4), ["a", "b"], rng)
G.nodes[0][JD] = (1,)
run("short_u", G, ["a", "b"], direct=[(1, "a"), (1, "b"), (0, "a")])
G = annotate(nx.path_graph(4), ["a", "b"], rng)
G.nodes[3][JD] = (1,)
run("short_v", G, ["a", "b"], direct=[(1, "a"), (1, "b"), (0, "b")])
G = annotate(nx.path_graph(3), ["a", "b"], rng)
for n in G: G.nodes[n][JD] = ()
run("all_empty_jd", G, ["a", "b"], direct=[(0, "a"), (0, "b")])
G = annotate(nx.path_graph(3), ["a", "b"], rng)
G.nodes[1][JD] = (1, 1, 5, 7)
run("long_mid", G, ["a", "b"], direct=[(0, "a"), (1, "b"), (3, "a"), (-1, "a"), (-3, "b")])

# unequal lengths where u+v == v+u although u != v
G = nx.Graph(); G.add_edge(0, 1, **{}); G.edges[0, 1][TOP] = "a"
G.nodes[0][JD] = (2,); G.nodes[1][JD] = (2, 2)
run("concat_commute", G, ["a"], direct=[(0, "a"), (1, "a")])

# non-numeric / float / bool / None entries
G = annotate(nx.path_graph(4), ["a", "b"], rng)
G.nodes[1][JD] = (1.5, 0.25)
run("float_jd", G, ["a", "b"], direct=[(0, "a"), (1, "b")])
G = annotate(nx.path_graph(4), ["a", "b"], rng)
G.nodes[0][JD] = ("x", "y")
run("str_u", G, ["a", "b"], direct=[(0, "a"), (0, "b")])
G = annotate(nx.path_graph(4), ["a", "b"], rng)
G.nodes[3][JD] = (None, None)
run("none_v", G, ["a", "b"], direct=[(0, "a"), (0, "b"), (1, "a"), (1, "b")])
G = annotate(nx.path_graph(4), ["a", "b"], rng)
G.nodes[0][JD] = ("x", 1); G.nodes[1][JD] = (None, 1)
run("both_bad", G, ["a", "b"], direct=[(0, "a"), (0, "b")])
G = annotate(nx.path_graph(4), ["a", "b"], rng)
G.nodes[2][JD] = (True, False)
run("bool_jd", G, ["a", "b"], direct=[(0, "a"), (1, "b")])
G = annotate(nx.path_graph(4), ["a", "b"], rng)
G.nodes[2][JD] = "11"
run("string_as_jd", G, ["a", "b"], direct=[(0, "a"), (1, "b")])
G = annotate(nx.path_graph(4), ["a", "b"], rng)
G.nodes[2][JD] = 5
run("int_as_jd", G, ["a", "b"], direct=[(0, "a"), (1, "b")])

# missing attributes
G = annotate(nx.path_graph(4), ["a", "b"], rng)
del G.nodes[2][JD]
run("missing_jd", G, ["a", "b"])
G = annotate(nx.path_graph(4), ["a", "b"], rng)
del G.edges[1, 2][TOP]
run("missing_top", G, ["a", "b"], direct=[(0, "a"), (1, "b")])

# numpy joint degrees (array rows, shared element objects, in-place subtraction)
G = annotate(nx.path_graph(5), ["a", "b"], rng, conv=lambda jd: np.array(jd))
run("np_rows", G, ["a", "b"], direct=[(0, "a"), (1, "b"), (2, "a")])


class Cell:
    """mutable number with in-place subtraction, hashable by identity"""

    log = []

    def __init__(self, v, tag):
        self.v = v
        self.tag = tag

    def __isub__(self, o):
        Cell.log.append(("isub", self.tag, self.v))
        self.v -= o
        return self

    def __repr__(self):
        return f"Cell({self.tag},{self.v})"


G = nx.Graph()
G.add_edge(0, 1); G.add_edge(1, 1); G.add_edge(1, 2)
for e in G.edges(): G.edges[e][TOP] = "a"
shared = Cell(9, "shared")
G.nodes[0][JD] = [shared, Cell(1, "n0b")]
G.nodes[1][JD] = [Cell(4, "n1a"), shared]
G.nodes[2][JD] = [shared]
try:
    C = JointExcessJointDegree({ToolsNames.NETWORK: G, ToolsNames.EDGE_NAMES: ["a", "b"]})
    out("cells ctor OK")
except BaseException as e:
    out("cells ctor EXC", type(e).__name__)
    C = JointExcessJointDegree.__new__(JointExcessJointDegree)
    C._G = G; C._topology_names = ["a", "b"]; C._num_edges = {}; C._excess_degree_keys = {}; C._ejks = None
C.count_edge_types()
for i in (0, 1, 0, 2):
    attempt(f"cells get_ejk({i})", lambda: [(repr(k), repr(v)) for k, v in C.get_ejk(i, "a").items()])
    out("cells log", Cell.log, dump_graph(G))


class Idx:
    """index object that records every __index__ call"""

    log = []

    def __init__(self, i):
        self.i = i

    def __index__(self):
        Idx.log.append(self.i)
        return self.i


G = annotate(nx.path_graph(4), ["a", "b"], rng)
C = JointExcessJointDegree({ToolsNames.NETWORK: G, ToolsNames.EDGE_NAMES: ["a", "b"]})
attempt("idx before count", lambda: dump_dict(C.get_ejk(Idx(0), "a")))
C.count_edge_types()
for i in (0, 1, 5):
    attempt(f"idx {i}", lambda: dump_dict(C.get_ejk(Idx(i), "a")))
    out("idx log", Idx.log)

# bad params
for tag, p in [("p_none", None), ("p_empty", {}), ("p_nonet", {ToolsNames.EDGE_NAMES: ["a"]}),
               ("p_nonames", {ToolsNames.NETWORK: nx.path_graph(2)}),
               ("p_strkeys", {"network": nx.path_graph(2), "edge_names": ["a"]})]:
    attempt(tag, lambda: JointExcessJointDegree(p))

out("py-rng", hashlib.sha256(repr(random.getstate()).encode()).hexdigest())
out("np-rng", hashlib.sha256(repr(np.random.get_state()).encode()).hexdigest())
body = "\n".join(LINES)
print(body)
print("DIGEST", hashlib.sha256(body.encode()).hexdigest())
