"""Equivalence digest for the C07 refactoring (split-degree / delta loaders).

Run with cwd = a checkout of gcmpy.  Uses only the public API that exists both
before and after the refactoring; prints a deterministic transcript.
"""
import copy
import hashlib
import inspect
import os
import random
import sys
import types

sys.path.insert(0, os.getcwd())

import numpy as np  # noqa: E402

from gcmpy.joint_degree.joint_degree_loaders.joint_degree_split_degree import (  # noqa: E402
    JointDegreeSplitDegree,
)
from gcmpy.joint_degree.joint_degree_loaders.joint_degree_delta import (  # noqa: E402
    JointDegreeDelta,
)
from gcmpy.joint_degree.joint_degree_factory import JointDegreeFactory  # noqa: E402
from gcmpy.joint_degree.joint_degree_type import JointDegreeType  # noqa: E402
from gcmpy.names.joint_degree_names import JointDegreeNames as N  # noqa: E402
from gcmpy.distributions.power_law import power_law  # noqa: E402
from gcmpy.distributions.poisson import poisson  # noqa: E402

LINES = []


def emit(*parts):
    line = " ".join(str(p) for p in parts)
    LINES.append(line)
    print(line)


def canon(x):
    """exact, deterministic textual form"""
    if isinstance(x, bool) or x is None:
        return repr(x)
    if isinstance(x, float):
        return "f:" + x.hex()
    if isinstance(x, (np.floating,)):
        return "npf:" + float(x).hex()
    if isinstance(x, (int, np.integer)):
        return "i:%d" % int(x)
    if isinstance(x, complex):
        return "c:(%s,%s)" % (x.real.hex(), x.imag.hex())
    if isinstance(x, str):
        return "s:" + repr(x)
    if isinstance(x, tuple):
        return "(" + ",".join(canon(v) for v in x) + ")"
    if isinstance(x, list):
        return "[" + ",".join(canon(v) for v in x) + "]"
    if isinstance(x, dict):  # insertion order is observable: keep it
        return "{" + ",".join(canon(k) + ":" + canon(v) for k, v in x.items()) + "}"
    if isinstance(x, range):
        return repr(x)
    if isinstance(x, N):
        return "N." + x.name
    if callable(x):
        return "<callable %s>" % getattr(x, "__name__", type(x).__name__)
    return "<%s %r>" % (type(x).__name__, x)


def digest(x):
    return hashlib.sha256(canon(x).encode()).hexdigest()[:24]


def rng_digest():
    h = hashlib.sha256()
    h.update(repr(random.getstate()).encode())
    st = np.random.get_state()
    h.update(repr((st[0], st[1].tolist(), st[2], st[3], st[4])).encode())
    return h.hexdigest()[:24]


def seed(s):
    random.seed(s)
    np.random.seed(s)


def show_jdd(tag, jdd, full_limit=40):
    if jdd is None:
        emit(tag, "jdd=None")
        return
    items = list(jdd.items())
    emit(tag, "n=%d" % len(items), "digest=" + digest(jdd))
    emit(tag, "sum=" + canon(sum(jdd.values())) if items else "sum=empty")
    if len(items) <= full_limit:
        emit(tag, "full=" + canon(jdd))
    else:
        emit(tag, "head=" + canon(items[:6]), "tail=" + canon(items[-3:]))


class LoggedFp:
    """degree function that records the order in which it is called"""

    def __init__(self, f, name="fp"):
        self.f = f
        self.calls = []
        self.__name__ = name

    def __call__(self, k):
        self.calls.append(k)
        return self.f(k)


def attrs_of(obj):
    out = {}
    for name in sorted(vars(obj)):
        out[name] = vars(obj)[name]
    return out


def build(cls, params, tag, sample=0, seed_value=12345):
    """construct a loader, report everything observable"""
    seed(seed_value)
    before = copy.copy(params) if isinstance(params, dict) else params
    snapshot = (
        {k: (copy.deepcopy(v) if not callable(v) else v) for k, v in params.items()}
        if isinstance(params, dict)
        else None
    )
    obj = None
    try:
        obj = cls(params)
        emit(tag, "OK type=" + type(obj).__name__, "_type=" + canon(obj._type))
    except BaseException as e:  # noqa: BLE001
        emit(tag, "EXC", type(e).__name__, repr(str(e)))
        ctx = e.__context__
        emit(tag, "EXC-context", type(ctx).__name__ if ctx is not None else None,
             repr(str(ctx)) if ctx is not None else "")
    if isinstance(params, dict):
        fp = params.get(N.FP)
        if isinstance(fp, LoggedFp):
            emit(tag, "fp-calls n=%d" % len(fp.calls), "digest=" + digest(fp.calls),
                 "head=" + canon(fp.calls[:8]))
        same_keys = list(params.keys()) == list(before.keys())
        same_vals = all(
            (params[k] is before[k]) and (callable(params[k]) or params[k] == snapshot[k])
            for k in before
        )
        emit(tag, "params-unchanged keys=%s vals=%s" % (same_keys, same_vals),
             "params=" + canon({k: v for k, v in params.items()}))
    if obj is not None:
        names = sorted(vars(obj))
        emit(tag, "attrs=" + ",".join(names))
        for name in names:
            if name != "_jdd":
                emit(tag, "attr", name, canon(vars(obj)[name]))
        show_jdd(tag, obj.jdd)
        emit(tag, "motif_sizes=" + canon(obj.motif_sizes))
        if sample:
            seed(seed_value + 1)
            try:
                jds = obj.sample_jds_from_jdd(sample)
                emit(tag, "sample n=%d" % len(jds), "digest=" + digest(jds),
                     "head=" + canon(jds[:5]))
            except BaseException as e:  # noqa: BLE001
                emit(tag, "sample EXC", type(e).__name__, repr(str(e)))
    emit(tag, "rng=" + rng_digest())
    return obj


def P(**kw):
    names = {
        "fp": N.FP,
        "probs": N.PROBS,
        "motif_sizes": N.MOTIF_SIZES,
        "bound": N.LOW_HIGH_DEGREE_BOUND,
        "target_k": N.TARGET_K,
        "jdt": N.JOINT_DEGREE_TYPE,
    }
    return {names[k]: v for k, v in kw.items()}


def call(tag, fn, *args):
    try:
        res = fn(*args)
        if isinstance(res, types.GeneratorType):
            res = ("generator", list(res))
        emit(tag, "->", canon(res))
    except BaseException as e:  # noqa: BLE001
        emit(tag, "EXC", type(e).__name__, repr(str(e)))


# ---------------------------------------------------------------------------
emit("== split degree: constructions")
build(JointDegreeSplitDegree,
      P(fp=LoggedFp(power_law(2.5)), probs=[0.8, 0.2], motif_sizes=[2, 3], bound=(1, 30)),
      "S1", sample=500)
build(JointDegreeSplitDegree,
      P(fp=LoggedFp(poisson(3.2)), probs=[0.6, 0.3, 0.1], motif_sizes=[2, 3, 4], bound=(0, 14)),
      "S2", sample=301)
build(JointDegreeSplitDegree,
      P(fp=LoggedFp(power_law(2.0)), probs=[0.5, 0.2, 0.2, 0.1], motif_sizes=[2, 3, 4, 5],
        bound=[2, 12]),
      "S3", sample=77)
build(JointDegreeSplitDegree,
      P(fp=LoggedFp(poisson(2.0)), probs=[1.0], motif_sizes=[2], bound=(0, 9)),
      "S4-one-topology", sample=50)
build(JointDegreeSplitDegree,
      P(fp=LoggedFp(poisson(2.0)), probs=[1, 0], motif_sizes=[2, 3], bound=(0, 7)),
      "S5-int-probs", sample=20)
build(JointDegreeSplitDegree,
      P(fp=LoggedFp(lambda k: k + 1), probs=(0.25, 0.75), motif_sizes=(2, 3), bound=(3, 4)),
      "S6-single-k-int-fp", sample=10)
build(JointDegreeSplitDegree,
      P(fp=LoggedFp(poisson(2.0)), probs=[0.7, 0.3], motif_sizes=[2, 3], bound=(5, 5)),
      "S7-empty-range", sample=3)
build(JointDegreeSplitDegree,
      P(fp=LoggedFp(poisson(2.0)), probs=[0.7, 0.3], motif_sizes=[2, 3], bound=(7, 2)),
      "S8-reversed-range")
build(JointDegreeSplitDegree,
      P(fp=LoggedFp(lambda k: 0.5), probs=[0.7, 0.3], motif_sizes=[2, 3], bound=(-3, 4)),
      "S9-negative-kmin", sample=10)
build(JointDegreeSplitDegree,
      P(fp=LoggedFp(lambda k: 0.5), probs=[0.7], motif_sizes=[2], bound=(-2, 3)),
      "S10-negative-kmin-one-topology")
build(JointDegreeSplitDegree,
      P(fp=LoggedFp(lambda k: 0.0), probs=[0.7, 0.3], motif_sizes=[2, 3], bound=(1, 5)),
      "S11-zero-fp")
build(JointDegreeSplitDegree,
      P(fp=LoggedFp(lambda k: 1.0), probs=[0.0, 0.0], motif_sizes=[2, 3], bound=(0, 5)),
      "S12-zero-probs")
build(JointDegreeSplitDegree,
      P(fp=LoggedFp(lambda k: 1.0), probs=[0.0, 0.0], motif_sizes=[2, 3], bound=(1, 5)),
      "S13-zero-probs-from-1")
build(JointDegreeSplitDegree,
      P(fp=LoggedFp(lambda k: 1.0), probs=[], motif_sizes=[], bound=(1, 5)),
      "S14-empty-probs")
build(JointDegreeSplitDegree,
      P(fp=LoggedFp(lambda k: None), probs=[0.5, 0.5], motif_sizes=[2, 3], bound=(1, 5)),
      "S15-fp-none")
build(JointDegreeSplitDegree,
      P(fp=LoggedFp(lambda k: 1.0), probs=[0.5, 0.5], motif_sizes=[2, 3], bound=(1, 5, 9)),
      "S16-three-bounds")
build(JointDegreeSplitDegree,
      P(fp=LoggedFp(lambda k: 1.0), probs=[0.5, 0.5], motif_sizes=[2, 3], bound=(4,)),
      "S17-one-bound")
build(JointDegreeSplitDegree,
      P(fp=LoggedFp(lambda k: 1.0), probs=None, motif_sizes=[2, 3], bound=(1, 4)),
      "S18-probs-none")
build(JointDegreeSplitDegree,
      P(fp=LoggedFp(lambda k: 1.0), probs=[0.5, "x"], motif_sizes=[2, 3], bound=(1, 4)),
      "S19-bad-prob")
build(JointDegreeSplitDegree,
      P(fp=LoggedFp(lambda k: 1.0), probs=[np.float64(0.5), np.float64(0.5)],
        motif_sizes=[2, 3], bound=(np.int64(1), np.int64(6))),
      "S20-numpy-values", sample=15)
for missing in ("fp", "probs", "motif_sizes", "bound"):
    kw = dict(fp=LoggedFp(lambda k: 1.0), probs=[0.5, 0.5], motif_sizes=[2, 3], bound=(1, 4))
    del kw[missing]
    build(JointDegreeSplitDegree, P(**kw), "S21-missing-" + missing)
build(JointDegreeSplitDegree, None, "S22-params-none")
build(JointDegreeSplitDegree, {}, "S23-params-empty")
build(JointDegreeSplitDegree, [1, 2, 3], "S24-params-list")
build(JointDegreeSplitDegree,
      P(fp=LoggedFp(power_law(2.5)), probs=[0.8, 0.2], motif_sizes=[2, 3], bound=(1, 400)),
      "S25-large", sample=2000)

# ---------------------------------------------------------------------------
emit("== split degree: direct method calls")
seed(99)
s = JointDegreeSplitDegree(
    P(fp=power_law(2.5), probs=[0.6, 0.3, 0.1], motif_sizes=[2, 3, 4], bound=(1, 6)))
g = s.get_valid_joint_degrees(5, 3)
emit("M gen-type", type(g).__name__, inspect.isgeneratorfunction(s.get_valid_joint_degrees))
emit("M gen-first", canon(next(g)), canon(next(g)))
emit("M gen-rest", canon(list(g)))
# laziness: nothing may be evaluated before the first next()
lazy = s.get_valid_joint_degrees(5, 0)
emit("M lazy-created", type(lazy).__name__)
call("M lazy-next", lambda: next(lazy))
for rd, top in [(0, 1), (0, 2), (0, 3), (1, 1), (1, 2), (4, 2), (7, 3), (9, 4), (6, 5),
                (-1, 1), (-1, 2), (-2, 2), (-3, 3), (-6, 3), (3, 0), (0, 0), (2, -1),
                (5.0, 2), (5.5, 2), (4, 2.0), (12, 3), (True, 2)]:
    call("M valid(%r,%r)" % (rd, top), s.get_valid_joint_degrees, rd, top)
call("M valid('a',1)", s.get_valid_joint_degrees, "a", 1)
call("M valid('a',2)", s.get_valid_joint_degrees, "a", 2)
call("M valid(None,2)", s.get_valid_joint_degrees, None, 2)
# rows are fresh lists
rows = list(s.get_valid_joint_degrees(6, 3))
emit("M rows-distinct", len({id(r) for r in rows}) == len(rows),
     all(type(r) is list for r in rows))

for jd in [(), (0,), (3,), (0, 0, 0), (1, 2, 3), [2, 1, 0], (5, 0, 0), (0, 0, 2), (1, 1),
           (1, 2, 3, 4), (-1, 0, 0), (0, -2, 1), (1.5, 0, 0), (True, False, True),
           (10 ** 3, 10 ** 3, 10 ** 3), ("a", 0, 0), (None,), range(3),
           (np.int64(2), np.int64(1), np.int64(1))]:
    call("M prob(%r)" % (jd,), s.calc_prob_of_joint_degree, jd)
call("M prob(gen)", s.calc_prob_of_joint_degree, (x for x in (2, 1, 1)))
call("M prob(None)", s.calc_prob_of_joint_degree, None)
call("M prob(7)", s.calc_prob_of_joint_degree, 7)

for probs in ([0.0, 0.5], [0, 1], [2, 3], [0.5, -0.5], [-0.5, 0.5], [1e-200, 1e-200],
              [1e200, 1e200], [0.5], [complex(0, 1), 0.5], [np.float64(0.25), 0.5],
              [10 ** 30, 10 ** 30]):
    s2 = JointDegreeSplitDegree(
        P(fp=power_law(2.5), probs=[0.5, 0.5], motif_sizes=[2, 3], bound=(1, 3)))
    s2._probs = probs
    for jd in [(0, 0), (1, 0), (0, 1), (3, 2), (-1, 0), (0, -1), (40, 40), (1,), ()]:
        call("M probs=%r prob(%r)" % (probs, jd), s2.calc_prob_of_joint_degree, jd)

emit("== split degree: resolve_degree on a live object")
s3 = JointDegreeSplitDegree(
    P(fp=power_law(2.5), probs=[0.6, 0.3, 0.1], motif_sizes=[2, 3, 4], bound=(1, 4)))
show_jdd("R0", s3.jdd)
for k, pk in [(4, 0.25), (4, 0.5), (0, 0.125), (-1, 0.3), (-5, 0.3), (6, 0), (5, 2),
              (7, -1.0), (3, 1e-300), (2, float("inf")), (2, float("nan")),
              (8, np.float64(0.1))]:
    call("R resolve(%r,%r)" % (k, pk), s3.resolve_degree, k, pk)
    show_jdd("R after(%r,%r)" % (k, pk), s3.jdd)
call("R resolve(3,None)", s3.resolve_degree, 3, None)
show_jdd("R after-none", s3.jdd)
call("R resolve(3,'ab')", s3.resolve_degree, 3, "ab")
show_jdd("R after-str", s3.jdd)
call("R resolve(2.0,0.5)", s3.resolve_degree, 2.0, 0.5)
call("R resolve('x',0.5)", s3.resolve_degree, "x", 0.5)
show_jdd("R after-bad-k", s3.jdd)
s3._probs = [0.0, 0.0, 0.0]
call("R zero-probs resolve(3,0.5)", s3.resolve_degree, 3, 0.5)
call("R zero-probs resolve(0,0.5)", s3.resolve_degree, 0, 0.5)
show_jdd("R after-zero-probs", s3.jdd)
s3._probs = [0.5, 0.5]
call("R two-probs resolve(5,0.5)", s3.resolve_degree, 5, 0.5)
show_jdd("R after-two-probs", s3.jdd)
s3._probs = []
call("R no-probs resolve(5,0.5)", s3.resolve_degree, 5, 0.5)
show_jdd("R after-no-probs", s3.jdd)
s3._probs = [0.6, 0.3, 0.1]
call("R normalise", s3.normalise_jdd)
show_jdd("R normalised", s3.jdd)
call("R create_jdd again", s3.create_jdd)
show_jdd("R recreated", s3.jdd)
s3._low_high_degree_bound = (2, 9)
call("R create_jdd new bounds", s3.create_jdd)
show_jdd("R recreated2", s3.jdd)
s3._jdd = None
call("R resolve on None jdd", s3.resolve_degree, 2, 0.5)
emit("R rng=" + rng_digest())


# subclass hooks: overriding the public methods must still be honoured
class Doubling(JointDegreeSplitDegree):
    def calc_prob_of_joint_degree(self, jd):
        self.seen = getattr(self, "seen", []) + [tuple(jd)]
        return 2 * super().calc_prob_of_joint_degree(jd) + jd[0]


class FirstOnly(JointDegreeSplitDegree):
    def get_valid_joint_degrees(self, remaining_degree, topology):
        for row in super().get_valid_joint_degrees(remaining_degree, topology):
            if row[-1] == 0:
                yield row


class Recording(JointDegreeSplitDegree):
    def resolve_degree(self, k, prob_overall_k):
        self.log = getattr(self, "log", []) + [(k, prob_overall_k)]
        super().resolve_degree(k, prob_overall_k)

    def normalise_jdd(self):
        self.log = getattr(self, "log", []) + ["normalise", len(self._jdd)]
        super().normalise_jdd()


class RecordingDelta(JointDegreeDelta):
    def resolve_degree(self, k, prob_overall_k):
        self.log = getattr(self, "log", []) + [(k, prob_overall_k)]
        super().resolve_degree(k, prob_overall_k)

    def normalise_jdd(self):
        self.log = getattr(self, "log", []) + ["normalise", len(self._jdd)]
        super().normalise_jdd()


emit("== subclasses")
build(Doubling, P(fp=LoggedFp(poisson(2.5)), probs=[0.6, 0.3, 0.1], motif_sizes=[2, 3, 4],
                  bound=(0, 7)), "H1-doubling", sample=25)
build(FirstOnly, P(fp=LoggedFp(poisson(2.5)), probs=[0.6, 0.3, 0.1], motif_sizes=[2, 3, 4],
                   bound=(0, 7)), "H2-first-only", sample=25)
build(Recording, P(fp=LoggedFp(poisson(2.5)), probs=[0.6, 0.4], motif_sizes=[2, 3],
                   bound=(0, 6)), "H3-recording", sample=25)
build(RecordingDelta, P(fp=LoggedFp(poisson(2.5)), probs=[0.6, 0.4], motif_sizes=[2, 3],
                        bound=(0, 6), target_k=4), "H4-recording-delta", sample=25)

# ---------------------------------------------------------------------------
emit("== delta: constructions")
build(JointDegreeDelta,
      P(fp=LoggedFp(power_law(2.5)), probs=[0.8, 0.2], motif_sizes=[2, 3], bound=(1, 30),
        target_k=3), "D1", sample=500)
build(JointDegreeDelta,
      P(fp=LoggedFp(poisson(4.0)), probs=[0.6, 0.3, 0.1], motif_sizes=[2, 3, 4], bound=(0, 15),
        target_k=9), "D2", sample=333)
build(JointDegreeDelta,
      P(fp=LoggedFp(poisson(4.0)), probs=[0.6, 0.3, 0.1], motif_sizes=[2, 3, 4], bound=(0, 15),
        target_k=0), "D3-target-at-low-edge", sample=20)
build(JointDegreeDelta,
      P(fp=LoggedFp(poisson(4.0)), probs=[0.6, 0.3, 0.1], motif_sizes=[2, 3, 4], bound=(0, 15),
        target_k=14), "D4-target-at-high-edge", sample=20)
build(JointDegreeDelta,
      P(fp=LoggedFp(poisson(4.0)), probs=[0.6, 0.3, 0.1], motif_sizes=[2, 3, 4], bound=(0, 15),
        target_k=15), "D5-target-just-outside", sample=20)
build(JointDegreeDelta,
      P(fp=LoggedFp(poisson(4.0)), probs=[0.6, 0.4], motif_sizes=[2, 3], bound=(1, 10),
        target_k=-4), "D6-target-negative", sample=20)
build(JointDegreeDelta,
      P(fp=LoggedFp(poisson(4.0)), probs=[0.6, 0.4], motif_sizes=[2, 3], bound=(1, 10),
        target_k=None), "D7-target-none", sample=20)
build(JointDegreeDelta,
      P(fp=LoggedFp(poisson(4.0)), probs=[0.6, 0.4], motif_sizes=[2, 3], bound=(1, 10),
        target_k=4.0), "D8-target-float", sample=20)
build(JointDegreeDelta,
      P(fp=LoggedFp(poisson(4.0)), probs=[0.6, 0.4], motif_sizes=[2, 3], bound=(1, 10),
        target_k=float("nan")), "D9-target-nan", sample=20)
build(JointDegreeDelta,
      P(fp=LoggedFp(poisson(4.0)), probs=[0.6, 0.4], motif_sizes=[2, 3], bound=(6, 7),
        target_k=6), "D10-only-target", sample=20)
build(JointDegreeDelta,
      P(fp=LoggedFp(poisson(4.0)), probs=[0.6, 0.4], motif_sizes=[2, 3], bound=(6, 6),
        target_k=6), "D11-empty-range", sample=2)
build(JointDegreeDelta,
      P(fp=LoggedFp(poisson(4.0)), probs=[1.0], motif_sizes=[2], bound=(0, 8),
        target_k=3), "D12-one-topology", sample=20)
build(JointDegreeDelta,
      P(fp=LoggedFp(poisson(4.0)), probs=[0.6, 0.3, 0.1], motif_sizes=[2, 3], bound=(0, 8),
        target_k=6), "D13-probs-longer-than-motifs", sample=20)
build(JointDegreeDelta,
      P(fp=LoggedFp(poisson(4.0)), probs=[0.6, 0.4], motif_sizes=[2, 3, 4, 5], bound=(0, 8),
        target_k=6), "D14-motifs-longer-than-probs", sample=20)
build(JointDegreeDelta,
      P(fp=LoggedFp(poisson(4.0)), probs=[0.6, 0.4], motif_sizes=[], bound=(2, 8),
        target_k=5), "D15-empty-motifs")
build(JointDegreeDelta,
      P(fp=LoggedFp(poisson(4.0)), probs=[0.6, 0.4], motif_sizes=[], bound=(5, 8),
        target_k=5), "D16-empty-motifs-target-first")
build(JointDegreeDelta,
      P(fp=LoggedFp(poisson(4.0)), probs=[0.6, 0.4], motif_sizes=[], bound=(5, 6),
        target_k=5), "D17-empty-motifs-only-target")
build(JointDegreeDelta,
      P(fp=LoggedFp(poisson(4.0)), probs=[0.6, 0.4], motif_sizes=None, bound=(5, 8),
        target_k=5), "D18-motifs-none-target-first")
build(JointDegreeDelta,
      P(fp=LoggedFp(poisson(4.0)), probs=[0.6, 0.4], motif_sizes=None, bound=(5, 5),
        target_k=5), "D19-motifs-none-empty-range")
build(JointDegreeDelta,
      P(fp=LoggedFp(poisson(4.0)), probs=[0.6, 0.4], motif_sizes=7, bound=(2, 5),
        target_k=9), "D20-motifs-int")
build(JointDegreeDelta,
      P(fp=LoggedFp(lambda k: 0.0), probs=[0.6, 0.4], motif_sizes=[2, 3], bound=(2, 6),
        target_k=3), "D21-zero-fp")
build(JointDegreeDelta,
      P(fp=LoggedFp(lambda k: 1.0), probs=[0.0, 0.0], motif_sizes=[2, 3], bound=(2, 6),
        target_k=4), "D22-zero-probs")
build(JointDegreeDelta,
      P(fp=LoggedFp(lambda k: None), probs=[0.5, 0.5], motif_sizes=[2, 3], bound=(2, 6),
        target_k=4), "D23-fp-none")
build(JointDegreeDelta,
      P(fp=LoggedFp(lambda k: None), probs=[0.5, 0.5], motif_sizes=[2, 3], bound=(2, 6),
        target_k=99), "D24-fp-none-no-target")
build(JointDegreeDelta,
      P(fp=LoggedFp(lambda k: 1.0), probs=[0.5, 0.5], motif_sizes=[2, 3], bound=(-3, 3),
        target_k=-2), "D25-negative-range", sample=10)
build(JointDegreeDelta,
      P(fp=LoggedFp(lambda k: 1.0), probs=[0.5, 0.5], motif_sizes=[2, 3], bound=(1, 5, 9),
        target_k=2), "D26-three-bounds", sample=10)
build(JointDegreeDelta,
      P(fp=LoggedFp(lambda k: 1.0), probs=[0.5, 0.5], motif_sizes="ab", bound=(1, 5),
        target_k=2), "D27-motifs-string", sample=10)
build(JointDegreeDelta,
      P(fp=LoggedFp(lambda k: 1.0), probs=[0.5, 0.5], motif_sizes=[2, 3], bound=(1, 5),
        target_k=np.int64(2)), "D28-numpy-target", sample=10)
for missing in ("fp", "probs", "motif_sizes", "bound", "target_k"):
    kw = dict(fp=LoggedFp(lambda k: 1.0), probs=[0.5, 0.5], motif_sizes=[2, 3], bound=(1, 4),
              target_k=2)
    del kw[missing]
    build(JointDegreeDelta, P(**kw), "D29-missing-" + missing)
build(JointDegreeDelta, None, "D30-params-none")
build(JointDegreeDelta, {}, "D31-params-empty")
build(JointDegreeDelta,
      P(fp=LoggedFp(power_law(2.5)), probs=[0.8, 0.2], motif_sizes=[2, 3], bound=(1, 1000),
        target_k=3), "D32-large", sample=5000)
build(JointDegreeDelta,
      P(fp=LoggedFp(power_law(2.2)), probs=[0.5, 0.3, 0.2], motif_sizes=[2, 3, 4],
        bound=(1, 200), target_k=60), "D33-large-split", sample=3000)

emit("== delta: live object")
d = JointDegreeDelta(
    P(fp=poisson(3.0), probs=[0.6, 0.3, 0.1], motif_sizes=[2, 3, 4], bound=(0, 8), target_k=5))
show_jdd("L0", d.jdd)
emit("L attrs", canon(sorted(vars(d))))
d._target_k = 7
call("L recreate target 7", d.create_jdd)
show_jdd("L1", d.jdd)
d._motif_sizes = [2, 3]
call("L recreate short motifs", d.create_jdd)
show_jdd("L2", d.jdd)
d._low_high_degree_bound = [3, 4]
call("L recreate single non-target", d.create_jdd)
show_jdd("L3", d.jdd)
call("L resolve(6, .5)", d.resolve_degree, 6, 0.5)
show_jdd("L4", d.jdd)
call("L valid(7,3)", d.get_valid_joint_degrees, 7, 3)
call("L prob((1,1,1))", d.calc_prob_of_joint_degree, (1, 1, 1))
d.motif_sizes = [2, 3, 4]
d.jdd = {(1, 0, 0): 0.5, (0, 1, 0): 0.5}
seed(5)
call("L sample", d.sample_jds_from_jdd, 31)
emit("L rng=" + rng_digest())

# ---------------------------------------------------------------------------
emit("== through the factory")
for tag, kw in [
    ("F1", dict(jdt=JointDegreeType.SPLIT_DEGREE, fp=LoggedFp(power_law(2.5)), probs=[0.8, 0.2],
                motif_sizes=[2, 3], bound=(1, 25))),
    ("F2", dict(jdt=JointDegreeType.DELTA, fp=LoggedFp(power_law(2.5)), probs=[0.8, 0.2],
                motif_sizes=[2, 3], bound=(1, 25), target_k=4)),
]:
    seed(2024)
    jdt = kw.pop("jdt")
    params = P(**kw)
    try:
        obj = JointDegreeFactory.resolve_joint_degree(jdt, params)
        emit(tag, type(obj).__name__)
        show_jdd(tag, obj.jdd)
        jds = obj.sample_jds_from_jdd(200)
        emit(tag, "sample digest=" + digest(jds))
    except BaseException as e:  # noqa: BLE001
        emit(tag, "EXC", type(e).__name__, repr(str(e)))
    emit(tag, "rng=" + rng_digest())

# ---------------------------------------------------------------------------
emit("== the property itself (C07), exact digests")
fp = power_law(2.5)
probs = [0.7, 0.2, 0.1]
seed(1)
sd = JointDegreeSplitDegree(P(fp=fp, probs=probs, motif_sizes=[2, 3, 4], bound=(1, 20)))
per_k = {}
for jd, mass in sd.jdd.items():
    k = sum((i + 1) * n for i, n in enumerate(jd))
    per_k[k] = per_k.get(k, 0.0) + mass
emit("C07 split per-k", canon(per_k))
emit("C07 split total", canon(sum(sd.jdd.values())))
dl = JointDegreeDelta(
    P(fp=fp, probs=probs, motif_sizes=[2, 3, 4], bound=(1, 20), target_k=8))
per_k = {}
for jd, mass in dl.jdd.items():
    k = sum((i + 1) * n for i, n in enumerate(jd))
    per_k[k] = per_k.get(k, 0.0) + mass
emit("C07 delta per-k", canon(per_k))
emit("C07 delta total", canon(sum(dl.jdd.values())))
emit("C07 delta non-first keys",
     canon([jd for jd in dl.jdd if any(jd[1:])]))
emit("C07 rng=" + rng_digest())

emit("== TOTAL", hashlib.sha256("\n".join(LINES).encode()).hexdigest())
