"""
Equivalence digest for the C01 commit (rng= option + shared stub helpers).
Run with cwd = a checkout of gcmpy. Exercises GCMAlgorithmFast,
GCMAlgorithmNetwork, GCMAlgorithmCustomMotifs and the factory entry point
through their PRE-EXISTING one-argument random_clustered_graph(jds) only and
prints a deterministic digest (results, builder calls, exception types, RNG
states afterwards, inputs after the call).
"""
import hashlib
import os
import random
import sys
import warnings

warnings.simplefilter("ignore")
sys.path.insert(0, os.getcwd())

import numpy as np

from gcmpy.gcm_algorithm.gcm_algorithm_fast import GCMAlgorithmFast
from gcmpy.gcm_algorithm.gcm_algorithm_network import GCMAlgorithmNetwork
from gcmpy.gcm_algorithm.gcm_algorithm_custom_motifs import GCMAlgorithmCustomMotifs
from gcmpy.gcm_algorithm.gcm_algorithm_main import GCMAlgorithmMain
from gcmpy.gcm_algorithm.gcm_algorithm_types import GCMAlgorithmTypes
from gcmpy.names.gcm_algorithm_names import GCMAlgorithmNames
from gcmpy.motif_generators.clique_motif import clique_motif


def h(obj) -> str:
    return hashlib.sha256(repr(obj).encode()).hexdigest()[:16]


def rng_state() -> str:
    return h(random.getstate()) + "/" + h(
        [repr(x) if not hasattr(x, "tolist") else x.tolist() for x in np.random.get_state()]
    )


def seed(s):
    random.seed(s)
    np.random.seed(s)


class Recorder:
    def __init__(self, fail_at=None):
        self.calls = []
        self.fail_at = fail_at

    def builder(self, k, fn=clique_motif):
        def build(vertices):
            self.calls.append((k, type(vertices).__name__, list(vertices)))
            if self.fail_at is not None and len(self.calls) == self.fail_at:
                raise KeyError("builder failure")
            return fn(vertices)

        return build


def params_for(sizes, names, builders, gcm_type=None, indices=None):
    p = {}
    p[GCMAlgorithmNames.MOTIF_SIZES] = sizes
    p[GCMAlgorithmNames.EDGE_NAMES] = names
    p[GCMAlgorithmNames.BUILD_FUNCTIONS] = builders
    if gcm_type is not None:
        p[GCMAlgorithmNames.GCM_TYPE] = gcm_type
    if indices is not None:
        p[GCMAlgorithmNames.MOTIF_INDICES] = indices
    return p


def show_edge_list(el):
    return (
        "edges=%r topologies=%r motif_id=%r jds=%r"
        % (el.edge_list, el.topologies, el.motif_id, el.joint_degrees)
    )


def show_network(net):
    g = net.G
    out = ["type=%s" % type(net).__name__]
    out.append("nodes=%r" % sorted(g.nodes(data=True), key=repr))
    out.append("edges=%r" % sorted(g.edges(data=True), key=repr))
    for attr in sorted(vars(net)):
        if attr in ("_G", "G"):
            continue
        out.append("%s=%r" % (attr, getattr(net, attr)))
    return " ".join(out)


def show(result):
    if hasattr(result, "edge_list"):
        return show_edge_list(result)
    if hasattr(result, "G"):
        return show_network(result)
    return repr(result)


def run(label, make_algo, jds, rec, repeats=1):
    """make_algo() -> algorithm object; calls it `repeats` times on one object"""
    before = repr(jds)
    try:
        algo = make_algo()
    except BaseException as e:  # noqa
        print("%s | construct EXC %s" % (label, type(e).__name__))
        return
    for r in range(repeats):
        n0 = len(rec.calls)
        try:
            res = algo.random_clustered_graph(jds)
            same = getattr(res, "joint_degrees", None) is jds
            print("%s #%d | OK %s jds_is_input=%r" % (label, r, show(res), same))
        except BaseException as e:  # noqa
            print("%s #%d | EXC %s" % (label, r, type(e).__name__))
        print("%s #%d | calls=%r" % (label, r, rec.calls[n0:]))
        print("%s #%d | rng=%s jds_after=%s unchanged=%r" % (
            label, r, rng_state(), h(repr(jds)), repr(jds) == before))


# --------------------------------------------------------------------------
# inputs for the stub matching generators (fast / network / factory)
NAMES2 = ["2-clique", "3-clique"]
CASES = [
    # (name, jds, sizes, names)
    ("handshake", [(2, 1), (1, 1), (3, 1), (2, 0), (0, 2), (1, 0), (1, 1), (2, 0)], [2, 3], NAMES2),
    ("lists", [[2, 1], [1, 1], [3, 1], [2, 0], [0, 2], [1, 0], [1, 1], [2, 0]], [2, 3], NAMES2),
    ("vertex0only", [(4, 3), (0, 0), (0, 0)], [2, 3], NAMES2),
    ("trailing", [(2, 1), (1, 1), (2, 0), (0, 2)], [2, 3], NAMES2),
    ("trailing0", [(1, 2), (0, 0), (0, 0)], [2, 3], NAMES2),
    ("zeros", [(0, 0), (0, 0), (0, 0)], [2, 3], NAMES2),
    ("empty", [], [2, 3], NAMES2),
    ("single_vertex", [(3, 3)], [2, 3], NAMES2),
    ("size1", [(2, 1), (1, 1), (0, 1)], [1, 3], NAMES2),
    ("bigsize", [(2, 1), (1, 1), (0, 1)], [7, 3], NAMES2),
    ("four", [(1, 4), (1, 0), (2, 4), (0, 4)], [2, 4], ["2-clique", "4-clique"]),
    ("three_topologies", [(1, 2, 1), (1, 1, 1), (0, 0, 1), (2, 0, 1)], [2, 3, 4], ["a", "b", "c"]),
    ("extra_sizes", [(1, 2), (1, 1)], [2, 3, 4], ["a", "b", "c"]),
    ("booltrue_size", [(2, 1), (1, 1), (0, 1)], [True, 3], NAMES2),
    # error paths
    ("size0", [(2, 1), (1, 1), (1, 1)], [2, 0], NAMES2),
    ("size0_first", [(2, 1), (1, 1), (1, 1)], [0, 3], NAMES2),
    ("size0_nostubs", [(2, 0), (1, 0), (1, 0)], [2, 0], NAMES2),
    ("negsize", [(2, 1), (1, 1), (1, 1)], [2, -3], NAMES2),
    ("floatsize", [(2, 1), (1, 1), (1, 1)], [2, 3.0], NAMES2),
    ("nonesize", [(2, 1), (1, 1), (1, 1)], [None, 3], NAMES2),
    ("strsize", [(2, 1), (1, 1), (1, 1)], [2, "3"], NAMES2),
    ("hugesize", [(2, 1), (1, 1), (1, 1)], [2, 10 ** 30], NAMES2),
    ("few_sizes", [(2, 1), (1, 1), (1, 1)], [2], NAMES2),
    ("few_names", [(2, 1), (1, 1), (1, 1)], [2, 3], ["only"]),
    ("float_degree", [(2.0, 1), (1, 1), (1, 1)], [2, 3], NAMES2),
    ("neg_degree", [(-2, 1), (2, 1), (2, 1)], [2, 3], NAMES2),
    ("none_degree", [(None, 1), (2, 1), (2, 1)], [2, 3], NAMES2),
    ("ragged", [(2, 1), (2,), (2, 2)], [2, 3], NAMES2),
    ("not_iterable_rows", [1, 2, 3], [2, 3], NAMES2),
    ("jds_none", None, [2, 3], NAMES2),
    ("jds_int", 5, [2, 3], NAMES2),
]

GENERATORS = [
    ("fast", lambda p: GCMAlgorithmFast(p), None),
    ("network", lambda p: GCMAlgorithmNetwork(p), None),
    ("main/fast", lambda p: GCMAlgorithmMain.load_gcm_algorithm(p), GCMAlgorithmTypes.FAST),
    ("main/network", lambda p: GCMAlgorithmMain.load_gcm_algorithm(p), GCMAlgorithmTypes.NETWORK),
    ("main/str", lambda p: GCMAlgorithmMain.load_gcm_algorithm(p), "fast"),
]

for gname, make, gtype in GENERATORS:
    for cname, jds, sizes, names in CASES:
        for s in (0, 1, 12345):
            seed(s)
            rec = Recorder()
            builders = [rec.builder(k) for k in range(len(sizes))]
            p = params_for(sizes, names, builders, gtype)
            run("%s/%s/seed%d" % (gname, cname, s), lambda: make(p), jds, rec,
                repeats=3 if s == 0 else 1)

# builder that raises part way, builders given as the plain clique_motif,
# builders returning odd things
for gname, make, gtype in GENERATORS[:4]:
    jds = [(2, 1), (1, 1), (3, 1), (2, 0), (0, 2), (1, 0), (1, 1), (2, 0)]
    for fail_at in (1, 4, 7, 8):
        seed(7)
        rec = Recorder(fail_at=fail_at)
        p = params_for([2, 3], NAMES2, [rec.builder(0), rec.builder(1)], gtype)
        run("%s/builder_fails_at%d" % (gname, fail_at), lambda: make(p), jds, rec, repeats=2)

    seed(8)
    rec = Recorder()
    p = params_for([2, 3], NAMES2, [clique_motif, clique_motif], gtype)
    run("%s/plain_clique" % gname, lambda: make(p), jds, rec, repeats=2)

    seed(9)
    rec = Recorder()
    p = params_for([2, 3], NAMES2,
                   [rec.builder(0, lambda vs: []), rec.builder(1, lambda vs: [tuple(vs)])],
                   gtype)
    run("%s/odd_builders" % gname, lambda: make(p), jds, rec)

    # builder that mutates the list it is handed
    seed(10)
    rec = Recorder()

    def popper(vs):
        es = clique_motif(list(vs))
        del vs[:]
        return es

    p = params_for([2, 3], NAMES2, [rec.builder(0, popper), rec.builder(1, popper)], gtype)
    run("%s/mutating_builder" % gname, lambda: make(p), jds, rec)

    # missing params
    seed(11)
    rec = Recorder()
    p = params_for([2, 3], NAMES2, [clique_motif, clique_motif], gtype)
    del p[GCMAlgorithmNames.EDGE_NAMES]
    run("%s/missing_param" % gname, lambda: make(p), jds, rec)

# larger random inputs
for gname, make, gtype in GENERATORS[:4]:
    for s in (3, 4):
        seed(s)
        n = 60
        jds = [(random.randrange(0, 4), random.randrange(0, 3)) for _ in range(n)]
        # repair the handshake condition on vertex 0 and 1
        c0 = sum(j[0] for j in jds)
        c1 = sum(j[1] for j in jds)
        jds[0] = (jds[0][0] + (-c0) % 2, jds[0][1] + (-c1) % 3)
        rec = Recorder()
        p = params_for([2, 3], NAMES2, [rec.builder(0), rec.builder(1)], gtype)
        run("%s/random%d" % (gname, s), lambda: make(p), jds, rec, repeats=2)


# --------------------------------------------------------------------------
# custom motif generator
def diamond(vs):
    return ((vs[0], vs[1]), (vs[1], vs[2]), (vs[2], vs[3]), (vs[3], vs[1]), (vs[0], vs[2]))


def diamond_names():
    return ("diamond-outer",) * 4 + ("diamond-inner",)


def twoclique(vs):
    return (vs[0], vs[1])


def twoclique_names():
    return "2-clique"


def threeclique(vs):
    return (vs[0], vs[1]), (vs[0], vs[2]), (vs[1], vs[2])


def threeclique_names():
    return "3-clique", "3-clique", "3-clique"


def pentagon(vs):
    return ((vs[0], vs[1]), (vs[1], vs[2]), (vs[2], vs[3]), (vs[3], vs[4]), (vs[0], vs[4]), (vs[1], vs[3]))


def pentagon_names():
    return "p01", "p12", "p23", "p34", "p40", "p13"


CUSTOM_JDS = [
    (2, 1, 0, 1, 1, 0, 0),
    (1, 1, 0, 1, 1, 0, 0),
    (3, 1, 1, 0, 0, 1, 0),
    (2, 0, 1, 0, 0, 1, 0),
    (0, 0, 0, 1, 0, 0, 1),
    (1, 0, 0, 1, 0, 0, 0),
    (1, 0, 1, 0, 0, 0, 0),
    (1, 0, 1, 0, 0, 0, 0),
    (1, 0, 0, 1, 0, 0, 0),
    (1, 0, 0, 1, 0, 0, 0),
    (1, 0, 1, 0, 0, 0, 0),
    (0, 0, 1, 0, 0, 0, 0),
]
CUSTOM_SIZES = [2, 3, 2, 2, 2, 2, 1]
CUSTOM_NAMES = [twoclique_names, threeclique_names, diamond_names, pentagon_names]
CUSTOM_FUNCS = [twoclique, threeclique, diamond, pentagon]
CUSTOM_INDICES = [[0], [1], [2, 3], [4, 5, 6]]

CUSTOM_CASES = [
    ("manuscript", CUSTOM_JDS, CUSTOM_SIZES, CUSTOM_INDICES),
    ("manuscript_lists", [list(r) for r in CUSTOM_JDS], CUSTOM_SIZES, CUSTOM_INDICES),
    ("zeros", [(0,) * 7] * 4, CUSTOM_SIZES, CUSTOM_INDICES),
    ("empty", [], CUSTOM_SIZES, CUSTOM_INDICES),
    ("short_rows", [(2, 1), (1, 1), (1, 1)], CUSTOM_SIZES, CUSTOM_INDICES),
    ("two_three_only", [(2, 1), (1, 1), (1, 1)], [2, 3], [[0], [1]]),
    ("vertex0", [(4, 3), (0, 0), (0, 0)], [2, 3], [[0], [1]]),
    ("size0", CUSTOM_JDS, [2, 0, 2, 2, 2, 2, 1], CUSTOM_INDICES),
    ("floatsize", CUSTOM_JDS, [2, 3.0, 2, 2, 2, 2, 1], CUSTOM_INDICES),
    ("few_sizes", CUSTOM_JDS, [2, 3], CUSTOM_INDICES),
    ("none_degree", [(None,) * 7] + CUSTOM_JDS[1:], CUSTOM_SIZES, CUSTOM_INDICES),
    ("neg_degree", [(-1,) * 7] + CUSTOM_JDS[1:], CUSTOM_SIZES, CUSTOM_INDICES),
    ("jds_none", None, CUSTOM_SIZES, CUSTOM_INDICES),
    ("rows_not_iterable", [1, 2], CUSTOM_SIZES, CUSTOM_INDICES),
]

for gname, make, gtype in [
    ("custom", lambda p: GCMAlgorithmCustomMotifs(p), None),
    ("main/motifs", lambda p: GCMAlgorithmMain.load_gcm_algorithm(p), GCMAlgorithmTypes.MOTIFS),
]:
    for cname, jds, sizes, indices in CUSTOM_CASES:
        for s in (0, 1, 99):
            seed(s)
            rec = Recorder()
            funcs = [rec.builder(j, f) for j, f in enumerate(CUSTOM_FUNCS)][: len(indices)]
            p = params_for(sizes, CUSTOM_NAMES[: len(indices)], funcs, gtype, indices)
            run("%s/%s/seed%d" % (gname, cname, s), lambda: make(p), jds, rec,
                repeats=3 if s == 0 else 1)
    for fail_at in (1, 9):
        seed(5)
        rec = Recorder(fail_at=fail_at)
        funcs = [rec.builder(j, f) for j, f in enumerate(CUSTOM_FUNCS)]
        p = params_for(CUSTOM_SIZES, CUSTOM_NAMES, funcs, gtype, CUSTOM_INDICES)
        run("%s/builder_fails_at%d" % (gname, fail_at), lambda: make(p), CUSTOM_JDS, rec, repeats=2)
    seed(6)
    rec = Recorder()
    p = params_for(CUSTOM_SIZES, CUSTOM_NAMES, CUSTOM_FUNCS, gtype)  # no motif indices
    run("%s/missing_indices" % gname, lambda: make(p), CUSTOM_JDS, rec)

# the partition helper of the custom generator (untouched but adjacent)
cm = GCMAlgorithmCustomMotifs(params_for(CUSTOM_SIZES, CUSTOM_NAMES, CUSTOM_FUNCS, None, CUSTOM_INDICES))
print("partition", cm.partition(list(range(7)), 3), cm.partition([], 2))

print("final rng", rng_state())
