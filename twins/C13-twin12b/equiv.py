import sys, os; sys.path.insert(0, os.getcwd())
# Variant b: JointExcessDegree.get_ejk - clamp of the edge count (max(0, len(..))).
import random, hashlib
import numpy as np
import networkx as nx

from gcmpy.tools.joint_excess_degree import JointExcessDegree
from gcmpy.tools.joint_excess_joint_degree import JointExcessJointDegree
from gcmpy.names.tools_names import ToolsNames
from gcmpy.names.network_names import NetworkNames
from gcmpy.names.gcm_algorithm_names import GCMAlgorithmNames
from gcmpy.names.joint_degree_names import JointDegreeNames
from gcmpy.joint_degree.joint_degree_loaders.joint_degree_manual import JointDegreeManual
from gcmpy.motif_generators.clique_motif import clique_motif
from gcmpy.gcm_algorithm.gcm_algorithm_network import GCMAlgorithmNetwork
import gcmpy

random.seed(130213)
np.random.seed(130213)
OUT = []


def emit(*xs):
    OUT.append(" ".join(repr(x) for x in xs))


def rng_state():
    h = hashlib.sha256()
    h.update(repr(random.getstate()).encode())
    st = np.random.get_state()
    h.update(repr((st[0], st[1].tolist(), st[2], st[3], st[4])).encode())
    return h.hexdigest()[:16]


def fmt(d):
    # insertion order of the dict is part of the result; values bit for bit
    return [(k, type(k[0]).__name__, v.hex() if isinstance(v, float) else (type(v).__name__, v))
            for k, v in d.items()]


def graph_sig(G):
    try:
        return (type(G).__name__, sorted(map(repr, G.nodes(data=True))), sorted(map(repr, G.edges(data=True))))
    except BaseException as e:  # noqa
        return ("nosig", type(e).__name__)


def probe(label, G, times=3):
    sig0 = graph_sig(G)
    for t in range(times):
        try:
            r = JointExcessDegree.get_ejk(G)
            emit(label, t, "ok", type(r).__name__, fmt(r))
            if r:
                emit(label, t, "sum", float(sum(r.values())).hex(),
                     "sym", all(r.get((b, a)) == v for (a, b), v in r.items()))
            # the result is a fresh dict each time
            r[("poison",)] = 1
        except BaseException as e:  # noqa
            emit(label, t, "EXC", type(e).__name__, str(e)[:100])
    emit(label, "graph untouched", graph_sig(G) == sig0, "rng", rng_state())


# ---- the same function through the package-level re-exports
emit("same object", gcmpy.JointExcessDegree is JointExcessDegree,
     gcmpy.tools.JointExcessDegree is JointExcessDegree)
emit("static on instance", JointExcessDegree().get_ejk(nx.path_graph(3)) == JointExcessDegree.get_ejk(nx.path_graph(3)))

# ---- boundary graphs: the clamp is about the edge count 0
probe("empty Graph", nx.Graph())
probe("empty DiGraph", nx.DiGraph())
probe("empty MultiGraph", nx.MultiGraph())
probe("empty MultiDiGraph", nx.MultiDiGraph())
probe("one node", nx.empty_graph(1))
probe("five isolated", nx.empty_graph(5))
probe("one edge", nx.path_graph(2))
probe("path3", nx.path_graph(3))
probe("triangle", nx.complete_graph(3))
probe("star", nx.star_graph(6))
probe("K5", nx.complete_graph(5))
G = nx.Graph(); G.add_edge(0, 0)
probe("single self loop", G)
G = nx.Graph(); G.add_edges_from([(0, 0), (0, 1), (1, 1), (1, 2)])
probe("self loops", G)
G = nx.MultiGraph(); G.add_edges_from([(0, 1), (0, 1), (1, 2), (2, 2)])
probe("multigraph dup edges", G)
G = nx.DiGraph(); G.add_edges_from([(0, 1), (1, 0), (1, 2)])
probe("digraph", G)
G = nx.MultiDiGraph(); G.add_edges_from([(0, 1), (0, 1), (1, 0)])
probe("multidigraph", G)
probe("frozen empty", nx.freeze(nx.Graph()))
probe("frozen path", nx.freeze(nx.path_graph(4)))
H = nx.path_graph(6)
probe("subgraph view no edges", H.subgraph([0, 2, 4]))
probe("subgraph view one edge", H.subgraph([0, 1, 4]))
probe("edge_subgraph empty", H.edge_subgraph([]))
probe("restricted view", nx.restricted_view(H, [0], [(2, 3)]))
probe("restricted view all edges hidden", nx.restricted_view(H, [], list(H.edges())))
probe("string nodes", nx.Graph([("a", "b"), ("b", "c")]))
probe("tuple nodes", nx.Graph([((0, 1), (1, 2)), ((1, 2), (2, 3))]))
G = nx.Graph(); G.add_edge(0, 1, weight=7.5); G.add_edge(1, 2, weight=-3)
probe("weighted", G)

# ---- things that are not graphs
class NoEdges:
    pass


class EdgesAttrList:
    edges = []


class EdgesReturnsList:
    def __init__(self, es, degs=None):
        self.es, self.degs, self.calls = es, degs or {}, 0

    def edges(self):
        self.calls += 1
        return list(self.es)

    def degree(self, n):
        return self.degs[n]


class LyingLen:
    """edge container whose len() disagrees with its iteration"""

    def __init__(self, n, items):
        self.n, self.items = n, items

    def __len__(self):
        return self.n

    def __iter__(self):
        return iter(self.items)


class EdgesLying:
    def __init__(self, n, items, deg=2):
        self.c, self.deg = LyingLen(n, items), deg

    def edges(self):
        return self.c

    def degree(self, n):
        return self.deg


for lab, obj in [
    ("None", None), ("int", 3), ("dict", {}), ("list", []), ("str", "ab"),
    ("NoEdges", NoEdges()), ("EdgesAttrList", EdgesAttrList()),
    ("class nx.Graph", nx.Graph),
]:
    probe("nongraph " + lab, obj, times=2)

d = EdgesReturnsList([])
probe("duck no edges", d)
emit("duck no edges calls", d.calls)
d = EdgesReturnsList([(0, 1)], {0: 1, 1: 1})
probe("duck one edge", d)
emit("duck one edge calls", d.calls)
d = EdgesReturnsList([(0, 1)], {0: 0, 1: -4})
probe("duck zero/negative degrees", d)
d = EdgesReturnsList([(0, 1)], {0: 1.0, 1: True})
probe("duck float/bool degrees", d)
d = EdgesReturnsList([(0, 1, 2)], {0: 1, 1: 1})
probe("duck 3-tuples", d)
d = EdgesReturnsList([(0, 1)], {})
probe("duck missing degree", d)
probe("duck len 0 but one edge", EdgesLying(0, [(0, 1)]))
probe("duck len 3 but no edge", EdgesLying(3, []))
probe("duck len 5 one edge", EdgesLying(5, [(0, 1)], deg=3))
probe("duck len -1", EdgesLying(-1, [(0, 1)]))
probe("duck len True", EdgesLying(True, [(0, 1)]))
probe("duck len 2.0", EdgesLying(2.0, [(0, 1)]))
probe("duck len huge", EdgesLying(2 ** 62, [(0, 1)]))
probe("duck len too big", EdgesLying(2 ** 70, [(0, 1)]))

# ---- mutate between calls on one object
G = nx.Graph()
probe("grow 0", G, times=1)
G.add_node(0)
probe("grow 1", G, times=1)
G.add_edge(0, 1)
probe("grow 2", G, times=1)
G.add_edge(1, 2)
probe("grow 3", G, times=1)
G.remove_edge(0, 1)
probe("grow 4", G, times=1)
G.remove_edge(1, 2)
probe("grow 5 (edges removed again)", G, times=2)
G.clear()
probe("grow 6 cleared", G, times=1)

# ---- random graphs
for trial in range(60):
    n = random.randint(0, 14)
    p = random.choice([0.0, 0.05, 0.2, 0.5, 1.0])
    kind = random.choice([nx.Graph, nx.DiGraph, nx.MultiGraph])
    H = nx.gnp_random_graph(n, p, seed=random.randint(0, 10 ** 6), directed=(kind is nx.DiGraph))
    G = kind(H)
    if kind is nx.MultiGraph and G.number_of_edges():
        for _ in range(random.randint(0, 3)):
            G.add_edge(*random.choice(list(H.edges())))
    if random.random() < 0.3 and n:
        v = random.randrange(n)
        G.add_edge(v, v)
    probe("rand%d %s n=%d p=%s" % (trial, kind.__name__, n, p), G, times=2)

# ---- networks from the GCM algorithm, and the per-topology extractor next to it
for trial, (jdd, sizes, enames, nv) in enumerate([
    ({(5, 1): 1 / 3, (3, 2): 1 / 3, (1, 3): 1 / 3}, [2, 3], ["2-clique", "3-clique"], 300),
    ({(1, 0, 0): 0.2, (1, 1, 1): 0.5, (3, 0, 1): 0.1, (2, 1, 0): 0.2}, [2, 3, 2], ["b", "tri", "r"], 300),
    ({(0, 0): 1.0}, [2, 3], ["2-clique", "3-clique"], 20),
]):
    try:
        D = JointDegreeManual({JointDegreeNames.JDD: jdd, JointDegreeNames.MOTIF_SIZES: sizes})
        jds = D.sample_jds_from_jdd(nv)
        g = GCMAlgorithmNetwork({
            GCMAlgorithmNames.MOTIF_SIZES: sizes,
            GCMAlgorithmNames.EDGE_NAMES: enames,
            GCMAlgorithmNames.BUILD_FUNCTIONS: [clique_motif] * len(sizes),
        }).random_clustered_graph(jds)
        probe("gcm%d" % trial, g._G, times=2)
        M = JointExcessJointDegree({ToolsNames.NETWORK: g._G, ToolsNames.EDGE_NAMES: enames}).get_ejks()
        emit("gcm%d" % trial, "per-topology", [(k, sorted((kk, vv.hex()) for kk, vv in d.items())) for k, d in M.ejks.items()])
    except BaseException as ex:  # noqa
        emit("gcm%d" % trial, "EXC", type(ex).__name__, str(ex)[:120])
    emit("gcm%d" % trial, "rng", rng_state())

text = "\n".join(OUT)
print(text)
print("DIGEST", hashlib.sha256(text.encode()).hexdigest())
print("RNG", rng_state())
