import sys, os; sys.path.insert(0, os.getcwd())
# Equivalence harness for the C03 robustness twins (shared by variants a, b, c; this copy: variant a - shuffle guard in fast).
# Prints a deterministic digest: results, exception types + messages, argument
# mutations, and the state of the `random` / numpy streams after every call.
import random, hashlib, warnings, copy, re
import numpy as np

warnings.simplefilter("ignore")

from gcmpy.gcm_algorithm.gcm_algorithm_fast import GCMAlgorithmFast
from gcmpy.gcm_algorithm.gcm_algorithm_custom_motifs import GCMAlgorithmCustomMotifs
from gcmpy.gcm_algorithm.gcm_algorithm_network import GCMAlgorithmNetwork
from gcmpy.gcm_algorithm.gcm_algorithm_main import GCMAlgorithmMain
from gcmpy.names.gcm_algorithm_names import GCMAlgorithmNames as N
from gcmpy.motif_generators.clique_motif import clique_motif


def rng_digest():
    h = hashlib.sha256()
    h.update(repr(random.getstate()).encode())
    s = np.random.get_state()
    h.update(repr((s[0], s[1].tolist(), s[2], s[3], s[4])).encode())
    return h.hexdigest()[:16]


def show(obj):
    if hasattr(obj, "edge_list") and hasattr(obj, "motif_id"):
        return "EL(e=%r t=%r id=%r jd=%r)" % (
            obj.edge_list, obj.topologies, obj.motif_id, obj.joint_degrees)
    if hasattr(obj, "G"):
        g = obj.G
        return "NET(n=%r e=%r)" % (list(g.nodes(data=True)), list(g.edges(data=True)))
    return repr(obj)


def run(label, fn, *args):
    try:
        out = fn(*args)
        res = "OK " + show(out)
    except BaseException as e:  # noqa
        out = None
        res = "EXC %s: %s" % (type(e).__name__, e)
    line = "%s | %s | args=%r | rng %s" % (label, res, args, rng_digest())
    print(re.sub(r" at 0x[0-9a-f]+", "", line))
    return out


calls = []


def logged(f, name):
    def w(vs):
        calls.append((name, list(vs)))
        return f(vs)
    return w


def boom(vs):
    raise KeyError("boom %r" % (vs,))


def not_sized(vs):
    return 7


def two(vs):
    return (vs[0], vs[1])


def two_names():
    return "2-clique"


def tri(vs):
    return (vs[0], vs[1]), (vs[0], vs[2]), (vs[1], vs[2])


def tri_names():
    return "3-clique", "3-clique", "3-clique"


def diamond(vs):
    return ((vs[0], vs[1]), (vs[1], vs[2]), (vs[2], vs[3]), (vs[3], vs[1]), (vs[0], vs[2]))


def diamond_names():
    return ("d-o", "d-o", "d-o", "d-o", "d-i")


def anyf(vs):
    return [tuple(vs)]


def any_names():
    return ["any"]


def fast_params(sizes, names, builds):
    return {N.MOTIF_SIZES: sizes, N.EDGE_NAMES: names, N.BUILD_FUNCTIONS: builds}


# ---------------------------------------------------------------- fast / network
random.seed(20261004)
np.random.seed(7)

FAST_JDS = [
    [],
    (),
    [()],
    [(), ()],
    [(0,)],
    [(0,), (0,), (0,)],
    [(1,)],
    [(1,), (0,)],
    [(1,), (1,)],
    [(2,)],
    [(1,), (1,), (1,), (1,)],
    [(1,), (1,), (1,)],
    [(3,), (2,), (1,), (1,), (1,)],
    [(0, 0)],
    [(1, 0), (0, 0)],
    [(0, 1), (0, 0)],
    [(1, 0), (1, 0), (0, 1)],
    [(1, 1), (1, 1), (0, 1)],
    [(2, 1), (1, 1), (1, 1), (0, 3), (4, 0)],
    [(2, 1), (1,), (1, 1)],            # ragged: zip truncates
    [(-1,), (2,), (1,)],               # negative count -> repeat() gives nothing
    [(1.0,), (1,)],                    # TypeError from repeat
    [(True,), (True,)],
    [[1, 2], [1, 1], [2, 0]],
    ((1, 1), (1, 2)),
    [(1, 0, 2), (1, 0, 1), (0, 0, 0)],  # more topologies than motif sizes
    "ab",
    None,
    5,
]

FAST_PARAMS = [
    ("c2", fast_params([2], ["2c"], [clique_motif])),
    ("c23", fast_params([2, 3], ["2c", "3c"], [clique_motif, clique_motif])),
    ("c32", fast_params([3, 2], ["3c", "2c"], [clique_motif, clique_motif])),
    ("c1", fast_params([1, 1], ["x", "y"], [clique_motif, anyf])),
    ("c5", fast_params([5, 7], ["x", "y"], [anyf, anyf])),
    ("z0", fast_params([0, 2], ["x", "y"], [anyf, anyf])),
    ("neg", fast_params([-2, 2], ["x", "y"], [anyf, anyf])),
    ("flt", fast_params([2.0, 2], ["x", "y"], [anyf, anyf])),
    ("emp", fast_params([], [], [])),
    ("nob", fast_params([2, 2], ["x", "y"], [])),
    ("non", fast_params([2, 2], [], [anyf, anyf])),
    ("boom", fast_params([2, 2], ["x", "y"], [anyf, boom])),
    ("nsz", fast_params([2, 2], ["x", "y"], [not_sized, anyf])),
    ("tup", fast_params((2, 3), ("x", "y"), (anyf, anyf))),
]

for pname, p in FAST_PARAMS:
    for cls in (GCMAlgorithmFast, GCMAlgorithmNetwork):
        alg = run("new %s %s" % (cls.__name__, pname), cls, p)
        if alg is None:
            continue
        for i, jds in enumerate(FAST_JDS):
            jc = copy.deepcopy(jds)
            out = run("%s %s jds%d" % (cls.__name__, pname, i), alg.random_clustered_graph, jds)
            print("   jds unchanged:", jds == jc,
                  "| jd is arg:", (out.joint_degrees is jds) if hasattr(out, "joint_degrees") else None)
        print("   state:", alg._motif_sizes, alg._edge_names, len(alg._build_functions))

# repeated calls on one object, with callback logging (order of callback calls)
alg = GCMAlgorithmFast(fast_params([2, 3, 1], ["a", "b", "c"],
                                   [logged(clique_motif, "A"), logged(clique_motif, "B"), logged(anyf, "C")]))
for rep in range(40):
    n = rep % 7
    jds = [((i * 3 + rep) % 3, (i + rep) % 2, 1 if i == 0 else 0) for i in range(n)]
    run("rep fast %d" % rep, alg.random_clustered_graph, jds)
print("callbacks", hashlib.sha256(repr(calls).encode()).hexdigest()[:16], len(calls))
del calls[:]

# matching distribution sample: four degree-1 vertices
cnt = {}
alg = GCMAlgorithmFast(fast_params([2], ["2c"], [clique_motif]))
for rep in range(600):
    el = alg.random_clustered_graph([(1,)] * 4)
    key = tuple(sorted(tuple(sorted(e)) for e in el.edge_list))
    cnt[key] = cnt.get(key, 0) + 1
print("matchings", sorted(cnt.items()), rng_digest())

# larger random inputs
for rep in range(30):
    n = random.randrange(0, 40)
    jds = [(random.randrange(0, 4), random.randrange(0, 3)) for _ in range(n)]
    p = fast_params([2, 3], ["2c", "3c"], [clique_motif, clique_motif])
    run("rand fast %d" % rep, GCMAlgorithmFast(p).random_clustered_graph, jds)
    run("rand net %d" % rep, GCMAlgorithmNetwork(p).random_clustered_graph, jds)

# through the loader
for t in ("fast", "network", "motifs", "nope", None):
    p = fast_params([2, 3], ["2c", "3c"], [clique_motif, clique_motif])
    p[N.GCM_TYPE] = t
    alg = run("load %r" % (t,), GCMAlgorithmMain.load_gcm_algorithm, p)
    if alg is not None:
        run("load %r call" % (t,), alg.random_clustered_graph, [(1, 1), (1, 1), (2, 1), (0, 0)])
        run("load %r empty" % (t,), alg.random_clustered_graph, [])


# ---------------------------------------------------------------- custom motifs
def cm_params(sizes, names, builds, indices):
    p = fast_params(sizes, names, builds)
    if indices is not None:
        p[N.MOTIF_INDICES] = indices
    return p


PAPER_JDS = [
    (2, 1, 0, 1, 1, 0, 0), (1, 1, 0, 1, 1, 0, 0), (3, 1, 1, 0, 0, 1, 0), (2, 0, 1, 0, 0, 1, 0),
    (0, 0, 0, 1, 0, 0, 1), (1, 0, 0, 1, 0, 0, 0), (1, 0, 1, 0, 0, 0, 0), (1, 0, 1, 0, 0, 0, 0),
    (1, 0, 0, 1, 0, 0, 0), (1, 0, 0, 1, 0, 0, 0), (1, 0, 1, 0, 0, 0, 0), (0, 0, 1, 0, 0, 0, 0),
]


def pent(vs):
    return ((vs[0], vs[1]), (vs[1], vs[2]), (vs[2], vs[3]), (vs[3], vs[4]), (vs[0], vs[4]), (vs[1], vs[3]))


def pent_names():
    return "p01", "p12", "p23", "p34", "p40", "p13"


class LoosePartition(GCMAlgorithmCustomMotifs):
    """public subclassing: a partition that tolerates any n (reaches inf / nan counts)"""

    def partition(self, lst, n):
        try:
            return super().partition(lst, n)
        except (TypeError, ValueError):
            return [list(lst)]


CM_JDS = [
    [], [()], [(0, 0)], [(1, 0)], [(1, 0), (1, 0)], [(0, 1)], [(0, 1), (0, 1), (0, 1)],
    [(1, 1), (1, 1), (0, 1)], [(2, 1), (1, 1), (1, 1), (0, 3), (4, 0)],
    [(1, 1), (1, 1), (1, 1), (1, 1)], [(1, 2), (1, 2), (0, 2)], [(3, 0), (0, 0)],
    [(-1, 2), (2, 2), (1, 2)], [(1.0, 1), (1, 1)], [(1,), (1,)], [(1, 1, 1), (1, 1, 1), (0, 1, 1)],
    PAPER_JDS, None, "ab",
]

CM_PARAMS = [
    ("paper", cm_params([2, 3, 2, 2, 2, 2, 1], [two_names, tri_names, diamond_names, pent_names],
                        [two, tri, diamond, pent], [[0], [1], [2, 3], [4, 5, 6]])),
    ("c23", cm_params([2, 3], [two_names, tri_names], [two, tri], [[0], [1]])),
    ("c23any", cm_params([2, 3], [any_names, any_names], [anyf, anyf], [[0], [1]])),
    ("joint", cm_params([2, 1], [any_names], [anyf], [[0, 1]])),
    ("jointr", cm_params([2, 1], [any_names], [anyf], [[1, 0]])),
    ("big", cm_params([9, 4], [any_names, any_names], [anyf, anyf], [[0], [1]])),
    ("neg", cm_params([-2, 3], [any_names, any_names], [anyf, anyf], [[0], [1]])),
    ("neg2", cm_params([2, -1], [any_names, any_names], [anyf, anyf], [[0], [1]])),
    ("zero", cm_params([0, 3], [any_names, any_names], [anyf, anyf], [[0], [1]])),
    ("zero2", cm_params([2, 0], [any_names, any_names], [anyf, anyf], [[1], [0]])),
    ("flt", cm_params([2.0, 3], [any_names, any_names], [anyf, anyf], [[0], [1]])),
    ("npf", cm_params([np.float64(2.0), 3], [any_names, any_names], [anyf, anyf], [[0], [1]])),
    ("npi", cm_params([np.int64(2), np.int64(3)], [any_names, any_names], [anyf, anyf], [[0], [1]])),
    ("noidx", cm_params([2, 3], [any_names, any_names], [anyf, anyf], [])),
    ("emptyidx", cm_params([2, 3], [any_names, any_names], [anyf, anyf], [[], [1]])),
    ("oob", cm_params([2, 3], [any_names, any_names], [anyf, anyf], [[0], [5]])),
    ("negidx", cm_params([2, 3], [any_names, any_names], [anyf, anyf], [[-1], [0]])),
    ("dup", cm_params([2, 3], [any_names, any_names], [anyf, anyf], [[0], [0], [1]])),
    ("dupin", cm_params([1, 3], [any_names, any_names], [anyf, anyf], [[0, 0], [1]])),
    ("boom", cm_params([2, 3], [any_names, any_names], [anyf, boom], [[0], [1]])),
    ("nsz", cm_params([2, 3], [any_names, any_names], [not_sized, anyf], [[0], [1]])),
    ("few", cm_params([2, 3], [any_names], [anyf], [[0], [1]])),
    ("short", cm_params([2], [any_names, any_names], [anyf, anyf], [[0], [1]])),
    ("missing", cm_params([2, 3], [any_names, any_names], [anyf, anyf], None)),
]

LOOSE_PARAMS = [
    ("Lflt", cm_params([2.0, 2.5], [any_names, any_names], [anyf, anyf], [[0], [1]])),
    ("Lnp0", cm_params([np.float64(0.0), np.float64(-0.0)], [any_names, any_names], [anyf, anyf], [[0], [1]])),
    ("Lnp0r", cm_params([np.float64(0.0), np.float64(-0.0)], [any_names, any_names], [anyf, anyf], [[1], [0]])),
    ("Lnan", cm_params([np.float64("nan"), 2], [any_names, any_names], [anyf, anyf], [[0], [1]])),
    ("Lzero", cm_params([0, 2], [any_names, any_names], [anyf, anyf], [[0], [1]])),
    ("Lneg", cm_params([-1, -0.5], [any_names, any_names], [anyf, anyf], [[0], [1]])),
    ("Lhalf", cm_params([0.5, 2], [any_names, any_names], [anyf, anyf], [[0], [1]])),
]

random.seed(99)
np.random.seed(11)
for cls, plist in ((GCMAlgorithmCustomMotifs, CM_PARAMS), (LoosePartition, CM_PARAMS[:3] + LOOSE_PARAMS)):
    for pname, p in plist:
        alg = run("new %s %s" % (cls.__name__, pname), cls, p)
        if alg is None:
            continue
        for i, jds in enumerate(CM_JDS):
            jc = copy.deepcopy(jds)
            out = run("%s %s jds%d" % (cls.__name__, pname, i), alg.random_clustered_graph, jds)
            print("   jds unchanged:", jds == jc,
                  "| jd is arg:", (out.joint_degrees is jds) if hasattr(out, "joint_degrees") else None)
        print("   state:", alg._motif_sizes, alg._motif_indices, len(alg._build_functions))

# partition as a public method
alg = GCMAlgorithmCustomMotifs(CM_PARAMS[1][1])
for lst in ([], [1], [1, 2], [1, 2, 3, 4, 5], (1, 2, 3), "abcd", None, 5, range(5)):
    for n in (1, 2, 3, 7, 0, -1, 1.0, True, None):
        run("partition", alg.partition, lst, n)

# repeated calls on one object with callback logging
alg = GCMAlgorithmCustomMotifs(cm_params([2, 3, 1], [any_names, any_names], [logged(anyf, "A"), logged(anyf, "B")],
                                         [[0], [1, 2]]))
for rep in range(40):
    n = rep % 8
    jds = [((i + rep) % 3, 1, 1 if i % 3 == 0 else 0) for i in range(n)]
    run("rep cm %d" % rep, alg.random_clustered_graph, jds)
print("callbacks", hashlib.sha256(repr(calls).encode()).hexdigest()[:16], len(calls))

cnt = {}
alg = GCMAlgorithmCustomMotifs(cm_params([2], [two_names], [two], [[0]]))
for rep in range(600):
    el = alg.random_clustered_graph([(1,)] * 4)
    key = tuple(sorted(tuple(sorted(e)) for e in el.edge_list))
    cnt[key] = cnt.get(key, 0) + 1
print("matchings", sorted(cnt.items()), rng_digest())

for rep in range(30):
    n = random.randrange(0, 40)
    jds = [(random.randrange(0, 4), random.randrange(0, 3)) for _ in range(n)]
    p = cm_params([2, 3], [two_names, tri_names], [two, tri], [[0], [1]])
    run("rand cm %d" % rep, GCMAlgorithmCustomMotifs(p).random_clustered_graph, jds)

print("final rng", rng_digest())
