import sys, os; sys.path.insert(0, os.getcwd())

import hashlib
import random

import numpy as np
import networkx as nx

from gcmpy.network.edge_list import LightWeightEdgeList
from gcmpy.network.network import Network
from gcmpy.network.edge_list_to_network import EdgeListToNetwork
from gcmpy.network.network_to_edge_list import NetworkToEdgeList
from gcmpy.names.network_names import NetworkNames
from gcmpy.names.gcm_algorithm_names import GCMAlgorithmNames
from gcmpy.gcm_algorithm.gcm_algorithm_network import GCMAlgorithmNetwork
from gcmpy.gcm_algorithm.gcm_algorithm_fast import GCMAlgorithmFast
from gcmpy.motif_generators.clique_motif import clique_motif
import gcmpy
import gcmpy.network as network_pkg

random.seed(20261004)
np.random.seed(20261004)


def digest(text):
    return hashlib.sha256(text.encode()).hexdigest()[:16]


def rng_state():
    return digest(repr(random.getstate())) + "/" + digest(repr(np.random.get_state()))


def show(label, value):
    text = repr(value)
    if len(text) > 300:
        text = f"<{len(text)} chars sha={digest(text)}> {text[:120]}"
    print(f"{label}: {text}")


def attempt(label, fn):
    try:
        result = fn()
    except BaseException as exc:  # noqa
        print(f"{label}: RAISED {type(exc).__name__}: {exc!r}")
        return None
    show(label, result)
    return result


def graph_repr(G):
    return (
        type(G).__name__,
        [(n, dict(d)) for n, d in G.nodes(data=True)],
        [(u, v, dict(d)) for u, v, d in G.edges(data=True)],
        {n: list(G.adj[n]) for n in G.adj},
    )


def el_repr(el):
    return tuple(
        f"<iterator {type(x).__name__}>" if hasattr(x, "__next__") else x
        for x in (el.edge_list, el.topologies, el.joint_degrees, el.motif_id)
    )


def make_el(edges, topologies, jds, motif_ids):
    el = LightWeightEdgeList()
    el.edge_list = edges
    el.topologies = topologies
    el.joint_degrees = jds
    el.motif_id = motif_ids
    return el


print("== public names / aliases")
show("pkg exports", [n in dir(gcmpy) for n in ("LightWeightEdgeList", "EdgeListToNetwork", "NetworkToEdgeList")])
show("network pkg exports", [hasattr(network_pkg, n) for n in ("Network", "LightWeightEdgeList", "EdgeListToNetwork", "NetworkToEdgeList")])
show("convert via instance", type(EdgeListToNetwork().convert(LightWeightEdgeList())).__name__)
show("convert via instance 2", type(NetworkToEdgeList().convert(Network())).__name__)
show("Network public", sorted(n for n in dir(Network) if not n.startswith("_")))
show("EdgeList public", sorted(n for n in dir(LightWeightEdgeList) if not n.startswith("_")))

print("== LightWeightEdgeList")
el = LightWeightEdgeList()
show("fresh", el_repr(el))
show("distinct lists", len({id(el.edge_list), id(el.topologies), id(el.joint_degrees), id(el.motif_id)}))
other = LightWeightEdgeList()
show("not shared", other.edge_list is not el.edge_list and other.motif_id is not el.motif_id)
el.edge_list.append((0, 1))
el.topologies.extend(["a"])
el.motif_id.extend([7])
el.joint_degrees.append((1,))
show("in place", el_repr(el))
show("other untouched", el_repr(other))
value = [3, 4]
el.motif_id = value
show("setter identity", el.motif_id is value)
el.edge_list = value
show("setter identity 2", el.edge_list is value and el.motif_id is value)
el.topologies = None
el.joint_degrees = "xyz"
show("arbitrary values", el_repr(el))
attempt("ctor arg", lambda: LightWeightEdgeList(1))
attempt("eq", lambda: LightWeightEdgeList() == LightWeightEdgeList())
attempt("hashable", lambda: isinstance(hash(LightWeightEdgeList()), int))

print("== Network")
net = Network()
show("fresh graph", graph_repr(net.G))
show("has_edges empty", net.has_edges())
show("find_cliques empty", net.find_cliques())
show("add_edge ret", net.add_edge((0, 1)))
show("add_edges_from ret", net.add_edges_from([(1, 2), (2, 0), (2, 3), (3, 3), (4, 5)]))
show("graph", graph_repr(net.G))
show("has_edges", net.has_edges())
show("cliques", net.find_cliques())
show("cliques again", net.find_cliques())
show("remove ret", net.remove_edge(0, 1))
show("remove missing ret", net.remove_edge(0, 1))
show("remove unknown nodes", net.remove_edge(77, 78))
show("remove reversed", net.remove_edge(3, 2))
show("graph after removals", graph_repr(net.G))
attempt("add_edge 3-tuple", lambda: net.add_edge((8, 9, 10)))
attempt("add_edge 1-tuple", lambda: net.add_edge((8,)))
attempt("add_edge None node", lambda: net.add_edge((None, 1)))
attempt("add_edge non-iterable", lambda: net.add_edge(5))
attempt("add_edges_from bad", lambda: net.add_edges_from([(1,)]))
attempt("add_edges_from attr", lambda: net.add_edges_from([(10, 11, {"w": 1.5})]))
attempt("remove unhashable", lambda: net.remove_edge([1], 2))
show("graph after errors", graph_repr(net.G))
for u, v in list(net.G.edges()):
    net.remove_edge(u, v)
show("has_edges after clearing", net.has_edges())
show("nodes kept", list(net.G.nodes()))
replacement = nx.path_graph(4)
net.G = replacement
show("setter identity", net.G is replacement)
show("has_edges replacement", net.has_edges())
show("cliques replacement", net.find_cliques())
net.G = nx.DiGraph([(0, 1)])
show("digraph has_edges", net.has_edges())
show("digraph remove missing", net.remove_edge(1, 0))
attempt("digraph cliques", lambda: net.find_cliques())
net.G = None
attempt("None graph has_edges", lambda: net.has_edges())
attempt("None graph remove", lambda: net.remove_edge(0, 1))
attempt("ctor arg", lambda: Network(1))

print("== EdgeListToNetwork")
cases = {
    "empty": make_el([], [], [], []),
    "isolated only": make_el([], [], [(0, 0), (0, 0), (0, 0)], []),
    "simple": make_el(
        [(0, 1), (1, 2), (2, 0), (3, 4)],
        ["3-clique", "3-clique", "3-clique", "2-clique"],
        [(0, 1), (0, 1), (0, 1), (1, 0), (1, 0), (0, 0)],
        [0, 0, 0, 1],
    ),
    "duplicate + reversed + loop": make_el(
        [(0, 1), (1, 0), (0, 1), (2, 2), (1, 2)],
        ["a", "b", "c", "d", "e"],
        [(2,), (3,), (3,)],
        [0, 1, 2, 3, 4],
    ),
    "short topologies": make_el([(0, 1), (1, 2), (2, 3)], ["a"], [(1,), (2,), (2,), (1,)], [5, 6, 7]),
    "short motif ids": make_el([(0, 1), (1, 2), (2, 3)], ["a", "b", "c"], [(1,), (2,), (2,), (1,)], [5]),
    "long annotations": make_el([(0, 1)], ["a", "b", "c"], [(1,), (1,)], [5, 6, 7, 8]),
    "edges beyond jds": make_el([(0, 5), (5, 9)], ["a", "b"], [(1,), (0,)], [0, 1]),
    "falsy annotations": make_el([(0, 1), (1, 2)], ["", None], [0, None, ()], [0, None]),
    "list joint degrees": make_el([(1, 0)], ["t"], [[1, 0], [1, 0]], [0.5]),
    "float/str vertices": make_el([("a", "b"), (1.0, 1)], ["x", "y"], [(1,), (1,)], [1, 2]),
    "tuple containers": make_el(((0, 1), (1, 2)), ("a", "b"), ((1,), (2,), (1,)), (3, 4)),
    "three-tuples": make_el([(0, 1, {"w": 1})], ["a"], [(1,), (1,)], [0]),
    "list edges": make_el([[0, 1], [1, 2]], ["a", "b"], [(1,), (2,), (1,)], [0, 1]),
    "bad edge arity": make_el([(0,)], ["a"], [(1,)], [0]),
    "None edge list": make_el(None, ["a"], [(1,)], [0]),
    "None jds": make_el([(0, 1)], ["a"], None, [0]),
    "None topologies": make_el([(0, 1)], None, [(1,), (1,)], [0]),
    "None motif ids": make_el([(0, 1)], ["a"], [(1,), (1,)], None),
    "generator edges": make_el(((i, i + 1) for i in range(3)), ["a", "b", "c"], [(1,)] * 4, [0, 1, 2]),
    "iterator annotations": make_el([(0, 1), (1, 2)], iter(["a", "b", "c"]), [(1,), (2,), (1,)], iter([9])),
}
for name, el in cases.items():
    snapshot = None
    try:
        snapshot = repr(el_repr(el))
    except Exception:
        pass
    for round_ in (1, 2):
        net = attempt(f"{name} [{round_}] type", lambda: type(EdgeListToNetwork.convert(el)).__name__)
        try:
            result = EdgeListToNetwork.convert(el)
        except BaseException as exc:  # noqa
            print(f"{name} [{round_}] RAISED {type(exc).__name__}: {exc!r}")
            continue
        show(f"{name} [{round_}] graph", graph_repr(result.G))
        show(f"{name} [{round_}] fresh graph", result.G is not EdgeListToNetwork.convert(make_el([], [], [], [])).G)
    show(f"{name} input unchanged", snapshot == repr(el_repr(el)) if snapshot is not None else "n/a")
    for leftover in (el.topologies, el.motif_id, el.edge_list):
        if hasattr(leftover, "__next__"):
            show(f"{name} leftover", list(leftover))
attempt("convert None", lambda: EdgeListToNetwork.convert(None))
attempt("convert keyword", lambda: graph_repr(EdgeListToNetwork.convert(edgelist=cases["simple"]).G))
attempt("convert no args", lambda: EdgeListToNetwork.convert())

# joint degree objects are shared, not copied
jd = [1, 0]
shared = make_el([(0, 1)], ["t"], [jd, jd], [0])
shared_net = EdgeListToNetwork.convert(shared)
show("jd shared", shared_net.G.nodes[0][NetworkNames.JOINT_DEGREE] is jd)

print("== NetworkToEdgeList")


def annotated(edges, n_nodes, jd=lambda n: (n, 0)):
    net = Network()
    net.G.add_nodes_from(range(n_nodes))
    for k, (u, v) in enumerate(edges):
        net.add_edge((u, v))
        net.G.edges[u, v][NetworkNames.TOPOLOGY] = f"t{k % 3}"
        net.G.edges[u, v][NetworkNames.MOTIF_IDS] = k // 2
    for n in net.G.nodes():
        net.G.nodes[n][NetworkNames.JOINT_DEGREE] = jd(n)
    return net


nets = {
    "empty": Network(),
    "isolated": annotated([], 3),
    "small": annotated([(0, 1), (2, 1), (2, 0), (4, 3), (3, 3)], 6),
    "reverse insertion": annotated([(5, 4), (4, 3), (3, 2), (2, 1), (1, 0)], 6),
    "falsy jd": annotated([(0, 1)], 3, jd=lambda n: 0 if n else None),
}
missing_topology = annotated([(0, 1), (1, 2)], 3)
del missing_topology.G.edges[1, 2][NetworkNames.TOPOLOGY]
del missing_topology.G.edges[0, 1][NetworkNames.MOTIF_IDS]
nets["missing topology (and motif id)"] = missing_topology
missing_motif = annotated([(0, 1), (1, 2)], 3)
del missing_motif.G.edges[1, 2][NetworkNames.MOTIF_IDS]
nets["missing motif id"] = missing_motif
missing_jd = annotated([(0, 1)], 3)
del missing_jd.G.nodes[2][NetworkNames.JOINT_DEGREE]
nets["missing joint degree"] = missing_jd
relabelled = Network()
relabelled.G.add_nodes_from([1, 2, 3])
nets["non contiguous labels"] = relabelled
string_keys = Network()
string_keys.G.add_edge(0, 1, topology="x", motif_ids=3)
string_keys.G.nodes[0]["joint_degree"] = (1,)
string_keys.G.nodes[1]["joint_degree"] = (1,)
nets["string attribute keys"] = string_keys
out_of_order = Network()
out_of_order.G.add_nodes_from([2, 0, 1])
for n in out_of_order.G.nodes():
    out_of_order.G.nodes[n][NetworkNames.JOINT_DEGREE] = (n,)
nets["nodes out of order"] = out_of_order
directed = Network()
directed.G = nx.DiGraph()
directed.G.add_edge(1, 0)
directed.G.edges[1, 0][NetworkNames.TOPOLOGY] = "d"
directed.G.edges[1, 0][NetworkNames.MOTIF_IDS] = 4
for n in directed.G.nodes():
    directed.G.nodes[n][NetworkNames.JOINT_DEGREE] = (1,)
nets["directed"] = directed
none_graph = Network()
none_graph.G = None
nets["None graph"] = none_graph

for name, net in nets.items():
    before = repr(graph_repr(net.G)) if net.G is not None else None
    for round_ in (1, 2):
        try:
            el = NetworkToEdgeList.convert(net)
        except BaseException as exc:  # noqa
            print(f"{name} [{round_}] RAISED {type(exc).__name__}: {exc!r}")
            continue
        show(f"{name} [{round_}] type", type(el).__name__)
        show(f"{name} [{round_}] edge list", el_repr(el))
        show(f"{name} [{round_}] list types", [type(x).__name__ for x in el_repr(el)])
        show(f"{name} [{round_}] distinct lists", len({id(x) for x in el_repr(el)}))
    show(f"{name} graph unchanged", before == (repr(graph_repr(net.G)) if net.G is not None else None))
attempt("convert None", lambda: NetworkToEdgeList.convert(None))
attempt("convert keyword", lambda: el_repr(NetworkToEdgeList.convert(network=nets["small"])))
attempt("convert no args", lambda: NetworkToEdgeList.convert())
attempt("convert bare graph", lambda: NetworkToEdgeList.convert(nx.Graph()))

print("== round trips")
for name in ("empty", "isolated", "small", "reverse insertion", "falsy jd"):
    net = nets[name]
    el = NetworkToEdgeList.convert(net)
    back = EdgeListToNetwork.convert(el)
    el2 = NetworkToEdgeList.convert(back)
    show(f"{name} graph identical", repr(graph_repr(net.G)) == repr(graph_repr(back.G)))
    show(f"{name} edge list identical", repr(el_repr(el)) == repr(el_repr(el2)))
    show(f"{name} back", graph_repr(back.G))
    show(f"{name} jd objects shared", all(
        net.G.nodes[n][NetworkNames.JOINT_DEGREE] is back.G.nodes[n][NetworkNames.JOINT_DEGREE]
        for n in net.G.nodes()
    ))
    # the converted network is independent of the source graph
    back.add_edge((0, 1))
    back.remove_edge(0, 1)
    show(f"{name} source untouched", graph_repr(net.G))
for name in ("simple", "duplicate + reversed + loop", "short topologies", "falsy annotations"):
    el = cases[name]
    net = EdgeListToNetwork.convert(el)
    attempt(f"{name} el->net->el", lambda: el_repr(NetworkToEdgeList.convert(net)))

print("== random graphs through the algorithm entry points")
for size, seed in ((0, 1), (1, 2), (30, 3), (300, 4), (3000, 5)):
    random.seed(seed)
    np.random.seed(seed)
    jds = []
    for _ in range(size):
        jds.append((random.randrange(0, 4), random.randrange(0, 3)))
    # make the stub counts divisible by the motif sizes
    if jds:
        a = sum(j[0] for j in jds) % 2
        b = sum(j[1] for j in jds) % 3
        jds[0] = (jds[0][0] + a, jds[0][1] + (3 - b) % 3)
    params = {
        GCMAlgorithmNames.MOTIF_SIZES: [2, 3],
        GCMAlgorithmNames.EDGE_NAMES: ["2-clique", "3-clique"],
        GCMAlgorithmNames.BUILD_FUNCTIONS: [clique_motif, clique_motif],
    }
    try:
        net = GCMAlgorithmNetwork(params).random_clustered_graph(jds)
    except BaseException as exc:  # noqa
        print(f"size {size} RAISED {type(exc).__name__}: {exc!r}")
        show(f"size {size} rng", rng_state())
        continue
    show(f"size {size} graph", graph_repr(net.G))
    show(f"size {size} rng", rng_state())
    el = NetworkToEdgeList.convert(net)
    show(f"size {size} edge list", el_repr(el))
    back = EdgeListToNetwork.convert(el)
    show(f"size {size} round trip identical", repr(graph_repr(net.G)) == repr(graph_repr(back.G)))
    show(f"size {size} jds shared", el.joint_degrees == jds)
    fast = GCMAlgorithmFast(params).random_clustered_graph(jds)
    show(f"size {size} fast", el_repr(fast))
    show(f"size {size} fast jds identity", fast.joint_degrees is jds)
    net2 = EdgeListToNetwork.convert(fast)
    show(f"size {size} fast->net", graph_repr(net2.G))
    show(f"size {size} cliques", sorted(map(sorted, net2.find_cliques()))[:50])
    show(f"size {size} has_edges", net2.has_edges())
    show(f"size {size} rng after", rng_state())

print("== final rng")
show("rng", rng_state())
