import sys, os; sys.path.insert(0, os.getcwd())
import hashlib
import random
from fractions import Fraction
from decimal import Decimal

import numpy as np
import networkx as nx

import gcmpy
from gcmpy.tools.bond_percolate import bond_percolate

assert gcmpy.bond_percolate is bond_percolate


def rng_digest():
    h = hashlib.sha256()
    h.update(repr(random.getstate()).encode())
    st = np.random.get_state()
    h.update(repr((st[0], st[1].tolist(), st[2], st[3], st[4])).encode())
    return h.hexdigest()[:16]


def graph_digest(g):
    if not isinstance(g, nx.Graph):
        return repr(g)
    if g.is_multigraph():
        es = list(g.edges(keys=True, data=True))
    else:
        es = list(g.edges(data=True))
    adj = {repr(u): [repr(v) for v in nbrs] for u, nbrs in g.adj.items()}
    return hashlib.sha256(
        repr((type(g).__name__, list(g.nodes(data=True)), es, adj, dict(g.graph), nx.is_frozen(g))).encode()
    ).hexdigest()[:16]


def star(m):
    return nx.star_graph(m)


def graphs():
    out = []
    out.append(("empty", nx.Graph()))
    out.append(("single", nx.empty_graph(1)))
    out.append(("isolated5", nx.empty_graph(5)))
    out.append(("edge", nx.path_graph(2)))
    out.append(("path7", nx.path_graph(7)))
    out.append(("star1", star(1)))
    out.append(("star6", star(6)))
    out.append(("star40", star(40)))
    out.append(("complete6", nx.complete_graph(6)))
    out.append(("cycle9", nx.cycle_graph(9)))
    two = nx.disjoint_union(nx.complete_graph(4), nx.complete_graph(4))
    out.append(("two_k4_tie", two))
    three = nx.disjoint_union(nx.path_graph(3), nx.disjoint_union(nx.path_graph(5), nx.path_graph(5)))
    out.append(("p3_p5_p5", three))
    loops = nx.Graph([(0, 0), (0, 1), (1, 1), (2, 3), (3, 3)])
    loops.add_node(9)
    out.append(("selfloops", loops))
    strs = nx.Graph([("a", "b"), ("b", "c"), ("x", "y")])
    strs.add_node(("t", 1), colour="red")
    strs.graph["name"] = "named"
    strs["a"]["b"]["w"] = 2.5
    out.append(("strnodes_attrs", strs))
    rs = random.Random(1234)
    er = nx.Graph()
    er.add_nodes_from(range(60))
    for i in range(60):
        for j in range(i + 1, 60):
            if rs.random() < 0.04:
                er.add_edge(j, i)
    out.append(("er60", er))
    mg = nx.MultiGraph()
    for key in ("x", "y", "a"):
        mg.add_edge(0, 1, key=key)
    mg.add_edge(1, 2)
    mg.add_edge(1, 2)
    mg.add_edge(3, 3)
    mg.add_edge(4, 5, key=7)
    mg.add_node(11)
    out.append(("multigraph", mg))
    out.append(("multigraph_empty", nx.MultiGraph()))
    out.append(("digraph", nx.DiGraph([(0, 1), (1, 2), (2, 0), (3, 4)])))
    out.append(("digraph_noedges", nx.empty_graph(3, create_using=nx.DiGraph)))
    out.append(("digraph_empty", nx.DiGraph()))
    out.append(("multidigraph", nx.MultiDiGraph([(0, 1), (0, 1), (1, 0)])))
    out.append(("frozen_path", nx.freeze(nx.path_graph(5))))
    out.append(("subgraph_view", nx.complete_graph(7).subgraph([0, 1, 2, 5])))
    out.append(("edge_subgraph_view", nx.cycle_graph(8).edge_subgraph([(0, 1), (1, 2), (4, 5)])))
    out.append(("grid", nx.grid_2d_graph(4, 5)))
    return out


class Weird:
    def __lt__(self, other):
        return True

    def __repr__(self):
        return "Weird()"


class Raises:
    def __init__(self):
        self.n = 0

    def __lt__(self, other):
        self.n += 1
        if self.n >= 3:
            raise KeyError("third comparison")
        return False

    def __repr__(self):
        return "Raises()"


def phis():
    return [
        0, 1, 0.0, 1.0, 0.5, 0.25, 0.9, 1e-300, 1 - 2 ** -53, -1.0, 2.0, -0.0,
        float("nan"), float("inf"), float("-inf"), True, False,
        Fraction(1, 3), np.float64(0.5), np.float32(0.7), np.int64(1), 10 ** 400,
        Decimal("0.5"), "x", None, [0.5], 0.5 + 0j, Weird(), Raises(), np.array([0.2, 0.8]),
    ]


def call(label, g, phi):
    before = graph_digest(g)
    try:
        r = bond_percolate(g, phi)
        res = "ret %s %r" % (type(r).__name__, r)
    except BaseException as e:
        res = "exc %s" % type(e).__name__
    after = graph_digest(g)
    print(label, repr(phi) if not isinstance(phi, np.ndarray) else "ndarray", res,
          "same" if before == after else "MUTATED", after, rng_digest())


def main():
    random.seed(180018)
    np.random.seed(180018)
    print("start", rng_digest())
    gs = graphs()
    for name, g in gs:
        for phi in phis():
            call(name, g, phi)
    # repeated calls on one object, stream carried over
    for name, g in gs:
        for k in range(25):
            call("rep%d:%s" % (k, name), g, 0.37)
    # star statistics
    for m in (1, 2, 5, 17, 64):
        g = star(m)
        for phi in (0.0, 0.1, 0.5, 0.9, 1.0):
            vals = []
            for _ in range(200):
                vals.append(repr(bond_percolate(g, phi)))
            print("star", m, phi, hashlib.sha256(" ".join(vals).encode()).hexdigest()[:16],
                  vals[:6], graph_digest(g), rng_digest())
    # keyword / positional forms and arity errors
    g = nx.path_graph(6)
    for desc, fn in [
        ("kw", lambda: bond_percolate(g=g, phi=0.5)),
        ("kw_swapped", lambda: bond_percolate(phi=0.5, g=g)),
        ("missing_phi", lambda: bond_percolate(g)),
        ("no_args", lambda: bond_percolate()),
        ("extra", lambda: bond_percolate(g, 0.5, 1)),
        ("bad_kw", lambda: bond_percolate(g, p=0.5)),
    ]:
        try:
            r = fn()
            res = "ret %s %r" % (type(r).__name__, r)
        except BaseException as e:
            res = "exc %s" % type(e).__name__
        print(desc, res, graph_digest(g), rng_digest())
    # non-graph inputs
    class HasCopyOnly:
        def copy(self):
            return self
    for desc, obj in [
        ("None", None), ("dict", {0: {1: {}}}), ("list", [(0, 1)]), ("int", 3), ("str", "abc"),
        ("set", {1, 2}), ("ndarray", np.zeros((2, 2))), ("copyonly", HasCopyOnly()),
        ("nxclass", nx.Graph),
    ]:
        for phi in (0.0, 0.5, 1.0, "x"):
            try:
                r = bond_percolate(obj, phi)
                res = "ret %s %r" % (type(r).__name__, r)
            except BaseException as e:
                res = "exc %s" % type(e).__name__
            print("nongraph", desc, repr(phi), res, rng_digest())
    print("end", rng_digest())


main()
