import sys, os; sys.path.insert(0, os.getcwd())

# Behavioural digest of gcmpy/tools/markov_chain_monte_carlo_rewiring.py.
# Run with cwd = a checkout.  Prints a deterministic digest of every function the
# clean-up commit touched (get_all_edges, get_hashmap, is_edge_choice_suitable,
# get_joint_excess_degree_key, get_swapped_joint_excess_degree_key,
# append_proposal_edges, swap_condition (caller of the above), rewire), reached
# through the public, pre-existing methods only.

import copy
import hashlib
import random
import signal
import warnings

warnings.simplefilter("ignore")

import networkx as nx

from gcmpy.network.network import Network
from gcmpy.names.network_names import NetworkNames
from gcmpy.names.tools_names import ToolsNames
from gcmpy.tools.joint_excess_joint_degree_matrices import (
    JointExcessJointDegreeMatrices,
)
from gcmpy.tools.markov_chain_monte_carlo import MarkovChainMonteCarlo
from gcmpy.tools.markov_chain_monte_carlo_rewiring import (
    MarkovChainMonteCarloRewiring,
)

EDGE_NAMES = ["2-clique", "3-clique"]
TOP = NetworkNames.TOPOLOGY
MID = NetworkNames.MOTIF_IDS
JD = NetworkNames.JOINT_DEGREE


def _watchdog(signum, frame):
    print("equiv.py: watchdog fired")
    sys.stdout.flush()
    os._exit(3)


signal.signal(signal.SIGALRM, _watchdog)
signal.alarm(600)


def rng_digest() -> str:
    return hashlib.sha256(repr(random.getstate()).encode()).hexdigest()[:16]


def graph_digest(G: nx.Graph) -> str:
    # order-sensitive: node order, adjacency order and edge data all matter
    nodes = [(v, repr(sorted(d.items(), key=repr))) for v, d in G.nodes(data=True)]
    adj = [(v, list(G[v])) for v in G.nodes()]
    edges = [(u, v, repr(sorted(d.items(), key=repr))) for u, v, d in G.edges(data=True)]
    return hashlib.sha256(repr((nodes, adj, edges)).encode()).hexdigest()[:16]


def call(label, fn, *args, **kwargs):
    """Runs fn, prints result or exception type + message, returns the result."""
    try:
        out = fn(*args, **kwargs)
    except BaseException as exc:  # noqa
        print(f"{label} -> EXC {type(exc).__name__}: {exc!r}")
        return None
    print(f"{label} -> {out!r}")
    return out


def build_network(n, n_triangles, n_links, seed, n_squares=0) -> Network:
    rng = random.Random(seed)
    net = Network()
    G = net.G
    G.add_nodes_from(range(n))
    motif_id = 0
    made = 0
    while made < n_triangles:
        a, b, c = rng.sample(range(n), 3)
        if G.has_edge(a, b) or G.has_edge(a, c) or G.has_edge(b, c):
            continue
        for e in ((a, b), (a, c), (b, c)):
            G.add_edge(*e)
            G.edges[e][TOP] = "3-clique"
            G.edges[e][MID] = motif_id
        motif_id += 1
        made += 1
    made = 0
    while made < n_links:
        a, b = rng.sample(range(n), 2)
        if G.has_edge(a, b):
            continue
        G.add_edge(a, b)
        G.edges[a, b][TOP] = "2-clique"
        G.edges[a, b][MID] = motif_id
        motif_id += 1
        made += 1
    for v in G.nodes():
        links = sum(1 for w in G[v] if G[v][w][TOP] == "2-clique")
        tri_edges = sum(1 for w in G[v] if G[v][w][TOP] == "3-clique")
        G.nodes[v][JD] = (links, tri_edges // 2)
    return net


def target(G: nx.Graph, kind: str) -> JointExcessJointDegreeMatrices:
    jds = sorted({G.nodes[v][JD] for v in G.nodes()})
    ejks = {}
    for i, name in enumerate(EDGE_NAMES):
        excess = []
        for jd in jds:
            if jd[i] > 0:
                k = list(jd)
                k[i] -= 1
                if tuple(k) not in excess:
                    excess.append(tuple(k))
        table = {}
        for ai, a in enumerate(excess):
            for bi, b in enumerate(excess):
                if kind == "uniform":
                    table[a + b] = 1.0
                elif kind == "assort":
                    table[a + b] = 1.0 if a == b else 0.013 * (1 + ((ai + bi) % 3))
                elif kind == "sparse":
                    # partial support: missing keys and exact zeros
                    if (ai + 2 * bi) % 5 == 0 and a != b:
                        continue
                    table[a + b] = 0.0 if (ai * bi) % 7 == 3 else 0.1 + 0.07 * ((ai + bi) % 4)
        ejks[name] = table
    return JointExcessJointDegreeMatrices(
        {ToolsNames.EDGE_NAMES: EDGE_NAMES, ToolsNames.EJKS: ejks}
    )


def reset_counters():
    MarkovChainMonteCarlo._proposal_count = 0
    MarkovChainMonteCarlo._proposals_accepted = 0


def proposal_dump(mc):
    return [(p.topology, p.motif_id, p.new_edge) for p in mc._proposal_edges]


# --------------------------------------------------------------------------
# 1. rewire() end to end
# --------------------------------------------------------------------------
def section_rewire():
    print("== rewire")
    nets = {
        "dense12": build_network(12, 3, 14, 5),
        "sparse40": build_network(40, 4, 30, 2),
        "tri30": build_network(30, 8, 10, 11),
        "links25": build_network(25, 0, 30, 3),
    }
    limit_sets = (
        {ToolsNames.SEARCH_LIMIT: 1, ToolsNames.CONVERGENCE_LIMIT: 30},
        {ToolsNames.SEARCH_LIMIT: 2, ToolsNames.CONVERGENCE_LIMIT: 30},
        {ToolsNames.SEARCH_LIMIT: 5, ToolsNames.CONVERGENCE_LIMIT: 55},
        {ToolsNames.CONVERGENCE_LIMIT: 60},
        {ToolsNames.SEARCH_LIMIT: 3},
        {},
        {ToolsNames.SEARCH_LIMIT: 4, ToolsNames.CONVERGENCE_LIMIT: 0},
    )
    for name, net in nets.items():
        for kind in ("uniform", "assort", "sparse"):
            for li, limits in enumerate(limit_sets):
                for seed in (0, 1, 7):
                    reset_counters()
                    before = graph_digest(net.G)
                    params = {
                        ToolsNames.NETWORK: net,
                        ToolsNames.EJKS: target(net.G, kind),
                    }
                    params.update(limits)
                    random.seed(1000 * seed + li)
                    label = f"rewire {name} {kind} limits#{li} seed={seed}"
                    try:
                        mc = MarkovChainMonteCarloRewiring(params)
                        H = mc.rewire()
                        res = graph_digest(H)
                        loops = len(list(nx.selfloop_edges(H)))
                    except BaseException as exc:  # noqa
                        res = f"EXC {type(exc).__name__}: {exc!r}"
                        loops = None
                    print(
                        label,
                        res,
                        "loops", loops,
                        "input_same", graph_digest(net.G) == before,
                        "rng", rng_digest(),
                        "count", MarkovChainMonteCarlo._proposal_count,
                        "acc", MarkovChainMonteCarlo._proposals_accepted,
                        "ratio", repr(mc._acceptance_ratio),
                        "prop", proposal_dump(mc),
                    )
    # repeated calls on one object (counters and ratios accumulate)
    net = nets["dense12"]
    reset_counters()
    random.seed(99)
    mc = MarkovChainMonteCarloRewiring(
        {
            ToolsNames.NETWORK: net,
            ToolsNames.EJKS: target(net.G, "assort"),
            ToolsNames.CONVERGENCE_LIMIT: 120,
        }
    )
    for rep in range(3):
        try:
            H = mc.rewire()
            res = graph_digest(H)
        except BaseException as exc:  # noqa
            res = f"EXC {type(exc).__name__}: {exc!r}"
        print(
            "repeat", rep, res, rng_digest(),
            MarkovChainMonteCarlo._proposal_count,
            MarkovChainMonteCarlo._proposals_accepted,
            repr(mc._acceptance_ratio), proposal_dump(mc),
        )
    # setters then rewire again
    mc.search_limit = 2
    mc.convergence_limit = 20
    call("after setters", lambda: (graph_digest(mc.rewire()), rng_digest()))
    # error paths of the constructor / rewire
    call("ctor missing network", MarkovChainMonteCarloRewiring, {ToolsNames.EJKS: None})
    call("ctor missing ejks", MarkovChainMonteCarloRewiring, {ToolsNames.NETWORK: net})
    # a network with an edge lacking annotations
    bad = build_network(10, 1, 8, 4)
    bad.G.add_edge(0, 9) if not bad.G.has_edge(0, 9) else None
    random.seed(5)
    call(
        "rewire unannotated edge",
        lambda: graph_digest(
            MarkovChainMonteCarloRewiring(
                {
                    ToolsNames.NETWORK: bad,
                    ToolsNames.EJKS: target(build_network(10, 1, 8, 4).G, "uniform"),
                    ToolsNames.CONVERGENCE_LIMIT: 10,
                }
            ).rewire()
        ),
    )
    print("rng", rng_digest())
    # a network with a missing joint degree on one vertex
    bad2 = build_network(10, 1, 8, 4)
    del bad2.G.nodes[3][JD]
    random.seed(6)
    call(
        "rewire missing joint degree",
        lambda: graph_digest(
            MarkovChainMonteCarloRewiring(
                {
                    ToolsNames.NETWORK: bad2,
                    ToolsNames.EJKS: target(build_network(10, 1, 8, 4).G, "uniform"),
                    ToolsNames.CONVERGENCE_LIMIT: 10,
                }
            ).rewire()
        ),
    )
    print("rng", rng_digest())


# --------------------------------------------------------------------------
# 2. helpers called directly
# --------------------------------------------------------------------------
def section_helpers():
    print("== helpers")
    net = build_network(12, 3, 14, 5)
    G = net.G
    # a mixed-topology motif (a "square" whose corner has two edge kinds) so that
    # hashmaps with several keys / several entries per key are exercised
    base = max(d[MID] for _, _, d in G.edges(data=True)) + 1
    G.add_nodes_from([100, 101, 102, 103, 104, 105, 106, 107])
    for k, (a, b, c) in enumerate(((100, 101, 102), (104, 105, 106))):
        G.add_edge(a, b); G.edges[a, b][TOP] = "2-clique"; G.edges[a, b][MID] = base + k
        G.add_edge(a, c); G.edges[a, c][TOP] = "3-clique"; G.edges[a, c][MID] = base + k
        G.add_edge(b, c); G.edges[b, c][TOP] = "3-clique"; G.edges[b, c][MID] = base + k
    G.add_edge(103, 100); G.edges[103, 100][TOP] = "2-clique"; G.edges[103, 100][MID] = base + 5
    G.add_edge(107, 3); G.edges[107, 3][TOP] = "2-clique"; G.edges[107, 3][MID] = base + 6
    for v in (100, 101, 102, 103, 104, 105, 106, 107, 3):
        links = sum(1 for w in G[v] if G[v][w][TOP] == "2-clique")
        tri = sum(1 for w in G[v] if G[v][w][TOP] == "3-clique")
        G.nodes[v][JD] = (links, (tri + 1) // 2)
    ejk = target(G, "assort")
    reset_counters()
    mc = MarkovChainMonteCarloRewiring(
        {ToolsNames.NETWORK: net, ToolsNames.EJKS: ejk}
    )
    snapshot = graph_digest(G)

    edges = list(G.edges())
    # get_all_edges for every edge and both focal vertices
    corners = []
    for e in edges:
        for u0 in e:
            out = call(f"get_all_edges {u0} {e}", mc.get_all_edges, G, u0, e)
            corners.append((u0, e, out))
    call("get_all_edges reversed edge", mc.get_all_edges, G, edges[0][1], edges[0][::-1])
    call("get_all_edges foreign vertex", mc.get_all_edges, G, 100, edges[0])
    call("get_all_edges unknown vertex", mc.get_all_edges, G, 555, edges[0])
    call("get_all_edges missing edge", mc.get_all_edges, G, 0, (0, 555))
    call("get_all_edges isolated", mc.get_all_edges, nx.Graph([(1, 2)]), 1, (1, 2))

    # get_hashmap
    for u0, e, es in corners[:12] + corners[-12:]:
        hm = call(f"get_hashmap {u0} {e}", mc.get_hashmap, G, es)
        print("  type", type(hm).__name__, "keys", list(hm))
        try:
            hm["no-such-topology"]
        except BaseException as exc:  # noqa
            print("  missing key ->", type(exc).__name__, list(hm))
    call("get_hashmap empty", mc.get_hashmap, G, [])
    call("get_hashmap all", mc.get_hashmap, G, edges)
    call("get_hashmap dup", mc.get_hashmap, G, [edges[0], edges[0], edges[0][::-1]])
    call("get_hashmap missing edge", mc.get_hashmap, G, [edges[0], (0, 555)])
    H2 = nx.Graph()
    H2.add_edge(1, 2)
    call("get_hashmap unannotated", mc.get_hashmap, H2, [(1, 2)])
    H2.edges[1, 2][TOP] = ["unhashable"]
    call("get_hashmap unhashable", mc.get_hashmap, H2, [(1, 2)])
    shared = [edges[0]]
    hm = mc.get_hashmap(G, shared)
    hm[G.edges[edges[0]][TOP]].append("x")
    print("hashmap independent of input", shared, mc.get_hashmap(G, shared))

    # is_edge_choice_suitable over all pairs of corners
    rows = []
    for u0, e0, e0s in corners:
        row = []
        for v0, e1, e1s in corners:
            try:
                r = mc.is_edge_choice_suitable(G, u0, v0, e0s, e1s)
                row.append("T" if r is True else "F" if r is False else repr(r))
            except BaseException as exc:  # noqa
                row.append("E:" + type(exc).__name__)
        rows.append("".join(row))
    for (u0, e0, _), row in zip(corners, rows):
        print("suit", u0, e0, row)
    # error paths / odd arguments
    (u0, e0, e0s), (v0, e1, e1s) = corners[0], corners[-1]
    call("suit wrong u0", mc.is_edge_choice_suitable, G, 555, v0, e0s, e1s)
    call("suit wrong v0", mc.is_edge_choice_suitable, G, u0, 555, e0s, e1s)
    call("suit wrong both", mc.is_edge_choice_suitable, G, 555, 556, e0s, e1s)
    call("suit empty", mc.is_edge_choice_suitable, G, u0, v0, [], [])
    call("suit len mismatch", mc.is_edge_choice_suitable, G, u0, v0, e0s, e1s + e1s)
    call("suit missing edge", mc.is_edge_choice_suitable, G, u0, v0, [(u0, 555)], e1s[:1])
    call("suit missing edge right", mc.is_edge_choice_suitable, G, u0, v0, e0s[:1], [(v0, 555)])
    call("suit same", mc.is_edge_choice_suitable, G, u0, u0, e0s, e0s)
    call("suit generators", mc.is_edge_choice_suitable, G, u0, v0, tuple(e0s), tuple(e1s))
    # mixed corners: second e0 has the wrong focal vertex
    m0 = mc.get_all_edges(G, 100, (100, 101))
    m1 = mc.get_all_edges(G, 104, (104, 105))
    call("suit mixed ok", mc.is_edge_choice_suitable, G, 100, 104, m0, m1)
    call("suit mixed swapped order", mc.is_edge_choice_suitable, G, 100, 104, m0, m1[::-1])
    call("suit mixed bad second e0", mc.is_edge_choice_suitable, G, 100, 104, [m0[0], (101, 102)], m1)
    call("suit mixed bad second e1", mc.is_edge_choice_suitable, G, 100, 104, m0, [m1[0], (105, 106)])
    call("suit mixed bad both", mc.is_edge_choice_suitable, G, 100, 104, [(101, 102), m0[1]], [(105, 106), m1[1]])

    # get_other_vertex
    call("other 0", mc.get_other_vertex, 1, (1, 2))
    call("other 1", mc.get_other_vertex, 2, (1, 2))
    call("other loop", mc.get_other_vertex, 2, (2, 2))
    call("other bad", mc.get_other_vertex, 3, (1, 2))

    # joint excess degree keys
    for e in edges[:10] + edges[-6:]:
        for index in (0, 1, -1, -2, 2, -3):
            call(f"jedk {e} {index}", mc.get_joint_excess_degree_key, G, e, index)
    call("jedk triple", mc.get_joint_excess_degree_key, G, (0, 1, 2), 0)
    call("jedk single", mc.get_joint_excess_degree_key, G, (0,), 0)
    call("jedk unknown vertex", mc.get_joint_excess_degree_key, G, (0, 555), 0)
    call("jedk str index", mc.get_joint_excess_degree_key, G, (0, 1), "0")
    J = nx.Graph()
    J.add_node(1); J.nodes[1][JD] = [2, 3]
    J.add_node(2); J.nodes[2][JD] = (1.5, 0)
    J.add_node(3)
    J.add_node(4); J.nodes[4][JD] = ()
    J.add_node(5); J.nodes[5][JD] = None
    J.add_node(6); J.nodes[6][JD] = ("a", 1)
    J.add_node(7); J.nodes[7][JD] = (4, 4, 4)
    for e in ((1, 2), (2, 1), (1, 3), (3, 1), (4, 3), (3, 4), (4, 1), (1, 4), (5, 3),
              (3, 5), (5, 4), (4, 5), (6, 1), (1, 6), (6, 3), (6, 4), (4, 6), (7, 1),
              (7, 4), (4, 7), (1, 1), (5, 6), (6, 5)):
        for index in (0, 1, 2):
            call(f"jedk J {e} {index}", mc.get_joint_excess_degree_key, J, e, index)
    print("J joint degrees untouched", dict(J.nodes(data=True)))

    def view(kv):
        return (kv._keys, kv.get_u0u1(), kv.get_u1u0(), kv.get_v0v1(), kv.get_v1v0(),
                kv.get_u0v1(), kv.get_v0u1())

    pairs = [(corners[i], corners[j]) for i, j in ((0, 5), (3, 8), (10, 2), (7, 7), (1, 0))]
    for (u0, e0, _), (v0, e1, _) in pairs:
        for index in (0, 1, -1, 2):
            call(
                f"swapped {e0} {e1} {u0} {v0} {index}",
                lambda: view(mc.get_swapped_joint_excess_degree_key(G, e0, e1, u0, v0, index)),
            )
    call("swapped wrong u0", lambda: view(mc.get_swapped_joint_excess_degree_key(G, edges[0], edges[1], 555, edges[1][0], 0)))
    call("swapped wrong v0", lambda: view(mc.get_swapped_joint_excess_degree_key(G, edges[0], edges[1], edges[0][0], 555, 0)))
    for quad in (((1, 2), (1, 3), 1, 1), ((1, 2), (3, 4), 1, 3), ((1, 2), (4, 3), 1, 4),
                 ((5, 1), (3, 4), 5, 3), ((4, 1), (5, 3), 4, 5), ((7, 1), (4, 2), 7, 4),
                 ((6, 1), (3, 2), 6, 3), ((1, 6), (2, 3), 1, 2)):
        for index in (0, 1, 2):
            call(
                f"swapped J {quad} {index}",
                lambda: view(mc.get_swapped_joint_excess_degree_key(J, quad[0], quad[1], quad[2], quad[3], index)),
            )
    print("J joint degrees untouched", dict(J.nodes(data=True)))

    # append_proposal_edges
    mc._proposal_edges = []
    for (u0, e0, e0s) in corners[:6]:
        call(f"append {u0} {e0}", mc.append_proposal_edges, G, u0, e0, (u0, 777))
        call(f"append rev {u0} {e0}", mc.append_proposal_edges, G, u0, e0, (777, u0))
    call("append bad new edge", mc.append_proposal_edges, G, 0, edges[0], (555, 777))
    call("append bad old edge", mc.append_proposal_edges, G, 0, (0, 555), (0, 777))
    call("append bad both", mc.append_proposal_edges, G, 0, (0, 555), (555, 777))
    H3 = nx.Graph(); H3.add_edge(1, 2); H3.edges[1, 2][TOP] = "t"
    call("append no motif id", mc.append_proposal_edges, H3, 1, (1, 2), (5, 777))
    print("proposals", proposal_dump(mc), [vars(p) for p in mc._proposal_edges])

    # swap_condition directly on every suitable pair (drives get_hashmap,
    # append_proposal_edges and both key functions), seeded RNG
    random.seed(2024)
    reset_counters()
    for kind in ("uniform", "assort", "sparse"):
        mc.ejks = target(G, kind)
        for i, (u0, e0, e0s) in enumerate(corners):
            for j, (v0, e1, e1s) in enumerate(corners):
                if (i * 7 + j) % 3:
                    continue
                try:
                    ok = mc.is_edge_choice_suitable(G, u0, v0, e0s, e1s)
                except BaseException:  # noqa
                    ok = False
                if not ok:
                    continue
                a, b = list(e0s), list(e1s)
                try:
                    r = repr(mc.swap_condition(G, a, b, u0, v0))
                except BaseException as exc:  # noqa
                    r = f"EXC {type(exc).__name__}: {exc!r}"
                print("swap", kind, u0, e0, v0, e1, r, proposal_dump(mc), a == e0s, b == e1s)
        print("swap rng", kind, rng_digest(), MarkovChainMonteCarlo._proposal_count,
              MarkovChainMonteCarlo._proposals_accepted)
    # swap_condition on unsuitable / odd input
    mc.ejks = target(G, "assort")
    call("swap mismatched", mc.swap_condition, G, m0, m1[:1], 100, 104)
    print("  prop", proposal_dump(mc))
    call("swap mixed", mc.swap_condition, G, list(m0), list(m1), 100, 104)
    print("  prop", proposal_dump(mc))
    call("swap wrong focal", mc.swap_condition, G, list(m0), list(m1), 555, 104)
    print("  prop", proposal_dump(mc))
    call("swap empty", mc.swap_condition, G, [], [], 0, 1)
    print("  prop", proposal_dump(mc))
    print("counters", MarkovChainMonteCarlo._proposal_count, MarkovChainMonteCarlo._proposals_accepted)
    print("graph untouched", graph_digest(G) == snapshot, "rng", rng_digest())


if __name__ == "__main__":
    section_helpers()
    section_rewire()
    print("final rng", rng_digest())
