"""Equivalence digest for gcmpy.covers.mpcc.MPCC (existing signature only)."""
import hashlib
import random
import sys
import os

sys.path.insert(0, os.getcwd())

import numpy as np
import networkx as nx

from gcmpy.covers.mpcc import MPCC
import gcmpy.covers.mpcc as mpcc_mod
import gcmpy.covers as covers_pkg
import gcmpy


def rng_state():
    h = hashlib.sha256(repr(random.getstate()).encode()).hexdigest()[:16]
    n = hashlib.sha256(repr(np.random.get_state()).encode()).hexdigest()[:16]
    return "py=%s np=%s" % (h, n)


def dump_graph(G):
    out = []
    out.append("type=%s" % type(G).__name__)
    out.append("graphattr=%r" % (dict(G.graph),))
    out.append("nodes=%r" % (list(G.nodes(data=True)),))
    try:
        edges = list(G.edges(data=True, keys=True))
    except TypeError:
        edges = list(G.edges(data=True))
    out.append("edges=%r" % (edges,))
    out.append("adj=%r" % ({u: list(nb) for u, nb in G.adjacency()},))
    return "\n    ".join(out)


def digest(s):
    return hashlib.sha256(s.encode()).hexdigest()


def run(name, G, *args, full=True, **kwargs):
    print("=== %s args=%r kwargs=%r" % (name, args, kwargs))
    try:
        R = MPCC(G, *args, **kwargs)
        print("  returned is G: %r ; type %s" % (R is G, type(R).__name__))
    except BaseException as ex:  # noqa
        print("  EXC %s: %s" % (type(ex).__name__, ex))
    if isinstance(G, nx.Graph):
        d = dump_graph(G)
        if full:
            print("    " + d)
        print("  graph digest %s" % digest(d))
    else:
        print("  input %r" % (G,))
    print("  rng %s" % rng_state())


def build_graphs():
    gs = []
    gs.append(("empty", nx.Graph()))
    g = nx.Graph(); g.add_nodes_from([3, 1, 2])
    gs.append(("nodes-only", g))
    gs.append(("single-edge", nx.Graph([(0, 1)])))
    gs.append(("triangle", nx.complete_graph(3)))
    gs.append(("K5", nx.complete_graph(5)))
    gs.append(("K6", nx.complete_graph(6)))
    gs.append(("path", nx.path_graph(6)))
    gs.append(("cycle", nx.cycle_graph(7)))
    gs.append(("star", nx.star_graph(5)))
    gs.append(("petersen", nx.petersen_graph()))
    gs.append(("karate", nx.karate_club_graph()))
    gs.append(("two-K4-shared-edge", nx.Graph(
        [(0, 1), (0, 2), (0, 3), (1, 2), (1, 3), (2, 3),
         (2, 4), (2, 5), (3, 4), (3, 5), (4, 5)])))
    gs.append(("bowtie", nx.Graph([(0, 1), (0, 2), (1, 2), (2, 3), (2, 4), (3, 4)])))
    g = nx.Graph()
    g.add_edges_from([("a", "b"), ("b", "c"), ("a", "c"), ("c", "d-e"), ("d-e", "a")])
    gs.append(("string-nodes-with-hyphen", g))
    g = nx.Graph()
    g.add_edges_from([(-1, -2), (-2, -3), (-1, -3), (-3, 4)])
    gs.append(("negative-nodes", g))
    g = nx.Graph()
    g.add_edges_from([((0, 1), (1, 1)), ((1, 1), (2, 2)), ((0, 1), (2, 2)), ((2, 2), "x")])
    gs.append(("mixed-hashable-nodes", g))
    g = nx.complete_graph(4)
    g.add_edge(0, 0); g.add_edge(2, 2)
    gs.append(("K4-selfloops", g))
    g = nx.complete_graph(4)
    for u, v in g.edges():
        g.edges[u, v]["clique"] = "old"
        g.edges[u, v]["weight"] = 0.1 * (u + v)
    g.graph["name"] = "preattr"
    g.add_node(9, colour="red")
    gs.append(("K4-preexisting-attrs", g))
    r = random.Random(12345)
    gs.append(("gnp-30", nx.gnp_random_graph(30, 0.3, seed=7)))
    gs.append(("gnp-60", nx.gnp_random_graph(60, 0.15, seed=11)))
    gs.append(("gnp-25-dense", nx.gnp_random_graph(25, 0.6, seed=3)))
    gs.append(("caveman", nx.connected_caveman_graph(4, 5)))
    gs.append(("ws", nx.watts_strogatz_graph(40, 6, 0.1, seed=5)))
    g = nx.gnp_random_graph(20, 0.4, seed=r.randrange(1000))
    g = nx.relabel_nodes(g, {i: "n%d" % ((i * 7) % 20) for i in range(20)})
    gs.append(("relabelled", g))
    return gs


def main():
    print("names: MPCC.__name__=%s module=%s" % (MPCC.__name__, MPCC.__module__))
    print("same object in packages: %r %r" % (covers_pkg.MPCC is MPCC, gcmpy.MPCC is MPCC))
    print("module shuffle is random.shuffle: %r" % (mpcc_mod.shuffle is random.shuffle))

    random.seed(2024)
    np.random.seed(2024)
    print("rng start %s" % rng_state())

    # 1. every graph, default arguments
    for name, G in build_graphs():
        run("default/" + name, G)

    # 2. max_size, positional and keyword, many values
    for ms in (0, 1, 2, 3, 4, 5, 100, -1, -5, 2.5, True, False):
        for name, G in build_graphs():
            if name in ("karate", "K6", "two-K4-shared-edge", "bowtie", "gnp-25-dense",
                        "caveman", "empty", "K4-selfloops", "string-nodes-with-hyphen"):
                run("max_size-pos/%s" % name, G, ms, full=(G.number_of_edges() < 40))
    for ms in (0, 2, 3):
        for name, G in build_graphs():
            if name in ("karate", "K5", "gnp-30"):
                run("max_size-kw/%s" % name, G, max_size=ms, full=False)

    # 3. repeated calls on the same object (labels overwritten, ids restart)
    G = nx.karate_club_graph()
    for i, ms in enumerate((0, 0, 3, 2, 0, 4, 1)):
        run("repeat-karate/%d" % i, G, ms)
    G = nx.gnp_random_graph(40, 0.25, seed=21)
    R = G
    for i in range(4):
        R = MPCC(R)
        print("chain %d same=%r digest=%s rng=%s" % (i, R is G, digest(dump_graph(R)), rng_state()))

    # 4. reseeding gives reproducible covers; different seeds
    for seed in (0, 1, 2, 3, 99):
        random.seed(seed)
        G = nx.gnp_random_graph(35, 0.35, seed=4)
        run("seed-%d" % seed, G, full=False)
        G2 = nx.gnp_random_graph(35, 0.35, seed=4)
        run("seed-%d-max3" % seed, G2, 3, full=False)
        labels = sorted(set(d["clique"] for _, _, d in G.edges(data=True)))
        print("  labels %r" % (labels,))

    # 5. other graph classes and error paths
    random.seed(77)
    run("digraph", nx.DiGraph([(0, 1), (1, 2), (2, 0)]))
    run("digraph-empty", nx.DiGraph())
    run("multigraph", nx.MultiGraph([(0, 1), (0, 1), (1, 2), (2, 0)]))
    run("multigraph-simple", nx.MultiGraph([(0, 1), (1, 2), (2, 0), (2, 3)]))
    run("multidigraph", nx.MultiDiGraph([(0, 1), (1, 2)]))
    run("none-graph", None)
    run("list-graph", [(0, 1)])
    run("dict-graph", {0: [1]})
    run("max_size-None", nx.complete_graph(3), None)
    run("max_size-None-empty", nx.Graph(), None)
    run("max_size-str", nx.complete_graph(3), "2")
    run("max_size-list", nx.complete_graph(3), [2])
    run("max_size-nan", nx.complete_graph(4), float("nan"))
    run("max_size-inf", nx.complete_graph(4), float("inf"))
    run("too-many-args", nx.complete_graph(3), 0, 1)
    run("bad-kw", nx.complete_graph(3), size=2)
    run("bad-kw2", nx.complete_graph(3), maxsize=2)
    try:
        MPCC()
    except BaseException as ex:  # noqa
        print("noargs EXC %s: %s" % (type(ex).__name__, ex))
    print("rng %s" % rng_state())

    # frozen graph: labelling raises? (attribute dicts are still mutable)
    G = nx.freeze(nx.complete_graph(4))
    run("frozen", G)

    # subgraph view: labelling through a view writes to the parent
    P = nx.karate_club_graph()
    V = P.subgraph(range(12))
    run("subgraph-view", V, full=False)
    print("  parent digest %s" % digest(dump_graph(P)))

    # graph subclass
    class MyGraph(nx.Graph):
        pass

    G = MyGraph(nx.complete_graph(5).edges())
    run("subclass", G)

    # 6. big-ish graph, digest only
    random.seed(5)
    G = nx.powerlaw_cluster_graph(400, 4, 0.6, seed=8)
    run("plc-400", G, full=False)
    run("plc-400-again-max3", G, 3, full=False)
    run("plc-400-again-max2", G, 2, full=False)

    # 7. integration through the library's generator
    from gcmpy.motif_generators.clique_motif import clique_motif
    from gcmpy.joint_degree.joint_degree_loaders.joint_degree_manual import JointDegreeManual
    from gcmpy.names.joint_degree_names import JointDegreeNames
    from gcmpy.names.gcm_algorithm_names import GCMAlgorithmNames
    from gcmpy.gcm_algorithm.gcm_algorithm_network import GCMAlgorithmNetwork

    random.seed(31)
    np.random.seed(31)
    params = {}
    params[JointDegreeNames.JDD] = {(1, 0): 0.2, (2, 1): 0.5, (3, 0): 0.1, (5, 1): 0.2}
    params[JointDegreeNames.MOTIF_SIZES] = [2, 3]
    jds = JointDegreeManual(params).sample_jds_from_jdd(600)
    params = {}
    params[GCMAlgorithmNames.MOTIF_SIZES] = [2, 3]
    params[GCMAlgorithmNames.EDGE_NAMES] = ["2-clique", "3-clique"]
    params[GCMAlgorithmNames.BUILD_FUNCTIONS] = [clique_motif, clique_motif]
    g = GCMAlgorithmNetwork(params).random_clustered_graph(jds)
    run("gcm-with-selfloops", g.G, full=False)
    g.G.remove_edges_from(nx.selfloop_edges(g.G))
    run("gcm", g.G, full=False)
    run("gcm-max2", g.G, 2, full=False)
    sizes = {}
    for u, v, d in g.G.edges(data=True):
        s = int(d["clique"].split("-")[0])
        sizes[s] = sizes.get(s, 0) + 1
    print("  sizes %r" % (sorted(sizes.items()),))
    print("final rng %s" % rng_state())


if __name__ == "__main__":
    main()
