import sys, os; sys.path.insert(0, os.getcwd())
import hashlib, random, math
from fractions import Fraction
import numpy as np

from gcmpy.joint_degree.joint_degree_loaders.joint_degree_marginal import JointDegreeMarginal
from gcmpy.joint_degree.joint_degree_distribution import JointDegreeDistribution
from gcmpy.names.joint_degree_names import JointDegreeNames as N

random.seed(20261004)
np.random.seed(20261004)


def enc(x):
    if isinstance(x, float):
        return "%s:%s" % (type(x).__name__, float(x).hex())
    if isinstance(x, complex):
        return "complex:%s,%s" % (x.real.hex(), x.imag.hex())
    if isinstance(x, np.ndarray):
        return "nd%s%s[%s]" % (x.dtype, x.shape, ",".join(enc(v) for v in x.ravel().tolist()))
    if isinstance(x, (tuple, list)):
        return "%s(%s)" % (type(x).__name__, ",".join(enc(v) for v in x))
    if isinstance(x, dict):
        return "%s{%s}" % (type(x).__name__, ";".join(enc(k) + "=" + enc(v) for k, v in x.items()))
    return "%s:%r" % (type(x).__name__, x)


def rng_state():
    h = hashlib.sha256()
    h.update(repr(random.getstate()).encode())
    st = np.random.get_state()
    h.update(repr((st[0], st[1].tolist(), st[2], st[3], st[4])).encode())
    return h.hexdigest()[:16]


LINES = []


def emit(tag, payload):
    s = enc(payload) if not isinstance(payload, str) else payload
    LINES.append("%s %s %s" % (tag, hashlib.sha256(s.encode()).hexdigest()[:16], s[:160]))


def attempt(tag, f):
    try:
        r = f()
        emit(tag, r)
    except BaseException as e:
        emit(tag, "EXC " + type(e).__name__)
    LINES.append("   rng " + rng_state())


class Calls:
    """marginal that records the order in which it is called"""

    def __init__(self, f, log, name):
        self.f, self.log, self.name = f, log, name

    def __call__(self, k):
        self.log.append((self.name, k))
        return self.f(k)


def poisson(mu):
    return lambda k: math.exp(-mu) * mu ** k / math.factorial(k)


def params(arr_fp, bounds, sizes=(2, 3), **kw):
    p = {
        N.JOINT_DEGREE_TYPE: "marginal",
        N.MOTIF_SIZES: list(sizes),
        N.ARR_FP: arr_fp,
        N.LOW_HIGH_DEGREE_BOUND: bounds,
    }
    for k, v in kw.items():
        p[getattr(N, k)] = v
    return p


def state(o):
    return (o.jdd, o.motif_sizes, o._use_sampling, o._n_samples)


def direct_and_dispatch(tag, mk):
    attempt(tag + "/ctor", lambda: state(JointDegreeMarginal(mk())))
    attempt(tag + "/load", lambda: state(JointDegreeDistribution.load_joint_degree(mk())))


# --- ordinary boxes of every shape ------------------------------------------------
cases = {
    "2d": lambda: params([poisson(1.5), poisson(0.7)], [(0, 6), (0, 4)]),
    "3d": lambda: params([poisson(2.0), poisson(0.3), lambda k: 1.0 / (k + 1)], [(1, 5), (0, 3), (2, 6)], sizes=(2, 3, 4)),
    "1d": lambda: params([lambda k: k], [(0, 9)], sizes=(2,)),
    "offset": lambda: params([lambda k: 1, lambda k: 2], ((3, 5), (7, 10))),
    "neg": lambda: params([lambda k: abs(k) + 0.5, lambda k: 1.0], [(-3, 2), (0, 2)]),
    "empty_dim": lambda: params([poisson(1.0), poisson(1.0)], [(0, 4), (3, 3)]),
    "reversed_dim": lambda: params([poisson(1.0), poisson(1.0)], [(0, 4), (5, 2)]),
    "no_dims": lambda: params([], []),
    "single_cell": lambda: params([lambda k: 0.25, lambda k: 4], [(2, 3), (0, 1)]),
    "all_zero": lambda: params([lambda k: 0.0, lambda k: 1.0], [(0, 3), (0, 3)]),
    "int_zero": lambda: params([lambda k: 0, lambda k: 0], [(0, 2), (0, 2)]),
    "np_bounds": lambda: params([poisson(1.0), poisson(2.0)], np.array([[0, 4], [1, 5]])),
    "np_scalar_bounds": lambda: params([poisson(1.0)], [(np.int64(0), np.int64(5))], sizes=(2,)),
    "bool_bounds": lambda: params([lambda k: 1.0], [(False, True)], sizes=(2,)),
    "np_vals": lambda: params([lambda k: np.float64(0.5) ** k, lambda k: np.float32(0.25)], [(0, 4), (0, 3)]),
    "fraction": lambda: params([lambda k: Fraction(1, k + 1), lambda k: Fraction(2, 3)], [(0, 4), (0, 3)]),
    "complex": lambda: params([lambda k: complex(k, 1), lambda k: 1], [(0, 3), (0, 2)]),
    "array_vals": lambda: params([lambda k: np.array([k, 1.0]), lambda k: np.array([1.0, 2.0])], [(0, 3), (0, 2)]),
    "nan": lambda: params([lambda k: float("nan") if k == 1 else 1.0, lambda k: 1.0], [(0, 3), (0, 2)]),
    "inf": lambda: params([lambda k: float("inf"), lambda k: 1.0], [(0, 2), (0, 2)]),
    "neg_weight": lambda: params([lambda k: -1.0 if k else 1.0, lambda k: 1.0], [(0, 2), (0, 2)]),
    "tiny": lambda: params([lambda k: 5e-324, lambda k: 1e-300], [(0, 3), (0, 3)]),
    "extra_fp": lambda: params([poisson(1.0), poisson(1.0), poisson(1.0)], [(0, 3), (0, 3)]),
    "big": lambda: params([poisson(3.0), poisson(1.0), poisson(0.5)], [(0, 12), (0, 9), (0, 7)], sizes=(2, 3, 4)),
}
for name, mk in cases.items():
    direct_and_dispatch("ok:" + name, mk)

# --- error paths ------------------------------------------------------------------
errs = {
    "missing_fp": lambda: params([poisson(1.0)], [(0, 3), (0, 3)]),
    "float_bounds": lambda: params([poisson(1.0)], [(0.0, 3.0)], sizes=(2,)),
    "str_bounds": lambda: params([poisson(1.0)], [("0", "3")], sizes=(2,)),
    "none_bounds": lambda: params([poisson(1.0)], None),
    "scalar_bounds": lambda: params([poisson(1.0)], 3),
    "triple_bounds": lambda: params([poisson(1.0)], [(0, 3, 1)], sizes=(2,)),
    "single_bound": lambda: params([poisson(1.0)], [(3,)], sizes=(2,)),
    "none_fp": lambda: params(None, [(0, 3)], sizes=(2,)),
    "uncallable_fp": lambda: params([3], [(0, 3)], sizes=(2,)),
    "fp_returns_none": lambda: params([lambda k: None], [(0, 3)], sizes=(2,)),
    "fp_returns_str": lambda: params([lambda k: "x"], [(0, 3)], sizes=(2,)),
    "fp_raises": lambda: params([lambda k: 1.0 / (2 - k)], [(0, 5)], sizes=(2,)),
    "fp_raises_keyerror": lambda: params([{0: 1.0, 1: 2.0}.__getitem__], [(0, 5)], sizes=(2,)),
    "zero_int_sum": lambda: params([lambda k: 0], [(0, 2)], sizes=(2,)),
}
for name, mk in errs.items():
    direct_and_dispatch("err:" + name, mk)


def drop(key):
    def mk():
        p = params([poisson(1.0)], [(0, 3)], sizes=(2,))
        del p[key]
        return p
    return mk


for key in (N.MOTIF_SIZES, N.ARR_FP, N.LOW_HIGH_DEGREE_BOUND, N.JOINT_DEGREE_TYPE):
    direct_and_dispatch("err:drop_" + key.name, drop(key))

# --- call order of the marginals, and state left behind when a marginal raises ------
log = []
o = JointDegreeMarginal(params([Calls(poisson(1.0), log, "f0"), Calls(poisson(2.0), log, "f1")], [(0, 4), (1, 4)]))
emit("order/log", log)
emit("order/jdd", o.jdd)


class Boom(Exception):
    pass


def bomb_after(n):
    c = [0]

    def f(k):
        c[0] += 1
        if c[0] > n:
            raise Boom()
        return 0.5
    return f


for n in (0, 1, 5, 7, 11):
    o = JointDegreeMarginal(params([poisson(1.0), poisson(1.0)], [(0, 4), (0, 3)]))
    before = dict(o.jdd)
    o._arr_fp = [bomb_after(n), lambda k: 2.0]
    try:
        o.create_jdd_directly()
        emit("bomb%d/ok" % n, o.jdd)
    except Boom:
        emit("bomb%d/partial" % n, o.jdd)
    emit("bomb%d/before" % n, before)

# --- repeated calls on one object -------------------------------------------------
o = JointDegreeMarginal(params([poisson(1.5), poisson(0.7)], [(0, 6), (0, 4)]))
first = o.jdd
for r in range(4):
    o.create_jdd_directly()
    emit("repeat%d/jdd" % r, o.jdd)
    emit("repeat%d/fresh" % r, str(o.jdd is not first))
    first = o.jdd
    o.create_jdd()
    emit("repeat%d/jdd2" % r, o.jdd)
    o.normalise_jdd()
    emit("repeat%d/renorm" % r, o.jdd)
    emit("repeat%d/keys" % r, o.generate_all_joint_degrees())
    attempt("repeat%d/sample" % r, lambda: o.sample_jds_from_jdd(25))
o.low = None
o._low_high_degree_bounds = [(0, 3)]
o._arr_fp = [poisson(0.4)]
o.create_jdd_directly()
emit("rebound/jdd", o.jdd)
o._low_high_degree_bounds = [(2, 2)]
attempt("rebound/empty", lambda: (o.create_jdd_directly(), o.jdd)[1])

# the zero placed by the first pass must not be shared mutable state
o = JointDegreeMarginal(params([lambda k: 1.0], [(0, 4)], sizes=(2,)))
emit("zeros/types", [type(v).__name__ for v in o.jdd.values()])
emit("zeros/keytypes", [[type(c).__name__ for c in k] for k in o.jdd])

# --- subclass returning odd key lists ----------------------------------------------
class Odd(JointDegreeMarginal):
    keys = None

    def generate_all_joint_degrees(self):
        return self.keys


def odd(keys):
    def run():
        Odd.keys = keys
        o = Odd(params([lambda k: k + 1.0, lambda k: 1.0], [(0, 2), (0, 2)]))
        return o.jdd
    return run


attempt("odd/dups", odd([(0, 0), (1, 1), (0, 0), (2, 0), (1, 1)]))
attempt("odd/eqkeys", odd([(1, 0), (1.0, 0), (True, 0)]))
attempt("odd/unhashable", odd([(0, 0), [1, 1], (2, 2)]))
attempt("odd/unhashable_nested", odd([(0, 0), (1, [1])]))
attempt("odd/generator", odd(iter([(0, 0), (1, 1)])))
attempt("odd/none", odd(None))
attempt("odd/int", odd(7))
attempt("odd/empty", odd([]))
attempt("odd/scalars", odd([0, 1, 2]))
attempt("odd/long_keys", odd([(0, 0, 0)]))
attempt("odd/short_keys", odd([(0,), (1,)]))
attempt("odd/str_keys", odd(["ab", "cd"]))
attempt("odd/dictkeys", odd({(0, 0): 5, (1, 1): 6}))

# --- evaluate_prob_of_joint_degree called directly ---------------------------------
class Rec:
    """container of marginals that records every index it is asked for"""

    def __init__(self, items, log):
        self.items, self.log = items, log

    def __getitem__(self, i):
        self.log.append((type(i).__name__, i))
        return self.items[i]


o = JointDegreeMarginal(params([poisson(1.5), poisson(0.7), lambda k: k * 0.5], [(0, 3), (0, 3), (0, 3)], sizes=(2, 3, 4)))
probes = [
    (0, 0, 0), (1, 2, 3), (3, 3, 3), [2, 1, 0], (1,), (), (1, 2), (1, 2, 3, 4), (5, 5, 5, 5, 5),
    iter([1, 2, 3]), range(3), {0: "a", 2: "b"}, "12", (1.0, 2, 3), (-1, 0, 0), (True, False, True),
    np.array([1, 2, 3]), (np.int64(2), 1, 1), None, 7, (None, 1, 1), ((1, 2), 1, 1), {2, },
    (10 ** 30, 0, 0), (170, 0, 0), (171, 0, 0),
]
for n, jd in enumerate(probes):
    attempt("eval%d" % n, lambda: o.evaluate_prob_of_joint_degree(jd))
    attempt("eval%d/again" % n, lambda: o.evaluate_prob_of_joint_degree(jd))

for label, arr in (
    ("tuple", (poisson(1.0), poisson(2.0))),
    ("dict0", {0: poisson(1.0), 1: poisson(2.0)}),
    ("dict1", {1: poisson(1.0), 2: poisson(2.0)}),
    ("dict-1", {-1: poisson(1.0), 0: poisson(2.0), 1: poisson(3.0)}),
    ("nparr", np.array([poisson(1.0), poisson(2.0)], dtype=object)),
    ("empty", []),
    ("str", "ab"),
    ("one", [poisson(1.0)]),
):
    o._arr_fp = arr
    for jd in ((0, 0), (1, 2), (2,), (), (1, 2, 3)):
        attempt("arr:%s/%r" % (label, jd), lambda: o.evaluate_prob_of_joint_degree(jd))

ilog = []
o._arr_fp = Rec([poisson(1.0), poisson(2.0), poisson(3.0)], ilog)
for jd in ((0, 0, 0), (1, 2, 3), (1,), (), (1, 2, 3, 4)):
    attempt("rec/%r" % (jd,), lambda: o.evaluate_prob_of_joint_degree(jd))
emit("rec/indices", ilog)

# marginals that mutate the table of marginals while it is being walked
def shrinker(obj):
    def f(k):
        if len(obj._arr_fp) > 1:
            obj._arr_fp.pop()
        return 0.5
    return f


o._arr_fp = [shrinker(o), poisson(1.0), poisson(2.0)]
attempt("shrink/1", lambda: o.evaluate_prob_of_joint_degree((1, 1, 1)))
emit("shrink/len", len(o._arr_fp))
o._arr_fp = [shrinker(o), shrinker(o), poisson(2.0)]
attempt("shrink/2", lambda: o.evaluate_prob_of_joint_degree((1, 1)))
emit("shrink/len2", len(o._arr_fp))

# a joint degree that is consumed while it is being walked
def eater(lst):
    def f(k):
        if lst:
            lst.pop()
        return 0.25
    return f


jdl = [1, 2, 3, 4]
o._arr_fp = [eater(jdl)] * 4
attempt("eater", lambda: o.evaluate_prob_of_joint_degree(jdl))
emit("eater/left", jdl)

# --- randomised sweep ---------------------------------------------------------------
for t in range(300):
    d = random.randint(1, 3)
    bounds = []
    for _ in range(d):
        lo = random.randint(-1, 3)
        bounds.append((lo, lo + random.randint(0, 5)))
    mus = [random.uniform(0.05, 3.0) for _ in range(d)]
    fps = [(lambda m: (lambda k: math.exp(-m * abs(k)) + (k % 3 == 0) * m))(m) for m in mus]
    sampling = t % 5 == 4
    kw = dict(USE_SAMPLING=True, N_SAMPLES=random.randint(0, 40)) if sampling else {}
    p = lambda: params(list(fps), list(bounds), sizes=tuple(range(2, 2 + d)), **kw)
    attempt("rand%d/ctor" % t, lambda: state(JointDegreeMarginal(p())))
    attempt("rand%d/load" % t, lambda: state(JointDegreeDistribution.load_joint_degree(p())))

print("\n".join(LINES))
print("TOTAL", hashlib.sha256("\n".join(LINES).encode()).hexdigest())
print("RNG", rng_state())
