"""
Behavioural digest for property C11 (MCMC rewiring, DrawSet, ProposalEdge).

Run with cwd = a checkout of gcmpy.  Prints a deterministic digest of results
(bit exact floats via repr), exceptions, RNG state afterwards and mutated
inputs for every function touched by the change.
"""
import hashlib
import logging
import os
import random
import signal
import sys

sys.path.insert(0, os.getcwd())

import networkx as nx  # noqa: E402
import numpy as np  # noqa: E402

from gcmpy.joint_degree.joint_degree_loaders.joint_degree_manual import (  # noqa: E402
    JointDegreeManual,
)
from gcmpy.motif_generators.clique_motif import clique_motif  # noqa: E402
from gcmpy.gcm_algorithm.gcm_algorithm_network import GCMAlgorithmNetwork  # noqa: E402
from gcmpy.names.gcm_algorithm_names import GCMAlgorithmNames  # noqa: E402
from gcmpy.names.joint_degree_names import JointDegreeNames  # noqa: E402
from gcmpy.names.network_names import NetworkNames  # noqa: E402
from gcmpy.names.tools_names import ToolsNames  # noqa: E402
from gcmpy.network.network import Network  # noqa: E402
from gcmpy.tools.joint_excess_joint_degree_matrices import (  # noqa: E402
    JointExcessJointDegreeMatrices,
)
from gcmpy.tools.markov_chain_monte_carlo import MarkovChainMonteCarlo  # noqa: E402
from gcmpy.tools.markov_chain_monte_carlo_rewiring import (  # noqa: E402
    MarkovChainMonteCarloRewiring,
)
from gcmpy.tools.joint_excess_from_ejk import JointExcessFromEjk  # noqa: E402
from gcmpy.tools.joint_degree_from_excess import JointDegreeFromExcess  # noqa: E402
from gcmpy.tools.draw_set import DrawSet  # noqa: E402
from gcmpy.tools.proposal_edge import ProposalEdge  # noqa: E402

JD = NetworkNames.JOINT_DEGREE
TOP = NetworkNames.TOPOLOGY
MID = NetworkNames.MOTIF_IDS


# --------------------------------------------------------------------------
# anything logged at WARNING or above is part of the digest
class _Collect(logging.Handler):
    def __init__(self):
        super().__init__(level=logging.WARNING)
        self.records = []

    def emit(self, record):
        self.records.append((record.name, record.levelname, record.getMessage()))


COLLECT = _Collect()
logging.getLogger().addHandler(COLLECT)


def sha(obj) -> str:
    return hashlib.sha256(repr(obj).encode()).hexdigest()[:20]


def rng_state() -> str:
    return sha(random.getstate()) + "/" + sha(np.random.get_state()[1].tolist())


def seed(n: int) -> None:
    random.seed(n)
    np.random.seed(n)


def graph_digest(G) -> str:
    nodes = list(G.nodes(data=True))
    edges = list(G.edges(data=True))
    canon = sorted(
        (tuple(sorted((u, v), key=repr)), sorted((repr(k), repr(x)) for k, x in d.items()))
        for u, v, d in edges
    )
    return (
        f"n={G.number_of_nodes()} m={G.number_of_edges()} "
        f"nodes_in_order={sha(nodes)} edges_in_order={sha(edges)} edges_canon={sha(canon)} "
        f"adj={sha({u: list(nbrs) for u, nbrs in G.adj.items()})} graphattr={G.graph!r}"
    )


def counters() -> str:
    return (
        f"class_counts=({MarkovChainMonteCarlo._proposal_count},"
        f"{MarkovChainMonteCarlo._proposals_accepted})"
    )


def mcmc_state(m) -> str:
    pes = [(p._new_edge, p._topology, p._motif_id) for p in m._proposal_edges]
    return (
        f"conv={m._convergence_limit!r} search={m._search_limit!r} "
        f"pc={m._proposal_count!r} pa={m._proposals_accepted!r} "
        f"ratio={m._acceptance_ratio!r} proposals={pes!r} logger={m._logger.name!r}"
    )


class _Timeout(Exception):
    pass


def _alarm(signum, frame):
    raise _Timeout()


signal.signal(signal.SIGALRM, _alarm)


def attempt(label, fn, timeout=120):
    signal.alarm(timeout)
    try:
        res = fn()
        signal.alarm(0)
        shown = f"<{type(res).__name__}>" if isinstance(res, MarkovChainMonteCarloRewiring) else repr(res)
        print(f"[{label}] -> {shown}")
        return res
    except _Timeout:
        print(f"[{label}] TIMEOUT")
    except BaseException as e:  # noqa
        signal.alarm(0)
        print(f"[{label}] raised {type(e).__module__}.{type(e).__name__} args={e.args!r}")
    finally:
        signal.alarm(0)
    return None


# --------------------------------------------------------------------------
# DrawSet
def section_drawset():
    print("== DrawSet")
    seed(1)
    ds = DrawSet()
    attempt("ds.draw empty", lambda: ds.draw())
    attempt("ds.remove missing", lambda: ds.remove((1, 2)))
    attempt("ds.add unhashable", lambda: ds.add([1, 2]))
    print("len", len(ds), list(ds), (1, 2) in ds, rng_state())
    for e in [(1, 2), (2, 3), (1, 2), (3, 4), (1.0, 2.0), (4, 5), (True, 2)]:
        r = ds.add(e)
        print("add", e, r, len(ds), list(ds), ds._edge_hashmap)
    draws = [ds.draw() for _ in range(20)]
    print("draws", draws, rng_state())
    for e in [(2, 3), (4, 5), (9, 9), (1.0, 2.0), (1, 2)]:
        attempt(f"ds.remove {e}", lambda e=e: ds.remove(e))
        print("   state", len(ds), list(ds), ds._edge_hashmap, e in ds)
    attempt("ds.draw one left", lambda: [ds.draw() for _ in range(3)])
    ds.remove((3, 4))
    print("empty again", len(ds), list(ds), ds._edge_hashmap)
    attempt("ds.draw empty again", lambda: ds.draw())
    # random model run
    seed(2)
    ds = DrawSet()
    log = []
    for i in range(3000):
        op = random.random()
        e = (random.randrange(12), random.randrange(12))
        if op < 0.5:
            ds.add(e)
        elif op < 0.85:
            try:
                ds.remove(e)
            except KeyError as ex:
                log.append(("KeyError", ex.args))
        else:
            try:
                log.append(ds.draw())
            except IndexError as ex:
                log.append(("IndexError", ex.args))
        if i % 500 == 0:
            print("  model", i, len(ds), list(ds), sorted(ds._edge_hashmap.items()))
    print("model end", len(ds), list(ds), sorted(ds._edge_hashmap.items()), sha(log))
    print("iter is fresh iterator", next(iter(ds)), rng_state())


# --------------------------------------------------------------------------
def section_proposal_edge():
    print("== ProposalEdge")
    p = ProposalEdge()
    print(p.topology, p.motif_id, p.new_edge, sorted(vars(p).items()))
    p.topology = "3-clique"
    p.motif_id = 7
    p.new_edge = (3, 1)
    print(p.topology, p.motif_id, p.new_edge, sorted(vars(p).items()))
    p._new_edge = [1, 2]
    print(p.new_edge, sorted(vars(p).items()))


# --------------------------------------------------------------------------
EDGE_NAMES = ["2-clique", "3-clique"]
MOTIF_SIZES = [2, 3]


def target_ejks():
    eps = 1e-8
    tree = {
        (0, 3, 0, 3): 9 / 81 - eps - eps,
        (0, 3, 4, 1): eps,
        (0, 3, 2, 2): eps,
        (4, 1, 0, 3): eps,
        (4, 1, 4, 1): 45 / 81 - eps - eps,
        (4, 1, 2, 2): eps,
        (2, 2, 0, 3): eps,
        (2, 2, 4, 1): eps,
        (2, 2, 2, 2): 27 / 81 - eps - eps,
    }
    tri = {
        (3, 1, 3, 1): 48 / 144 - eps - eps,
        (3, 1, 1, 2): eps,
        (3, 1, 5, 0): eps,
        (1, 2, 3, 1): eps,
        (1, 2, 1, 2): 72 / 144 - eps - eps,
        (1, 2, 5, 0): eps,
        (5, 0, 3, 1): eps,
        (5, 0, 1, 2): eps,
        (5, 0, 5, 0): 24 / 144 - eps - eps,
    }
    params = {ToolsNames.EDGE_NAMES: EDGE_NAMES,
              ToolsNames.EJKS: {"2-clique": tree, "3-clique": tri}}
    return JointExcessJointDegreeMatrices(params)


def gcm_network(n: int, ejk_target) -> Network:
    qks = JointExcessFromEjk.get_excess_joint_distributions(ejk_target)
    jdd = JointDegreeFromExcess.get_joint_degree_distribution(qks, EDGE_NAMES)
    params = {JointDegreeNames.JDD: jdd, JointDegreeNames.MOTIF_SIZES: MOTIF_SIZES}
    jds = JointDegreeManual(params).sample_jds_from_jdd(n)
    params = {
        GCMAlgorithmNames.MOTIF_SIZES: MOTIF_SIZES,
        GCMAlgorithmNames.EDGE_NAMES: EDGE_NAMES,
        GCMAlgorithmNames.BUILD_FUNCTIONS: [clique_motif, clique_motif],
    }
    return GCMAlgorithmNetwork(params).random_clustered_graph(jds)


class Permissive(dict):
    """ejk matrix that knows every key"""

    def __init__(self, value):
        super().__init__()
        self.value = value

    def __missing__(self, key):
        return self.value


def permissive_ejks(value=1.0):
    m = JointExcessJointDegreeMatrices()
    m.ejks = {"2-clique": Permissive(value), "3-clique": Permissive(value)}
    m.topology_names = list(EDGE_NAMES)
    return m


def weird_network(n: int, n_tri: int, n_edge: int, allow_repeats: bool) -> Network:
    """motifs dropped at random: may overlap, share vertices, and (with
    allow_repeats) contain self-loops / collapsed edges"""
    net = Network()
    G = net.G
    for u in range(n):
        G.add_node(u)
        G.nodes[u][JD] = (random.randrange(1, 4), random.randrange(1, 4))
    mid = 0
    for _ in range(n_tri):
        if allow_repeats:
            vs = [random.randrange(n) for _ in range(3)]
        else:
            vs = random.sample(range(n), 3)
        for a, b in ((0, 1), (1, 2), (0, 2)):
            G.add_edge(vs[a], vs[b])
            G.edges[vs[a], vs[b]][TOP] = "3-clique"
            G.edges[vs[a], vs[b]][MID] = mid
        mid += 1
    for _ in range(n_edge):
        if allow_repeats:
            vs = [random.randrange(n) for _ in range(2)]
        else:
            vs = random.sample(range(n), 2)
        G.add_edge(vs[0], vs[1])
        G.edges[vs[0], vs[1]][TOP] = "2-clique"
        G.edges[vs[0], vs[1]][MID] = mid
        mid += 1
    return net


def rewire_case(label, net, ejks, extra, repeats=1, timeout=120):
    params = {ToolsNames.NETWORK: net, ToolsNames.EJKS: ejks}
    params.update(extra)
    before = graph_digest(net.G)
    m = attempt(f"{label} ctor", lambda: MarkovChainMonteCarloRewiring(params))
    if m is None:
        return
    print(f"[{label}] state {mcmc_state(m)} {counters()}")
    for r in range(repeats):
        res = attempt(f"{label} rewire#{r}", lambda: graph_digest(m.rewire()), timeout=timeout)
        print(f"[{label}] after#{r} rng={rng_state()} {counters()}")
        print(f"[{label}] after#{r} state {sha(mcmc_state(m))} ratio={m._acceptance_ratio!r} "
              f"pc={m._proposal_count} n_prop={len(m._proposal_edges)}")
        print(f"[{label}] input untouched: {graph_digest(net.G) == before} params={sorted(k.name for k in params)}")
        if res is None:
            seed(999)


def section_rewire():
    print("== rewire")
    ejk_target = target_ejks()
    seed(10)
    net = gcm_network(400, ejk_target)
    print("gcm400", graph_digest(net.G), "selfloops", nx.number_of_selfloops(net.G))
    seed(11)
    rewire_case("gcm400 limits", net, ejk_target,
                {ToolsNames.SEARCH_LIMIT: 20, ToolsNames.CONVERGENCE_LIMIT: 400}, repeats=2)
    seed(12)
    rewire_case("gcm400 conv0", net, ejk_target, {ToolsNames.CONVERGENCE_LIMIT: 0})
    seed(13)
    rewire_case("gcm400 search3", net, ejk_target,
                {ToolsNames.SEARCH_LIMIT: 3, ToolsNames.CONVERGENCE_LIMIT: 60})
    seed(14)
    small = gcm_network(90, ejk_target)
    print("gcm90", graph_digest(small.G), "selfloops", nx.number_of_selfloops(small.G))
    seed(15)
    rewire_case("gcm90 defaults", small, permissive_ejks(), {}, repeats=2, timeout=300)
    seed(18)
    tiny = gcm_network(30, ejk_target)
    print("gcm30", graph_digest(tiny.G), "selfloops", nx.number_of_selfloops(tiny.G))
    rewire_case("gcm30 defaults 0.6", tiny, permissive_ejks(0.6), {}, repeats=3, timeout=300)
    seed(16)
    rewire_case("gcm90 permissive", small, permissive_ejks(), {ToolsNames.CONVERGENCE_LIMIT: 500})
    seed(17)
    rewire_case("gcm90 permissive 0.25", small, permissive_ejks(0.25),
                {ToolsNames.CONVERGENCE_LIMIT: 200, ToolsNames.SEARCH_LIMIT: 7})
    for s in range(6):
        seed(100 + s)
        w = weird_network(40, 14, 25, allow_repeats=(s % 2 == 0))
        print(f"weird{s}", graph_digest(w.G), "selfloops", nx.number_of_selfloops(w.G))
        rewire_case(f"weird{s}", w, permissive_ejks(),
                    {ToolsNames.CONVERGENCE_LIMIT: 150, ToolsNames.SEARCH_LIMIT: 10 + s},
                    timeout=60)
    for s in range(4):
        seed(200 + s)
        w = weird_network(12, 5, 8, allow_repeats=(s % 2 == 1))
        print(f"dense{s}", graph_digest(w.G), "selfloops", nx.number_of_selfloops(w.G))
        rewire_case(f"dense{s}", w, permissive_ejks(),
                    {ToolsNames.CONVERGENCE_LIMIT: 40}, timeout=30)

    # error paths of the entry points
    print("== ctor / rewire errors")
    attempt("ctor {}", lambda: MarkovChainMonteCarloRewiring({}))
    attempt("ctor no ejks", lambda: MarkovChainMonteCarloRewiring({ToolsNames.NETWORK: small}))
    attempt("ctor network None",
            lambda: MarkovChainMonteCarloRewiring({ToolsNames.NETWORK: None, ToolsNames.EJKS: ejk_target}))
    m = attempt("ctor network None + limit",
                lambda: mcmc_state(MarkovChainMonteCarloRewiring(
                    {ToolsNames.NETWORK: None, ToolsNames.EJKS: None,
                     ToolsNames.CONVERGENCE_LIMIT: 5, ToolsNames.SEARCH_LIMIT: None})))
    attempt("ctor params None", lambda: MarkovChainMonteCarloRewiring(None))
    seed(20)
    empty = Network()
    rewire_case("empty network", empty, ejk_target, {})
    seed(21)
    bare = Network()
    bare.add_edges_from([(0, 1), (1, 2), (2, 3)])
    rewire_case("unannotated network", bare, ejk_target, {})
    seed(22)
    m = MarkovChainMonteCarloRewiring({ToolsNames.NETWORK: None, ToolsNames.EJKS: ejk_target,
                                       ToolsNames.CONVERGENCE_LIMIT: 30})
    attempt("rewire network None", lambda: m.rewire())
    m.network = small
    m.search_limit = 15
    print("setters", mcmc_state(m), m.network is small, m.ejks is ejk_target,
          m.convergence_limit, m.search_limit)
    attempt("rewire after setter", lambda: graph_digest(m.rewire()))
    print("rng", rng_state(), counters())
    m.ejks = permissive_ejks(0.5)
    m.convergence_limit = 25
    attempt("rewire after setter 2", lambda: graph_digest(m.rewire()))
    print("rng", rng_state(), counters(), sha(mcmc_state(m)))


# --------------------------------------------------------------------------
def crafted_graph():
    """two triangles, a 4-node path of 2-cliques and a few extras"""
    net = Network()
    G = net.G
    jds = {0: (1, 1), 1: (2, 1), 2: (0, 1), 3: (1, 1), 4: (3, 1), 5: (0, 1),
           6: (1, 0), 7: (2, 0), 8: (1, 0), 9: (1, 2), 10: (4, 1), 11: (2, 2)}
    for u, jd in jds.items():
        G.add_node(u)
        G.nodes[u][JD] = jd

    def add(u, v, t, i):
        G.add_edge(u, v)
        G.edges[u, v][TOP] = t
        G.edges[u, v][MID] = i

    for a, b in ((0, 1), (1, 2), (0, 2)):
        add(a, b, "3-clique", 0)
    for a, b in ((3, 4), (4, 5), (3, 5)):
        add(a, b, "3-clique", 1)
    add(6, 7, "2-clique", 2)
    add(7, 8, "2-clique", 3)
    add(0, 3, "2-clique", 4)
    add(1, 4, "2-clique", 5)
    add(9, 10, "2-clique", 6)
    add(9, 11, "3-clique", 7)
    add(9, 2, "3-clique", 7)
    add(11, 2, "3-clique", 7)
    add(10, 4, "2-clique", 8)
    return net


def section_helpers():
    print("== helper methods on a crafted graph")
    net = crafted_graph()
    G = net.G
    ejk_target = target_ejks()
    m = MarkovChainMonteCarloRewiring({ToolsNames.NETWORK: net, ToolsNames.EJKS: ejk_target})
    print("state", mcmc_state(m))
    g0 = graph_digest(G)

    for u, e in [(1, (1, 2)), (2, (1, 2)), (5, (1, 2)), (1, (1, 2, 3)), (3, (1, 2, 3)),
                 (1, [2, 1]), (1.0, (1, 2)), (float("nan"), (float("nan"), 1)), (1, (1,)), (7, (1,)),
                 ("a", "ab"), (1, ())]:
        attempt(f"get_other_vertex {u!r} {e!r}", lambda u=u, e=e: m.get_other_vertex(u, e))

    for u0, e in [(0, (0, 1)), (1, (0, 1)), (0, (1, 0)), (4, (3, 4)), (4, (1, 4)), (9, (9, 11)),
                  (9, (9, 10)), (2, (0, 2)), (2, (9, 2)), (6, (7, 8)), (0, (0, 9)), (99, (0, 1))]:
        attempt(f"get_all_edges {u0} {e}", lambda u0=u0, e=e: m.get_all_edges(G, u0, e))

    for es in [[], [(0, 1), (0, 2)], [(9, 10), (9, 11), (9, 2)], [(1, 0), (1, 2), (1, 4)],
               [(0, 1), (0, 1)], [(0, 9)], ((4, 3), (4, 1), (4, 10), (4, 5))]:
        attempt(f"get_hashmap {es}", lambda es=es: m.get_hashmap(G, es))
    attempt("get_hashmap generator", lambda: m.get_hashmap(G, (e for e in [(0, 1), (6, 7), (0, 2)])))
    attempt("get_hashmap edgeview", lambda: m.get_hashmap(G, G.edges(4)))
    hm = m.get_hashmap(G, [(0, 1), (0, 2)])
    hm["3-clique"].append("x")
    print("hashmap lists are fresh", m.get_hashmap(G, [(0, 1), (0, 2)]))

    cases = [
        (0, 3, [(0, 1), (0, 2)], [(3, 4), (3, 5)]),
        (0, 3, [(0, 1), (0, 2)], [(3, 4)]),
        (0, 6, [(0, 1), (0, 2)], [(6, 7), (6, 7)]),
        (0, 9, [(0, 1), (0, 2), (0, 3)], [(9, 11), (9, 2), (9, 10)]),
        (0, 4, [(0, 1), (0, 2), (0, 3)], [(4, 3), (4, 5), (4, 1)]),
        (0, 1, [(0, 1), (0, 2)], [(1, 0), (1, 2)]),
        (6, 8, [(6, 7)], [(8, 7)]),
        (6, 9, [(6, 7)], [(9, 10)]),
        (6, 10, [(6, 7)], [(10, 9)]),
        (7, 10, [(7, 6)], [(10, 4)]),
        (1, 4, [(1, 0), (1, 2)], [(4, 3), (4, 5)]),
        (0, 9, [(0, 1), (0, 2)], [(9, 11), (9, 2)]),
        (0, 0, [(0, 1), (0, 2)], [(0, 3), (0, 3)]),
        (0, 3, [], []),
        (0, 3, [(0, 1), (0, 2)], [(3, 4), (3, 9)]),
        (5, 3, [(0, 1), (0, 2)], [(3, 4), (3, 5)]),
    ]
    for c in cases:
        attempt(f"is_edge_choice_suitable {c}", lambda c=c: m.is_edge_choice_suitable(G, *c))

    for e, idx in [((0, 1), 0), ((0, 1), 1), ((9, 10), 0), ((4, 3, 5), 1), ((0, 1), 2), ((0, 99), 0), ((0,), 0)]:
        attempt(f"get_joint_excess_degree_key {e} {idx}",
                lambda e=e, idx=idx: m.get_joint_excess_degree_key(G, e, idx))
    for a in [((0, 1), (3, 4), 0, 3, 1), ((0, 1), (3, 4), 1, 3, 1), ((6, 7), (9, 10), 6, 9, 0),
              ((0, 1), (3, 4), 2, 3, 1)]:
        attempt(f"get_swapped_joint_excess_degree_key {a}",
                lambda a=a: m.get_swapped_joint_excess_degree_key(G, a[0], a[1], a[2], a[3], a[4])._keys)

    m._proposal_edges = []
    for a in [(0, (0, 1), (0, 4)), (3, (3, 4), (1, 3)), (0, (0, 1), (5, 6)), (0, (0, 99), (0, 1))]:
        attempt(f"append_proposal_edges {a}", lambda a=a: m.append_proposal_edges(G, *a))
        print("   ", mcmc_state(m))
    print("graph untouched", graph_digest(G) == g0, "nodes jd", [G.nodes[u][JD] for u in G])

    # swap_condition -------------------------------------------------------
    print("== swap_condition")
    swap_cases = [
        ([(0, 1), (0, 2)], [(3, 4), (3, 5)], 0, 3),
        ([(1, 0), (1, 2)], [(4, 3), (4, 5)], 1, 4),
        ([(6, 7)], [(9, 10)], 6, 9),
        ([(7, 6)], [(10, 9)], 7, 10),
        ([(7, 8)], [(10, 4)], 7, 10),
        ([(0, 1), (0, 2), (0, 3)], [(9, 11), (9, 2), (9, 10)], 0, 9),
        ([(0, 3), (0, 1), (0, 2)], [(9, 11), (9, 2), (9, 10)], 0, 9),
        ([(0, 1), (0, 2), (0, 3)], [(9, 11), (9, 10), (9, 10)], 0, 9),
        ([(0, 1), (0, 2)], [(6, 7), (3, 5)], 0, 3),
        ([], [], 0, 3),
        ([(0, 1)], [(3, 4), (3, 5)], 0, 3),
        ([(0, 1), (0, 2)], [(3, 4), (3, 5)], 7, 3),
        ([(0, 1), (0, 2)], [(3, 4), (3, 5)], 0, 8),
        (iter([(0, 1), (0, 2)]), [(3, 4), (3, 5)], 0, 3),
    ]
    ejks_variants = [
        ("target", ejk_target),
        ("perm1", permissive_ejks(1.0)),
        ("perm0", permissive_ejks(0.0)),
        ("perm.3", permissive_ejks(0.3)),
        ("permnan", permissive_ejks(float("nan"))),
        ("perm-neg", permissive_ejks(-2.5)),
    ]
    # a matrix whose numerator keys exist but denominators do not, and vice versa
    half = JointExcessJointDegreeMatrices()
    half.topology_names = list(EDGE_NAMES)
    half.ejks = {"2-clique": {(0, 0, 0, 1): 0.5, (0, 1, 1, 0): 0.25, (1, 0, 3, 1): 0.125, (0, 2, 1, 0): 0.75},
                 "3-clique": {}}
    ejks_variants.append(("half", half))
    onlytwo = JointExcessJointDegreeMatrices()
    onlytwo.topology_names = ["2-clique"]
    onlytwo.ejks = {"2-clique": Permissive(0.5)}
    ejks_variants.append(("only2", onlytwo))
    zeroden = permissive_ejks(1.0)
    zeroden.ejks["3-clique"][(1, 0, 2, 0)] = 0.0
    ejks_variants.append(("zeroden", zeroden))
    for name, ej in ejks_variants:
        m.ejks = ej
        seed(30)
        for i, c in enumerate(swap_cases):
            if i == len(swap_cases) - 1:
                c = (iter([(0, 1), (0, 2)]),) + c[1:]
            e1s_before = list(c[1])
            attempt(f"swap_condition[{name}] #{i}", lambda c=c: m.swap_condition(G, *c))
            print(f"    rng={rng_state()} {counters()} e1s_same={list(c[1]) == e1s_before} "
                  f"proposals={[(p._new_edge, p._topology, p._motif_id) for p in m._proposal_edges]}")
    # repeated calls on the same object, many random outcomes
    m.ejks = permissive_ejks(0.5)
    seed(31)
    outs = [m.swap_condition(G, [(0, 1), (0, 2)], [(3, 4), (3, 5)], 0, 3) for _ in range(200)]
    print("repeated", outs.count(True), sha(outs), rng_state(), counters(), mcmc_state(m))
    print("graph untouched", graph_digest(G) == g0)
    print("wrapped name", m.swap_condition.__name__, MarkovChainMonteCarloRewiring.swap_condition.__name__)


def main():
    section_drawset()
    section_proposal_edge()
    section_helpers()
    section_rewire()
    print("== records at WARNING+:", COLLECT.records)
    print("== final rng", rng_state(), counters())


if __name__ == "__main__":
    main()
