import sys, os; sys.path.insert(0, os.getcwd())
import random
import hashlib
import pickle
import copy
from collections import OrderedDict, defaultdict, Counter
from fractions import Fraction
from types import MappingProxyType

import numpy as np
import networkx as nx

random.seed(1403)
np.random.seed(1403)

from gcmpy.tools.joint_excess_from_jdd import JointExcessfromJDD
from gcmpy.tools.average_joint_degree_from_jdd import AverageJointDegreeFromJDD
from gcmpy.tools.joint_degree_distribution_from_network import (
    JointDegreeDistributionFromNetwork,
)
from gcmpy.names.network_names import NetworkNames

F = JointExcessfromJDD.get_joint_excess_distributions


def fx(v):
    if type(v) is float:
        return v.hex()
    if isinstance(v, np.floating):
        return "%s:%s" % (type(v).__name__, float(v).hex())
    return "%s:%r" % (type(v).__name__, v)


def dump(d):
    if isinstance(d, dict):
        return type(d).__name__ + "{" + ", ".join("%r: %s" % (k, dump(v)) for k, v in d.items()) + "}"
    if isinstance(d, (list, tuple)):
        return type(d).__name__ + "[" + ", ".join(dump(v) for v in d) + "]"
    return fx(d)


def run(tag, jdd, repeat=2):
    for rep in range(repeat):
        try:
            res = F(jdd)
            out = dump(res)
            # result and its members must be fresh objects on every call
            if isinstance(res, list):
                res.append("probe")
        except BaseException as e:  # noqa
            out = "EXC %s: %s" % (type(e).__name__, e)
        try:
            after = dump(jdd) if isinstance(jdd, dict) else repr(jdd)
        except BaseException as e:  # noqa
            after = "undumpable %s" % type(e).__name__
        print(tag, "call", rep, "|", out, "| jdd after:", after)


class CountingDict(dict):
    """records how often keys() is asked for, so the call pattern is visible"""

    calls = 0

    def keys(self):
        CountingDict.calls += 1
        return super().keys()


# ---- boundary: empty, zero-length joint degrees, single entries ---------------
run("empty dict", {})
run("empty OrderedDict", OrderedDict())
run("empty defaultdict", defaultdict(float))
run("empty Counter", Counter())
run("empty mappingproxy", MappingProxyType({}), repeat=1)
cd = CountingDict()
run("empty CountingDict", cd)
print("keys() calls so far", CountingDict.calls)
cd = CountingDict({(1, 1): 1.0})
run("CountingDict", cd)
print("keys() calls so far", CountingDict.calls)
run("zero topologies", {(): 1.0})
run("single (0,)", {(0,): 1.0})
run("single (1,)", {(1,): 1.0})
run("single (3,2)", {(3, 2): 1.0})
run("all zero degrees", {(0, 0): 1.0})
run("one column zero", {(0, 2): 0.5, (0, 3): 0.5})
run("zero mass", {(1, 2): 0.0})
run("zero mass positive rest", {(1, 2): 0.0, (2, 1): 1.0})
run("cancelling masses", {(1, 1): 0.5, (2, 1): -0.25})
run("negative degree", {(-1, 1): 0.5, (1, 1): 0.5})
run("unnormalised", {(1, 2): 3.0, (2, 0): 5.0, (0, 0): 1.0})
run("test-suite example", {(5, 1): 1 / 3, (3, 2): 1 / 3, (1, 3): 1 / 3})
run("ragged first short", {(1,): 0.5, (1, 2): 0.5})
run("ragged first long", {(1, 2): 0.5, (1,): 0.5})
run("inf nan", {(1, 2): float("inf"), (2, 1): float("nan")})
# numeric types
run("ints", {(1, 2): 1, (2, 0): 3})
run("fractions", {(1, 2): Fraction(1, 4), (2, 0): Fraction(3, 4)})
run("np float32", {(1, 2): np.float32(0.25), (2, 0): np.float32(0.75)})
run("np int degrees", {(np.int64(1), np.int64(2)): 0.25, (np.int64(2), np.int64(0)): 0.75})
run("float degrees", {(1.0, 2.5): 0.25, (2.0, 0.0): 0.75})
run("bool degrees", {(True, False): 0.5, (False, True): 0.5})
run("string mass", {(1, 2): "a"})
run("None mass", {(1, 2): None})
# key container types
run("str keys", {"ab": 1.0})
run("int key", {3: 1.0})
run("frozenset key", {frozenset([1, 2]): 1.0})
run("None key", {None: 1.0})
run("mappingproxy", MappingProxyType({(1, 2): 0.5, (2, 2): 0.5}), repeat=1)
# not a mapping
for bad in (None, 0, [], [((1, 2), 1.0)], "ab", set(), {(1, 2)}):
    run("jdd=%r" % (bad,), bad, repeat=1)

# the averages helper the function relies on (it runs before the edited lines)
for tag, jdd in (("avg empty", {}), ("avg one", {(1, 2): 1.0}), ("avg none", None)):
    try:
        print(tag, dump(AverageJointDegreeFromJDD.get_average_joint_degrees(jdd)))
    except BaseException as e:  # noqa
        print(tag, "EXC", type(e).__name__, e)

# list <-> dict helpers in the same class
qs = F({(5, 1): 1 / 3, (3, 2): 1 / 3, (1, 3): 1 / 3})
d = JointExcessfromJDD.convert_list_qks_to_dict(qs, ["a", "b"])
print("to dict", dump(d), dump(JointExcessfromJDD.convert_dict_qks_to_list(d, ["b", "a"])))
print("to dict empty", dump(JointExcessfromJDD.convert_list_qks_to_dict([], [])))

# ---- random distributions, 0..4 topologies, 1..30 joint degrees ---------------
h = hashlib.sha256()
excs = {}
for trial in range(3000):
    m = random.choice([0, 1, 1, 2, 2, 3, 4])
    nk = random.choice([0, 1, 1, 2, 3, 5, 9, 30])
    jds = []
    seen = set()
    for _ in range(nk):
        jd = tuple(random.randint(0, 4) for _ in range(m))
        if jd not in seen:
            seen.add(jd)
            jds.append(jd)
    w = [random.choice([random.random(), 0.5, 0.0, 1.0, 0.125]) for _ in jds]
    if w and sum(w) > 0 and random.random() < 0.5:
        s = sum(w)
        w = [x / s for x in w]
    P = dict(zip(jds, w))
    snap = copy.deepcopy(P)
    try:
        res = F(P)
        res2 = F(P)
        assert dump(res) == dump(res2) and res is not res2
        line = "%d %s" % (trial, dump(res))
    except BaseException as e:  # noqa
        if isinstance(e, AssertionError):
            raise
        excs[type(e).__name__] = excs.get(type(e).__name__, 0) + 1
        line = "%d EXC %s: %s" % (trial, type(e).__name__, e)
    assert dump(P) == dump(snap), "argument mutated"
    h.update(line.encode())
    if trial < 10:
        print(line)
print("random jdds exceptions", sorted(excs.items()), "digest", h.hexdigest())

# ---- empirical distributions of networks (incl. the empty network) ------------
h = hashlib.sha256()
for n in (0, 1, 2, 5, 50, 500):
    G = nx.Graph()
    for v in range(n):
        G.add_node(v)
        G.nodes[v][NetworkNames.JOINT_DEGREE] = (random.randint(0, 3), random.randint(0, 2))
    P = JointDegreeDistributionFromNetwork.get_joint_degree_distribution(G)
    try:
        line = "net n=%d %s" % (n, dump(F(P)))
    except BaseException as e:  # noqa
        line = "net n=%d EXC %s: %s" % (n, type(e).__name__, e)
    h.update(line.encode())
    if n <= 5:
        print(line)
print("network jdds digest", h.hexdigest())

# ---- RNG streams afterwards --------------------------------------------------
print("random state", hashlib.sha256(pickle.dumps(random.getstate())).hexdigest())
print("numpy state", hashlib.sha256(pickle.dumps(np.random.get_state())).hexdigest())
print("next draws", random.random().hex(), float(np.random.random()).hex())
