import sys, os; sys.path.insert(0, os.getcwd())
import hashlib
import random
from collections import OrderedDict, namedtuple
from fractions import Fraction
from decimal import Decimal

import numpy as np

from gcmpy.tools.joint_excess_from_jdd import JointExcessfromJDD
from gcmpy.tools.joint_degree_from_excess import JointDegreeFromExcess

random.seed(1416)
np.random.seed(1416)

LINES = []


def show(x):
    if isinstance(x, dict):
        return type(x).__name__ + "{" + ", ".join(show(k) + ": " + show(v) for k, v in x.items()) + "}"
    if isinstance(x, (list, tuple)):
        o, c = ("[", "]") if isinstance(x, list) else ("(", ")")
        return type(x).__name__ + o + ", ".join(show(e) for e in x) + c
    return type(x).__name__ + ":" + repr(x)


def run(label, jdd):
    before = show(jdd)
    try:
        res = JointExcessfromJDD.get_joint_excess_distributions(jdd)
        out = show(res)
        if isinstance(res, list) and len(res) > 1:
            out += " distinct=%s" % (len({id(v) for v in res}) == len(res))
    except BaseException as e:
        out = "EXC " + type(e).__name__
    after = show(jdd)
    LINES.append(label + " -> " + out + (" | ARG MUTATED " + after if after != before else ""))


JD = namedtuple("JD", "tree tri")

cases = [
    {},
    {(): 1.0},
    {(0,): 1.0},
    {(1,): 1.0},
    {(0, 0): 1.0},
    {(0, 0): 0.5, (1, 0): 0.5},
    {(0, 0): 0.5, (0, 1): 0.5},
    {(1, 4): 1 / 9, (5, 2): 5 / 9, (3, 3): 3 / 9},
    {(1, 0): 0.25, (0, 1): 0.25, (1, 1): 0.25, (0, 0): 0.25},
    {(2, 0): 0.5, (1, 1): 0.5},
    {(1, 0): 0.5, (2, 0): 0.5},
    {(3, 0, 1): 0.2, (0, 2, 0): 0.3, (1, 1, 1): 0.5},
    {(-1, 2): 0.5, (1, 1): 0.5},
    {(-1, 1): 0.5, (1, 1): 0.5},
    {(-1, 1): 0.5, (1, -1): 0.5},
    {(1, 1): 0.0, (2, 2): 0.0},
    {(1, 1): -0.0, (2, 2): 0.0},
    {(1, 1): -0.0, (2, 2): 1.0},
    {(1, 1): 1, (2, 2): 3},
    {(1, 1): True, (2, 2): False},
    {(True, False): 0.5, (False, True): 0.5},
    {(0.5, 1): 0.25, (1.5, 2): 0.75},
    {(1e-20, 1): 0.25, (2.0 ** 53 + 2, 2): 0.75},
    {(-0.0, 1): 0.25, (0.0, 2): 0.75},
    {(float("nan"), 1): 0.25, (1, 2): 0.75},
    {(float("inf"), 1): 0.25, (1, 2): 0.75},
    {(10 ** 400, 1): 0.25, (1, 2): 0.75},
    {(10 ** 400, 1): 3, (1, 2): 1},
    {(1, 2): float("nan"), (2, 2): 0.5},
    {(1, 2): float("inf"), (2, 2): 0.5},
    {(1, 2): 1e308, (3, 2): 1e308},
    {(1, 2): 5e-324, (3, 2): 5e-324},
    {(Fraction(1, 2), 1): Fraction(1, 4), (Fraction(3, 2), 2): Fraction(3, 4)},
    {(Decimal("1"), 1): Decimal("0.25"), (Decimal("2"), 2): Decimal("0.75")},
    {(1, 2): Decimal("0.25"), (2, 2): Decimal("0.75")},
    {(np.int64(1), np.int64(0)): 0.25, (np.int64(2), np.int64(2)): 0.75},
    {(np.uint8(0), np.uint8(1)): 0.25, (np.uint8(2), np.uint8(2)): 0.75},
    {(np.float32(1.5), 0): np.float32(0.25), (np.float32(2.5), 2): np.float32(0.75)},
    {(1 + 2j, 0): 0.25, (2, 2): 0.75},
    {(1, 0): 1 + 1j, (2, 2): 0.75},
    {JD(1, 2): 0.5, JD(0, 3): 0.5},
    {b"ab": 0.25, b"cd": 0.75},
    {b"\x00\x01": 0.25, b"\x02\x00": 0.75},
    {range(3): 0.25, range(1, 4): 0.75},
    {"ab": 0.25, "cd": 0.75},
    {"ab": 1, "cd": 2},
    {(1, 2): "x", (2, 2): 0.75},
    {(1, 2): None, (2, 2): 0.75},
    {(1, 2): [1], (2, 2): 0.75},
    {(1, 2): 0.5, (2,): 0.5},
    {(2,): 0.5, (1, 2): 0.5},
    {(1, 2): 0.5, (1, 2, 3): 0.5},
    {(1, 2, 3): 0.5, (1, 2): 0.5},
    {(1, 2): 0.5, (): 0.5},
    {(): 0.5, (1, 2): 0.5},
    {(1, "a"): 0.5, (2, 2): 0.5},
    {("a", 1): 0.5, (2, 2): 0.5},
    {(2, 2): 0.5, (1, "a"): 0.5},
    {((1,), 2): 0.5, (2, 2): 0.5},
    {(None, 2): 0.5, (2, 2): 0.5},
    {(2, 2): 0.5, (2, None): 0.5},
    {5: 0.5, 6: 0.5},
    {(1, 2): 0.5, 6: 0.5},
    {frozenset([1, 2]): 0.5},
    {None: 1.0},
    OrderedDict([((2, 1), 0.5), ((0, 3), 0.5)]),
    [(1, 2), (2, 2)],
    None,
    "ab",
    ((1, 2), (3, 4)),
    5,
]
for n, jdd in enumerate(cases):
    run("case%02d" % n, jdd)

shared = {(1, 4): 1 / 9, (5, 2): 5 / 9, (3, 3): 3 / 9, (0, 0): 0.0}
for r in range(3):
    run("repeat%d" % r, shared)

# random joint degree distributions; zeros in every position are common
for t in range(600):
    ntop = random.randint(1, 4)
    hi = random.choice([1, 2, 6])
    jdd = {}
    for _ in range(random.randint(1, 10)):
        k = tuple(random.randint(0, hi) for _ in range(ntop))
        jdd[k] = random.random() if random.random() < 0.9 else random.choice([0.0, 1, 0.5])
    if random.random() < 0.7:
        s = sum(jdd.values())
        if s:
            jdd = {k: v / s for k, v in jdd.items()}
    run("rand%03d" % t, jdd)
    if t % 3 == 0:
        names = ["t%d" % j for j in range(ntop)]
        try:
            qks = JointExcessfromJDD.convert_list_qks_to_dict(
                JointExcessfromJDD.get_joint_excess_distributions(jdd), names)
            back = JointDegreeFromExcess.get_joint_degree_distribution(qks, names)
            LINES.append("roundtrip%03d -> %s" % (t, show(back)))
        except BaseException as e:
            LINES.append("roundtrip%03d -> EXC %s" % (t, type(e).__name__))

LINES.append("random " + hashlib.sha256(repr(random.getstate()).encode()).hexdigest())
LINES.append("numpy " + hashlib.sha256(repr(np.random.get_state()).encode()).hexdigest())
text = "\n".join(LINES)
print(text)
print("lines", len(LINES), "sha256", hashlib.sha256(text.encode()).hexdigest())
