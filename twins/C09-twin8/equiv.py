import sys, os; sys.path.insert(0, os.getcwd())
"""
Behavioural digest for the C09 commit (EECC tidy-up).

Run with cwd = a checkout of gcmpy.  Exercises, through entry points that
exist before and after the commit,

    Network.remove_edge / has_edges / find_cliques / G setter
    EECC.limited_maximal_cliques / compute_scores / get_EECC

on fixed graphs, seeded random graphs, odd vertex types, odd size bounds,
error paths and repeated calls on one object, and prints a deterministic
digest (bit-exact floats via repr, exception types, RNG state, mutated
inputs, the working graph afterwards).
"""
if os.environ.get("PYTHONHASHSEED") != "0":
    os.environ["PYTHONHASHSEED"] = "0"
    os.execv(sys.executable, [sys.executable] + sys.argv)

import hashlib
import random
import signal
import warnings
from itertools import combinations

warnings.simplefilter("ignore")

import networkx as nx
import numpy as np

from gcmpy.covers.eecc import EECC
from gcmpy.network.network import Network

LINES = []


def out(*parts):
    line = " ".join(str(p) for p in parts)
    LINES.append(line)
    print(line)


def rng_digest():
    h = hashlib.sha256()
    h.update(repr(random.getstate()).encode())
    h.update(repr(np.random.get_state()[1].tolist()).encode())
    h.update(repr(np.random.get_state()[2:]).encode())
    return h.hexdigest()[:16]


def graph_state(G):
    return (
        type(G).__name__,
        [repr(n) for n in G.nodes()],
        [repr(e) for e in G.edges()],
    )


class _Timeout(Exception):
    pass


def _alarm(signum, frame):
    raise _Timeout()


signal.signal(signal.SIGALRM, _alarm)


def attempt(label, fn):
    signal.alarm(60)
    try:
        res = fn()
        out(label, "->", repr(res))
    except _Timeout:
        out(label, "-> TIMEOUT")
    except BaseException as exc:  # noqa: BLE001 - the type is the datum
        out(label, "-> raised", type(exc).__name__)
    finally:
        signal.alarm(0)


def build(edges, m0=None, nodes=()):
    g = EECC()
    for n in nodes:
        g.G.add_node(n)
    g.add_edges_from(edges)
    if m0 is not None:
        g.set_max_clique_size(m0)
    return g


def scores(g, C):
    C = [list(c) if isinstance(c, list) else c for c in C]
    EC, idx = [], []
    ordv = [0] * len(C)
    r = [0.0] * len(C)
    g.compute_scores(C, EC, ordv, r, idx)
    return (C, EC, ordv, [repr(x) for x in r], idx)


def full(label, edges, m0, seed, nodes=()):
    """All touched functions on one (graph, m0), with the state afterwards."""
    random.seed(seed)
    np.random.seed(seed)
    g = build(edges, m0, nodes)
    attempt(f"{label} m0={m0!r} has_edges", g.has_edges)
    attempt(f"{label} m0={m0!r} lmc", g.limited_maximal_cliques)
    attempt(f"{label} m0={m0!r} lmc again", g.limited_maximal_cliques)

    def sc():
        return scores(g, g.limited_maximal_cliques())

    attempt(f"{label} m0={m0!r} scores", sc)
    attempt(f"{label} m0={m0!r} raw scores", lambda: scores(g, g.find_cliques()))
    attempt(f"{label} m0={m0!r} eecc", g.get_EECC)
    out(f"{label} m0={m0!r} graph", graph_state(g.G))
    attempt(f"{label} m0={m0!r} has_edges after", g.has_edges)
    attempt(f"{label} m0={m0!r} lmc after", g.limited_maximal_cliques)
    # second call on the same (now used) object
    attempt(f"{label} m0={m0!r} eecc again", g.get_EECC)
    out(f"{label} m0={m0!r} rng", rng_digest())


# --------------------------------------------------------------------------
# fixed graphs
# --------------------------------------------------------------------------
fan = [(1, 3), (0, 1), (4, 5), (1, 5), (0, 2), (2, 5), (1, 4), (0, 5)]
bowtie = [(0, 1), (0, 2), (1, 2), (1, 3), (2, 3)]
glued = [(1, 2), (1, 3), (1, 4), (2, 3), (2, 4), (3, 4), (3, 5), (4, 5), (5, 6)]
wheel = [(0, i) for i in range(1, 6)] + [(i, i % 5 + 1) for i in range(1, 6)]
k5 = list(combinations(range(5), 2))
k6rev = list(combinations(range(9, 3, -1), 2))
two_k5 = list(combinations([0, 1, 2, 3, 4], 2)) + list(combinations([7, 2, 6, 1, 0], 2))
path = [(3, 2), (2, 1), (1, 0)]
single = [(8, 2)]
suite_graph = [
    (1, 2), (1, 3), (1, 4), (2, 3), (2, 4), (3, 4), (3, 5), (4, 5), (5, 6),
    (5, 7), (6, 7), (6, 8), (7, 8), (7, 9), (8, 9), (9, 10), (9, 11), (10, 11),
    (10, 12), (11, 12), (2, 13), (3, 13), (4, 13), (1, 13), (12, 14),
]

fixed = {
    "fan": fan, "bowtie": bowtie, "glued": glued, "wheel": wheel, "k5": k5,
    "k6rev": k6rev, "two_k5": two_k5, "path": path, "single": single,
    "suite": suite_graph,
}
for label, edges in fixed.items():
    for m0 in (2, 3, 4, 5, 7):
        for seed in (1, 2):
            full(label, edges, m0, seed)

# default m0 (constructor value), no set_max_clique_size call
full("fan-default", fan, None, 5)
full("two_k5-default", two_k5, None, 5)

# --------------------------------------------------------------------------
# seeded random graphs
# --------------------------------------------------------------------------
gen = random.Random(909)
for k in range(40):
    n = gen.randint(4, 11)
    p = gen.choice((0.3, 0.5, 0.7, 0.9))
    verts = list(range(n))
    gen.shuffle(verts)
    edges = [(u, v) for u, v in combinations(verts, 2) if gen.random() < p]
    gen.shuffle(edges)
    if not edges:
        continue
    for m0 in (2, 3, 4, 6):
        full(f"rand{k}", edges, m0, 100 + k)

# --------------------------------------------------------------------------
# other vertex types
# --------------------------------------------------------------------------
names = ["d", "a", "e", "c", "b", "f"]
str_edges = [(u, v) for u, v in combinations(names, 2) if (u, v) != ("a", "f")]
for m0 in (2, 3, 4):
    full("strings", str_edges, m0, 3)

tup = [(2, 1), (0, 5), (1, 1), (0, 0), (3, 2)]
tup_edges = list(combinations(tup, 2))[:-1]
for m0 in (2, 3):
    full("tuples", tup_edges, m0, 3)

flo = [2.5, -1.0, 0.0, 7.25, 3]
for m0 in (2, 3):
    full("floats", list(combinations(flo, 2)), m0, 3)

# vertices that are only partially ordered
fs = [frozenset(s) for s in ([2, 3], [3], [0, 1, 2], [1], [], [0, 3])]
for m0 in (2, 3, 4):
    full("frozensets", list(combinations(fs, 2)), m0, 3)
    full("frozensets-part", list(combinations(fs[:4], 2)) + list(combinations(fs[2:], 2)), m0, 3)

# vertices that cannot be ordered at all -> TypeError somewhere
mixed = [(1, "a"), ("a", 2), (1, 2), (2, (0,)), (1, (0,)), ("a", (0,))]
for m0 in (2, 3, 4, -1):
    full("mixed", mixed, m0, 3)

# --------------------------------------------------------------------------
# odd size bounds
# --------------------------------------------------------------------------
for m0 in (1, 0, -1, -3, 2.5, 3.0, None, "3", True):
    for label, edges in (("fan", fan), ("k5", k5), ("single", single)):
        random.seed(11)
        g = build(edges)
        g.set_max_clique_size(m0)
        attempt(f"odd {label} m0={m0!r} lmc", g.limited_maximal_cliques)
        attempt(f"odd {label} m0={m0!r} eecc", g.get_EECC)
        out(f"odd {label} m0={m0!r} graph", graph_state(g.G), rng_digest())

# --------------------------------------------------------------------------
# degenerate graphs
# --------------------------------------------------------------------------
full("empty", [], 2, 4)
full("empty", [], 3, 4)
full("isolated", [], 2, 4, nodes=[4, 1])
full("isolated+edge", [(0, 1), (1, 2), (0, 2)], 3, 4, nodes=[9])
full("isolated+edge", [(0, 1), (1, 2), (0, 2)], 2, 4, nodes=[9])
full("selfloop", [(0, 0)], 2, 4)
full("selfloop+tri", [(0, 1), (1, 2), (0, 2), (2, 2)], 3, 4)
full("selfloop+tri", [(0, 1), (1, 2), (0, 2), (2, 2)], 2, 4)
full("dupes", [(0, 1), (1, 0), (0, 1), (1, 2), (2, 0)], 2, 4)

# --------------------------------------------------------------------------
# other graph classes through the public G setter
# --------------------------------------------------------------------------
for m0 in (2, 3):
    random.seed(21)
    g = EECC()
    g.G = nx.MultiGraph()
    g.add_edges_from(two_k5 + [(0, 1), (0, 1), (2, 3), (6, 7)])
    g.set_max_clique_size(m0)
    attempt(f"multi m0={m0} has_edges", g.has_edges)
    attempt(f"multi m0={m0} lmc", g.limited_maximal_cliques)
    g.remove_edge(0, 1)
    out(f"multi m0={m0} after remove_edge", graph_state(g.G))
    attempt(f"multi m0={m0} eecc", g.get_EECC)
    out(f"multi m0={m0} graph", graph_state(g.G), rng_digest())

    random.seed(22)
    g = EECC()
    g.G = nx.DiGraph()
    g.add_edges_from(bowtie + [(2, 1)])
    g.set_max_clique_size(m0)
    attempt(f"di m0={m0} has_edges", g.has_edges)
    g.remove_edge(1, 0)
    g.remove_edge(0, 1)
    g.remove_edge(2, 1)
    out(f"di m0={m0} after remove_edge", graph_state(g.G))
    attempt(f"di m0={m0} lmc", g.limited_maximal_cliques)
    attempt(f"di m0={m0} eecc", g.get_EECC)
    out(f"di m0={m0} graph", graph_state(g.G), rng_digest())

    random.seed(23)
    g = EECC()
    g.G = nx.complete_graph(6)
    g.set_max_clique_size(m0)
    attempt(f"setter-K6 m0={m0} eecc", g.get_EECC)
    out(f"setter-K6 m0={m0} graph", graph_state(g.G), rng_digest())

# --------------------------------------------------------------------------
# Network.remove_edge / has_edges directly
# --------------------------------------------------------------------------
for cls in (Network, EECC):
    net = cls()
    attempt(f"{cls.__name__} fresh has_edges", net.has_edges)
    attempt(f"{cls.__name__} remove on empty", lambda: net.remove_edge(0, 1))
    net.add_edge((0, 1))
    net.add_edges_from([(1, 2), (2, 2), (3, 4)])
    attempt(f"{cls.__name__} has_edges", net.has_edges)
    for i, j in [(1, 0), (1, 0), (0, 5), (7, 8), (2, 2), (2, 2), (None, 1),
                 (1, None), ("x", 0), (3.0, 4.0)]:
        attempt(f"{cls.__name__} remove_edge({i!r},{j!r})", lambda: net.remove_edge(i, j))
        out(f"{cls.__name__} state", graph_state(net.G), net.has_edges())
    for i, j in [([1], 2), (1, [2]), (1, {2: 3}), ({1}, {2})]:
        attempt(f"{cls.__name__} remove_edge unhashable({i!r},{j!r})", lambda: net.remove_edge(i, j))
    attempt(f"{cls.__name__} remove_edge()", lambda: net.remove_edge())
    attempt(f"{cls.__name__} remove_edge(1)", lambda: net.remove_edge(1))
    net.remove_edge(1, 2)
    out(f"{cls.__name__} final", graph_state(net.G), net.has_edges())
    for G in (nx.MultiGraph([(0, 1), (0, 1), (1, 1)]), nx.DiGraph([(0, 1), (1, 0)]),
              nx.MultiDiGraph([(0, 1), (0, 1)])):
        net = cls()
        net.G = G
        for _ in range(4):
            net.remove_edge(0, 1)
            out(f"{cls.__name__} {type(G).__name__}", graph_state(net.G), net.has_edges())
        net.remove_edge(1, 0)
        net.remove_edge(1, 1)
        out(f"{cls.__name__} {type(G).__name__} end", graph_state(net.G), net.has_edges())

# --------------------------------------------------------------------------
# compute_scores directly on hand-made clique lists
# --------------------------------------------------------------------------
g = build(fan, 3)
hand = {
    "unsorted": [[5, 1, 0], [4, 5, 1], [2, 5, 0], [3, 1]],
    "tuples": [(5, 1, 0), (4, 5, 1), (2, 5, 0), (3, 1)],
    "repeated": [[0, 1, 2], [0, 1, 2], [2, 3, 4]],
    "nested": [[0, 1, 2, 3], [0, 1, 2], [2, 3], [3, 4, 5, 6, 7]],
    "big": [list(range(i, i + 6)) for i in range(0, 12, 2)],
    "sets": [{3, 1, 2}, {2, 3, 4}, {9, 8}],
    "one": [[1, 2, 3]],
    "none": [],
    "short": [[1], [], [1, 2]],
    "unorderable": [[1, "a", 2], [1, 2, 3]],
}
for label, C in hand.items():
    attempt(f"scores {label}", lambda: scores(g, [list(c) if isinstance(c, list) else c for c in C]))
    out(f"scores {label} input", repr(C))


def short_lists():
    C = [[1, 2, 3], [2, 3, 4]]
    EC, idx, ordv, r = [], [], [0], [0.0]
    try:
        g.compute_scores(C, EC, ordv, r, idx)
    finally:
        out("scores short-lists state", C, EC, ordv, [repr(x) for x in r], idx)


attempt("scores short-lists", short_lists)


def preloaded():
    C = [[3, 2, 1], [2, 3, 4], [7, 8]]
    EC, idx, ordv, r = [[9, 9]], [5], [7, 7, 7], [0.25, 0.0, 0]
    g.compute_scores(C, EC, ordv, r, idx)
    return (C, EC, ordv, [repr(x) for x in r], idx)


attempt("scores preloaded", preloaded)
attempt("scores preloaded again", preloaded)
out("scores graph untouched", graph_state(g.G))

# --------------------------------------------------------------------------
# one object, many calls, bound changed in between
# --------------------------------------------------------------------------
random.seed(77)
g = build(suite_graph)
for m0 in (4, 2, 3, 5):
    g.set_max_clique_size(m0)
    attempt(f"reuse m0={m0} lmc", g.limited_maximal_cliques)
for round_ in range(3):
    g.add_edges_from(two_k5)
    g.set_max_clique_size(3 + round_ % 2)
    attempt(f"reuse round {round_} eecc", g.get_EECC)
    out(f"reuse round {round_}", graph_state(g.G), g.has_edges(), rng_digest())

# the draw sequence over many seeds on a tie-rich graph
draws = []
for seed in range(30):
    random.seed(seed)
    g = build(two_k5 + wheel, 3)
    draws.append((g.get_EECC(), random.random()))
out("tie-rich", repr(draws))

out("final rng", rng_digest())
print("DIGEST", hashlib.sha256("\n".join(LINES).encode()).hexdigest())
