import sys, os; sys.path.insert(0, os.getcwd())
import random
import hashlib
import pickle

import numpy as np
import networkx as nx

random.seed(1401)
np.random.seed(1401)

from gcmpy.tools.joint_degree_distribution_from_network import (
    JointDegreeDistributionFromNetwork,
)
from gcmpy.names.network_names import NetworkNames
from gcmpy.joint_degree.joint_degree_distribution import JointDegreeDistribution
from gcmpy.joint_degree.joint_degree_type import JointDegreeType
from gcmpy.names.gcm_algorithm_names import GCMAlgorithmNames
from gcmpy.names.joint_degree_names import JointDegreeNames
from gcmpy.motif_generators.clique_motif import clique_motif
from gcmpy.gcm_algorithm.gcm_algorithm_network import GCMAlgorithmNetwork

JD = NetworkNames.JOINT_DEGREE
F = JointDegreeDistributionFromNetwork.get_joint_degree_distribution


def fx(v):
    if isinstance(v, float):
        return v.hex()
    return repr(v)


def show(tag, G, *, twice=True):
    """call F on G (twice: repeated call on one object), print everything visible"""
    for rep in range(2 if twice else 1):
        try:
            before = sorted(G.__dict__.keys()) if hasattr(G, "__dict__") else None
        except Exception:
            before = None
        try:
            res = F(G)
            out = "dict[%s] %d: " % (type(res).__name__, len(res)) + ", ".join(
                "%r=%s(%s)" % (k, fx(v), type(v).__name__) for k, v in res.items()
            )
            # the returned dict must be a fresh object each time
            res["__probe__"] = 1
        except BaseException as e:  # noqa
            out = "EXC %s: %s" % (type(e).__name__, e)
        try:
            after = sorted(G.__dict__.keys()) if hasattr(G, "__dict__") else None
        except Exception:
            after = None
        print(tag, "call", rep, "|", out, "| G.__dict__ keys", before, "->", after)


def mk(cls, jds):
    G = cls()
    for n, jd in enumerate(jds):
        G.add_node(n, **{"x": 0})
        G.nodes[n][JD] = jd
    return G


# ---- boundary: graphs of order 0, 1, 2 for every graph class -----------------
for cls in (nx.Graph, nx.DiGraph, nx.MultiGraph, nx.MultiDiGraph):
    show("empty %s" % cls.__name__, cls())
    show("one %s" % cls.__name__, mk(cls, [(1, 2)]))
    show("two-dup %s" % cls.__name__, mk(cls, [(1, 2), (1, 2)]))
    show("two-diff %s" % cls.__name__, mk(cls, [(0, 0), (3, 1)]))

# frozen / view graphs of order zero and non-zero
G = mk(nx.Graph, [(1, 0), (2, 2), (1, 0)])
show("frozen", nx.freeze(G.copy()))
show("frozen-empty", nx.freeze(nx.Graph()))
show("subgraph-empty", G.subgraph([]))
show("subgraph-1", G.subgraph([1]))
show("subgraph-all", G.subgraph([0, 1, 2]))
show("nx.empty_graph(0)", nx.empty_graph(0))
show("null_graph", nx.null_graph())

# ---- joint degree stored in several container types --------------------------
show("lists", mk(nx.Graph, [[1, 2], [1, 2], [0, 5]]))
show("np arrays", mk(nx.Graph, [np.array([1, 2]), np.array([1, 2]), np.array([4, 0])]))
show("strings", mk(nx.Graph, ["ab", "ab", "c"]))
show("empty tuples", mk(nx.Graph, [(), (), ()]))
show("zeros", mk(nx.Graph, [(0, 0)] * 7))
show("floats", mk(nx.Graph, [(1.0, 2), (1, 2.0), (True, 2)]))

# ---- malformed ---------------------------------------------------------------
G = nx.Graph()
G.add_nodes_from(range(3))
show("no attribute", G)
G = mk(nx.Graph, [(1, 1), (2, 2)])
G.add_node("late")
show("attribute missing on last", G)
G = mk(nx.Graph, [(1, 1), None, (2, 2)])
show("None joint degree", G)
G = mk(nx.Graph, [(1, 1), 5])
show("int joint degree", G)
G = mk(nx.Graph, [(1, [2]), (1, [2])])
show("unhashable inner", G)
for bad in (None, 0, {}, [], "graph", {"a": 1}.keys()):
    show("non-graph %r" % (bad,), bad, twice=False)


class NoOrder:
    def nodes(self):
        return []


class OrderOnly:
    def order(self):
        return 3


show("duck no order", NoOrder(), twice=False)
show("duck order only", OrderOnly(), twice=False)

# ---- many random graphs: every order from 0 .. 40 and some big ones ----------
h = hashlib.sha256()
for n in list(range(0, 41)) + [97, 128, 1000, 4099]:
    for rep in range(3):
        jds = [
            (random.randrange(0, 4), random.randrange(0, 3), random.randrange(0, 2))
            for _ in range(n)
        ]
        G = mk(random.choice((nx.Graph, nx.DiGraph, nx.MultiGraph)), jds)
        # some edges so that it is a real graph
        for _ in range(n):
            G.add_edge(random.randrange(n), random.randrange(n))
        res = F(G)
        res2 = F(G)
        assert res == res2 and res is not res2
        line = "n=%d rep=%d " % (n, rep) + ";".join(
            "%r:%s" % (k, v.hex() if isinstance(v, float) else repr(v))
            for k, v in res.items()
        )
        h.update(line.encode())
        if n <= 6:
            print(line)
print("random graphs digest", h.hexdigest())

# ---- networks produced by the library's own generator -------------------------
for n_vertices in (0, 1, 2, 3, 30, 600):
    jdd = {(1, 2): 0.2, (2, 0): 0.5, (3, 1): 0.1, (5, 1): 0.2}
    params = {}
    params[JointDegreeNames.JOINT_DEGREE_TYPE] = JointDegreeType.MANUAL
    params[JointDegreeNames.JDD] = jdd
    params[JointDegreeNames.MOTIF_SIZES] = [2, 3]
    try:
        DegreeDist = JointDegreeDistribution.load_joint_degree(params)
        jds = DegreeDist.sample_jds_from_jdd(n_vertices)
        params = {}
        params[GCMAlgorithmNames.MOTIF_SIZES] = [2, 3]
        params[GCMAlgorithmNames.EDGE_NAMES] = ["2-clique", "3-clique"]
        params[GCMAlgorithmNames.BUILD_FUNCTIONS] = [clique_motif, clique_motif]
        g = GCMAlgorithmNetwork(params).random_clustered_graph(jds)
        show("gcm network n=%d" % n_vertices, g._G)
    except BaseException as e:  # noqa
        print("gcm network n=%d EXC %s: %s" % (n_vertices, type(e).__name__, e))

# ---- RNG streams afterwards --------------------------------------------------
print("random state", hashlib.sha256(pickle.dumps(random.getstate())).hexdigest())
print(
    "numpy state",
    hashlib.sha256(pickle.dumps(np.random.get_state())).hexdigest(),
)
print("next draws", random.random().hex(), float(np.random.random()).hex())
