"""
Behavioural-equivalence digest for the C14 refactoring (degree-distribution
algebra tools).  Run with cwd = a checkout of gcmpy:

    /venv/bin/python /tmp/wt4/C14.out/equiv.py > out.txt

Prints, for every exercised call: the exact result (type, insertion order,
exact float reprs), any exception (type + message), the state of (possibly
mutated) inputs afterwards, and finally digests of the RNG states.
"""
import copy
import hashlib
import os
import random
import sys

if os.environ.get("PYTHONHASHSEED") != "0":
    # string hashing (hence the order of sets of str tuples) must be reproducible
    os.execve(
        sys.executable,
        [sys.executable] + sys.argv,
        {**os.environ, "PYTHONHASHSEED": "0"},
    )

sys.path.insert(0, os.getcwd())

import networkx as nx  # noqa: E402
import numpy as np  # noqa: E402

from gcmpy.names.network_names import NetworkNames  # noqa: E402
from gcmpy.names.tools_names import ToolsNames  # noqa: E402
from gcmpy.names.gcm_algorithm_names import GCMAlgorithmNames  # noqa: E402
from gcmpy.names.joint_degree_names import JointDegreeNames  # noqa: E402
from gcmpy.tools.average_joint_degree_from_jdd import (  # noqa: E402
    AverageJointDegreeFromJDD,
)
from gcmpy.tools.joint_excess_from_jdd import JointExcessfromJDD  # noqa: E402
from gcmpy.tools.joint_degree_from_excess import JointDegreeFromExcess  # noqa: E402
from gcmpy.tools.joint_excess_from_ejk import JointExcessFromEjk  # noqa: E402
from gcmpy.tools.joint_degree_distribution_from_network import (  # noqa: E402
    JointDegreeDistributionFromNetwork,
)
from gcmpy.tools.joint_excess_joint_degree_matrices import (  # noqa: E402
    JointExcessJointDegreeMatrices,
)
from gcmpy.tools.joint_excess_joint_degree import JointExcessJointDegree  # noqa: E402
from gcmpy.joint_degree.joint_degree_loaders.joint_degree_manual import (  # noqa: E402
    JointDegreeManual,
)
from gcmpy.motif_generators.clique_motif import clique_motif  # noqa: E402
from gcmpy.gcm_algorithm.gcm_algorithm_network import (  # noqa: E402
    GCMAlgorithmNetwork,
)

random.seed(20261003)
np.random.seed(20261003)

LONG = 400  # reprs longer than this are printed as a sha256 digest + length


def canon(obj):
    """Exact, order-preserving, type-revealing canonical string."""
    if isinstance(obj, dict):
        inner = ", ".join(f"{canon(k)}: {canon(v)}" for k, v in obj.items())
        return f"{type(obj).__name__}{{{inner}}}"
    if isinstance(obj, (list, tuple)):
        inner = ", ".join(canon(x) for x in obj)
        return f"{type(obj).__name__}[{inner}]"
    if isinstance(obj, (set, frozenset)):
        inner = ", ".join(sorted(canon(x) for x in obj))
        return f"{type(obj).__name__}<{inner}>"
    if isinstance(obj, float):
        return f"float:{obj!r}:{obj.hex() if obj == obj and abs(obj) != float('inf') else obj}"
    text = repr(obj)
    if " at 0x" in text:  # default object repr: the address is not deterministic
        text = "<object>"
    return f"{type(obj).__name__}:{text}"


def show(label, text):
    if len(text) > LONG:
        digest = hashlib.sha256(text.encode()).hexdigest()
        text = f"sha256={digest} len={len(text)} head={text[:120]}"
    print(f"{label} => {text}")


def run(label, fn, *args, inputs=None):
    """Call fn(*args), print result or exception and the inputs afterwards."""
    try:
        result = fn(*args)
        show(label, canon(result))
    except BaseException as exc:  # noqa: BLE001 - we want every exception kind
        result = None
        show(label, f"EXC {type(exc).__name__}: {exc}")
    watched = args if inputs is None else inputs
    show(label + " [inputs after]", canon(list(watched)))
    return result


def matrices_state(m):
    return {
        "ejks": m._ejks,
        "excess_degree_keys": m._excess_degree_keys,
        "topology_names": m._topology_names,
    }


class Ratio:
    """Probability-like value with exotic arithmetic, to pin operand order."""

    def __init__(self, value, trace):
        self.value = value
        self.trace = trace

    def __rmul__(self, other):
        self.trace.append(("rmul", other, self.value))
        return other * self.value

    def __mul__(self, other):
        self.trace.append(("mul", self.value, other))
        return self.value * other

    def __repr__(self):
        return f"Ratio({self.value!r})"


# --------------------------------------------------------------------------
# inputs
# --------------------------------------------------------------------------
JDDS = {
    "test_jdd": {(1, 2): 0.2, (2, 0): 0.5, (3, 1): 0.1, (5, 1): 0.2},
    "single_topology": {(0,): 0.25, (1,): 0.25, (2,): 0.3, (7,): 0.2},
    "three_topologies": {
        (1, 0, 2): 0.1,
        (0, 3, 1): 0.15,
        (2, 2, 2): 0.35,
        (4, 1, 0): 0.3,
        (1, 1, 1): 0.1,
    },
    "with_zero_degree_vertex": {(0, 0): 0.3, (1, 1): 0.3, (2, 3): 0.4},
    "one_entry": {(3, 4): 1.0},
    "unnormalised": {(1, 1): 3, (2, 1): 5, (1, 4): 2},
    "int_probabilities_zero_first": {(0, 2): 1, (3, 0): 2},
    "awkward_floats": {
        (1, 9): 0.1,
        (2, 8): 0.2,
        (3, 7): 0.30000000000000004,
        (4, 6): 1e-17,
        (5, 5): 0.1 + 0.2,
        (6, 4): 1e16,
        (7, 3): -1e16,
    },
    "all_zero_second_topology": {(1, 0): 0.5, (2, 0): 0.5},
    "numpy_degrees": {
        (np.int64(1), np.int64(2)): np.float64(0.25),
        (np.int64(3), np.int64(0)): np.float64(0.75),
    },
    "negative_zero": {(1, 0): -0.0, (0, 1): -0.0},
    "longer_later_tuples": {(1, 2): 0.5, (2, 1, 9): 0.5},
    "list_like_string_keys": {"ab": 0.5},
}
rng = random.Random(7)
JDDS["random_large"] = {}
while len(JDDS["random_large"]) < 60:
    JDDS["random_large"][(rng.randrange(0, 9), rng.randrange(0, 6), rng.randrange(0, 4))] = (
        rng.random()
    )
_total = sum(JDDS["random_large"].values())
JDDS["random_large_normalised"] = {
    k: v / _total for k, v in JDDS["random_large"].items()
}

BAD_JDDS = {
    "empty": {},
    "shorter_later_tuple": {(1, 2): 0.5, (2,): 0.5},
    "zero_mean_but_positive_degree": {(1, 1): 0.0, (2, 1): 0.0},
    "non_numeric_probability": {(1, 2): "x", (2, 1): 0.5},
    "non_subscriptable_key": {5: 0.5},
    "none_probability": {(1, 1): None},
}

# --------------------------------------------------------------------------
print("## AverageJointDegreeFromJDD.get_average_joint_degrees")
for name, jdd in {**JDDS, **BAD_JDDS}.items():
    run(f"avg[{name}]", AverageJointDegreeFromJDD.get_average_joint_degrees, jdd)

trace = []
traced = {(1, 2): Ratio(0.25, trace), (3, 1): Ratio(0.75, trace)}
run("avg[traced]", AverageJointDegreeFromJDD.get_average_joint_degrees, traced)
show("avg[traced] trace", canon(trace))

# --------------------------------------------------------------------------
print("## JointExcessfromJDD.get_joint_excess_distributions")
QKS_LISTS = {}
for name, jdd in {**JDDS, **BAD_JDDS}.items():
    res = run(f"excess[{name}]", JointExcessfromJDD.get_joint_excess_distributions, jdd)
    if res is not None:
        QKS_LISTS[name] = res
        show(f"excess[{name}] sums", canon([sum(q.values()) for q in res if all(
            isinstance(v, (int, float)) for v in q.values())]))
        show(f"excess[{name}] distinct objects", canon(len({id(q) for q in res}) == len(res)))

trace = []
traced = {(1, 2): Ratio(0.25, trace), (3, 0): Ratio(0.75, trace)}
run("excess[traced]", JointExcessfromJDD.get_joint_excess_distributions, traced)
show("excess[traced] trace", canon(trace))

# --------------------------------------------------------------------------
print("## JointExcessfromJDD.convert_list_qks_to_dict / convert_dict_qks_to_list")
q_a, q_b, q_c = {(0, 1): 0.5}, {(1, 0): 0.25}, {(2, 2): 1.0}
CONVERT_CASES = {
    "matching": ([q_a, q_b], ["2-clique", "3-clique"]),
    "more_keys_than_qks": ([q_a], ["a", "b", "c"]),
    "more_qks_than_keys": ([q_a, q_b, q_c], ["a", "b"]),
    "duplicate_keys": ([q_a, q_b, q_c], ["a", "b", "a"]),
    "empty": ([], []),
    "tuple_inputs": ((q_a, q_b), ("x", "y")),
    "generator_free_strings": ([q_a, q_b], "pq"),
    "unhashable_key": ([q_a, q_b], ["a", ["b"]]),
    "keys_none": ([q_a], None),
}
for name, (qks_list, keys) in CONVERT_CASES.items():
    as_dict = run(
        f"list_to_dict[{name}]", JointExcessfromJDD.convert_list_qks_to_dict, qks_list, keys
    )
    if as_dict is not None:
        show(
            f"list_to_dict[{name}] identity",
            canon([any(v is q for q in qks_list) for v in as_dict.values()]),
        )
        back = run(
            f"dict_to_list[{name}]", JointExcessfromJDD.convert_dict_qks_to_list, as_dict, keys
        )
        if back is not None:
            show(
                f"dict_to_list[{name}] identity",
                canon([any(v is q for q in qks_list) for v in back]),
            )
run(
    "dict_to_list[missing_key]",
    JointExcessfromJDD.convert_dict_qks_to_list,
    {"a": q_a},
    ["a", "zzz"],
)
run(
    "dict_to_list[reordered_and_repeated]",
    JointExcessfromJDD.convert_dict_qks_to_list,
    {"a": q_a, "b": q_b},
    ["b", "a", "b"],
)
run("dict_to_list[keys_none]", JointExcessfromJDD.convert_dict_qks_to_list, {"a": q_a}, None)

# --------------------------------------------------------------------------
print("## JointDegreeFromExcess.invert_single / observations_from_dict")
for name, qks in QKS_LISTS.items():
    for i, qk in enumerate(qks):
        run(f"invert_single[{name}][{i}]", JointDegreeFromExcess.invert_single, qk, i)
run("invert_single[empty]", JointDegreeFromExcess.invert_single, {}, 0)
run("invert_single[index_out_of_range]", JointDegreeFromExcess.invert_single, {(1, 2): 1.0}, 2)
run("invert_single[negative_index]", JointDegreeFromExcess.invert_single, {(1, 2): 0.5, (0, 4): 0.5}, -1)
run("invert_single[minus_one_excess]", JointDegreeFromExcess.invert_single, {(-1, 2): 1.0}, 0)
run("invert_single[zero_total]", JointDegreeFromExcess.invert_single, {(1, 2): 0.0, (0, 1): 0.0}, 0)
run("invert_single[cancelling_total]", JointDegreeFromExcess.invert_single, {(0, 2): 0.5, (0, 1): -0.5}, 0)
run("invert_single[non_numeric]", JointDegreeFromExcess.invert_single, {(1, 2): "x"}, 0)
run("invert_single[string_key]", JointDegreeFromExcess.invert_single, {"ab": 1.0}, 0)
run(
    "invert_single[compensated_sum]",
    JointDegreeFromExcess.invert_single,
    {(0, 0): 1e16, (0, 1): 1.0, (0, 2): -1e16, (0, 3): 1.0, (1, 0): 0.1, (2, 0): 0.2},
    0,
)
run(
    "invert_single[int_probabilities]",
    JointDegreeFromExcess.invert_single,
    {(0, 1): 3, (1, 1): 4, (2, 0): 6},
    0,
)

# --------------------------------------------------------------------------
print("## JointDegreeFromExcess.get_joint_degree_distribution (round trips)")
for name, qks_list in QKS_LISTS.items():
    n = len(qks_list)
    keys = [f"t{j}" for j in range(n)]
    qks_dict = JointExcessfromJDD.convert_list_qks_to_dict(qks_list, keys)
    snapshot = copy.deepcopy(qks_dict)
    run(f"observations[{name}]", JointDegreeFromExcess.observations_from_dict, qks_dict, keys)
    res = run(
        f"invert_all[{name}]", JointDegreeFromExcess.get_joint_degree_distribution, qks_dict, keys
    )
    show(f"invert_all[{name}] inputs untouched", canon(canon(snapshot) == canon(qks_dict)))
    if res is not None and name in JDDS:
        original = JDDS[name]
        try:
            err = max(
                abs(res[k] - original[k] / sum(
                    v for kk, v in original.items() if any(d > 0 for d in kk)))
                for k in res
            )
            show(f"invert_all[{name}] max abs error", canon(err))
        except BaseException as exc:  # noqa: BLE001
            show(f"invert_all[{name}] max abs error", f"EXC {type(exc).__name__}: {exc}")
    # different reference topology: reversed key order needs matching indices,
    # so only the "observations" are order sensitive; exercise anyway
    run(
        f"invert_all[{name}] subset_first_key_only",
        JointDegreeFromExcess.get_joint_degree_distribution,
        qks_dict,
        keys[:1],
    )

qks_tt = JointExcessfromJDD.convert_list_qks_to_dict(QKS_LISTS["test_jdd"], ["a", "b"])
run("invert_all[missing_topology]", JointDegreeFromExcess.get_joint_degree_distribution, qks_tt, ["a", "zzz"])
run("invert_all[no_keys]", JointDegreeFromExcess.get_joint_degree_distribution, qks_tt, [])
run("invert_all[empty_qks_no_keys]", JointDegreeFromExcess.get_joint_degree_distribution, {}, [])
run("invert_all[duplicate_keys]", JointDegreeFromExcess.get_joint_degree_distribution, qks_tt, ["a", "a"])
run("invert_all[swapped_keys]", JointDegreeFromExcess.get_joint_degree_distribution, qks_tt, ["b", "a"])
run("invert_all[tuple_keys]", JointDegreeFromExcess.get_joint_degree_distribution, qks_tt, ("a", "b"))
run(
    "invert_all[no_common_joint_degree]",
    JointDegreeFromExcess.get_joint_degree_distribution,
    {"a": {(0, 0): 1.0}, "b": {(5, 5): 1.0}},
    ["a", "b"],
)
run(
    "invert_all[one_empty_observation]",
    JointDegreeFromExcess.get_joint_degree_distribution,
    {"a": {(0, 1): 1.0}, "b": {}},
    ["a", "b"],
)
run(
    "invert_all[zero_at_common_key]",
    JointDegreeFromExcess.get_joint_degree_distribution,
    {"a": {(0, 1): 0.5, (1, 1): 0.5}, "b": {(1, 0): 0.0, (2, 0): 1.0}},
    ["a", "b"],
)
run(
    "invert_all[inconsistent_observations]",
    JointDegreeFromExcess.get_joint_degree_distribution,
    {
        "a": {(0, 1): 0.2, (1, 1): 0.5, (2, 2): 0.3},
        "b": {(1, 0): 0.6, (2, 0): 0.1, (3, 1): 0.3},
        "c": {(1, 1): 1.0},
    },
    ["a", "b"],
)
run(
    "invert_all[extra_unlisted_topology_in_qks]",
    JointDegreeFromExcess.get_joint_degree_distribution,
    {"a": {(0, 1): 0.5, (1, 1): 0.5}, "b": {(1, 0): 0.4, (2, 0): 0.6}, "c": "ignored"},
    ["a", "b"],
)

# --------------------------------------------------------------------------
print("## JointExcessJointDegreeMatrices")
epsilon = 1e-8
ejk_tree = {
    (0, 3, 0, 3): 9 / 81 - epsilon - epsilon,
    (0, 3, 4, 1): epsilon,
    (0, 3, 2, 2): epsilon,
    (4, 1, 0, 3): epsilon,
    (4, 1, 4, 1): 45 / 81 - epsilon - epsilon,
    (4, 1, 2, 2): epsilon,
    (2, 2, 0, 3): epsilon,
    (2, 2, 4, 1): epsilon,
    (2, 2, 2, 2): 27 / 81 - epsilon - epsilon,
}
ejk_triangle = {
    (3, 1, 3, 1): 48 / 144 - epsilon - epsilon,
    (3, 1, 1, 2): epsilon,
    (3, 1, 5, 0): epsilon,
    (1, 2, 3, 1): epsilon,
    (1, 2, 1, 2): 72 / 144 - epsilon - epsilon,
    (1, 2, 5, 0): epsilon,
    (5, 0, 3, 1): epsilon,
    (5, 0, 1, 2): epsilon,
    (5, 0, 5, 0): 24 / 144 - epsilon - epsilon,
}
rng = random.Random(11)
ejk_random = {}
for _ in range(150):
    key = tuple(rng.randrange(0, 12) for _ in range(6))
    ejk_random[key] = rng.random()

MATRIX_PARAMS = {
    "mcmc_target": {
        ToolsNames.EDGE_NAMES: ["2-clique", "3-clique"],
        ToolsNames.EJKS: {"2-clique": ejk_tree, "3-clique": ejk_triangle},
    },
    "sparse_asymmetric": {
        ToolsNames.EDGE_NAMES: ["e"],
        ToolsNames.EJKS: {"e": {(0, 1): 0.25, (1, 2): 0.5, (7, 1): 0.25}},
    },
    "random_three_topologies": {
        ToolsNames.EDGE_NAMES: ["x", "y", "z"],
        ToolsNames.EJKS: {"x": ejk_random, "y": {}, "z": {(1, 1, 1, 2, 2, 2): 1.0}},
    },
    "odd_length_keys": {
        ToolsNames.EDGE_NAMES: ["odd"],
        ToolsNames.EJKS: {"odd": {(1, 2, 3): 0.5, (4, 5, 6, 7, 8): 0.5, (): 0.0}},
    },
    "string_and_list_like_keys": {
        ToolsNames.EDGE_NAMES: ["s"],
        ToolsNames.EJKS: {"s": {"abcd": 0.5, "xy": 0.5}},
    },
    "no_topologies": {ToolsNames.EDGE_NAMES: [], ToolsNames.EJKS: {}},
    "names_do_not_match_ejks": {
        ToolsNames.EDGE_NAMES: ["only-name"],
        ToolsNames.EJKS: {"p": {(1, 1): 1.0}, "q": {(2, 2): 1.0}},
    },
}
BAD_MATRIX_PARAMS = {
    "missing_ejks": {ToolsNames.EDGE_NAMES: ["a"]},
    "missing_names": {ToolsNames.EJKS: {"a": {(1, 1): 1.0}}},
    "non_iterable_matrix_key": {
        ToolsNames.EDGE_NAMES: ["a", "b"],
        ToolsNames.EJKS: {"a": {(1, 1): 1.0}, "b": {5: 1.0}, "c": {(2, 2): 1.0}},
    },
    "ejks_not_a_dict": {ToolsNames.EDGE_NAMES: ["a"], ToolsNames.EJKS: None},
    "empty_params": {},
}

MATRICES = {}
default_matrices = JointExcessJointDegreeMatrices()
show("matrices[default] state", canon(matrices_state(default_matrices)))
default_matrices_2 = JointExcessJointDegreeMatrices(None)
show("matrices[None] state", canon(matrices_state(default_matrices_2)))
show(
    "matrices[default] fresh containers",
    canon(
        [
            default_matrices._ejks is not default_matrices_2._ejks,
            default_matrices._excess_degree_keys is not default_matrices_2._excess_degree_keys,
            default_matrices._topology_names is not default_matrices_2._topology_names,
        ]
    ),
)
for name, params in {**MATRIX_PARAMS, **BAD_MATRIX_PARAMS}.items():
    obj = run(f"matrices[{name}]", lambda p=params: JointExcessJointDegreeMatrices(p), inputs=[params])
    if obj is not None:
        MATRICES[name] = obj
        show(f"matrices[{name}] state", canon(matrices_state(obj)))
        show(
            f"matrices[{name}] aliases params",
            canon(
                [
                    obj._ejks is params[ToolsNames.EJKS],
                    obj._topology_names is params[ToolsNames.EDGE_NAMES],
                    obj.ejks is obj._ejks,
                    obj.excess_degree_keys is obj._excess_degree_keys,
                    obj.topology_names is obj._topology_names,
                ]
            ),
        )
        for topology in list(obj._topology_names) + ["no-such-topology"]:
            run(f"matrices[{name}].get_topology_index({topology})", obj.get_topology_index, topology)

# partial state left behind by a failing get_excess_degree_keys
partial = JointExcessJointDegreeMatrices()
partial.ejks = BAD_MATRIX_PARAMS["non_iterable_matrix_key"][ToolsNames.EJKS]
partial.topology_names = ["a", "b"]
partial.excess_degree_keys = {"stale": [(9, 9)]}
run("matrices[partial].get_excess_degree_keys", partial.get_excess_degree_keys)
show("matrices[partial] state", canon(matrices_state(partial)))

# repeated calls / call history: setters then recomputation
history = JointExcessJointDegreeMatrices(MATRIX_PARAMS["mcmc_target"])
first_keys = history.excess_degree_keys
run("matrices[history].get_excess_degree_keys again", history.get_excess_degree_keys)
show("matrices[history] new container each call", canon(first_keys is not history.excess_degree_keys))
show("matrices[history] same content", canon(canon(first_keys) == canon(history.excess_degree_keys)))
history.ejks = {"only": {(1, 0, 0, 1): 0.5, (0, 1, 1, 0): 0.5}}
show("matrices[history] keys stale after ejks setter", canon(matrices_state(history)))
run("matrices[history].get_excess_degree_keys after setter", history.get_excess_degree_keys)
show("matrices[history] state", canon(matrices_state(history)))
history.topology_names = ["only"]
run("matrices[history].get_topology_index(only)", history.get_topology_index, "only")
empty_names = JointExcessJointDegreeMatrices()
run("matrices[default].get_topology_index(x)", empty_names.get_topology_index, "x")
run("matrices[default].get_excess_degree_keys", empty_names.get_excess_degree_keys)
show("matrices[default] state after", canon(matrices_state(empty_names)))

# --------------------------------------------------------------------------
print("## JointExcessFromEjk.get_excess_joint_distributions")
EJK_QKS = {}
for name, obj in MATRICES.items():
    before = canon(matrices_state(obj))
    res = run(
        f"excess_from_ejk[{name}]",
        JointExcessFromEjk.get_excess_joint_distributions,
        obj,
        inputs=[matrices_state(obj)],
    )
    show(f"excess_from_ejk[{name}] matrices untouched", canon(before == canon(matrices_state(obj))))
    if res is not None:
        EJK_QKS[name] = res
run("excess_from_ejk[default]", JointExcessFromEjk.get_excess_joint_distributions, default_matrices, inputs=[])

mismatch = JointExcessJointDegreeMatrices(MATRIX_PARAMS["mcmc_target"])
mismatch.excess_degree_keys = {"2-clique": [(0, 3)]}
run("excess_from_ejk[length_mismatch]", JointExcessFromEjk.get_excess_joint_distributions, mismatch, inputs=[])
wrong_names = JointExcessJointDegreeMatrices(MATRIX_PARAMS["mcmc_target"])
wrong_names.excess_degree_keys = {"2-clique": [(0, 3), (4, 1)], "other": [(1, 2)]}
run("excess_from_ejk[same_length_wrong_topology]", JointExcessFromEjk.get_excess_joint_distributions, wrong_names, inputs=[])
custom_keys = JointExcessJointDegreeMatrices(MATRIX_PARAMS["mcmc_target"])
custom_keys.excess_degree_keys = {
    "2-clique": [(2, 2), (0, 3), (9, 9), (2, 2)],
    "3-clique": [],
}
run("excess_from_ejk[custom_key_lists]", JointExcessFromEjk.get_excess_joint_distributions, custom_keys, inputs=[])
int_valued = JointExcessJointDegreeMatrices(
    {ToolsNames.EDGE_NAMES: ["i"], ToolsNames.EJKS: {"i": {(0, 0): 1, (0, 1): 2, (1, 0): 2, (1, 1): 5}}}
)
run("excess_from_ejk[int_valued]", JointExcessFromEjk.get_excess_joint_distributions, int_valued, inputs=[])
bad_value = JointExcessJointDegreeMatrices(
    {ToolsNames.EDGE_NAMES: ["i"], ToolsNames.EJKS: {"i": {(0, 0): "x"}}}
)
run("excess_from_ejk[non_numeric_value]", JointExcessFromEjk.get_excess_joint_distributions, bad_value, inputs=[])
run("excess_from_ejk[not_a_matrices_object]", JointExcessFromEjk.get_excess_joint_distributions, None, inputs=[])

res = EJK_QKS["mcmc_target"]
run(
    "mcmc_target jdd from ejk",
    JointDegreeFromExcess.get_joint_degree_distribution,
    res,
    ["2-clique", "3-clique"],
)

# --------------------------------------------------------------------------
print("## JointDegreeDistributionFromNetwork.get_joint_degree_distribution")


def graph_with(joint_degrees, cls=nx.Graph):
    G = cls()
    for node, jd in joint_degrees:
        G.add_node(node)
        if jd is not None:
            G.nodes[node][NetworkNames.JOINT_DEGREE] = jd
    return G


def graph_state(G):
    return {"nodes": [(n, dict(d)) for n, d in G.nodes(data=True)], "edges": list(G.edges(data=True))}


GRAPHS = {
    "empty": graph_with([]),
    "single": graph_with([(0, (2, 1))]),
    "mixed_tuple_list": graph_with([(0, (1, 2)), (1, [1, 2]), (2, (0, 0)), (3, [3, 1]), (4, (1, 2))]),
    "seven_thirds": graph_with([(i, (i % 3, 1)) for i in range(7)]),
    "string_nodes_reverse_order": graph_with([(c, (ord(c) % 2, 0, 1)) for c in "zyxwvu"]),
    "digraph": graph_with([(i, (i // 4,)) for i in range(10)], cls=nx.DiGraph),
    "multigraph": graph_with([(i, (1, i % 2)) for i in range(5)], cls=nx.MultiGraph),
    "missing_attribute_on_last": graph_with([(0, (1, 1)), (1, (1, 1)), (2, None)]),
    "missing_attribute_on_first": graph_with([(0, None), (1, (1, 1))]),
    "non_iterable_joint_degree": graph_with([(0, 5)]),
    "string_joint_degree": graph_with([(0, "ab"), (1, ("a", "b"))]),
    "forty_nine": graph_with([(i, (i % 7, (i * i) % 5)) for i in range(49)]),
}
GRAPHS["seven_thirds"].add_edges_from([(0, 1), (1, 2), (5, 6)])
for name, G in GRAPHS.items():
    before = canon(graph_state(G))
    run(
        f"jdd_from_network[{name}]",
        JointDegreeDistributionFromNetwork.get_joint_degree_distribution,
        G,
        inputs=[],
    )
    show(f"jdd_from_network[{name}] graph untouched", canon(before == canon(graph_state(G))))

# --------------------------------------------------------------------------
print("## network-derived pipeline (seeded RNG)")
edge_names = ["2-clique", "3-clique"]
motif_sizes = [2, 3]
for label, jdd, size in [
    ("test_jdd", JDDS["test_jdd"], 3000),
    ("mcmc_jdd", JointDegreeFromExcess.get_joint_degree_distribution(res, edge_names), 2000),
]:
    params = {JointDegreeNames.JDD: jdd, JointDegreeNames.MOTIF_SIZES: motif_sizes}
    jds = JointDegreeManual(params).sample_jds_from_jdd(size)
    params = {
        GCMAlgorithmNames.MOTIF_SIZES: motif_sizes,
        GCMAlgorithmNames.EDGE_NAMES: edge_names,
        GCMAlgorithmNames.BUILD_FUNCTIONS: [clique_motif, clique_motif],
    }
    g = GCMAlgorithmNetwork(params).random_clustered_graph(jds)
    G = g.G
    show(f"pipeline[{label}] network", canon([G.number_of_nodes(), G.number_of_edges()]))

    empirical = run(
        f"pipeline[{label}] empirical jdd",
        JointDegreeDistributionFromNetwork.get_joint_degree_distribution,
        G,
        inputs=[],
    )
    averages = run(
        f"pipeline[{label}] averages",
        AverageJointDegreeFromJDD.get_average_joint_degrees,
        empirical,
    )
    from_jdd = run(
        f"pipeline[{label}] excess from empirical jdd",
        JointExcessfromJDD.get_joint_excess_distributions,
        empirical,
    )
    from_jdd_dict = run(
        f"pipeline[{label}] excess as dict",
        JointExcessfromJDD.convert_list_qks_to_dict,
        from_jdd,
        edge_names,
    )
    matrices = JointExcessJointDegree(
        {ToolsNames.NETWORK: G, ToolsNames.EDGE_NAMES: edge_names}
    ).get_ejks()
    show(f"pipeline[{label}] matrices state", canon(matrices_state(matrices)))
    from_ejk = run(
        f"pipeline[{label}] excess from ejk",
        JointExcessFromEjk.get_excess_joint_distributions,
        matrices,
        inputs=[],
    )
    gap = max(
        abs(from_ejk[t].get(k, 0.0) - from_jdd_dict[t].get(k, 0.0))
        for t in edge_names
        for k in set(from_ejk[t]) | set(from_jdd_dict[t])
    )
    show(f"pipeline[{label}] max |q_ejk - q_jdd|", canon(gap))
    show(
        f"pipeline[{label}] excess sums",
        canon([[sum(from_ejk[t].values()), sum(from_jdd_dict[t].values())] for t in edge_names]),
    )
    recovered = run(
        f"pipeline[{label}] jdd recovered from ejk excess",
        JointDegreeFromExcess.get_joint_degree_distribution,
        from_ejk,
        edge_names,
    )
    recovered_2 = run(
        f"pipeline[{label}] jdd recovered from jdd excess",
        JointDegreeFromExcess.get_joint_degree_distribution,
        from_jdd_dict,
        edge_names,
    )
    run(
        f"pipeline[{label}] dict back to list",
        JointExcessfromJDD.convert_dict_qks_to_list,
        from_jdd_dict,
        edge_names,
    )
    rebuilt = JointExcessJointDegreeMatrices(
        {ToolsNames.EJKS: matrices.ejks, ToolsNames.EDGE_NAMES: edge_names}
    )
    show(f"pipeline[{label}] rebuilt matrices state", canon(matrices_state(rebuilt)))
    show(
        f"pipeline[{label}] rebuilt indices",
        canon([rebuilt.get_topology_index(t) for t in edge_names]),
    )

# --------------------------------------------------------------------------
print("## RNG state afterwards")
show("python random state", hashlib.sha256(repr(random.getstate()).encode()).hexdigest())
np_state = np.random.get_state()
show(
    "numpy random state",
    hashlib.sha256(
        repr((np_state[0], np_state[1].tolist(), np_state[2], np_state[3], np_state[4])).encode()
    ).hexdigest(),
)
show("next python draw", canon(random.random()))
show("next numpy draw", canon(float(np.random.random())))
