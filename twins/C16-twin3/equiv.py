"""Equivalence digest for C16 (clique / chordless-cycle equations, connected graph counts).

Run with cwd = a checkout of gcmpy.  Prints a deterministic digest.
"""
import sys
import os

sys.path.insert(0, os.getcwd())

import hashlib
import pickle
import random
import itertools
from fractions import Fraction
from decimal import Decimal

import numpy as np
import networkx as nx

random.seed(12345)
np.random.seed(12345)

from gcmpy.message_passing.equations.clique_equation import clique_equation
from gcmpy.message_passing.equations.chordless_cycle_equation import (
    chordless_cycle_equation,
)
import gcmpy.message_passing.number_connected_graphs as ncg
from gcmpy.message_passing.number_connected_graphs import (
    number_of_connected_graphs,
    QQ,
    Q,
    binomial,
)


def show(x):
    if isinstance(x, np.ndarray):
        return "ndarray[%s,%s](%s)" % (
            x.dtype,
            x.shape,
            ",".join(repr(v) for v in x.ravel().tolist()),
        )
    if isinstance(x, (list, tuple)):
        return type(x).__name__ + "(" + ",".join(show(v) for v in x) + ")"
    return "%s:%r" % (type(x).__name__, x)


def call(label, f, *a, **kw):
    try:
        r = f(*a, **kw)
        print(label, "->", show(r))
    except BaseException as e:  # noqa
        print(label, "!!", type(e).__name__, str(e))


def rng_digest():
    h = hashlib.sha256()
    h.update(pickle.dumps(random.getstate()))
    st = np.random.get_state()
    h.update(repr((st[0], st[1].tolist(), st[2], st[3], st[4])).encode())
    return h.hexdigest()


def graph_digest(G):
    return repr(
        (
            type(G).__name__,
            list(G.nodes(data=True)),
            list(G.edges(data=True)),
            {n: list(G.adj[n]) for n in G},
            dict(G.graph),
        )
    )


print("== rng before", rng_digest())

# ---------------------------------------------------------------- clique
print("== clique_equation")
rnd = random.Random(99)
for tau in range(0, 8):
    for phi in (0.0, 1.0, 0.5, 0.3, 0.123456789, 0.9999, -0.25, 1.5, 1e-9):
        Hs_same = [0.7] * max(tau - 1, 0)
        call("clique same tau=%d phi=%r" % (tau, phi), clique_equation, tau, phi, Hs_same)
        Hs = [rnd.random() for _ in range(max(tau - 1, 0))]
        call("clique diff tau=%d phi=%r Hs=%r" % (tau, phi, Hs), clique_equation, tau, phi, Hs)
        before = list(Hs)
        call("clique diff again", clique_equation, tau, phi, Hs)
        assert before == Hs
# Hs longer / shorter than tau - 1, tuples, dict views, ints, Fractions, numpy
call("clique short Hs", clique_equation, 5, 0.4, [0.2, 0.9])
call("clique long Hs", clique_equation, 3, 0.4, [0.2, 0.9, 0.5, 0.1, 0.33])
call("clique empty Hs", clique_equation, 4, 0.4, [])
call("clique tuple Hs", clique_equation, 4, 0.4, (0.2, 0.9, 0.5))
d = {"a": 0.2, "b": 0.9, "c": 0.5, "d": 0.75}
call("clique dict values", clique_equation, 5, 0.35, d.values())
call("clique dict values again", clique_equation, 5, 0.35, d.values())
print("dict after", d)
call("clique ints", clique_equation, 5, 2, [1, 2, 3, 4])
call("clique int phi float Hs", clique_equation, 4, 1, [0.5, 0.25, 0.125])
call("clique int phi 0", clique_equation, 4, 0, [0.5, 0.25, 0.125])
call(
    "clique fractions",
    clique_equation,
    5,
    Fraction(1, 3),
    [Fraction(1, 2), Fraction(2, 3), Fraction(3, 5), Fraction(5, 7)],
)
call(
    "clique fraction phi float Hs",
    clique_equation,
    4,
    Fraction(2, 7),
    [0.1, 0.2, 0.3],
)
call("clique complex", clique_equation, 4, 0.3 + 0.1j, [0.5j, 1 + 1j, 0.25])
call("clique decimal", clique_equation, 3, Decimal("0.25"), [Decimal("0.5"), Decimal("0.125")])
call("clique np scalars", clique_equation, 4, np.float64(0.3), [np.float64(0.1), np.float32(0.2), np.float64(0.3)])
arrs = [np.array([0.1, 0.2]), np.array([0.3, 0.4]), np.array([0.5, 0.6])]
keep = [a.copy() for a in arrs]
call("clique np arrays", clique_equation, 4, 0.3, arrs)
print("arrays untouched", all((a == b).all() for a, b in zip(arrs, keep)))
arrs2 = [np.array([1, 2]), np.array([0.5, 0.5]), np.array([2, 2])]
keep2 = [a.copy() for a in arrs2]
call("clique np mixed dtype arrays", clique_equation, 4, 0.3, arrs2)
print("arrays2 after", show(arrs2), all((a == b).all() for a, b in zip(arrs2, keep2)))
call("clique np phi array", clique_equation, 3, np.array([0.1, 0.9]), [0.5, 0.25])
call("clique nan inf", clique_equation, 4, float("nan"), [float("inf"), 0.0, -0.0])
call("clique inf phi", clique_equation, 4, float("inf"), [0.5, 0.5, 0.5])
call("clique huge phi", clique_equation, 5, 1e200, [0.5, 0.5, 0.5, 0.5])
call("clique huge Hs", clique_equation, 4, 0.5, [1e200, 1e200, 1e200])
call("clique bool tau", clique_equation, True, 0.5, [0.5])
call("clique np int tau", clique_equation, np.int64(4), 0.5, [0.5, 0.4, 0.3])
call("clique negative tau", clique_equation, -3, 0.5, [0.5])
# error paths
call("clique str phi", clique_equation, 3, "x", [0.5, 0.5])
call("clique str phi tau0", clique_equation, 0, "x", [0.5, 0.5])
call("clique str Hs", clique_equation, 3, 0.5, ["a", "b"])
call("clique str Hs str phi", clique_equation, 3, "x", ["a", "b"])
call("clique None Hs", clique_equation, 3, 0.5, None)
call("clique None Hs tau0", clique_equation, 0, 0.5, None)
call("clique None in Hs", clique_equation, 3, 0.5, [None, 0.5])
call("clique float tau", clique_equation, 3.0, 0.5, [0.5, 0.5])
call("clique None phi", clique_equation, 2, None, [0.5])
call("clique list Hs elements", clique_equation, 3, 0.5, [[1], [2]])
call("clique iterator Hs", clique_equation, 4, 0.5, iter([0.1, 0.2, 0.3]))
call("clique big", clique_equation, 10, 0.37, [0.05 * j + 0.1 for j in range(9)])

# ---------------------------------------------------------------- chordless
print("== chordless_cycle_equation")
for n in range(-2, 14):
    for u in (0.0, 1.0, 0.5, 0.123456789, 0.987654321, -0.5, 3.0):
        for phi in (0.0, 1.0, 0.5, 0.3, 0.77777, 1e-12, -0.2, 2.5):
            call("cyc n=%d u=%r phi=%r" % (n, u, phi), chordless_cycle_equation, n, u, phi)
for n in (0, 1, 2, 3, 4, 7):
    call("cyc ints n=%d" % n, chordless_cycle_equation, n, 2, 3)
    call("cyc int zero n=%d" % n, chordless_cycle_equation, n, 0, 0)
    call("cyc frac n=%d" % n, chordless_cycle_equation, n, Fraction(2, 3), Fraction(3, 7))
    call("cyc complex n=%d" % n, chordless_cycle_equation, n, 0.5 + 0.5j, 0.25 - 0.1j)
    call("cyc decimal n=%d" % n, chordless_cycle_equation, n, Decimal("0.5"), Decimal("0.3"))
    call("cyc np64 n=%d" % n, chordless_cycle_equation, n, np.float64(0.5), np.float64(0.3))
    call("cyc np32 n=%d" % n, chordless_cycle_equation, n, np.float32(0.5), np.float32(0.3))
    ua = np.array([0.1, 0.5, 0.9])
    pa = np.array([0.2, 0.4, 0.6])
    call("cyc arrays n=%d" % n, chordless_cycle_equation, n, ua, pa)
    print("arrays after", show(ua), show(pa))
    call("cyc array u n=%d" % n, chordless_cycle_equation, n, ua, 0.3)
    call("cyc array phi n=%d" % n, chordless_cycle_equation, n, 0.3, pa)
    call("cyc nan n=%d" % n, chordless_cycle_equation, n, float("nan"), 0.5)
    call("cyc inf n=%d" % n, chordless_cycle_equation, n, float("inf"), 0.5)
    call("cyc zero u neg n=%d" % n, chordless_cycle_equation, n, 0.0, 0.5)
    call("cyc huge n=%d" % n, chordless_cycle_equation, n, 1e200, 1e200)
    call("cyc str phi n=%d" % n, chordless_cycle_equation, n, 0.5, "x")
    call("cyc str u n=%d" % n, chordless_cycle_equation, n, "x", 0.5)
    call("cyc str u int phi n=%d" % n, chordless_cycle_equation, n, "x", 2)
    call("cyc str both n=%d" % n, chordless_cycle_equation, n, "x", "y")
    call("cyc None u n=%d" % n, chordless_cycle_equation, n, None, 0.5)
    call("cyc None phi n=%d" % n, chordless_cycle_equation, n, 0.5, None)
call("cyc float n", chordless_cycle_equation, 5.0, 0.5, 0.5)
call("cyc float n str phi", chordless_cycle_equation, 5.0, 0.5, "x")
call("cyc None n", chordless_cycle_equation, None, 0.5, 0.5)
call("cyc bool n", chordless_cycle_equation, True, 0.5, 0.5)
call("cyc np n", chordless_cycle_equation, np.int64(6), 0.5, 0.5)
call("cyc big n", chordless_cycle_equation, 400, 0.99, 0.98)
call("cyc big n overflow", chordless_cycle_equation, 400, 30.0, 30.0)

# ---------------------------------------------------------------- counts
print("== number_of_connected_graphs")


def ncg_case(label, G, ak, i, k):
    before = graph_digest(G)
    akb = repr(ak)
    call(label, number_of_connected_graphs, G, ak, i, k)
    call(label + " (again)", number_of_connected_graphs, G, ak, i, k)
    print("   G unchanged", before == graph_digest(G), "ak unchanged", akb == repr(ak))


tri = nx.Graph([(0, 1), (1, 2), (2, 0)])
for k in range(-1, 5):
    ncg_case("triangle k=%d" % k, tri, [1, 2], 0, k)
    ncg_case("triangle partial k=%d" % k, tri, [1], 0, k)
    ncg_case("triangle no ak k=%d" % k, tri, [], 0, k)
    ncg_case("triangle absent focal k=%d" % k, tri, [], 99, k)
    ncg_case("triangle absent focal ak k=%d" % k, tri, [1, 2], 99, k)

big = nx.Graph()
big.add_edges_from(
    [(0, 1), (1, 2), (2, 3), (3, 0), (0, 2), (3, 4), (4, 5), (5, 3), (1, 5), ("a", 0), ("a", 2), ("a", "b")]
)
big.add_node("iso", colour="red")
big.graph["name"] = "big"
for ak, i in (
    ([1, 2, 3], 0),
    ([1, 2, 3, 4, 5], 0),
    ([2, "a"], 0),
    (["a", "b", 2], 0),
    ((1, 2, 3), 0),
    ({1, 2, 3}, 0),
    ({1: "x", 3: "y"}, 0),
    ([1, 1, 2, 2, 3], 0),
    ([3, 2, 1], 0),
    ([5, 4], 3),
    (["iso"], 0),
    ([1.0, 2.0, 3.0], 0.0),
    ([0, 1, 2, 3, 4, 5, "a", "b", "iso"], 0),
    ([0, 1, 2, 3, 4, 5, "a", "b"], "a"),
):
    for k in range(0, 7):
        ncg_case("big ak=%r i=%r k=%d" % (ak, i, k), big, ak, i, k)

for n in range(0, 6):
    Kn = nx.complete_graph(n)
    s = n * (n - 1) // 2
    for k in range(0, s + 2):
        ncg_case("K%d k=%d" % (n, k), Kn, list(range(1, n)), 0, k)

path = nx.path_graph(6)
cyc = nx.cycle_graph(6)
star = nx.star_graph(5)
for name, G in (("path", path), ("cycle", cyc), ("star", star)):
    for k in range(0, 4):
        ncg_case("%s all k=%d" % (name, k), G, list(G.nodes()), 0, k)
        ncg_case("%s sub k=%d" % (name, k), G, [1, 2, 3], 0, k)

loops = nx.Graph([(0, 1), (1, 2), (2, 0), (0, 0), (2, 2)])
for k in range(0, 6):
    ncg_case("selfloops k=%d" % k, loops, [1, 2], 0, k)

mg = nx.MultiGraph([(0, 1), (0, 1), (1, 2), (2, 0), (2, 0), (2, 3), (1, 1)])
for k in range(0, 8):
    ncg_case("multigraph k=%d" % k, mg, [1, 2], 0, k)
    ncg_case("multigraph all k=%d" % k, mg, [1, 2, 3], 0, k)

dg = nx.DiGraph([(0, 1), (1, 2), (2, 0)])
for k in range(0, 5):
    ncg_case("digraph k=%d" % k, dg, [1, 2], 0, k)
dg2 = nx.DiGraph()
dg2.add_nodes_from([0, 1, 2])
for k in range(0, 3):
    ncg_case("digraph empty k=%d" % k, dg2, [1, 2], 0, k)
mdg = nx.MultiDiGraph([(0, 1), (0, 1), (1, 2)])
for k in range(0, 4):
    ncg_case("multidigraph k=%d" % k, mdg, [1, 2], 0, k)

empty = nx.Graph()
for k in range(-1, 3):
    ncg_case("empty k=%d" % k, empty, [], 0, k)
    ncg_case("empty k=%d ak" % k, empty, [1], 0, k)
single = nx.Graph()
single.add_node(0)
for k in range(-1, 3):
    ncg_case("single k=%d" % k, single, [], 0, k)
two = nx.Graph()
two.add_nodes_from([0, 1])
for k in range(-2, 3):
    ncg_case("two isolated k=%d" % k, two, [1], 0, k)

ncg_case("k float", tri, [1, 2], 0, 1.0)
ncg_case("k float few edges", two, [1], 0, 1.0)
ncg_case("k None", tri, [1, 2], 0, None)
ncg_case("k None few edges", two, [1], 0, None)
ncg_case("k str", tri, [1, 2], 0, "1")
ncg_case("k bool", tri, [1, 2], 0, True)
ncg_case("k bool few", two, [1], 0, True)
ncg_case("k np int", tri, [1, 2], 0, np.int64(1))
ncg_case("k np int few", two, [1], 0, np.int64(1))
ncg_case("k np int neg few", two, [1], 0, np.int64(-1))
ncg_case("k huge", tri, [1, 2], 0, 10 ** 30)
ncg_case("k neg few edges", two, [1], 0, -1)
ncg_case("ak None", tri, None, 0, 1)
ncg_case("ak None only focal", single, None, 0, 0)
ncg_case("ak int", tri, 5, 0, 1)
ncg_case("ak str", nx.Graph([("a", "b"), ("b", "c")]), "abz", "c", 0)
ncg_case("ak iterator", tri, iter([1, 2]), 0, 0)
ncg_case("ak unhashable members", tri, [[1], 1, 2], 0, 1)
ncg_case("i None", tri, [1, 2], None, 0)
call("G None", number_of_connected_graphs, None, [1], 0, 0)
call("G dict", number_of_connected_graphs, {0: 1}, [1], 0, 0)

# graph with attributes; frozen graph
att = nx.Graph()
att.add_edge(0, 1, weight=2.5)
att.add_edge(1, 2, weight=[1, 2])
att.add_edge(2, 0)
att.add_node(7, tag={"x": 1})
ncg_case("attrs", att, [1, 2], 0, 1)
fz = nx.freeze(nx.Graph([(0, 1), (1, 2), (2, 0), (2, 3)]))
ncg_case("frozen", fz, [1, 2], 0, 1)
ncg_case("frozen all", fz, [1, 2, 3], 0, 1)
ncg_case("frozen few edges", fz, [3], 0, 0)

# random graphs
for t in range(12):
    n = random.randint(3, 7)
    p = random.random()
    G = nx.gnp_random_graph(n, p, seed=random.randint(0, 10 ** 6))
    ak = random.sample(list(G.nodes()), random.randint(0, n - 1))
    i = random.choice(list(G.nodes()))
    for k in range(0, 4):
        ncg_case("random %d ak=%r i=%r k=%d" % (t, ak, i, k), G, ak, i, k)

print("== binomial / Q / QQ")
print("cache start", binomial.cache_info(), Q.cache_info(), QQ.cache_info())
for n in range(-2, 9):
    for k in range(-2, 10):
        call("binomial(%d,%d)" % (n, k), binomial, n, k)
call("binomial(True,False)", binomial, True, False)
call("binomial(True,True)", binomial, True, True)
call("binomial(5.0,2)", binomial, 5.0, 2)
call("binomial(5,2.0)", binomial, 5, 2.0)
call("binomial(6,-1)", binomial, 6, -1)
call("binomial(-3,-5)", binomial, -3, -5)
call("binomial(np5,2)", binomial, np.int64(5), 2)
call("binomial(5,np2)", binomial, 5, np.int64(2))
call("binomial('a',2)", binomial, "a", 2)
call("binomial(None,2)", binomial, None, 2)
call("binomial(300,150)", binomial, 300, 150)
call("binomial(Fraction)", binomial, Fraction(6), Fraction(2))
print("cache binomial", binomial.cache_info())

for n in range(-1, 11):
    s = n * (n - 1) // 2
    for k in range(-1, s + 3):
        call("Q(%d,%d)" % (n, k), Q, n, k)
    print("cache after n=%d" % n, Q.cache_info(), binomial.cache_info())
# decreasing order / repeated
for n in (9, 7, 12, 11):
    s = n * (n - 1) // 2
    for k in range(s, n - 3, -1):
        call("Q(%d,%d)" % (n, k), Q, n, k)
    print("cache after n=%d" % n, Q.cache_info(), binomial.cache_info())
call("Q(25,40)", Q, 25, 40)
call("Q(30,29)", Q, 30, 29)
call("Q(30,435)", Q, 30, 435)
call("Q(30,434)", Q, 30, 434)
call("Q(True,0)", Q, True, 0)
call("Q(3,True)", Q, 3, True)
call("Q(4,4.0)", Q, 4, 4.0)
call("Q(5,6.0)", Q, 5, 6.0)
call("Q(5.0,6)", Q, 5.0, 6)
call("Q(np6,8)", Q, np.int64(6), 8)
call("Q(6,np9)", Q, 6, np.int64(9))
call("Q('a',1)", Q, "a", 1)
call("Q(None,1)", Q, None, 1)
call("Q(0,-1)", Q, 0, -1)
call("Q(0,0)", Q, 0, 0)
call("Q(-2,1)", Q, -2, 1)
call("Q(n=5,k=6)", Q, n=5, k=6)
print("cache Q", Q.cache_info(), binomial.cache_info())
Q.cache_clear()
binomial.cache_clear()
call("Q(14,30) cold", Q, 14, 30)
print("cache Q cold", Q.cache_info(), binomial.cache_info())
call("Q(14,30) warm", Q, 14, 30)
print("cache Q warm", Q.cache_info(), binomial.cache_info())

for n in range(0, 6):
    s = n * (n - 1) // 2
    for k in range(-1, s + 2):
        call("QQ(%d,%d)" % (n, k), QQ, n, k)
        call("Q same(%d,%d)" % (n, k), Q, n, k)
checks = [1, 15, 105, 455, 1365, 2997, 4945, 6165, 5700, 3660, 1296, 0, 0, 0, 0, 0]
for j, c in enumerate(checks):
    call("QQ(6,%d) expect %d" % (15 - j, c), QQ, 6, 15 - j)
call("QQ(6,16)", QQ, 6, 16)
call("QQ(3,2) again", QQ, 3, 2)
call("QQ(2.0,1)", QQ, 2.0, 1)
call("QQ(3,1.0)", QQ, 3, 1.0)
call("QQ(3,2.0)", QQ, 3, 2.0)
call("QQ(-1,0)", QQ, -1, 0)
call("QQ(True,0)", QQ, True, 0)
call("QQ('a',0)", QQ, "a", 0)
call("QQ(np4,4)", QQ, np.int64(4), 4)
call("QQ(4,np5)", QQ, 4, np.int64(5))
call("QQ(4,np2)", QQ, 4, np.int64(2))
print("cache QQ", QQ.cache_info(), Q.cache_info(), binomial.cache_info())

# message passing end-to-end, if importable
try:
    from gcmpy.message_passing.message_passing import MessagePassing  # noqa

    print("message_passing importable")
except Exception as e:  # noqa
    print("message_passing import", type(e).__name__)

print("== rng after", rng_digest())
