import sys, os; sys.path.insert(0, os.getcwd())
import hashlib
import random
import traceback

import numpy as np

from gcmpy.tools.joint_excess_from_jdd import JointExcessfromJDD
from gcmpy.tools.joint_degree_from_excess import JointDegreeFromExcess
from gcmpy.tools.average_joint_degree_from_jdd import AverageJointDegreeFromJDD

random.seed(1404)
np.random.seed(1404)

LINES = []


def out(*parts):
    LINES.append(" ".join(str(p) for p in parts))


def exc_chain(e):
    names = []
    seen = 0
    while e is not None and seen < 6:
        names.append(type(e).__name__ + ":" + str(e)[:90])
        e = e.__cause__ or e.__context__
        seen += 1
    return names


def attempt(label, qks_dict, keys):
    try:
        res = JointExcessfromJDD.convert_dict_qks_to_list(qks_dict, keys)
    except BaseException as e:  # noqa
        tb = traceback.extract_tb(e.__traceback__)
        out(label, "EXC", exc_chain(e), "first frames", [f.name for f in tb][:2])
        return None
    idents = None
    try:
        idents = [res[i] is qks_dict[k] for i, k in enumerate(list(keys) if not hasattr(keys, "items_seen") else keys.items_seen)]
    except BaseException as e:  # noqa
        idents = "n/a:" + type(e).__name__
    out(label, "OK", type(res).__name__, len(res), res, "same objects", idents)
    return res


class LoggingKeys:
    """iterable of keys which records how far it was consumed"""

    def __init__(self, items, fail_at=None):
        self.items = list(items)
        self.items_seen = []
        self.fail_at = fail_at
        self.log = []

    def __iter__(self):
        self.log.append("iter")
        for i, x in enumerate(self.items):
            if self.fail_at is not None and i == self.fail_at:
                self.log.append("boom@%d" % i)
                raise RuntimeError("boom at %d" % i)
            self.log.append("yield%d" % i)
            self.items_seen.append(x)
            yield x
        self.log.append("exhausted")

    def __len__(self):
        self.log.append("len")
        return len(self.items)

    def __getitem__(self, i):
        self.log.append("getitem%r" % (i,))
        return self.items[i]


class LoggingDict(dict):
    def __init__(self, *a, **k):
        super().__init__(*a, **k)
        self.log = []

    def __getitem__(self, key):
        self.log.append(("getitem", key))
        return super().__getitem__(key)

    def get(self, key, default=None):
        self.log.append(("get", key))
        return super().get(key, default)

    def __contains__(self, key):
        self.log.append(("contains", key))
        return super().__contains__(key)

    def __missing__(self, key):
        self.log.append(("missing", key))
        raise KeyError(("missing", key))


class DefaultingDict(dict):
    def __missing__(self, key):
        return {"made-for": key}


qa = {(0, 3): 0.25, (4, 1): 0.75}
qb = {(3, 1): 1.0}
qc = {}
D = {"2-clique": qa, "3-clique": qb, "4-clique": qc}

# ---- 1. plain ----------------------------------------------------------------
attempt("all", D, ["2-clique", "3-clique", "4-clique"])
attempt("reordered", D, ["4-clique", "2-clique", "3-clique"])
attempt("subset", D, ["3-clique"])
attempt("repeated-key", D, ["2-clique", "2-clique", "3-clique", "2-clique"])
attempt("no-keys", D, [])
attempt("empty-dict-no-keys", {}, [])
attempt("keys-tuple", D, ("2-clique", "3-clique"))
attempt("keys-dict", D, {"2-clique": 1, "3-clique": 2})
attempt("keys-dict-view", D, D.keys())
attempt("keys-are-the-dict", D, D)
attempt("keys-string", {"a": 1, "b": 2}, "abba")
attempt("keys-generator", D, (k for k in ["3-clique", "2-clique"]))
attempt("keys-set-single", D, {"3-clique"})

# ---- 2. malformed --------------------------------------------------------------
attempt("missing-first", D, ["nope", "2-clique"])
attempt("missing-middle", D, ["2-clique", "nope", "3-clique"])
attempt("missing-last", D, ["2-clique", "3-clique", "nope"])
attempt("empty-dict", {}, ["2-clique"])
attempt("unhashable-key", D, ["2-clique", ["x"], "3-clique"])
attempt("keys-None", D, None)
attempt("keys-int", D, 3)
attempt("dict-None", None, ["a"])
attempt("dict-None-no-keys", None, [])
attempt("dict-is-list", [qa, qb, qc], [2, 0, 1])
attempt("dict-is-list-bad-index", [qa, qb, qc], [0, 5])
attempt("dict-is-list-str-index", [qa, qb, qc], ["a"])
attempt("dict-is-string", "hello", [0, 4, -1])
attempt("dict-is-int", 5, [0])
attempt("defaulting-dict", DefaultingDict(D), ["2-clique", "zz"])

for name, args in [("no-args", ()), ("one-arg", (D,)), ("three-args", (D, [], []))]:
    try:
        out(name, JointExcessfromJDD.convert_dict_qks_to_list(*args))
    except BaseException as e:  # noqa
        out(name, "EXC", exc_chain(e))
try:
    out("keywords", JointExcessfromJDD.convert_dict_qks_to_list(keys=["3-clique"], qks_dict=D))
except BaseException as e:  # noqa
    out("keywords EXC", exc_chain(e))
try:
    out("via instance", JointExcessfromJDD().convert_dict_qks_to_list(D, ["3-clique"]))
except BaseException as e:  # noqa
    out("via instance EXC", exc_chain(e))

# ---- 3. consumption of the arguments ------------------------------------------
for fail_at in (None, 0, 1, 2):
    ks = LoggingKeys(["2-clique", "3-clique", "4-clique"], fail_at=fail_at)
    ld = LoggingDict(D)
    attempt("logging fail_at=%r" % (fail_at,), ld, ks)
    out("  keys log", ks.log)
    out("  dict log", ld.log)
ks = LoggingKeys(["2-clique", "nope", "4-clique"])
ld = LoggingDict(D)
attempt("logging missing", ld, ks)
out("  keys log", ks.log)
out("  dict log", ld.log)
it = iter(["2-clique", "nope", "3-clique", "4-clique"])
attempt("iterator-with-missing", D, it)
out("  left in iterator", list(it))
it = iter(["2-clique", "3-clique"])
attempt("iterator-ok", D, it)
out("  left in iterator", list(it))

# ---- 4. result is a fresh list on every call; arguments untouched --------------
keys = ["2-clique", "3-clique"]
r1 = JointExcessfromJDD.convert_dict_qks_to_list(D, keys)
r2 = JointExcessfromJDD.convert_dict_qks_to_list(D, keys)
out("fresh", r1 is not r2, r1 == r2, type(r1) is list, r1[0] is qa, r2[1] is qb)
r1.append("x")
out("independent", len(r1), len(r2), keys, list(D))

# ---- 5. round trips with the C14 entry points ----------------------------------
for trial in range(300):
    ntop = random.randint(1, 4)
    names = ["t%d" % i for i in range(ntop)]
    jdd = {}
    for _ in range(random.randint(1, 10)):
        jdd[tuple(random.randint(0, 4) for _ in range(ntop))] = random.random()
    tot = sum(jdd.values())
    for k in jdd:
        jdd[k] /= tot
    try:
        qks_list = JointExcessfromJDD.get_joint_excess_distributions(jdd)
    except BaseException as e:  # noqa
        out("rand%d qks EXC" % trial, exc_chain(e))
        continue
    as_dict = JointExcessfromJDD.convert_list_qks_to_dict(qks_list, names)
    order = list(names)
    random.shuffle(order)
    if trial % 9 == 0:
        order.append("absent")
    if trial % 10 == 0:
        order = order[:-1]
    back = attempt("rand%d" % trial, as_dict, order)
    if back is not None and order == names:
        out("rand%d identity" % trial, all(a is b for a, b in zip(back, qks_list)), back == qks_list)
    back_all = JointExcessfromJDD.convert_dict_qks_to_list(as_dict, names)
    out("rand%d roundtrip" % trial, back_all == qks_list, all(a is b for a, b in zip(back_all, qks_list)))
    out("rand%d mean" % trial, AverageJointDegreeFromJDD.get_average_joint_degrees(jdd))
    try:
        out("rand%d inverted" % trial, JointDegreeFromExcess.get_joint_degree_distribution(as_dict, names))
    except BaseException as e:  # noqa
        out("rand%d inverted EXC" % trial, exc_chain(e))

# ---- digest ----------------------------------------------------------------
out("random.getstate", hashlib.sha256(repr(random.getstate()).encode()).hexdigest())
st = np.random.get_state()
out("numpy state", hashlib.sha256(repr((st[0], st[1].tolist(), st[2], st[3], st[4])).encode()).hexdigest())
body = "\n".join(LINES)
print(body)
print("DIGEST", hashlib.sha256(body.encode()).hexdigest())
