"""
Behavioural digest of the EXISTING API of
  gcmpy/tools/markov_chain_monte_carlo_rewiring.py, draw_set.py, proposal_edge.py
Run with cwd = a checkout of gcmpy. Uses only what the original code offers.
"""
import sys
import os
import hashlib
import logging
import random
import warnings

warnings.simplefilter("ignore")
sys.path.insert(0, os.getcwd())

import numpy as np
import networkx as nx

from gcmpy.joint_degree.joint_degree_loaders.joint_degree_manual import (
    JointDegreeManual,
)
from gcmpy.motif_generators.clique_motif import clique_motif
from gcmpy.gcm_algorithm.gcm_algorithm_network import GCMAlgorithmNetwork
from gcmpy.names.gcm_algorithm_names import GCMAlgorithmNames
from gcmpy.names.joint_degree_names import JointDegreeNames
from gcmpy.names.tools_names import ToolsNames
from gcmpy.names.network_names import NetworkNames
from gcmpy.network.network import Network
from gcmpy.tools.joint_excess_joint_degree_matrices import (
    JointExcessJointDegreeMatrices,
)
from gcmpy.tools.markov_chain_monte_carlo_rewiring import (
    MarkovChainMonteCarloRewiring,
    ErrorMarkovChainMonteCarloRewiring,
)
from gcmpy.tools.markov_chain_monte_carlo import MarkovChainMonteCarlo
from gcmpy.tools.joint_excess_from_ejk import JointExcessFromEjk
from gcmpy.tools.joint_degree_from_excess import JointDegreeFromExcess
from gcmpy.tools.joint_excess_joint_degree import JointExcessJointDegree
from gcmpy.tools.draw_set import DrawSet
from gcmpy.tools.proposal_edge import ProposalEdge

JD = NetworkNames.JOINT_DEGREE
TOP = NetworkNames.TOPOLOGY
MID = NetworkNames.MOTIF_IDS
EDGE_NAMES = ["2-clique", "3-clique"]
MOTIF_SIZES = [2, 3]


def h(obj) -> str:
    return hashlib.sha256(repr(obj).encode()).hexdigest()[:20]


def rng_state() -> str:
    return "py=" + h(random.getstate()) + " np=" + h(
        [x.tolist() if hasattr(x, "tolist") else x for x in np.random.get_state()]
    )


def out(*a):
    print(*a)


def graph_digest(G: nx.Graph, full: bool = False):
    nodes = [(n, sorted((k.name, repr(v)) for k, v in d.items())) for n, d in G.nodes(data=True)]
    edges = [
        (u, v, sorted((k.name, repr(x)) for k, x in d.items()))
        for u, v, d in G.edges(data=True)
    ]
    adj = [(n, list(G.adj[n])) for n in G.nodes()]
    if full:
        return repr((nodes, edges, adj))
    return "n=%d m=%d nodes=%s edges=%s adj=%s" % (
        G.number_of_nodes(),
        G.number_of_edges(),
        h(nodes),
        h(edges),
        h(adj),
    )


def invariants(G0: nx.Graph, G1: nx.Graph):
    """quantities of the documented property, printed for both graphs"""
    res = []
    for G in (G0, G1):
        per_vertex = {}
        for u, v, d in G.edges(data=True):
            for x in (u, v):
                key = (x, d[TOP])
                per_vertex[key] = per_vertex.get(key, 0) + 1
        motifs = {}
        for u, v, d in G.edges(data=True):
            motifs.setdefault(d[MID], []).append(tuple(sorted((u, v))))
        shapes = {}
        for m, es in motifs.items():
            vs = set(x for e in es for x in e)
            k = (len(vs), len(es), len(set(es)))
            shapes[k] = shapes.get(k, 0) + 1
        res.append(
            (
                h(sorted(per_vertex.items())),
                sorted(shapes.items()),
                nx.number_of_selfloops(G),
            )
        )
    return res


def mcmc_state(m: MarkovChainMonteCarloRewiring):
    return (
        "conv=%r search=%r acc_ratio=%s pc=%r pa=%r cls_pc=%r cls_pa=%r sub_pc=%r pes=%s"
        % (
            m._convergence_limit,
            m._search_limit,
            h([repr(x) for x in m._acceptance_ratio]) + ":" + str(len(m._acceptance_ratio)),
            m._proposal_count,
            m._proposals_accepted,
            MarkovChainMonteCarlo._proposal_count,
            MarkovChainMonteCarlo._proposals_accepted,
            MarkovChainMonteCarloRewiring._proposal_count,
            h([(p._topology, p._motif_id, p._new_edge, p.topology, p.motif_id, p.new_edge) for p in m._proposal_edges])
            + ":" + str(len(m._proposal_edges)),
        )
    )


def attempt(label, fn):
    try:
        r = fn()
        out(label, "->", repr(r))
        return r
    except BaseException as e:  # noqa
        out(label, "!!", type(e).__name__, repr(str(e)))
        return None


class ListHandler(logging.Handler):
    def __init__(self):
        super().__init__(level=0)
        self.msgs = []

    def emit(self, record):
        self.msgs.append((record.levelname, record.getMessage()))


# --------------------------------------------------------------------------
out("== ProposalEdge")
p = ProposalEdge()
out(p.topology, p.motif_id, p.new_edge, sorted(vars(p).items()))
p.topology = "3-clique"
p.motif_id = 7
p.new_edge = (1, 2)
out(p.topology, p.motif_id, p.new_edge, sorted(vars(p).items()))
p._new_edge = (2, 1)
out(p.new_edge, p == ProposalEdge(), p == p, hash(p) == hash(p))

# --------------------------------------------------------------------------
out("== DrawSet")
random.seed(11)
np.random.seed(11)
ds = DrawSet()
attempt("draw empty", lambda: ds.draw())
attempt("remove missing", lambda: ds.remove((0, 1)))
out(len(ds), list(ds), (0, 1) in ds, rng_state())
for e in [(0, 1), (1, 2), (0, 1), (2, 3), (3, 4), (4, 5), (1, 2)]:
    ds.add(e)
out(len(ds), list(ds), sorted(ds._edge_hashmap.items()), (0, 1) in ds, (1, 0) in ds)
out([ds.draw() for _ in range(12)], rng_state())
ds.remove((0, 1))
out(len(ds), list(ds), sorted(ds._edge_hashmap.items()))
ds.remove((0, 1)) if (0, 1) in ds else out("gone")
ds.remove(list(ds)[-1])
out(len(ds), list(ds), sorted(ds._edge_hashmap.items()))
attempt("remove twice", lambda: ds.remove((0, 1)))
out(len(ds), list(ds), sorted(ds._edge_hashmap.items()))
ds.add((9, 9))
ds.add((0, 1))
out([ds.draw() for _ in range(7)], list(ds), rng_state())
while len(ds):
    ds.remove(ds.draw())
    out(list(ds), sorted(ds._edge_hashmap.items()))
attempt("draw emptied", lambda: ds.draw())
out(rng_state())

# --------------------------------------------------------------------------
out("== constructor")


def small_network():
    """hand built network: triangles and lines with consistent annotations"""
    motifs = [
        ("3-clique", (0, 1, 2)),
        ("3-clique", (3, 4, 5)),
        ("3-clique", (6, 7, 8)),
        ("3-clique", (9, 12, 13)),
        ("2-clique", (0, 9)),
        ("2-clique", (3, 10)),
        ("2-clique", (6, 11)),
        ("2-clique", (9, 10)),
        ("2-clique", (1, 11)),
        ("2-clique", (4, 7)),
        ("2-clique", (12, 5)),
        ("2-clique", (13, 14)),
        ("2-clique", (14, 2)),
    ]
    net = Network()
    jd = {}
    for mid, (top, vs) in enumerate(motifs):
        for x in vs:
            jd.setdefault(x, [0, 0])[EDGE_NAMES.index(top)] += 1
        for i in range(len(vs)):
            for j in range(i + 1, len(vs)):
                net.G.add_edge(vs[i], vs[j])
                net.G.edges[vs[i], vs[j]][TOP] = top
                net.G.edges[vs[i], vs[j]][MID] = mid
    for x in sorted(jd):
        net.G.nodes[x][JD] = tuple(jd[x])
    return net


def small_ejks(net: Network, variant: int):
    """deterministic mixing matrices with some zeros and some missing keys"""
    ejk = {}
    for ti, top in enumerate(EDGE_NAMES):
        keys = set()
        for n in net.G.nodes():
            k = list(net.G.nodes[n][JD])
            if k[ti] > 0:
                k[ti] -= 1
                keys.add(tuple(k))
        keys = sorted(keys)
        d = {}
        for i, a in enumerate(keys):
            for j, b in enumerate(keys):
                if variant == 1 and (i + 2 * j) % 7 == 3:
                    continue
                val = ((i * 7 + j * 3 + ti) % 5) / 10.0 if variant == 1 else (1.0 + i + j) / 37.0
                d[a + b] = val
        ejk[top] = d
    return JointExcessJointDegreeMatrices(
        {ToolsNames.EJKS: ejk, ToolsNames.EDGE_NAMES: EDGE_NAMES}
    )


H = small_network()
out("H", graph_digest(H.G, full=True))

attempt("ctor None", lambda: MarkovChainMonteCarloRewiring(None))
attempt("ctor {}", lambda: MarkovChainMonteCarloRewiring({}))
attempt("ctor no ejks", lambda: MarkovChainMonteCarloRewiring({ToolsNames.NETWORK: H}))
attempt(
    "ctor graph as network",
    lambda: MarkovChainMonteCarloRewiring({ToolsNames.NETWORK: H.G, ToolsNames.EJKS: 1}),
)
attempt("ctor no args", lambda: MarkovChainMonteCarloRewiring())
E1 = small_ejks(H, 1)
E2 = small_ejks(H, 2)
out("E1", h(sorted((t, sorted(d.items())) for t, d in E1.ejks.items())))
out("E2", h(sorted((t, sorted(d.items())) for t, d in E2.ejks.items())))
m0 = MarkovChainMonteCarloRewiring({ToolsNames.NETWORK: H, ToolsNames.EJKS: E1})
out("defaults", mcmc_state(m0), m0.network is H, m0.ejks is E1, m0.convergence_limit, m0.search_limit)
m0b = MarkovChainMonteCarloRewiring(
    {
        ToolsNames.NETWORK: H,
        ToolsNames.EJKS: E1,
        ToolsNames.SEARCH_LIMIT: 3,
        ToolsNames.CONVERGENCE_LIMIT: 4,
        "unrelated": 5,
    }
)
out("explicit", mcmc_state(m0b))
m0b.search_limit = 6
m0b.convergence_limit = 8
m0b.ejks = E2
m0b.network = None
out("setters", mcmc_state(m0b), m0b.network, m0b.ejks is E2)
attempt("rewire no network", lambda: m0b.rewire())
gm = MarkovChainMonteCarloRewiring(
    {ToolsNames.NETWORK: H.G, ToolsNames.EJKS: E1, ToolsNames.CONVERGENCE_LIMIT: 4}
)
attempt("rewire graph as network", lambda: gm.rewire())
out(rng_state())

# --------------------------------------------------------------------------
out("== helper methods on hand built network")
random.seed(5)
np.random.seed(5)
for E, name in ((E1, "E1"), (E2, "E2")):
    m = MarkovChainMonteCarloRewiring({ToolsNames.NETWORK: H, ToolsNames.EJKS: E})
    handler = ListHandler()
    m._logger.addHandler(handler)
    G = H.G
    out(name, "get_other_vertex", m.get_other_vertex(0, (0, 1)), m.get_other_vertex(1, (0, 1)),
        m.get_other_vertex(1, (1, 1)))
    attempt("get_other_vertex bad", lambda: m.get_other_vertex(5, (0, 1)))
    attempt("get_hashmap missing edge", lambda: m.get_hashmap(G, [(0, 1), (0, 14)]))
    attempt("get_hashmap empty", lambda: m.get_hashmap(G, []))
    attempt("get_all_edges missing edge", lambda: m.get_all_edges(G, 0, (0, 14)))
    attempt("get_all_edges foreign vertex", lambda: m.get_all_edges(G, 7, (0, 1)))
    all_edges = list(G.edges())
    for e in all_edges:
        for u0 in e:
            es = m.get_all_edges(G, u0, e)
            hm = m.get_hashmap(G, es + es[:1])
            out("gae", e, u0, es, [(k, v) for k, v in hm.items()])
    for e in all_edges:
        for idx in (0, 1):
            out("jek", e, idx, m.get_joint_excess_degree_key(G, e, idx))
    kv = m.get_swapped_joint_excess_degree_key(G, (0, 1), (4, 3), 0, 3, 1)
    out("kv", kv._keys, kv.get_u0v1(), kv.get_v0u1(), kv.get_u0u1(), kv.get_v1v0())
    attempt("kv bad", lambda: m.get_swapped_joint_excess_degree_key(G, (0, 1), (4, 3), 2, 3, 1))
    m.append_proposal_edges(G, 0, (0, 1), (4, 0))
    m.append_proposal_edges(G, 9, (0, 9), (9, 3))
    attempt("append bad", lambda: m.append_proposal_edges(G, 5, (0, 9), (9, 3)))
    attempt("append missing old", lambda: m.append_proposal_edges(G, 0, (0, 14), (0, 3)))
    out("append", mcmc_state(m), [(p.topology, p.motif_id, p.new_edge) for p in m._proposal_edges])

    before = graph_digest(G, full=True)
    n_suit = 0
    for e0 in all_edges:
        for u0 in e0:
            e0s = m.get_all_edges(G, u0, e0)
            for e1 in all_edges:
                for v0 in e1:
                    e1s = m.get_all_edges(G, v0, e1)
                    try:
                        suit = m.is_edge_choice_suitable(G, u0, v0, e0s, e1s)
                    except BaseException as ex:  # noqa
                        suit = "EXC %s %r" % (type(ex).__name__, str(ex))
                    try:
                        sc = m.swap_condition(G, e0s, e1s, u0, v0)
                    except BaseException as ex:  # noqa
                        sc = "EXC %s %r" % (type(ex).__name__, str(ex))
                    n_suit += suit is True
                    out(
                        "pair", e0, u0, e1, v0, suit, sc,
                        [(p._topology, p._motif_id, p._new_edge) for p in m._proposal_edges],
                        e0s, e1s,
                    )
    out(name, "suitable", n_suit, "unchanged", before == graph_digest(G, full=True))
    out(name, "state", mcmc_state(m), rng_state())
    out(name, "log", len(handler.msgs), h(handler.msgs))
    # keyword call of the existing signature, odd inputs
    attempt("swap kw", lambda: m.swap_condition(G=G, e0s=[(0, 1), (0, 2)], e1s=[(3, 4), (3, 5)], u0=0, v0=3))
    attempt("swap empty", lambda: m.swap_condition(G, [], [], 0, 3))
    attempt("swap uneven", lambda: m.swap_condition(G, [(0, 1), (0, 2)], [(3, 4)], 0, 3))
    attempt("swap uneven 2", lambda: m.swap_condition(G, [(0, 1)], [(3, 4), (3, 5)], 0, 3))
    attempt("swap mixed", lambda: m.swap_condition(G, [(0, 1), (0, 9)], [(3, 4), (3, 10)], 0, 3))
    attempt("suitable uneven", lambda: m.is_edge_choice_suitable(G, 0, 3, [(0, 1)], [(3, 4), (3, 5)]))
    attempt("suitable empty", lambda: m.is_edge_choice_suitable(G, 0, 3, [], []))
    out(name, "state2", mcmc_state(m), rng_state(), len(handler.msgs), h(handler.msgs))

# --------------------------------------------------------------------------
out("== rewire on generated networks")

eps = 1e-8
ejk_tree_assorted = {
    (0, 3, 0, 3): 9 / 81 - eps - eps,
    (0, 3, 4, 1): eps,
    (0, 3, 2, 2): eps,
    (4, 1, 0, 3): eps,
    (4, 1, 4, 1): 45 / 81 - eps - eps,
    (4, 1, 2, 2): eps,
    (2, 2, 0, 3): eps,
    (2, 2, 4, 1): eps,
    (2, 2, 2, 2): 27 / 81 - eps - eps,
}
ejk_triangle_assorted = {
    (3, 1, 3, 1): 48 / 144 - eps - eps,
    (3, 1, 1, 2): eps,
    (3, 1, 5, 0): eps,
    (1, 2, 3, 1): eps,
    (1, 2, 1, 2): 72 / 144 - eps - eps,
    (1, 2, 5, 0): eps,
    (5, 0, 3, 1): eps,
    (5, 0, 1, 2): eps,
    (5, 0, 5, 0): 24 / 144 - eps - eps,
}
ejk_target = JointExcessJointDegreeMatrices(
    {
        ToolsNames.EDGE_NAMES: EDGE_NAMES,
        ToolsNames.EJKS: {"2-clique": ejk_tree_assorted, "3-clique": ejk_triangle_assorted},
    }
)
# a flatter target (much higher acceptance)
flat = JointExcessJointDegreeMatrices(
    {
        ToolsNames.EDGE_NAMES: EDGE_NAMES,
        ToolsNames.EJKS: {
            "2-clique": {k: 1.0 / 9 + 0.01 * i for i, k in enumerate(ejk_tree_assorted)},
            "3-clique": {k: 1.0 / 9 - 0.01 * i for i, k in enumerate(ejk_triangle_assorted)},
        },
    }
)


def make_network(n: int, seed: int) -> Network:
    random.seed(seed)
    np.random.seed(seed)
    qks = JointExcessFromEjk.get_excess_joint_distributions(ejk_target)
    jdd = JointDegreeFromExcess.get_joint_degree_distribution(qks, EDGE_NAMES)
    jds = JointDegreeManual(
        {JointDegreeNames.JDD: jdd, JointDegreeNames.MOTIF_SIZES: MOTIF_SIZES}
    ).sample_jds_from_jdd(n)
    return GCMAlgorithmNetwork(
        {
            GCMAlgorithmNames.MOTIF_SIZES: MOTIF_SIZES,
            GCMAlgorithmNames.EDGE_NAMES: EDGE_NAMES,
            GCMAlgorithmNames.BUILD_FUNCTIONS: [clique_motif, clique_motif],
        }
    ).random_clustered_graph(jds)


def run(label, net, params, seed, preset=None, repeat=1, log=False):
    random.seed(seed)
    np.random.seed(seed)
    m = MarkovChainMonteCarloRewiring(params)
    handler = None
    if log:
        handler = ListHandler()
        m._logger.addHandler(handler)
    if preset:
        m._proposal_count, m._proposals_accepted = preset
    orig = graph_digest(net.G, full=True) if net is not None else None
    for r in range(repeat):
        try:
            G = m.rewire()
            out(label, r, "result", graph_digest(G), G is net.G)
            out(label, r, "invariants", invariants(net.G, G))
        except BaseException as ex:  # noqa
            out(label, r, "!!", type(ex).__name__, repr(str(ex)))
        out(label, r, "state", mcmc_state(m), [repr(x) for x in m._acceptance_ratio[:5]])
        out(label, r, "rng", rng_state())
        out(label, r, "input unchanged", orig == graph_digest(net.G, full=True))
        if handler is not None:
            out(label, r, "log", len(handler.msgs), h(handler.msgs))
    return m


for n, seed in ((300, 1), (120, 2)):
    net = make_network(n, seed)
    out("net", n, seed, graph_digest(net.G), rng_state())
    exp = JointExcessJointDegree(
        {ToolsNames.NETWORK: net.G, ToolsNames.EDGE_NAMES: EDGE_NAMES}
    ).get_ejks()
    out("exp", h(sorted((t, sorted(d.items())) for t, d in exp.ejks.items())))
    base = {ToolsNames.NETWORK: net, ToolsNames.EJKS: ejk_target}

    run("A%d" % n, net, {**base, ToolsNames.SEARCH_LIMIT: 20, ToolsNames.CONVERGENCE_LIMIT: 60},
        21, repeat=2, log=True)
    run("B%d" % n, net, {**base, ToolsNames.CONVERGENCE_LIMIT: 120}, 22, preset=(3, 1))
    run("C%d" % n, net, {**base, ToolsNames.CONVERGENCE_LIMIT: -1}, 23, preset=(3, 1))
    run("D%d" % n, net, {**base, ToolsNames.CONVERGENCE_LIMIT: 0, ToolsNames.SEARCH_LIMIT: 1}, 24)
    run("E%d" % n, net, {**base, ToolsNames.CONVERGENCE_LIMIT: 40, ToolsNames.SEARCH_LIMIT: 2}, 25, log=True)
    run("F%d" % n, net, {ToolsNames.NETWORK: net, ToolsNames.EJKS: exp, ToolsNames.CONVERGENCE_LIMIT: 150},
        26, preset=(7, 2), repeat=2)
    run("G%d" % n, net, {ToolsNames.NETWORK: net, ToolsNames.EJKS: flat, ToolsNames.CONVERGENCE_LIMIT: 400,
                          ToolsNames.SEARCH_LIMIT: 50}, 27, preset=(10, 3))

# optional limits left to their defaults (10 * edges accepted swaps)
net = make_network(40, 3)
out("net default", graph_digest(net.G))
run("H40", net, {ToolsNames.NETWORK: net, ToolsNames.EJKS: flat}, 31, preset=(2, 1), repeat=2)

# rewiring the output of a rewiring, via a fresh Network and via the setter
random.seed(41)
np.random.seed(41)
net = make_network(150, 4)
m = MarkovChainMonteCarloRewiring(
    {ToolsNames.NETWORK: net, ToolsNames.EJKS: flat, ToolsNames.CONVERGENCE_LIMIT: 80}
)
G1 = m.rewire()
net2 = Network()
net2.G = G1
m.network = net2
m.convergence_limit = 90
m.search_limit = 7
g1 = graph_digest(G1, full=True)
G2 = m.rewire()
out("chain", graph_digest(G1), graph_digest(G2), g1 == graph_digest(G1, full=True))
out("chain invariants", invariants(net.G, G2))
out("chain state", mcmc_state(m), rng_state())

# error paths of rewire
empty = Network()
attempt(
    "rewire empty",
    lambda: MarkovChainMonteCarloRewiring(
        {ToolsNames.NETWORK: empty, ToolsNames.EJKS: flat}
    ).rewire(),
)
bare = Network()
bare.add_edges_from([(0, 1), (1, 2)])
attempt(
    "rewire unannotated",
    lambda: MarkovChainMonteCarloRewiring(
        {ToolsNames.NETWORK: bare, ToolsNames.EJKS: flat}
    ).rewire(),
)
attempt(
    "rewire bad ejks",
    lambda: MarkovChainMonteCarloRewiring(
        {ToolsNames.NETWORK: net, ToolsNames.EJKS: None, ToolsNames.CONVERGENCE_LIMIT: 5}
    ).rewire(),
)
attempt(
    "rewire str limit",
    lambda: MarkovChainMonteCarloRewiring(
        {ToolsNames.NETWORK: net, ToolsNames.EJKS: flat, ToolsNames.CONVERGENCE_LIMIT: "5"}
    ).rewire(),
)
out("final", rng_state(), MarkovChainMonteCarlo._proposal_count, MarkovChainMonteCarlo._proposals_accepted)
