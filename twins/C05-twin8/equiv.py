import sys, os; sys.path.insert(0, os.getcwd())

import hashlib
import random
import warnings

warnings.simplefilter("ignore")

import numpy as np

from gcmpy.joint_degree.joint_degree import JointDegree
from gcmpy.joint_degree.joint_degree_distribution import JointDegreeDistribution
from gcmpy.joint_degree.joint_degree_loaders.joint_degree_manual import JointDegreeManual
from gcmpy.joint_degree.joint_degree_loaders.joint_degree_empirical import JointDegreeEmpirical
from gcmpy.joint_degree.joint_degree_loaders.joint_degree_split_degree import JointDegreeSplitDegree
from gcmpy.joint_degree.joint_degree_loaders.joint_degree_delta import JointDegreeDelta
from gcmpy.joint_degree.joint_degree_loaders.joint_degree_cover import JointDegreeCover
from gcmpy.joint_degree.joint_degree_loaders.joint_degree_marginal import JointDegreeMarginal
from gcmpy.joint_degree.joint_degree_loaders.joint_degree_function import JointDegreeFunction
from gcmpy.names.joint_degree_names import JointDegreeNames as N

LINES = []


def emit(*parts):
    line = " | ".join(str(p) for p in parts)
    LINES.append(line)
    print(line)


def rng():
    return hashlib.sha256(repr(random.getstate()).encode()).hexdigest()[:16]


def nprng():
    s = np.random.get_state()
    return hashlib.sha256(repr((s[0], s[1].tolist(), s[2:])).encode()).hexdigest()[:16]


def desc(x):
    """repr with element types (bit-exact floats via repr)"""
    if isinstance(x, dict):
        return "{" + ", ".join(f"{desc(k)}: {desc(v)}" for k, v in x.items()) + "}"
    if isinstance(x, (list, tuple)):
        inner = ", ".join(desc(e) for e in x)
        return f"{type(x).__name__}({inner})"
    return f"{type(x).__name__}:{x!r}"


def attempt(label, fn):
    try:
        out = fn()
        emit(label, "ok", desc(out), "rng", rng())
        return out
    except BaseException as e:  # noqa
        emit(label, "EXC", type(e).__name__, "rng", rng())
        return None


def manual(jdd, sizes):
    return JointDegreeManual({N.JDD: jdd, N.MOTIF_SIZES: sizes})


# ---------------------------------------------------------------- __new__
random.seed(2026)
np.random.seed(2026)
attempt("new/abstract", lambda: JointDegree())
attempt("new/abstract-args", lambda: JointDegree(1, a=2))
m = manual({(1,): 1.0}, [2])
emit("new/manual", type(m).__name__, type(m).__mro__[1].__name__, m._type)

# ---------------------------------------------------------------- sample_jds_from_jdd / handshaking_lemma
CASES = [
    ("delta-even", {(2,): 1.0}, [2]),
    ("delta-odd", {(1,): 1.0}, [2]),
    ("evens", {(2,): 0.5, (4,): 0.3, (6,): 0.2}, [2]),
    ("mixed1", {(1,): 0.2, (2,): 0.5, (3,): 0.3}, [2]),
    ("edges+tri", {(2, 3): 3, (4, 0): 2, (0, 6): 5}, [2, 3]),
    ("edges+tri-odd", {(1, 1): 3, (2, 0): 2, (0, 2): 5, (3, 1): 1}, [2, 3]),
    ("three", {(1, 0, 2): 0.3, (0, 1, 1): 0.3, (2, 2, 0): 0.4}, [2, 3, 4]),
    ("size1", {(1,): 0.5, (2,): 0.25, (3,): 0.25}, [1]),
    ("size5", {(1,): 0.5, (2,): 0.25, (3,): 0.25}, [5]),
    ("zeros", {(0, 0): 1.0}, [2, 3]),
    ("int-weights", {(1, 2): 1, (3, 4): 2}, [2, 3]),
    ("float-degree-div", {(2.0,): 1.0}, [2]),
    ("float-degree-nondiv", {(1.0,): 1.0}, [2]),
    ("np-degree", {(np.int64(1), np.int64(2)): 0.5, (np.int64(2), np.int64(1)): 0.5}, [2, 3]),
    ("more-sizes-than-tops", {(1,): 1.0}, [2, 3]),
    ("fewer-sizes-than-tops", {(1, 1): 1.0}, [2]),
    ("ragged", {(1, 1): 0.5, (1, 1, 1): 0.5}, [2, 3, 4]),
    ("zero-size", {(1,): 1.0}, [0]),
    ("neg-degree", {(-3,): 1.0}, [2]),
    ("empty-jdd", {}, [2]),
    ("zero-weights", {(1,): 0.0, (2,): 0.0}, [2]),
    ("neg-weights", {(1,): -1.0, (2,): 2.0}, [2]),
    ("sizes-tuple", {(1, 2): 0.5, (2, 2): 0.5}, (2, 3)),
    ("empty-tuples", {(): 1.0}, [2]),
]
for seed in (0, 1, 7, 12345):
    for name, jdd, sizes in CASES:
        for n in (0, 1, 2, 9, 50):
            random.seed(seed * 1000 + n)
            np.random.seed(seed)
            obj = manual(dict(jdd), sizes)
            label = f"sample/{name}/seed{seed}/N{n}"
            attempt(label, lambda: obj.sample_jds_from_jdd(n))
            emit(label, "jdd-after", desc(obj.jdd), "sizes", desc(obj.motif_sizes), "nprng", nprng())
            # repeated calls on the same object, no reseeding
            attempt(label + "/again", lambda: obj.sample_jds_from_jdd(n))
            attempt(label + "/again2", lambda: obj.sample_jds_from_jdd(n + 1))

# bad N values / jdd unset / non-dict jdd
for n in (-1, 2.0, None, "3"):
    random.seed(3)
    obj = manual({(1,): 0.5, (2,): 0.5}, [2])
    attempt(f"sample/badN/{n!r}", lambda: obj.sample_jds_from_jdd(n))
random.seed(4)
obj = manual(None, [2])
attempt("sample/jdd-None", lambda: obj.sample_jds_from_jdd(3))
obj = manual({(1,): 1.0}, None)
attempt("sample/sizes-None", lambda: obj.sample_jds_from_jdd(3))
obj = manual({(1,): 1.0}, [2])
obj.jdd = {}
attempt("sample/jdd-set-empty", lambda: obj.sample_jds_from_jdd(3))
attempt("sample/jdd-set-empty/N0", lambda: obj.sample_jds_from_jdd(0))
obj.jdd = {(3, 1): 0.25, (1, 1): 0.75}
obj.motif_sizes = [2, 3]
attempt("sample/jdd-reset", lambda: obj.sample_jds_from_jdd(11))

# handshaking_lemma called directly: in-place semantics, entry types, identity
HS = [
    ("tuples-odd", [(1, 1), (2, 0), (0, 1)], [2, 3]),
    ("tuples-div", [(1, 3), (2, 0), (1, 0)], [2, 3]),
    ("lists", [[1, 1], [2, 0], [0, 1]], [2, 3]),
    ("lists-div", [[1, 3], [2, 0], [1, 0]], [2, 3]),
    ("mixed-entries", [(1, 1), [2, 0], (0, 1)], [2, 3]),
    ("np-rows", [np.array([1, 1]), np.array([2, 0]), np.array([0, 1])], [2, 3]),
    ("empty", [], [2, 3]),
    ("single", [(1, 2, 3)], [2, 3, 4]),
    ("single-div", [(2, 3, 4)], [2, 3, 4]),
    ("ragged", [(1, 1, 1), (1, 1)], [2, 3, 4]),
    ("floats-div", [(2.0, 3.0)], [2, 3]),
    ("floats-nondiv", [(1.0, 3.0)], [2, 3]),
    ("float-size", [(1, 3)], [2.0, 3]),
    ("bools", [(True, False), (True, True)], [2, 3]),
    ("big", [(i % 5, i % 7, i % 3) for i in range(101)], [2, 3, 4]),
    ("size1", [(1, 2), (3, 4)], [1, 1]),
    ("zero-size", [(1, 2)], [0, 3]),
    ("short-sizes", [(1, 2)], [2]),
    ("strings", ["ab", "cd"], [2, 2]),
    ("none-entry", [(1,), None], [2]),
    ("tuple-jds", ((1, 1), (2, 0)), [2, 3]),
    ("tuple-jds-div", ((1, 3), (1, 0)), [2, 3]),
]
for seed in (0, 5, 99):
    for name, jds, sizes in HS:
        random.seed(seed)
        obj = manual({(1,): 1.0}, sizes)
        arg = [e.copy() if isinstance(e, (list, np.ndarray)) else e for e in jds] if isinstance(jds, list) else jds
        inner_before = [id(e) for e in arg]
        label = f"hs/{name}/seed{seed}"
        out = attempt(label, lambda: obj.handshaking_lemma(arg))
        emit(label, "same-object", out is arg, "arg-after",
             desc([tuple(e.tolist()) if isinstance(e, np.ndarray) else e for e in arg])
             if isinstance(arg, list) else desc(arg),
             "untouched-kept-identity",
             [id(e) == b for e, b in zip(arg, inner_before)] if len(arg) < 10 else "-")
        # second call on the now-consistent sequence must be a no-op
        out2 = attempt(label + "/again", lambda: obj.handshaking_lemma(arg))

# ---------------------------------------------------------------- normalise_jdd
NORM = [
    {(1,): 1, (2,): 3},
    {(1,): 0.1, (2,): 0.2, (3,): 0.3},
    {(1, 2): 1e-300, (2, 1): 1e300, (0, 0): 3.3},
    {(1,): 0, (2,): 0},
    {(1,): 0.0, (2,): 0.0},
    {},
    {(1,): np.float64(0.25), (2,): np.float64(0.5)},
    {(1,): "a"},
    {(1,): 2, (2,): -2},
    {(1,): 1 / 3, (2,): 1 / 7, (3,): 1 / 11, (4,): 1 / 13},
]
for i, jdd in enumerate(NORM):
    d = dict(jdd)
    obj = manual(d, [2])
    random.seed(i)
    attempt(f"norm/{i}", lambda: obj.normalise_jdd())
    emit(f"norm/{i}", "same-dict", obj.jdd is d, "jdd", desc(d))
    attempt(f"norm/{i}/again", lambda: obj.normalise_jdd())
    emit(f"norm/{i}/again", "jdd", desc(d))
obj = manual(None, [2])
attempt("norm/None", lambda: obj.normalise_jdd())

# ---------------------------------------------------------------- convert_jds_to_jdd
CONV = [
    [(1, 2), (1, 2), (2, 1), (3, 3), (1, 2), (2, 1), (0, 0)],
    [(1,), (2,), (3,)],
    [(1,)] * 7,
    [],
    [(1, 2), [1, 2]],          # unhashable entry
    [[1, 2]],
    ((1, 2), (2, 1), (1, 2)),  # tuple of tuples
    "aab",
    [1, 1.0, True, 2],
    None,
    iter([(1,), (2,)]),
    [(i % 3, i % 2) for i in range(97)],
]
for i, jds in enumerate(CONV):
    old = {(9, 9): 1.0}
    obj = manual(old, [2, 3])
    random.seed(i)
    attempt(f"conv/{i}", lambda: obj.convert_jds_to_jdd(jds))
    emit(f"conv/{i}", "jdd", desc(obj.jdd), "replaced", obj.jdd is not old, "old", desc(old),
         "jds", desc(jds) if isinstance(jds, (list, tuple)) else type(jds).__name__)
    if isinstance(jds, (list, tuple)):
        attempt(f"conv/{i}/again", lambda: obj.convert_jds_to_jdd(jds))
        emit(f"conv/{i}/again", "jdd", desc(obj.jdd))
        random.seed(i)
        attempt(f"conv/{i}/sample", lambda: obj.sample_jds_from_jdd(12))

# ---------------------------------------------------------------- through the loaders
def fp_poisson(k):
    import math
    return math.exp(-2.5) * 2.5 ** k / math.factorial(k)


LOADERS = [
    ("empirical", lambda: JointDegreeEmpirical(
        {N.MOTIF_SIZES: [2, 3], N.JDS: [(1, 2), (1, 2), (2, 1), (3, 3), (0, 1)]})),
    ("empirical-empty", lambda: JointDegreeEmpirical({N.MOTIF_SIZES: [2, 3], N.JDS: []})),
    ("empirical-unhashable", lambda: JointDegreeEmpirical({N.MOTIF_SIZES: [2], N.JDS: [[1], [2]]})),
    ("split", lambda: JointDegreeSplitDegree(
        {N.FP: fp_poisson, N.PROBS: [0.6, 0.4], N.MOTIF_SIZES: [2, 3], N.LOW_HIGH_DEGREE_BOUND: (1, 8)})),
    ("split3", lambda: JointDegreeSplitDegree(
        {N.FP: fp_poisson, N.PROBS: [0.5, 0.3, 0.2], N.MOTIF_SIZES: [2, 3, 4], N.LOW_HIGH_DEGREE_BOUND: (0, 9)})),
    ("split-emptyrange", lambda: JointDegreeSplitDegree(
        {N.FP: fp_poisson, N.PROBS: [0.6, 0.4], N.MOTIF_SIZES: [2, 3], N.LOW_HIGH_DEGREE_BOUND: (3, 3)})),
    ("delta", lambda: JointDegreeDelta(
        {N.TARGET_K: 4, N.FP: fp_poisson, N.PROBS: [0.6, 0.4], N.MOTIF_SIZES: [2, 3],
         N.LOW_HIGH_DEGREE_BOUND: (1, 8)})),
    ("cover", lambda: JointDegreeCover(
        {N.COVER: [[0, 1], [1, 2], [2, 3, 4], [4, 5], [0, 5, 6], [6, 7], [7, 8, 9, 3]]})),
    ("cover-1idx", lambda: JointDegreeCover({N.COVER: [[1, 2], [2, 3], [1, 3, 4]]})),
    ("marginal-direct", lambda: JointDegreeMarginal(
        {N.MOTIF_SIZES: [2, 3], N.ARR_FP: [fp_poisson, fp_poisson], N.LOW_HIGH_DEGREE_BOUND: [(0, 5), (0, 4)]})),
    ("marginal-sampling", lambda: JointDegreeMarginal(
        {N.MOTIF_SIZES: [2, 3], N.ARR_FP: [fp_poisson, fp_poisson], N.LOW_HIGH_DEGREE_BOUND: [(0, 5), (0, 4)],
         N.USE_SAMPLING: True, N.N_SAMPLES: 500})),
    ("function", lambda: JointDegreeFunction(
        {N.MOTIF_SIZES: [2, 3], N.FP: lambda jd: fp_poisson(jd[0]) * fp_poisson(jd[1]),
         N.LOW_HIGH_DEGREE_BOUND: [(0, 4), (0, 3)]})),
    ("distribution-manual", lambda: JointDegreeDistribution.load_joint_degree(
        {N.JOINT_DEGREE_TYPE: "manual", N.JDD: {(1, 1): 0.5, (2, 0): 0.5}, N.MOTIF_SIZES: [2, 3]})),
    ("distribution-empirical", lambda: JointDegreeDistribution.load_joint_degree(
        {N.JOINT_DEGREE_TYPE: "empirical", N.JDS: [(1, 1), (2, 0), (2, 0)], N.MOTIF_SIZES: [2, 3]})),
]
for name, build in LOADERS:
    for seed in (0, 42):
        random.seed(seed)
        np.random.seed(seed)
        label = f"loader/{name}/seed{seed}"
        try:
            obj = build()
        except BaseException as e:  # noqa
            emit(label, "build EXC", type(e).__name__, "rng", rng(), "nprng", nprng())
            continue
        emit(label, "built", type(obj).__name__, "jdd", desc(obj.jdd), "sizes", desc(obj.motif_sizes),
             "rng", rng(), "nprng", nprng())
        for n in (0, 1, 10, 200):
            attempt(f"{label}/sample{n}", lambda: obj.sample_jds_from_jdd(n))
        attempt(f"{label}/create_jdd-again", lambda: obj.create_jdd())
        emit(label, "jdd-after-recreate", desc(obj.jdd), "rng", rng(), "nprng", nprng())
        attempt(f"{label}/normalise", lambda: obj.normalise_jdd())
        emit(label, "jdd-after-normalise", desc(obj.jdd))
        attempt(f"{label}/sample-after", lambda: obj.sample_jds_from_jdd(33))

emit("DIGEST", hashlib.sha256("\n".join(LINES).encode()).hexdigest(), "lines", len(LINES))
