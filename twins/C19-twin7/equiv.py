import sys, os; sys.path.insert(0, os.getcwd())
import hashlib
import random
import warnings
from fractions import Fraction

import numpy as np

warnings.simplefilter("ignore")
random.seed(12345)
np.random.seed(12345)

import gcmpy
from gcmpy.distributions import exponential, poisson, power_law, scale_free_cut_off
from gcmpy.distributions.exponential import exponential as exponential2
from gcmpy.distributions.poisson import poisson as poisson2, factorial  # noqa: F401
from gcmpy.distributions.power_law import power_law as power_law2
from gcmpy.distributions.scale_free_cut_off import scale_free_cut_off as sfco2

assert exponential is exponential2 is gcmpy.exponential
assert poisson is poisson2 is gcmpy.poisson
assert power_law is power_law2 is gcmpy.power_law
assert scale_free_cut_off is sfco2 is gcmpy.scale_free_cut_off

LINES = []


def show(x):
    if isinstance(x, np.ndarray):
        return f"ndarray[{x.dtype}]({[show(v) for v in x.tolist()]})"
    return f"{type(x).__name__}:{x!r}"


def emit(label, thunk):
    try:
        out = show(thunk())
    except BaseException as e:  # noqa: BLE001
        out = f"EXC {type(e).__name__}: {e}"
    LINES.append(f"{label} -> {out}")


KS = [0, 1, 2, 3, 5, 10, 50, 170, 171, 1000, -1, -3, 2.0, 2.5, 0.0, True,
      np.int64(4), np.int32(0), np.float64(3.0), np.float32(1.5),
      np.array([1, 2, 3]), np.array([0.0, 1.5]), np.array([], dtype=int),
      "3", None, [1, 2], 1 + 2j, Fraction(3, 2), float("inf"), float("nan")]


def probe(name, f):
    LINES.append(f"{name}: name={f.__name__} qualname={f.__qualname__} "
                 f"callable={callable(f)}")
    for k in KS:
        emit(f"{name} p({k!r})", lambda: f(k))
    # repeated calls on the same object, and keyword call
    emit(f"{name} p(k=3)", lambda: f(k=3))
    emit(f"{name} p() ", lambda: f())
    emit(f"{name} p(3) again", lambda: f(3))
    emit(f"{name} sum", lambda: sum(f(k) for k in range(1, 150)))
    emit(f"{name} sum0", lambda: sum(f(k) for k in range(0, 150)))


def build(name, factory, *args, **kw):
    try:
        f = factory(*args, **kw)
    except BaseException as e:  # noqa: BLE001
        LINES.append(f"{name}: FACTORY EXC {type(e).__name__}: {e}")
        return
    probe(name, f)
    # a second, independent instance built from the same arguments
    g = factory(*args, **kw)
    LINES.append(f"{name}: distinct={g is not f}")
    emit(f"{name} second instance p(2)", lambda: g(2))


for a in [0.1, 0.5, 1.0, 2.5, 10.0, 0.0, -1.0, 1, np.float64(0.7), 800.0,
          np.array([0.5, 1.0]), "x", None, Fraction(1, 2), float("nan")]:
    build(f"exponential({a!r})", exponential, a)
build("exponential(a=0.3)", exponential, a=0.3)
build("exponential()", exponential)

for m in [0.5, 1.0, 2.5, 10.0, 0.0, -2.0, 3, np.float64(1.7), 800.0,
          np.array([0.5, 2.0]), "x", None, Fraction(5, 2), float("inf")]:
    build(f"poisson({m!r})", poisson, m)
build("poisson(kmean=2.5)", poisson, kmean=2.5)
build("poisson()", poisson)

for al in [1.5, 2.0, 2.5, 3.0, 3.5, 6.0, 20.0, 2, 3, np.float64(2.2),
           np.float32(2.5), Fraction(5, 2), "x", None, [2.0], 2 + 1j,
           float("inf"), 2000.0]:
    build(f"power_law({al!r})", power_law, al)
build("power_law(alpha=2.5)", power_law, alpha=2.5)
build("power_law()", power_law)

for al, ka in [(2.5, 10.0), (2.0, 5.0), (1.0, 3.0), (0.5, 2.0), (0.0, 1.0),
               (-1.0, 2.0), (3.0, 100.0), (2, 10), (2.5, 0.5), (2.5, 0.01),
               (np.float64(2.2), np.float64(20.0)), (np.float32(2.5), 7),
               (2.5, 0.0), ("x", 10.0), (2.5, "y"), (None, 1.0),
               (2.5, None), (Fraction(5, 2), Fraction(10, 1)),
               (2.5, float("inf")), (40.0, 1.0), (2.5, 1e-3)]:
    build(f"scale_free_cut_off({al!r}, {ka!r})", scale_free_cut_off, al, ka)
build("scale_free_cut_off(kappa=10.0, alpha=2.5)", scale_free_cut_off,
      kappa=10.0, alpha=2.5)
build("scale_free_cut_off(2.5)", scale_free_cut_off, 2.5)

LINES.append("random state: " + hashlib.sha256(repr(random.getstate()).encode()).hexdigest())
LINES.append("numpy state: " + hashlib.sha256(repr(np.random.get_state()).encode()).hexdigest())
LINES.append("random next: " + repr(random.random()))
LINES.append("numpy next: " + repr(np.random.random()))

body = "\n".join(LINES)
print(body)
print("DIGEST", hashlib.sha256(body.encode()).hexdigest())
