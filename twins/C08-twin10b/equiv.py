import sys, os; sys.path.insert(0, os.getcwd())
import hashlib
import random

import numpy as np

from gcmpy.names.joint_degree_names import JointDegreeNames
from gcmpy.names.gcm_algorithm_names import GCMAlgorithmNames
from gcmpy.joint_degree.joint_degree_type import JointDegreeType
from gcmpy.joint_degree.joint_degree_factory import JointDegreeFactory
from gcmpy.joint_degree.joint_degree_loaders.joint_degree_cover import JointDegreeCover
from gcmpy.joint_degree.joint_degree_loaders.joint_degree_manual import JointDegreeManual
from gcmpy.motif_generators.clique_motif import clique_motif
from gcmpy.gcm_algorithm.gcm_algorithm_network import GCMAlgorithmNetwork

random.seed(20261004)
np.random.seed(20261004)

LINES = []


def rng():
    h = hashlib.sha256(repr(random.getstate()).encode()).hexdigest()[:16]
    s = np.random.get_state()
    g = hashlib.sha256(s[1].tobytes() + repr(s[2:]).encode()).hexdigest()[:16]
    return "py=%s np=%s" % (h, g)


def out(*a):
    LINES.append(" ".join(str(x) for x in a))


def attempt(label, fn):
    try:
        r = fn()
        out(label, "OK", type(r).__name__ if isinstance(r, JointDegreeCover) else repr(r), "|", rng())
        return r
    except BaseException as e:
        out(label, "EXC", type(e).__name__, str(e)[:200], "|", rng())
        return None


def describe(o):
    return (
        repr(o.motif_sizes),
        repr(list(o.jdd.items())),
        [type(k).__name__ for k in o.jdd],
        repr(o.cover) if not hasattr(o.cover, "__next__") else "<iter>",
    )


class Weird:
    """sized iterable whose __len__ is counted"""

    calls = 0

    def __init__(self, vs):
        self.vs = vs

    def __len__(self):
        Weird.calls += 1
        return len(self.vs)

    def __iter__(self):
        return iter(self.vs)


class BadLen:
    def __init__(self, vs):
        self.vs = vs

    def __len__(self):
        return -1

    def __iter__(self):
        return iter(self.vs)


def rand_cover(n, m, sizes, base, container):
    cover = []
    for _ in range(m):
        k = random.choice(sizes)
        k = min(k, n)
        cover.append(container(random.sample(range(base, base + n), k)))
    # make sure every vertex is present, contiguous numbering
    seen = set(v for c in cover for v in c)
    missing = [v for v in range(base, base + n) if v not in seen]
    while missing:
        k = min(random.choice(sizes), len(missing))
        cover.append(container(missing[:k]))
        missing = missing[k:]
    return cover


FIXED = {
    "single_edge0": [[0, 1]],
    "single_edge1": [[1, 2]],
    "triangle_and_edges": [[0, 1, 2], [2, 3], [3, 4], [0, 4]],
    "one_indexed": [[1, 2, 3], [3, 4], [4, 5, 6, 7], [1, 7]],
    "gap_sizes": [[0, 1], [2, 3, 4, 5, 6], [0, 6]],
    "only_big": [[0, 1, 2, 3, 4, 5]],
    "singletons": [[0], [1], [2]],
    "singleton_and_pair": [[0], [0, 1], [1, 2, 3]],
    "duplicates": [[0, 1], [0, 1], [1, 0], [2, 1, 0]],
    "repeated_vertex_in_clique": [[0, 0, 1], [1, 2]],
    "tuples": [(0, 1), (1, 2, 3)],
    "tuple_cover": ((0, 1), (1, 2, 3), (3, 4)),
    "frozensets": [frozenset((0, 1)), frozenset((1, 2, 3))],
    "ties_in_len": [[0, 1, 2], [3, 4, 5], [1, 4]],
    "empty_cover": [],
    "cover_with_only_empty": [[]],
    "cover_with_an_empty": [[], [0, 1]],
    "start_at_2": [[2, 3], [3, 4]],
    "start_at_5": [[5, 6, 7]],
    "non_contiguous": [[0, 1], [1, 5]],
    "negative_ids": [[-1, 0], [0, 1]],
    "float_ids": [[0.0, 1.0], [1.0, 2.0]],
    "str_ids": [["a", "b"], ["b", "c"]],
    "mixed_ids": [[0, "a"]],
    "unhashable_ids": [[[0], [1]]],
    "ints_not_cliques": [0, 1, 2],
    "none_clique": [[0, 1], None],
    "none_cover": None,
    "int_cover": 7,
    "string_cover": ["01", "12"],
    "bool_ids": [[False, True], [True, 2]],
    "big_ids": [[0, 1], [1, 10 ** 20]],
    "dict_cliques": [{0: "x", 1: "y"}, {1: "z", 2: "w", 3: "q"}],
}

# ---------------------------------------------------------------- construction
for name, cover in FIXED.items():
    for how in ("direct", "factory"):
        def build(cover=cover, how=how):
            params = {JointDegreeNames.COVER: cover}
            if how == "direct":
                o = JointDegreeCover(params)
            else:
                o = JointDegreeFactory.resolve_joint_degree(JointDegreeType.COVER, params)
            return describe(o)
        attempt("build %s %s" % (name, how), build)

# generator cliques / iterator covers / odd objects
attempt("gen_cliques", lambda: describe(JointDegreeCover({JointDegreeNames.COVER: [(v for v in (0, 1)), (v for v in (1, 2))]})))
attempt("iter_cover", lambda: describe(JointDegreeCover({JointDegreeNames.COVER: iter([[0, 1], [1, 2]])})))
attempt("gen_cover", lambda: describe(JointDegreeCover({JointDegreeNames.COVER: ([v, v + 1] for v in range(4))})))
attempt("range_cliques", lambda: describe(JointDegreeCover({JointDegreeNames.COVER: [range(0, 3), range(2, 4), range(3, 8)]})))
attempt("nparray_cliques", lambda: describe(JointDegreeCover({JointDegreeNames.COVER: [np.array([0, 1]), np.array([1, 2, 3])]})))
attempt("np2d_cover", lambda: describe(JointDegreeCover({JointDegreeNames.COVER: np.array([[0, 1], [1, 2], [2, 3]])})))
attempt("badlen", lambda: describe(JointDegreeCover({JointDegreeNames.COVER: [[0, 1], BadLen([1, 2])]})))
attempt("badlen_first", lambda: describe(JointDegreeCover({JointDegreeNames.COVER: [BadLen([0, 1]), [1, 2]]})))
attempt("missing_key", lambda: JointDegreeCover({}))
attempt("wrong_key", lambda: JointDegreeCover({"cover": [[0, 1]]}))
attempt("params_none", lambda: JointDegreeCover(None))
attempt("no_params", lambda: JointDegreeCover())


def weird():
    Weird.calls = 0
    o = JointDegreeCover({JointDegreeNames.COVER: [Weird([0, 1]), Weird([1, 2, 3]), Weird([3, 4, 5]), Weird([0, 5])]})
    return (o.motif_sizes, list(o.jdd.items()), Weird.calls)


attempt("weird_len", weird)

# ---------------------------------------------------------------- random covers
for trial in range(120):
    n = random.randint(1, 40)
    m = random.randint(1, 60)
    sizes = random.sample(range(1, 9), random.randint(1, 4))
    base = trial % 2
    container = [list, tuple, list, frozenset][trial % 4]
    cover = rand_cover(n, m, sizes, base, container)
    o = attempt("rand %d build" % trial, lambda: JointDegreeCover({JointDegreeNames.COVER: cover}))
    if o is None:
        continue
    out("rand %d" % trial, describe(o)[:3])
    for N in (0, 1, 2, 7, 50):
        attempt("rand %d sample %d" % (trial, N), lambda: o.sample_jds_from_jdd(N))
    # repeated calls on one object
    attempt("rand %d recreate" % trial, lambda: (o.create_jdd(), describe(o)[:2])[1])
    attempt("rand %d sample again" % trial, lambda: o.sample_jds_from_jdd(13))
    if trial % 3 == 0:
        # swap the cover through the public setter and rebuild: motif sizes are stale on purpose
        cover2 = rand_cover(random.randint(1, 20), random.randint(1, 20), sizes, base, list)
        o.cover = cover2
        attempt("rand %d recreate new cover" % trial, lambda: (o.create_jdd(), describe(o)[:2])[1])
        attempt("rand %d sample new cover" % trial, lambda: o.sample_jds_from_jdd(9))
    if trial % 5 == 0:
        o.motif_sizes = [2] * len(next(iter(o.jdd)))
        attempt("rand %d sample motif override" % trial, lambda: o.sample_jds_from_jdd(11))
    if trial % 7 == 0:
        o.jdd = {}
        attempt("rand %d sample empty jdd" % trial, lambda: o.sample_jds_from_jdd(3))
        attempt("rand %d sample empty jdd 0" % trial, lambda: o.sample_jds_from_jdd(0))
        attempt("rand %d normalise empty" % trial, lambda: o.normalise_jdd())

# ---------------------------------------------------------------- base class paths
o = JointDegreeCover({JointDegreeNames.COVER: [[0, 1, 2], [2, 3], [3, 4, 5, 6], [0, 6]]})
out("base", describe(o))
for jds in (
    [],
    [(1, 0, 0)],
    [(1, 1, 1)] * 5,
    [(0, 0, 0)] * 4,
    [(3, 2, 1), (1, 1, 1), (0, 5, 2)],
    [[1, 2, 3], [0, 0, 1]],
    [(1, 2)],
    [(1, 2, 3, 4)],
    [(1.5, 0, 0), (0, 0, 0)],
    [(-1, 0, 0), (0, -2, 0)],
    [(True, False, True)],
    [()],
    [(1, 0, 0), (1,)],
    ((2, 1, 0), (1, 1, 3)),
    None,
    [None],
    [("a", "b", "c")],
):
    def hl(jds=jds):
        arg = list(jds) if isinstance(jds, list) else jds
        r = o.handshaking_lemma(arg)
        return (r, r is arg)
    attempt("handshake %r" % (jds,), hl)

for N in (0, 1, 2, 3, 10, 101, 1000, -1, 2.0, None, "3", True):
    attempt("sample N=%r" % (N,), lambda: o.sample_jds_from_jdd(N))

for jds in ([(1, 2), (1, 2), (0, 1)], [], [[1, 2]], ((1,), (1,), (2,)), [1, 1, 2, 1.0, True], None, 5, "aab", iter([(1,)])):
    def conv(jds=jds):
        o.convert_jds_to_jdd(jds)
        return list(o.jdd.items())
    attempt("convert %r" % (jds if not hasattr(jds, "__next__") else "<iter>",), conv)
    out("  jdd after", repr(o.jdd))

o.jdd = {(1, 0): 2.0, (0, 1): 6.0}
attempt("normalise", lambda: (o.normalise_jdd(), list(o.jdd.items()))[1])
o.motif_sizes = [2, 3]
for N in (1, 4, 25):
    attempt("manual-ish sample %d" % N, lambda: o.sample_jds_from_jdd(N))
o.motif_sizes = [2]
attempt("short motif sizes", lambda: o.sample_jds_from_jdd(5))
o.motif_sizes = [0, 3]
attempt("zero motif size", lambda: o.sample_jds_from_jdd(5))
o.motif_sizes = None
attempt("none motif sizes", lambda: o.sample_jds_from_jdd(5))

m = JointDegreeManual({JointDegreeNames.JDD: {(1, 0): 0.2, (2, 1): 0.5, (3, 0): 0.1, (5, 1): 0.2}, JointDegreeNames.MOTIF_SIZES: [2, 3]})
for N in (1, 2, 3, 50, 333):
    attempt("manual sample %d" % N, lambda: m.sample_jds_from_jdd(N))

# ---------------------------------------------------------------- end to end
for trial in range(6):
    cover = rand_cover(30 + trial, 40, [2, 3, 4][: 1 + trial % 3], trial % 2, list)
    o = JointDegreeCover({JointDegreeNames.COVER: cover})
    jds = o.sample_jds_from_jdd(60)
    sizes = o.motif_sizes
    params = {
        GCMAlgorithmNames.MOTIF_SIZES: sizes,
        GCMAlgorithmNames.EDGE_NAMES: ["%d-clique" % s for s in sizes],
        GCMAlgorithmNames.BUILD_FUNCTIONS: [clique_motif] * len(sizes),
    }

    def gen():
        g = GCMAlgorithmNetwork(params).random_clustered_graph(jds)
        G = g._G
        return (G.order(), G.size(), hashlib.sha256(repr(sorted(G.edges(data=True), key=repr)).encode()).hexdigest()[:16])

    out("e2e %d" % trial, sizes, jds)
    attempt("e2e %d gen" % trial, gen)

out("final", rng())
blob = "\n".join(LINES)
print(blob)
print("DIGEST", hashlib.sha256(blob.encode()).hexdigest())
