"""Equivalence digest for gcmpy.tools.bond_percolate (run with cwd = a checkout)."""
import hashlib
import logging
import os
import random
import sys

sys.path.insert(0, os.getcwd())

import networkx as nx
import numpy as np

from gcmpy.tools.bond_percolate import bond_percolate
import gcmpy

assert gcmpy.bond_percolate is bond_percolate

logging.basicConfig(level=logging.WARNING, stream=sys.stdout)


def rng_digest():
    h = hashlib.sha256()
    h.update(repr(random.getstate()).encode())
    st = np.random.get_state()
    h.update(repr((st[0], st[1].tobytes(), st[2], st[3], st[4])).encode())
    return h.hexdigest()[:16]


def graph_digest(g):
    try:
        if g.is_multigraph():
            edges = list(g.edges(keys=True, data=True))
        else:
            edges = list(g.edges(data=True))
        payload = (
            type(g).__name__,
            list(g.nodes(data=True)),
            edges,
            dict(g.graph),
            [(n, list(nb)) for n, nb in g.adjacency()],
        )
    except AttributeError:
        payload = repr(g)
    return hashlib.sha256(repr(payload).encode()).hexdigest()[:16]


def run(label, g, phi, repeats=1):
    for k in range(repeats):
        before = graph_digest(g)
        try:
            res = bond_percolate(g, phi)
            out = "OK %r %s" % (res, type(res).__name__)
        except BaseException as exc:  # noqa: BLE001
            out = "EXC %s %r" % (type(exc).__name__, exc.args)
        after = graph_digest(g)
        print(
            "%s #%d phi=%r -> %s | g %s->%s same=%s | rng %s"
            % (label, k, phi, out, before, after, before == after, rng_digest())
        )


def star(m):
    return nx.star_graph(m)


def graphs():
    yield "path10", nx.path_graph(10)
    yield "star25", star(25)
    yield "complete8", nx.complete_graph(8)
    yield "er200", nx.gnp_random_graph(200, 0.02, seed=7)
    yield "two_cliques", nx.disjoint_union(nx.complete_graph(5), nx.complete_graph(9))
    yield "isolated5", nx.empty_graph(5)
    yield "single", nx.empty_graph(1)
    g = nx.Graph()
    g.add_edges_from([(0, 0), (0, 1), (1, 1), (2, 3)])
    yield "selfloops", g
    g = nx.Graph(name="attrs")
    g.add_edge("a", "b", weight=2.5, motif="2-clique")
    g.add_edge("b", ("t", 1), weight=1.0)
    g.add_node("lonely", colour="red")
    yield "attrs", g
    mg = nx.MultiGraph()
    mg.add_edges_from([(0, 1), (0, 1), (0, 1), (1, 2), (2, 3), (2, 3), (4, 4)])
    yield "multigraph", mg
    yield "grid", nx.grid_2d_graph(6, 7)
    yield "frozen", nx.freeze(nx.cycle_graph(12))
    yield "subgraph_view", nx.path_graph(20).subgraph(range(3, 15))


def main():
    random.seed(12345)
    np.random.seed(54321)
    print("start rng", rng_digest())

    phis = [0, 0.0, 1, 1.0, 0.5, 0.25, 0.9, -0.5, 1.5, float("nan"),
            np.float64(0.3), True, False]
    for name, g in graphs():
        for phi in phis:
            run(name, g, phi)

    # repeated calls on the same object
    g = nx.gnp_random_graph(150, 0.03, seed=3)
    run("repeat_er", g, 0.4, repeats=6)
    s = star(40)
    run("repeat_star", s, 0.35, repeats=8)
    run("repeat_star_phi1", s, 1.0, repeats=2)
    run("repeat_star_phi0", s, 0.0, repeats=2)

    # star statistics: (N*S-1)/M over many trials
    m = 30
    s = star(m)
    n = s.order()
    vals = [bond_percolate(s, 0.6) for _ in range(300)]
    print("star_vals", hashlib.sha256(repr(vals).encode()).hexdigest()[:16],
          repr(sum(vals)), repr(min(vals)), repr(max(vals)),
          sorted(set(round(v * n) for v in vals)))
    print("rng", rng_digest(), graph_digest(s))

    # reseed -> reproducibility / number of draws (one per edge)
    for g_name, g in [("path10", nx.path_graph(10)), ("empty", nx.empty_graph(4))]:
        random.seed(99)
        r = bond_percolate(g, 0.5)
        nxt = random.random()
        print("draws", g_name, repr(r), repr(nxt))

    # error paths
    run("null_graph", nx.Graph(), 0.5, repeats=2)
    run("null_multigraph", nx.MultiGraph(), 0.5)
    run("digraph", nx.DiGraph([(0, 1), (1, 2), (2, 0)]), 0.5, repeats=2)
    run("digraph_noedges", nx.empty_graph(3, create_using=nx.DiGraph), 0.5)
    run("multidigraph", nx.MultiDiGraph([(0, 1), (0, 1)]), 0.7)
    run("phi_none", nx.path_graph(5), None)
    run("phi_none_noedges", nx.empty_graph(5), None)
    run("phi_str", nx.path_graph(5), "0.5")
    run("phi_complex", nx.path_graph(5), 1j)
    run("phi_array", nx.path_graph(5), np.array([0.1, 0.9]))
    run("phi_array1", nx.path_graph(5), np.array([0.5]))
    run("phi_list", nx.path_graph(3), [0.5])
    run("g_none", None, 0.5)
    run("g_dict", {0: [1]}, 0.5)
    run("g_str", "graph", 0.5)
    run("null_phi_none", nx.Graph(), None)

    # logging at WARNING and above emits nothing; also INFO on the module logger
    logging.getLogger("gcmpy.tools.bond_percolate").setLevel(logging.INFO)
    run("info_level", nx.path_graph(6), 0.5, repeats=2)
    logging.getLogger("gcmpy.tools.bond_percolate").setLevel(logging.NOTSET)

    # DEBUG enabled but swallowed by a NullHandler: results / rng must not change
    lg = logging.getLogger("gcmpy.tools.bond_percolate")
    lg.addHandler(logging.NullHandler())
    lg.propagate = False
    lg.setLevel(logging.DEBUG)
    for name, g in graphs():
        run("debug_" + name, g, 0.45)
    run("debug_null", nx.Graph(), 0.5)
    run("debug_phi_none", nx.path_graph(4), None)
    lg.setLevel(logging.NOTSET)
    lg.propagate = True

    print("end rng", rng_digest())


if __name__ == "__main__":
    main()
