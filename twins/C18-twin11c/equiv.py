import sys, os; sys.path.insert(0, os.getcwd())
import hashlib, random
import numpy as np
import networkx as nx

random.seed(1803)
np.random.seed(1803)

from gcmpy import Network, EECC, bond_percolate, clique_motif, cycle_motif

out = []


def emit(*a):
    out.append(" | ".join(repr(x) for x in a))


def dump(g):
    try:
        return (type(g).__name__, list(g.nodes(data=True)), list(g.edges(data=True)))
    except BaseException as ex:
        return ("dump-EXC", type(ex).__name__)


def rm(tag, net, *args, **kw):
    try:
        r = net.remove_edge(*args, **kw)
    except BaseException as ex:
        emit(tag, "remove", args, kw, "EXC", type(ex).__name__, dump(net.G))
        return
    emit(tag, "remove", args, kw, "ret", r, dump(net.G), net.has_edges())


# ---- plain Network --------------------------------------------------------
net = Network()
rm("empty", net, 0, 1)              # absent nodes -> swallowed
rm("empty", net, None, None)
net.add_edges_from([(0, 1), (1, 2), (2, 0), (3, 3), (4, 5)])
G0 = net.G
rm("tri", net, 0, 1)                # present
rm("tri", net, 0, 1)                # now absent -> swallowed
rm("tri", net, 1, 0)                # reversed, absent
rm("tri", net, 2, 1)                # reversed, present
rm("tri", net, 3, 3)                # self-loop
rm("tri", net, 3, 3)                # self-loop again
rm("tri", net, 0, 99)               # one endpoint unknown
rm("tri", net, 99, 0)
rm("tri", net, "a", "b")
rm("tri", net, (1, 2), (3, 4))      # hashable odd nodes
rm("tri", net, [1], 2)              # unhashable -> TypeError escapes
rm("tri", net, 2, [1])
rm("tri", net, 2, {1: 1})
rm("tri", net, None, 0)
rm("tri", net, 0.0, 2.0)            # 0.0 == 0, 2.0 == 2 -> present
rm("tri", net, float("nan"), 1)
rm("tri", net, 4)                   # arity errors
rm("tri", net)
rm("tri", net, 4, 5, 6)
rm("tri", net, i=4, j=5)            # keywords, present
rm("tri", net, j=4, i=5)
rm("tri", net, 4, k=5)
emit("tri", "same-graph-object", net.G is G0)

# ---- other graph classes handed in through the setter -----------------------
for cls in (nx.Graph, nx.DiGraph, nx.MultiGraph, nx.MultiDiGraph):
    net = Network()
    g = cls()
    g.add_edges_from([(0, 1), (0, 1), (1, 2), (2, 2)])
    net.G = g
    tag = cls.__name__
    rm(tag, net, 1, 0)
    rm(tag, net, 0, 1)
    rm(tag, net, 0, 1)
    rm(tag, net, 0, 1)
    rm(tag, net, 2, 2)
    rm(tag, net, 2, 2)
    rm(tag, net, 7, 8)
    rm(tag, net, [], 8)

# frozen graph: remove_edge raises NetworkXError (frozen) -> swallowed
net = Network()
net.add_edges_from([(0, 1), (1, 2)])
nx.freeze(net.G)
rm("frozen", net, 0, 1)
rm("frozen", net, 5, 6)

# graph views / non-graphs
net = Network()
base = nx.path_graph(4)
net.G = nx.subgraph_view(base, filter_node=lambda n: n != 3)
rm("view", net, 0, 1)
net.G = None
rm("G-None", net, 0, 1)
net.G = {"not": "a graph"}
rm("G-dict", net, 0, 1)


class Raising(nx.Graph):
    exc = None

    def remove_edge(self, u, v):
        raise self.exc


for exc in (nx.NetworkXError("x"), nx.NetworkXNoPath("x"), nx.NetworkXException("x"),
            nx.NodeNotFound("x"), nx.NetworkXPointlessConcept("x"),
            nx.NetworkXUnfeasible("x"), nx.NetworkXNotImplemented("x"),
            nx.HasACycle("x"), nx.PowerIterationFailedConvergence(3),
            KeyError("k"), ValueError("v"), StopIteration(), GeneratorExit(),
            KeyboardInterrupt(), SystemExit(3), Exception("e"), BaseException("b"),
            ExceptionGroup("g", [nx.NetworkXError("x")]),
            ExceptionGroup("g", [nx.NetworkXError("x"), KeyError("k")]),
            BaseExceptionGroup("g", [nx.NetworkXError("x"), KeyboardInterrupt()])):
    net = Network()
    g = Raising()
    g.exc = exc
    net.G = g
    rm("raising-" + type(exc).__name__, net, 0, 1)

# exception raised while another one is being handled: context untouched
try:
    try:
        raise LookupError("outer")
    except LookupError as outer:
        n2 = Network()
        emit("in-handler", n2.remove_edge(0, 1), sys.exc_info()[0].__name__)
        raise
except LookupError as ex:
    emit("in-handler", "reraised", type(ex).__name__, ex.__context__)

# ---- random workloads, with percolation on the result -----------------------
for t in range(40):
    n = random.randint(2, 20)
    net = Network() if t % 2 == 0 else EECC()
    for _ in range(random.randint(1, 5)):
        k = random.randint(2, min(n, 5))
        vs = random.sample(range(n), k)
        net.add_edges_from(random.choice([clique_motif, cycle_motif])(vs))
    log = []
    for _ in range(30):
        i, j = random.randrange(n + 2), random.randrange(n + 2)
        r = net.remove_edge(i, j)
        log.append((i, j, r, net.G.number_of_edges(), net.has_edges()))
    emit("rand%d" % t, type(net).__name__, log, dump(net.G))
    if net.G.order() > 0:
        before = dump(net.G)
        S = [bond_percolate(net.G, phi) for phi in (0.0, 0.4, 1.0)]
        emit("rand%d" % t, "perc", S, dump(net.G) == before)

# ---- the EECC cover, which drives remove_edge / has_edges ---------------------
for t in range(10):
    g = nx.gnp_random_graph(random.randint(4, 14), 0.5, seed=random.randrange(10 ** 6))
    c = EECC()
    c.add_edges_from(list(g.edges()))
    c.set_max_clique_size(random.randint(2, 4))
    try:
        r = c.get_EECC()
        emit("eecc%d" % t, r, dump(c.G), c.has_edges())
    except BaseException as ex:
        emit("eecc%d" % t, "EXC", type(ex).__name__, dump(c.G))

emit("random", hashlib.sha256(repr(random.getstate()).encode()).hexdigest())
st = np.random.get_state()
emit("numpy", hashlib.sha256(repr((st[0], st[1].tolist(), st[2:])).encode()).hexdigest())

text = "\n".join(out)
print(text)
print("DIGEST", hashlib.sha256(text.encode()).hexdigest())
