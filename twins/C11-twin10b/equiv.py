import sys, os; sys.path.insert(0, os.getcwd())
import hashlib
import random
import warnings

warnings.simplefilter("ignore")
import numpy as np
import networkx as nx

from gcmpy.joint_degree.joint_degree_loaders.joint_degree_manual import (
    JointDegreeManual,
)
from gcmpy.motif_generators.clique_motif import clique_motif
from gcmpy.gcm_algorithm.gcm_algorithm_network import GCMAlgorithmNetwork
from gcmpy.names.gcm_algorithm_names import GCMAlgorithmNames
from gcmpy.names.joint_degree_names import JointDegreeNames
from gcmpy.names.network_names import NetworkNames
from gcmpy.names.tools_names import ToolsNames
from gcmpy.network.network import Network
from gcmpy.tools.joint_excess_joint_degree_matrices import (
    JointExcessJointDegreeMatrices,
)
from gcmpy.tools.markov_chain_monte_carlo import MarkovChainMonteCarlo
from gcmpy.tools.markov_chain_monte_carlo_rewiring import (
    MarkovChainMonteCarloRewiring,
)
from gcmpy.tools.joint_excess_from_ejk import JointExcessFromEjk
from gcmpy.tools.joint_degree_from_excess import JointDegreeFromExcess
from gcmpy.tools.draw_set import DrawSet

EDGE_NAMES = ["2-clique", "3-clique"]
MOTIF_SIZES = [2, 3]
T = NetworkNames.TOPOLOGY
M = NetworkNames.MOTIF_IDS


def sha(obj) -> str:
    return hashlib.sha256(repr(obj).encode()).hexdigest()[:20]


def rng_digest() -> str:
    s = np.random.get_state()
    return sha((random.getstate(), s[0], s[1].tolist(), s[2], s[3], s[4]))


def graph_digest(G) -> str:
    nodes = [(n, sorted((str(getattr(k, "name", k)), repr(v)) for k, v in d.items())) for n, d in G.nodes(data=True)]
    adj = [
        (u, [(v, [(str(getattr(k, "name", k)), repr(x)) for k, x in d.items()]) for v, d in nbrs.items()])
        for u, nbrs in G.adj.items()
    ]
    shared = all(G._adj[u][v] is G._adj[v][u] for u, v in G.edges())
    return sha((nodes, adj, list(G.edges()), shared, sorted(G.graph.items())))


def target(e: float):
    ejk_tree = {
        (0, 3, 0, 3): 9 / 81 - 2 * e, (0, 3, 4, 1): e, (0, 3, 2, 2): e,
        (4, 1, 0, 3): e, (4, 1, 4, 1): 45 / 81 - 2 * e, (4, 1, 2, 2): e,
        (2, 2, 0, 3): e, (2, 2, 4, 1): e, (2, 2, 2, 2): 27 / 81 - 2 * e,
    }
    ejk_tri = {
        (3, 1, 3, 1): 48 / 144 - 2 * e, (3, 1, 1, 2): e, (3, 1, 5, 0): e,
        (1, 2, 3, 1): e, (1, 2, 1, 2): 72 / 144 - 2 * e, (1, 2, 5, 0): e,
        (5, 0, 3, 1): e, (5, 0, 1, 2): e, (5, 0, 5, 0): 24 / 144 - 2 * e,
    }
    return JointExcessJointDegreeMatrices(
        {ToolsNames.EDGE_NAMES: EDGE_NAMES,
         ToolsNames.EJKS: {"2-clique": ejk_tree, "3-clique": ejk_tri}}
    )


def build(n: int, seed: int, e: float = 1e-3):
    random.seed(seed)
    np.random.seed(seed)
    ejks = target(e)
    qks = JointExcessFromEjk.get_excess_joint_distributions(ejks)
    jdd = JointDegreeFromExcess.get_joint_degree_distribution(qks, EDGE_NAMES)
    jds = JointDegreeManual(
        {JointDegreeNames.JDD: jdd, JointDegreeNames.MOTIF_SIZES: MOTIF_SIZES}
    ).sample_jds_from_jdd(n)
    g = GCMAlgorithmNetwork(
        {GCMAlgorithmNames.MOTIF_SIZES: MOTIF_SIZES,
         GCMAlgorithmNames.EDGE_NAMES: EDGE_NAMES,
         GCMAlgorithmNames.BUILD_FUNCTIONS: [clique_motif, clique_motif]}
    ).random_clustered_graph(jds)
    return g, ejks


def attempt(label, fn):
    try:
        r = fn()
        print(label, "->", r)
    except BaseException as ex:  # noqa
        print(label, "!!", type(ex).__module__, type(ex).__name__, repr(ex.args)[:300])


def run_rewire(label, g, ejks, seed, repeat=1, **limits):
    params = {ToolsNames.NETWORK: g, ToolsNames.EJKS: ejks}
    if "search" in limits:
        params[ToolsNames.SEARCH_LIMIT] = limits["search"]
    if "conv" in limits:
        params[ToolsNames.CONVERGENCE_LIMIT] = limits["conv"]
    before = graph_digest(g.G)
    random.seed(seed)
    np.random.seed(seed)
    mcmc = MarkovChainMonteCarloRewiring(params)
    for r in range(repeat):
        def go():
            G = mcmc.rewire()
            return (
                graph_digest(G), G.number_of_edges(), G is g.G,
                [(p._topology, p._motif_id, p._new_edge) for p in mcmc._proposal_edges][:6],
                sha(mcmc._acceptance_ratio), len(mcmc._acceptance_ratio),
                MarkovChainMonteCarlo._proposal_count,
                MarkovChainMonteCarlo._proposals_accepted,
                mcmc.convergence_limit, mcmc.search_limit,
            )
        attempt(f"{label} run{r}", go)
        print(label, "input-untouched", before == graph_digest(g.G), "rng", rng_digest())


def rewire_battery():
    for n, seed in [(60, 1), (120, 2), (300, 3)]:
        g, ejks = build(n, seed)
        print("built", n, seed, g.G.number_of_nodes(), g.G.number_of_edges(), graph_digest(g.G))
        run_rewire(f"rw n={n} conv=0", g, ejks, 10, conv=0, search=20)
        run_rewire(f"rw n={n} conv=1", g, ejks, 11, conv=1, search=5)
        run_rewire(f"rw n={n} conv=7 x3", g, ejks, 12, repeat=3, conv=7, search=20)
        run_rewire(f"rw n={n} many swaps, default search", g, ejks, 13, conv=250 if n >= 120 else 60)
        run_rewire(f"rw n={n} search=1", g, ejks, 14, conv=30, search=1)
    g, ejks = build(60, 5, e=2e-2)
    run_rewire("rw defaults", g, ejks, 15)
    g, ejks = build(150, 6, e=1e-8)
    run_rewire("rw sharp target", g, ejks, 16, conv=40, search=20)
    # error paths of the entry point
    attempt("ctor no network", lambda: MarkovChainMonteCarloRewiring({ToolsNames.EJKS: ejks}))
    attempt("ctor no ejks", lambda: MarkovChainMonteCarloRewiring({ToolsNames.NETWORK: g}))
    attempt("ctor graph not Network", lambda: MarkovChainMonteCarloRewiring(
        {ToolsNames.NETWORK: g.G, ToolsNames.EJKS: ejks}))
    empty = Network()
    run_rewire("rw empty network", empty, ejks, 17, conv=3)
    lone = Network()
    lone.G.add_node(0)
    lone.G.nodes[0][NetworkNames.JOINT_DEGREE] = (0, 0)
    run_rewire("rw edgeless network", lone, ejks, 18)
    # a network whose keys are missing from the target (KeyError guard paths)
    g2, _ = build(80, 7)
    part = target(1e-3)
    for k in [(0, 3, 4, 1), (4, 1, 0, 3), (2, 2, 0, 3), (0, 3, 2, 2)]:
        del part.ejks["2-clique"][k]
    for k in [(3, 1, 1, 2), (1, 2, 3, 1)]:
        part.ejks["3-clique"][k] = 0.0
    run_rewire("rw partial target", g2, part, 19, conv=25, search=20)


def hm_view(hm):
    return [(k, list(v)) for k, v in hm.items()]


def hashmap_battery():
    g, ejks = build(90, 21)
    G = g.G
    mcmc = MarkovChainMonteCarloRewiring({ToolsNames.NETWORK: g, ToolsNames.EJKS: ejks})
    edges = list(G.edges())
    attempt("empty", lambda: hm_view(mcmc.get_hashmap(G, [])))
    attempt("all edges", lambda: sha(hm_view(mcmc.get_hashmap(G, edges))))
    attempt("reversed orientation", lambda: sha(hm_view(mcmc.get_hashmap(G, [(v, u) for u, v in edges[::-1]]))))
    attempt("duplicates", lambda: hm_view(mcmc.get_hashmap(G, [edges[0], edges[0], edges[1], edges[0]])))
    attempt("non-edge", lambda: mcmc.get_hashmap(G, [edges[0], (10**6, 10**6 + 1)]))
    attempt("not a pair", lambda: mcmc.get_hashmap(G, [edges[0], (1, 2, 3)]))
    attempt("not iterable", lambda: mcmc.get_hashmap(G, 5))
    attempt("generator input", lambda: hm_view(mcmc.get_hashmap(G, (e for e in edges[:9]))))
    for u in list(G.nodes())[:25]:
        es = [(u, v) for v in G[u]]
        hm = mcmc.get_hashmap(G, es)
        print("corner", u, hm_view(hm), [type(v).__name__ for v in hm.values()],
              len({id(v) for v in hm.values()}) == len(hm))
    # fresh lists on every call, never shared between calls / keys
    h1 = mcmc.get_hashmap(G, edges[:20])
    h2 = mcmc.get_hashmap(G, edges[:20])
    print("fresh", all(h1[k] is not h2[k] for k in h1), h1 == h2)
    h1[next(iter(h1))].pop()
    print("independent", h1 == h2, hm_view(mcmc.get_hashmap(G, edges[:20])) == hm_view(h2))
    # exotic annotations on a private copy
    H = G.copy()
    (a, b), (c, d), (p, q) = edges[0], edges[1], edges[2]
    H.edges[a, b][T] = ["unhashable"]
    attempt("unhashable topology first", lambda: mcmc.get_hashmap(H, [(a, b), (c, d)]))
    attempt("unhashable topology later", lambda: mcmc.get_hashmap(H, [(c, d), (a, b)]))
    del H.edges[c, d][T]
    attempt("missing topology", lambda: mcmc.get_hashmap(H, [(p, q), (c, d)]))
    H.edges[p, q][T] = None
    H.edges[a, b][T] = 1
    H.edges[c, d][T] = 1.0
    attempt("None / 1 / 1.0 / True keys", lambda: hm_view(mcmc.get_hashmap(H, [(p, q), (a, b), (c, d), (q, p)])))
    H.edges[a, b][T] = float("nan")
    attempt("nan key twice", lambda: hm_view(mcmc.get_hashmap(H, [(a, b), (b, a), (p, q)])))
    attempt("multigraph", lambda: mcmc.get_hashmap(nx.MultiGraph(G), edges[:3]))
    attempt("digraph", lambda: hm_view(mcmc.get_hashmap(nx.DiGraph(G), edges[:6])))

    # callers of get_hashmap through their public signatures
    random.seed(31)
    np.random.seed(31)
    out = []
    picks = random.Random(5)
    for _ in range(1500):
        e0 = edges[picks.randrange(len(edges))]
        e1 = edges[picks.randrange(len(edges))]
        u0, v0 = e0[picks.randrange(2)], e1[picks.randrange(2)]
        try:
            e0s = mcmc.get_all_edges(G, u0, e0)
            e1s = mcmc.get_all_edges(G, v0, e1)
            ok = mcmc.is_edge_choice_suitable(G, u0, v0, e0s, e1s)
            rec = [ok]
            if ok:
                rec.append(mcmc.swap_condition(G, e0s, e1s, u0, v0))
                rec.append([(x._topology, x._motif_id, x._new_edge) for x in mcmc._proposal_edges])
                rec.append((list(e0s), list(e1s)))
            out.append(rec)
        except Exception as ex:
            out.append((type(ex).__name__, repr(ex.args)))
    print("pairs", sha(out), sum(1 for r in out if r and r[0] is True),
          sum(1 for r in out if len(r) > 1 and r[1] is True),
          MarkovChainMonteCarlo._proposal_count, MarkovChainMonteCarlo._proposals_accepted,
          "rng", rng_digest(), "G", graph_digest(G))
    tri = next(e for e in edges if G.edges[e][T] == "3-clique")
    two = next(e for e in edges if G.edges[e][T] == "2-clique")
    attempt("mismatched corners", lambda: mcmc.is_edge_choice_suitable(
        G, tri[0], two[0], mcmc.get_all_edges(G, tri[0], tri), mcmc.get_all_edges(G, two[0], two)))
    attempt("swap mismatched (KeyError path)", lambda: mcmc.swap_condition(
        G, mcmc.get_all_edges(G, tri[0], tri), mcmc.get_all_edges(G, two[0], two), tri[0], two[0]))
    attempt("swap more left than right (IndexError path)", lambda: mcmc.swap_condition(
        G, [two, two], [two], two[0], two[0]))
    attempt("same corner twice", lambda: mcmc.is_edge_choice_suitable(
        G, tri[0], tri[0], mcmc.get_all_edges(G, tri[0], tri), mcmc.get_all_edges(G, tri[0], tri)))
    attempt("empty corners", lambda: mcmc.is_edge_choice_suitable(G, 0, 1, [], []))
    attempt("swap empty corners", lambda: mcmc.swap_condition(G, [], [], 0, 1))
    print("after direct calls rng", rng_digest(), "G", graph_digest(G))


hashmap_battery()
rewire_battery()
print("final rng", rng_digest())
