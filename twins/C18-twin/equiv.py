"""Deterministic digest of gcmpy.tools.bond_percolate.bond_percolate.

Run with cwd = a checkout of gcmpy (the package is imported from cwd).
"""
import hashlib
import os
import random
import sys

sys.path.insert(0, os.getcwd())

import networkx as nx
import numpy as np

from gcmpy.tools.bond_percolate import bond_percolate
import gcmpy

assert gcmpy.bond_percolate is bond_percolate

lines = []


def emit(tag, value):
    lines.append("%s %r" % (tag, value))


def snapshot(g):
    return (type(g).__name__, list(g.nodes(data=True)), list(g.edges(data=True)))


def graphs():
    yield "path10", nx.path_graph(10)
    yield "star25", nx.star_graph(25)
    yield "complete8", nx.complete_graph(8)
    yield "cycle17", nx.cycle_graph(17)
    yield "er200", nx.gnp_random_graph(200, 0.02, seed=11)
    yield "er60dense", nx.gnp_random_graph(60, 0.2, seed=5)
    yield "ba150", nx.barabasi_albert_graph(150, 2, seed=3)
    yield "two_cliques", nx.disjoint_union(nx.complete_graph(5), nx.complete_graph(7))
    yield "isolated6", nx.empty_graph(6)
    yield "single", nx.empty_graph(1)
    g = nx.Graph()
    g.add_edges_from([("a", "b"), ("b", "c"), ("x", "y"), ("c", "a"), ("y", "z")])
    g.add_node("lonely")
    yield "strings", g
    mg = nx.MultiGraph()
    mg.add_edges_from([(0, 1), (0, 1), (1, 2), (2, 3), (3, 3), (4, 5), (4, 5), (4, 5)])
    yield "multigraph", mg
    sl = nx.path_graph(6)
    sl.add_edge(2, 2)
    sl.add_edge(5, 5)
    yield "selfloops", sl
    wg = nx.Graph()
    wg.add_edge(1, 2, weight=0.5)
    wg.add_edge(2, 3, weight=1.5)
    wg.add_node(9, colour="red")
    yield "attributed", wg


PHIS = [0.0, 0.1, 0.25, 0.5, 0.75, 0.9, 1.0, 1.5, -0.3, True, 0, 1,
        np.float64(0.4), float("nan"), float("inf")]

random.seed(20261003)
np.random.seed(77)

for name, g in graphs():
    before = snapshot(g)
    for phi in PHIS:
        for rep in range(4):
            s = bond_percolate(g, phi)
            emit("%s phi=%r rep=%d" % (name, phi, rep), (type(s).__name__, s.hex()))
        # RNG stream position after the calls must agree too
        emit("%s phi=%r rng" % (name, phi), random.random().hex())
    emit("%s untouched" % name, snapshot(g) == before)

# reseeding between calls / call history
g = nx.gnp_random_graph(120, 0.03, seed=2)
for seed in (0, 1, 2, 12345):
    random.seed(seed)
    vals = [bond_percolate(g, 0.6).hex() for _ in range(5)]
    emit("history seed=%d" % seed, vals)
    emit("history seed=%d state" % seed, hashlib.sha256(repr(random.getstate()).encode()).hexdigest())

# star distribution sample: (N*S - 1)/M
M = 40
star = nx.star_graph(M)
random.seed(99)
sample = [round(bond_percolate(star, 0.3) * (M + 1)) - 1 for _ in range(300)]
emit("star sample", sample)

# numpy RNG must not be consumed
emit("numpy rng", float(np.random.random()).hex())

# error behaviour
for label, bad in (("empty", nx.empty_graph(0)), ("directed", nx.path_graph(4, create_using=nx.DiGraph))):
    random.seed(5)
    try:
        r = bond_percolate(bad, 0.5)
        emit("error %s" % label, ("returned", r))
    except Exception as exc:  # noqa: BLE001
        emit("error %s" % label, (type(exc).__name__, str(exc)))
    emit("error %s rng" % label, random.random().hex())

for label, bad_phi in (("none", None), ("str", "0.5")):
    random.seed(6)
    try:
        r = bond_percolate(nx.path_graph(5), bad_phi)
        emit("badphi %s" % label, ("returned", r))
    except Exception as exc:  # noqa: BLE001
        emit("badphi %s" % label, (type(exc).__name__, str(exc)))
    emit("badphi %s rng" % label, random.random().hex())
    try:
        r = bond_percolate(nx.empty_graph(3), bad_phi)
        emit("badphi-noedges %s" % label, ("returned", r))
    except Exception as exc:  # noqa: BLE001
        emit("badphi-noedges %s" % label, (type(exc).__name__, str(exc)))

text = "\n".join(lines)
print(text)
print("DIGEST", hashlib.sha256(text.encode()).hexdigest())
