import sys, os; sys.path.insert(0, os.getcwd())
import hashlib
import math
import random
from fractions import Fraction
from decimal import Decimal

import numpy as np

from gcmpy.joint_degree.joint_degree_loaders.joint_degree_split_degree import (
    JointDegreeSplitDegree,
)
from gcmpy.joint_degree.joint_degree_loaders.joint_degree_delta import JointDegreeDelta
from gcmpy.joint_degree.joint_degree_factory import JointDegreeFactory
from gcmpy.joint_degree.joint_degree_type import JointDegreeType
from gcmpy.names.joint_degree_names import JointDegreeNames as N
from gcmpy.distributions.power_law import power_law
from gcmpy.distributions.poisson import poisson

random.seed(20261004)
np.random.seed(20261004)

H = hashlib.sha256()
LINES = 0


def enc(x):
    if isinstance(x, bool):
        return "b:%r" % x
    if isinstance(x, float):
        return "f:" + x.hex()
    if isinstance(x, np.floating):
        return "npf[%s]:%s" % (type(x).__name__, float(x).hex())
    if isinstance(x, np.integer):
        return "npi[%s]:%d" % (type(x).__name__, int(x))
    if isinstance(x, int):
        return "i:%d" % x
    if isinstance(x, np.ndarray):
        return "nd[%s]%s(%s)" % (x.dtype, x.shape, ",".join(enc(v) for v in x.ravel().tolist()))
    if isinstance(x, tuple):
        return "(" + ",".join(enc(v) for v in x) + ")"
    if isinstance(x, list):
        return "[" + ",".join(enc(v) for v in x) + "]"
    if isinstance(x, dict):
        return "{" + ",".join(enc(k) + "=>" + enc(v) for k, v in x.items()) + "}"
    if x is None:
        return "None"
    r = repr(x)
    if " at 0x" in r:
        r = "<obj>"
    return "%s:%s" % (type(x).__name__, r)


def emit(tag, payload, full=False):
    global LINES
    s = enc(payload) if not isinstance(payload, str) else payload
    H.update((tag + "|" + s + "\n").encode())
    LINES += 1
    if full or len(s) <= 300:
        print(tag, s)
    else:
        print(tag, "len=%d sha=%s" % (len(s), hashlib.sha256(s.encode()).hexdigest()[:24]))


def rng_state():
    st = random.getstate()
    a = hashlib.sha256(repr(st).encode()).hexdigest()[:16]
    ns = np.random.get_state()
    b = hashlib.sha256(ns[1].tobytes() + repr(ns[2:]).encode()).hexdigest()[:16]
    return a + "/" + b


def attempt(tag, fn):
    try:
        r = fn()
        emit(tag, r)
        return r
    except BaseException as e:  # noqa
        emit(tag, "EXC %s %s" % (type(e).__name__, str(e) if " at 0x" not in str(e) else "<msg>"))
        return None
    finally:
        emit(tag + ".rng", rng_state())


class CountingFp:
    """degree function that records the order in which it is asked"""

    def __init__(self, f):
        self.f = f
        self.calls = []

    def __call__(self, k):
        self.calls.append(k)
        return self.f(k)


def mk(probs, sizes, bound, fp, target=None, drop=None):
    p = {N.PROBS: probs, N.MOTIF_SIZES: sizes, N.LOW_HIGH_DEGREE_BOUND: bound, N.FP: fp}
    if target is not None:
        p[N.TARGET_K] = target
    if drop is not None:
        del p[drop]
    return p


def describe(obj):
    return (
        list(obj.jdd.items()),
        obj.motif_sizes,
        obj._probs,
        obj._low_high_degree_bound,
        sum(obj.jdd.values()),
    )


FPS = {
    "pl2.5": power_law(2.5),
    "pois3": poisson(3.0),
    "geo": lambda k: 0.5 ** k,
    "const_int": lambda k: 1,
    "lin_int": lambda k: k,
    "npf": lambda k: np.float64(1.0) / (k + 1),
    "frac": lambda k: Fraction(1, k + 1),
    "zero": lambda k: 0.0,
    "neg": lambda k: -1.0 if k % 2 else 1.0,
}

PROBS = {
    "p2": [0.8, 0.2],
    "p2t": (0.3, 0.7),
    "p3": [0.5, 0.3, 0.2],
    "p4": [0.4, 0.3, 0.2, 0.1],
    "p1": [1.0],
    "p2zero": [0.0, 1.0],
    "p2one": [1.0, 0.0],
    "p2allzero": [0.0, 0.0],
    "p2int": [1, 2],
    "p2big": [3.0e150, 2.0],
    "p2hugeint": [10, 7],
    "p2neg": [-0.5, 0.25],
    "p2np": [np.float64(0.8), np.float64(0.2)],
    "p2np32": [np.float32(0.8), np.float32(0.2)],
    "p2arr": np.array([0.6, 0.4]),
    "p2frac": [Fraction(2, 3), Fraction(1, 3)],
    "p2dec": [Decimal("0.8"), Decimal("0.2")],
    "p2cplx": [0.5 + 0.5j, 0.25],
    "p2nan": [float("nan"), 0.5],
    "p2inf": [float("inf"), 0.5],
    "p2dict": {0: 0.8, 1: 0.2},
    "p2str": ["a", "b"],
    "p2none": [None, 0.3],
    "p0": [],
}

SIZES = {
    "p2": [2, 3], "p2t": [2, 3], "p3": [2, 3, 4], "p4": [2, 3, 4, 5], "p1": [2], "p0": [],
}

# ---- 1. constructors over a grid -------------------------------------------------------
for pname, probs in PROBS.items():
    sizes = SIZES.get(pname, [2, 3])
    for fname in ("pl2.5", "geo", "const_int", "frac", "zero"):
        for bound in ((1, 9), (0, 6), (3, 4), (5, 5), (7, 2), [2, 12]):
            fp = CountingFp(FPS[fname])
            tag = "split[%s,%s,%r]" % (pname, fname, bound)
            o = attempt(tag, lambda: describe(JointDegreeSplitDegree(mk(probs, sizes, bound, fp))))
            emit(tag + ".calls", fp.calls)
            for target in (3, 0, 100):
                fp = CountingFp(FPS[fname])
                tag = "delta[%s,%s,%r,t%d]" % (pname, fname, bound, target)
                attempt(tag, lambda: describe(JointDegreeDelta(mk(probs, sizes, bound, fp, target))))
                emit(tag + ".calls", fp.calls)

# ---- 2. remaining degree functions, larger ranges --------------------------------------
for fname, f in FPS.items():
    for pname in ("p2", "p3", "p4", "p2np", "p2int"):
        probs, sizes = PROBS[pname], SIZES.get(pname, [2, 3])
        attempt("split.big[%s,%s]" % (pname, fname),
                lambda: describe(JointDegreeSplitDegree(mk(probs, sizes, (1, 40), f))))
        attempt("delta.big[%s,%s]" % (pname, fname),
                lambda: describe(JointDegreeDelta(mk(probs, sizes, (1, 40), f, 17))))

# ---- 3. odd parameter shapes / error paths ---------------------------------------------
geo = FPS["geo"]
ODD = {
    "sizes_longer": mk([0.8, 0.2], [2, 3, 4], (1, 6), geo, 3),
    "sizes_shorter": mk([0.5, 0.3, 0.2], [2, 3], (1, 6), geo, 3),
    "sizes_empty": mk([0.8, 0.2], [], (1, 6), geo, 3),
    "sizes_empty_onlytarget": mk([0.8, 0.2], [], (3, 4), geo, 3),
    "sizes_int": mk([0.8, 0.2], 5, (1, 6), geo, 3),
    "sizes_none": mk([0.8, 0.2], None, (1, 6), geo, 3),
    "sizes_tuple": mk([0.8, 0.2], (2, 3), (1, 6), geo, 3),
    "sizes_str": mk([0.8, 0.2], "ab", (1, 6), geo, 3),
    "sizes_dict": mk([0.8, 0.2], {2: 1, 3: 1}, (1, 6), geo, 3),
    "sizes_arr": mk([0.8, 0.2], np.array([2, 3]), (1, 6), geo, 3),
    "sizes_arr2d": mk([0.8, 0.2], np.zeros((2, 5)), (1, 6), geo, 3),
    "sizes_gen": mk([0.8, 0.2], (x for x in (2, 3)), (1, 6), geo, 3),
    "sizes_range": mk([0.8, 0.2], range(2, 4), (1, 6), geo, 3),
    "bound_three": mk([0.8, 0.2], [2, 3], (1, 9, 2), geo, 3),
    "bound_one": mk([0.8, 0.2], [2, 3], (4,), geo, 3),
    "bound_float": mk([0.8, 0.2], [2, 3], (1.0, 5.0), geo, 3),
    "bound_neg": mk([0.8, 0.2], [2, 3], (-3, 4), geo, 3),
    "bound_none": mk([0.8, 0.2], [2, 3], None, geo, 3),
    "bound_np": mk([0.8, 0.2], [2, 3], (np.int64(1), np.int64(6)), geo, 3),
    "fp_none": mk([0.8, 0.2], [2, 3], (1, 6), None, 3),
    "fp_raises": mk([0.8, 0.2], [2, 3], (1, 6), lambda k: 1 / (k - 4), 3),
    "fp_str": mk([0.8, 0.2], [2, 3], (1, 6), lambda k: "x", 3),
    "fp_list": mk([0.8, 0.2], [2, 3], (1, 4), lambda k: [1.0], 2),
    "fp_arr": mk([0.8, 0.2], [2, 3], (1, 4), lambda k: np.array([1.0, 2.0]), 2),
    "probs_none": mk(None, [2, 3], (1, 6), geo, 3),
    "probs_int": mk(3, [2, 3], (1, 6), geo, 3),
    "probs_gen": mk((x for x in (0.8, 0.2)), [2, 3], (1, 6), geo, 3),
    "target_float": mk([0.8, 0.2], [2, 3], (1, 6), geo, 3.0),
    "target_nan": mk([0.8, 0.2], [2, 3], (1, 6), geo, float("nan")),
    "target_str": mk([0.8, 0.2], [2, 3], (1, 6), geo, "3"),
    "target_arr": mk([0.8, 0.2], [2, 3], (1, 6), geo, np.array([3, 3])),
    "target_true": mk([0.8, 0.2], [2, 3], (0, 4), geo, True),
    "drop_fp": mk([0.8, 0.2], [2, 3], (1, 6), geo, 3, drop=N.FP),
    "drop_probs": mk([0.8, 0.2], [2, 3], (1, 6), geo, 3, drop=N.PROBS),
    "drop_sizes": mk([0.8, 0.2], [2, 3], (1, 6), geo, 3, drop=N.MOTIF_SIZES),
    "drop_bound": mk([0.8, 0.2], [2, 3], (1, 6), geo, 3, drop=N.LOW_HIGH_DEGREE_BOUND),
    "pow_overflow": mk([2.0, 3.0], [2, 3], (1, 1400), lambda k: 1.0, 3),
    "pow_underflow": mk([0.5, 0.25], [2, 3], (1, 700), lambda k: 1.0, 650),
}
for name, params in ODD.items():
    attempt("odd.split[%s]" % name, lambda: describe(JointDegreeSplitDegree(dict(params))))
    attempt("odd.delta[%s]" % name, lambda: describe(JointDegreeDelta(dict(params))))
attempt("odd.delta[no_target]", lambda: describe(JointDegreeDelta(mk([0.8, 0.2], [2, 3], (1, 6), geo))))
attempt("odd.factory.split", lambda: describe(JointDegreeFactory.resolve_joint_degree(
    JointDegreeType.SPLIT_DEGREE, mk([0.8, 0.2], [2, 3], (1, 6), geo))))
attempt("odd.factory.delta", lambda: describe(JointDegreeFactory.resolve_joint_degree(
    JointDegreeType.DELTA, mk([0.8, 0.2], [2, 3], (1, 6), geo, 4))))

# ---- 4. the helper methods called directly on one object, repeatedly ---------------------
o = JointDegreeSplitDegree(mk([0.5, 0.3, 0.2], [2, 3, 4], (1, 8), FPS["pl2.5"]))
d = JointDegreeDelta(mk([0.5, 0.3, 0.2], [2, 3, 4], (1, 8), FPS["pl2.5"], 5))
JDS = [
    (0, 0, 0), (1, 0, 0), [3, 2, 1], (0, 0, 7), (5,), (), (1, 2), (1, 2, 3, 4), (1, 2, 3, 4, 5),
    (-1, 0, 0), (0, -2, 0), (1.5, 0.5, 0), (2, None, 1), ("a", 1, 1), (True, False, True),
    (np.int64(2), np.int64(1), np.int64(0)), np.array([1, 2, 0]), (10 ** 6, 0, 0), (0, 0, 10 ** 6),
    (Fraction(1, 2), 0, 0), range(3), "012", {0: 1, 1: 2}, None, 5, iter([1, 1, 1]),
]
for obj, oname in ((o, "S"), (d, "D")):
    for jd in JDS:
        attempt("calc[%s,%r]" % (oname, jd if not hasattr(jd, "__next__") else "iter"),
                lambda: obj.calc_prob_of_joint_degree(jd))
    for probs_name in ("p2zero", "p2int", "p2hugeint", "p2np32", "p2arr", "p2frac", "p2dec", "p2cplx",
                       "p2nan", "p2inf", "p2dict", "p2str", "p2none", "p0", "p2neg", "p2big"):
        saved = obj._probs
        obj._probs = PROBS[probs_name]
        for jd in ((0, 0), (2, 1), (0, 3), (400, 0), (0, 400), (-1, 0), (0, -1), (1,), (1, 1, 1), ()):
            attempt("calc2[%s,%s,%r]" % (oname, probs_name, jd), lambda: obj.calc_prob_of_joint_degree(jd))
        obj._probs = saved
    for rem, top in ((0, 1), (5, 1), (0, 2), (1, 2), (6, 2), (7, 3), (12, 4), (9, 5), (-1, 1), (-1, 2), (-7, 3),
                     (4, 0), (4, -1), (5.0, 2), (5, 2.0), (True, 2), (np.int64(6), 3), ("ab", 1), ("ab", 2),
                     (None, 1), (None, 2), (3, None)):
        attempt("valid[%s,%r,%r]" % (oname, rem, top), lambda: list(obj.get_valid_joint_degrees(rem, top)))
    g = obj.get_valid_joint_degrees(9, 3)
    attempt("valid.partial[%s]" % oname, lambda: [next(g), next(g), next(g)])
    attempt("valid.rest[%s]" % oname, lambda: list(g))
    for k, pk in ((0, 0.25), (1, 0.5), (4, 0.125), (4, 0.5), (9, 1), (9, 0.0), (6, Fraction(1, 3)), (6, np.float64(0.1)),
                  (-2, 0.3), (3.0, 0.3), (None, 0.3), (5, None), (5, "x"), (5, [1]), (True, 0.5), (30, 1e-300), (30, 1e300)):
        attempt("resolve[%s,%r,%r]" % (oname, k, pk), lambda: (obj.resolve_degree(k, pk), list(obj.jdd.items()))[1])
    attempt("normalise[%s]" % oname, lambda: (obj.normalise_jdd(), list(obj.jdd.items()))[1])
    attempt("normalise2[%s]" % oname, lambda: (obj.normalise_jdd(), list(obj.jdd.items()))[1])
    attempt("recreate[%s]" % oname, lambda: (obj.create_jdd(), list(obj.jdd.items()))[1])
    attempt("recreate2[%s]" % oname, lambda: (obj.create_jdd(), list(obj.jdd.items()))[1])
    obj._probs = [0.0, 0.0, 0.0]
    attempt("recreate.zero[%s]" % oname, lambda: (obj.create_jdd(), list(obj.jdd.items()))[1])
    emit("after.zero[%s]" % oname, list(obj.jdd.items()))
    obj._probs = [0.25, 0.75]
    attempt("recreate.short[%s]" % oname, lambda: (obj.create_jdd(), list(obj.jdd.items()))[1])
    obj._motif_sizes = [2]
    attempt("recreate.sizes1[%s]" % oname, lambda: (obj.create_jdd(), list(obj.jdd.items()))[1])
    obj.motif_sizes = []
    attempt("recreate.sizes0[%s]" % oname, lambda: (obj.create_jdd(), list(obj.jdd.items()))[1])
    emit("after.sizes0[%s]" % oname, list(obj.jdd.items()))
    obj.motif_sizes = 7
    attempt("recreate.sizesint[%s]" % oname, lambda: (obj.create_jdd(), list(obj.jdd.items()))[1])
    emit("after.sizesint[%s]" % oname, list(obj.jdd.items()))
    obj.motif_sizes = [2, 3]
    obj._low_high_degree_bound = (2, 11)
    attempt("recreate.bound[%s]" % oname, lambda: (obj.create_jdd(), list(obj.jdd.items()))[1])
    if oname == "D":
        for t in (2, 10, 11, 6.0, None, "6"):
            obj._target_k = t
            attempt("recreate.target[%r]" % (t,), lambda: (obj.create_jdd(), list(obj.jdd.items()))[1])

# ---- 5. sampling: consumption of the random stream after construction --------------------
for cls, extra in ((JointDegreeSplitDegree, {}), (JointDegreeDelta, {N.TARGET_K: 3}), (JointDegreeDelta, {N.TARGET_K: 50})):
    for probs, sizes in (([0.8, 0.2], [2, 3]), ([0.5, 0.3, 0.2], [2, 3, 4]), ([0.4, 0.3, 0.2, 0.1], [2, 3, 4, 5])):
        params = mk(probs, sizes, (1, 30), FPS["pl2.5"])
        params.update(extra)
        obj = cls(params)
        tag = "sample[%s,%d,%r]" % (cls.__name__, len(probs), extra.get(N.TARGET_K))
        emit(tag + ".rng0", rng_state())
        for n in (0, 1, 7, 500, 500):
            random.seed(n + 11)
            attempt(tag + ".n%d" % n, lambda: obj.sample_jds_from_jdd(n))
        attempt(tag + ".again", lambda: obj.sample_jds_from_jdd(50))
        attempt(tag + ".neg", lambda: obj.sample_jds_from_jdd(-1))
        attempt(tag + ".float", lambda: obj.sample_jds_from_jdd(2.5))

emit("final.rng", rng_state())
print("LINES", LINES)
print("DIGEST", H.hexdigest())
