import sys, os; sys.path.insert(0, os.getcwd())
import hashlib
import random

import numpy as np

from gcmpy.tools.draw_set import DrawSet

OUT = []


def emit(*xs):
    OUT.append(" ".join(repr(x) for x in xs))


def call(label, f, *args):
    try:
        r = f(*args)
        emit(label, "ok", r)
        return r
    except BaseException as ex:
        emit(label, "exc", type(ex).__name__)
        return None


def state(s):
    emit("state", len(s), list(iter(s)), type(iter(s)).__name__,
         list(s._edges), list(s._edge_hashmap.items()))


class Wobbly(object):
    """hash taken from a mutable field; may be told to raise"""

    def __init__(self, name, h):
        self.name = name
        self.h = h
        self.boom = False

    def __hash__(self):
        if self.boom:
            raise RuntimeError("boom")
        return self.h

    def __eq__(self, other):
        return isinstance(other, Wobbly) and other.name == self.name

    def __repr__(self):
        return "W(%s)" % self.name


class NeverEqual(object):
    def __hash__(self):
        return 7

    def __eq__(self, other):
        return False

    def __repr__(self):
        return "NE"


def scripted():
    s = DrawSet()
    state(s)
    call("len0", len, s)
    call("draw-empty", s.draw)
    call("remove-empty", s.remove, (0, 1))
    call("contains-empty", s.__contains__, (0, 1))
    call("contains-unhashable", s.__contains__, [0, 1])
    call("add-unhashable", s.add, [0, 1])
    call("add-unhashable-in-tuple", s.add, (0, [1]))
    call("remove-unhashable", s.remove, [0, 1])
    state(s)
    call("add", s.add, (0, 1))
    state(s)
    call("contains-first", s.__contains__, (0, 1))
    call("in-first", lambda: (0, 1) in s)
    call("add-again", s.add, (0, 1))
    state(s)
    call("draw-one", s.draw)
    call("remove-only", s.remove, (0, 1))
    state(s)
    call("remove-again", s.remove, (0, 1))
    state(s)
    for e in [(0, 1), (1, 2), (2, 3), (3, 4), (0, 1), (1.0, 2.0), (True, 2), None, "ab", 5, (), float("nan")]:
        call("add", s.add, e)
        state(s)
    for e in [(0, 1), (1, 2), (9, 9), (1, 2.0), None, "ab", 5, 0, (), (3, 4), (2, 3)]:
        call("in", s.__contains__, e)
    call("remove-first", s.remove, (0, 1))
    state(s)
    call("in-moved", s.__contains__, s._edges[0])
    call("remove-last", s.remove, s._edges[-1])
    state(s)
    call("remove-middle", s.remove, (2, 3))
    state(s)
    call("remove-absent", s.remove, (2, 3))
    state(s)
    call("remove-none", s.remove, None)
    state(s)
    for i in range(10):
        call("draw", s.draw)
    nan = float("nan")
    call("add-nan", s.add, nan)
    call("add-nan-again", s.add, nan)
    call("in-nan", s.__contains__, nan)
    call("in-other-nan", s.__contains__, float("nan"))
    call("remove-other-nan", s.remove, float("nan"))
    call("remove-nan", s.remove, nan)
    state(s)
    ne = NeverEqual()
    call("add-ne", s.add, ne)
    call("add-ne2", s.add, NeverEqual())
    call("in-ne", s.__contains__, ne)
    call("in-ne-other", s.__contains__, NeverEqual())
    call("remove-ne", s.remove, ne)
    state(s)
    while len(s):
        e = call("draw", s.draw)
        call("remove", s.remove, e)
        state(s)
    call("draw-drained", s.draw)
    call("remove-drained", s.remove, (1, 2))
    call("add-after-drain", s.add, (5, 6))
    state(s)


def pathological():
    s = DrawSet()
    a, b, c = Wobbly("a", 1), Wobbly("b", 2), Wobbly("c", 3)
    for w in (a, b, c):
        call("add", s.add, w)
    state(s)
    c.h = 33
    call("in-c-rehash", s.__contains__, c)
    call("add-c-rehash", s.add, c)
    state(s)
    call("remove-a", s.remove, a)
    state(s)
    c.h = 3
    call("in-c-back", s.__contains__, c)
    call("remove-c-back", s.remove, c)
    state(s)
    call("remove-b", s.remove, b)
    state(s)
    c.h = 33
    call("remove-c", s.remove, c)
    state(s)
    call("remove-c-again", s.remove, c)
    state(s)
    call("len", len, s)
    call("draw", s.draw)

    s = DrawSet()
    a, b, c = Wobbly("a", 1), Wobbly("b", 2), Wobbly("c", 3)
    for w in (a, b, c):
        call("add", s.add, w)
    c.boom = True
    call("in-boom", s.__contains__, c)
    call("add-boom", s.add, c)
    state(s)
    call("remove-a-with-boom-last", s.remove, a)
    c.boom = False
    state(s)
    call("remove-b", s.remove, b)
    state(s)
    call("remove-c", s.remove, c)
    state(s)
    call("add-tuple-boom", s.add, (1, c))
    c.boom = True
    call("add-tuple-boom", s.add, (1, c))
    call("remove-tuple-boom", s.remove, (1, c))
    c.boom = False
    state(s)


def fuzz(seed, universe, steps):
    rng = random.Random(seed)
    s = DrawSet()
    model = set()
    h = hashlib.sha256()
    for step in range(steps):
        op = rng.random()
        e = (rng.randrange(universe), rng.randrange(universe))
        if op < 0.4:
            r = ("add", e, s.add(e))
            model.add(e)
        elif op < 0.7:
            try:
                r = ("remove", e, s.remove(e))
                model.discard(e)
            except KeyError as ex:
                r = ("remove", e, "KeyError", e in model)
        elif op < 0.85:
            try:
                r = ("draw", s.draw())
            except IndexError:
                r = ("draw", "IndexError")
        else:
            r = ("in", e, e in s)
        h.update(repr((r, len(s), list(s), s._edges, sorted(s._edge_hashmap.items()),
                       list(s._edge_hashmap.items()))).encode())
        assert set(s) == model and len(s) == len(model)
    emit("fuzz", seed, universe, steps, len(s), h.hexdigest())


def mcmc_like(seed, n):
    random.seed(seed)
    s = DrawSet()
    for i in range(n):
        s.add(tuple(sorted((random.randrange(n), random.randrange(n)))))
    h = hashlib.sha256()
    for it in range(4 * n):
        if not len(s):
            break
        e0 = s.draw()
        e1 = s.draw()
        if e0 == e1:
            continue
        new0 = tuple(sorted((e0[0], e1[1])))
        new1 = tuple(sorted((e1[0], e0[1])))
        if new0 in s or new1 in s:
            continue
        s.add(new0)
        s.add(new1)
        s.remove(e0)
        s.remove(e1)
        h.update(repr((e0, e1, len(s), s._edges[:5], s._edges[-5:])).encode())
    emit("mcmc", seed, n, len(s), list(s), list(s._edge_hashmap.items()), h.hexdigest())


random.seed(20)
np.random.seed(20)
scripted()
emit("rng", hashlib.sha256(repr(random.getstate()).encode()).hexdigest())
pathological()
emit("rng", hashlib.sha256(repr(random.getstate()).encode()).hexdigest())
for seed in range(12):
    for universe in (1, 2, 3, 6, 20):
        fuzz(seed, universe, 400)
for seed in range(5):
    for n in (1, 2, 5, 40, 300):
        mcmc_like(seed, n)
emit("rng", hashlib.sha256(repr(random.getstate()).encode()).hexdigest())
emit("nprng", hashlib.sha256(repr(np.random.get_state()).encode()).hexdigest())
print("\n".join(OUT))
print("digest", hashlib.sha256("\n".join(OUT).encode()).hexdigest())
