import sys, os; sys.path.insert(0, os.getcwd())

# Behavioural digest of everything the C03 commit touched, through public
# entry points that exist on the original code as well:
#   GCMAlgorithmFast.random_clustered_graph
#   GCMAlgorithmNetwork.random_clustered_graph   (delegates to Fast)
#   GCMAlgorithmCustomMotifs.random_clustered_graph / .partition
#   GCMAlgorithmFactory.resolve_algorithm
# Prints results, exception types, mutated inputs and the RNG state after
# every call.

import copy
import hashlib
import random
import warnings

warnings.simplefilter("ignore")

import numpy as np

from gcmpy.gcm_algorithm.gcm_algorithm_fast import GCMAlgorithmFast
from gcmpy.gcm_algorithm.gcm_algorithm_network import GCMAlgorithmNetwork
from gcmpy.gcm_algorithm.gcm_algorithm_custom_motifs import GCMAlgorithmCustomMotifs
from gcmpy.gcm_algorithm.gcm_algorithm_factory import GCMAlgorithmFactory
from gcmpy.gcm_algorithm.gcm_algorithm_types import GCMAlgorithmTypes
from gcmpy.motif_generators.clique_motif import clique_motif
from gcmpy.names.gcm_algorithm_names import GCMAlgorithmNames as N


def rng_digest():
    h = hashlib.sha256()
    h.update(repr(random.getstate()).encode())
    st = np.random.get_state()
    h.update(repr((st[0], st[1].tobytes(), st[2], st[3], repr(st[4]))).encode())
    return h.hexdigest()[:16]


def show_edge_list(el):
    return "edges=%r topologies=%r motif_id=%r jds=%r" % (
        el.edge_list,
        el.topologies,
        el.motif_id,
        el.joint_degrees,
    )


def show_network(net):
    g = net.G
    return "nodes=%r edges=%r" % (
        sorted(g.nodes(data=True), key=repr),
        sorted(g.edges(data=True), key=repr),
    )


def call(label, fn, *args, show=repr):
    before = [copy.deepcopy(a) for a in args]
    try:
        out = fn(*args)
        res = "-> " + show(out)
    except BaseException as e:  # noqa: BLE001 - digest the type only
        res = "!! " + type(e).__name__
    same = "inputs-unchanged" if repr(before) == repr(list(args)) else (
        "inputs-mutated " + repr(list(args))
    )
    print("%s %s | %s | rng=%s" % (label, res, same, rng_digest()))


# ---------------------------------------------------------------- callbacks


def twoclique(vs):
    return (vs[0], vs[1])


def twoclique_names():
    return "2-clique"


def threeclique(vs):
    return (vs[0], vs[1]), (vs[0], vs[2]), (vs[1], vs[2])


def threeclique_names():
    return "3-clique", "3-clique", "3-clique"


def diamond(vs):
    return (
        (vs[0], vs[1]),
        (vs[1], vs[2]),
        (vs[2], vs[3]),
        (vs[3], vs[1]),
        (vs[0], vs[2]),
    )


def diamond_names():
    return ("d-outer", "d-outer", "d-outer", "d-outer", "d-inner")


def pentagon(vs):
    return (
        (vs[0], vs[1]),
        (vs[1], vs[2]),
        (vs[2], vs[3]),
        (vs[3], vs[4]),
        (vs[0], vs[4]),
        (vs[1], vs[3]),
    )


def pentagon_names():
    return "p01", "p12", "p23", "p34", "p40", "p13"


def path_list(vs):
    # list-valued edges, variable length (handles short last groups)
    return [[a, b] for a, b in zip(vs, vs[1:])]


def path_names_for(n):
    def names():
        return ["path"] * n

    return names


def lenient(vs):
    # never indexes: usable with groups of any length
    return [(v, v + 100) for v in vs]


def lenient_names():
    return ["len-a", "len-b", "len-c", "len-d", "len-e", "len-f"]


# ------------------------------------------------------------------ inputs

JDS_TEST = [
    (2, 1, 0, 1, 1, 0, 0),
    (1, 1, 0, 1, 1, 0, 0),
    (3, 1, 1, 0, 0, 1, 0),
    (2, 0, 1, 0, 0, 1, 0),
    (0, 0, 0, 1, 0, 0, 1),
    (1, 0, 0, 1, 0, 0, 0),
    (1, 0, 1, 0, 0, 0, 0),
    (1, 0, 1, 0, 0, 0, 0),
    (1, 0, 0, 1, 0, 0, 0),
    (1, 0, 0, 1, 0, 0, 0),
    (1, 0, 1, 0, 0, 0, 0),
    (0, 0, 1, 0, 0, 0, 0),
]

JDS_FAST = [(2, 1), (1, 1), (3, 0), (0, 1), (2, 2), (1, 0), (1, 1), (2, 0)]
JDS_ODD = [(1, 1), (1, 1), (1, 0), (0, 2), (2, 1)]  # lengths not multiples
JDS_NP = [tuple(np.int64(x) for x in r) for r in JDS_FAST]
JDS_LISTS = [list(r) for r in JDS_FAST]
JDS_BOOL = [(True, False), (True, True), (False, True), (True, True)]
JDS_NEG = [(2, -1), (1, 1), (-3, 1), (1, 1)]
JDS_FLOAT = [(2, 1), (1.0, 1), (1, 1)]
JDS_FLOAT_LATE = [(2, 1), (1, 1), (1, 1.5)]
JDS_NONE = [(2, 1), (None, 1)]
JDS_RAGGED = [(2, 1, 4), (1, 1), (3, 1, 0), (0, 1)]
JDS_NOT_ITER = [(1, 1), 3]
JDS_ZERO = [(0, 0), (0, 0)]
JDS_EMPTY_TUPLES = [(), ()]
JDS_SELF = [(4, 3), (0, 0), (0, 0)]  # one vertex holds every stub


def fast_params(sizes, names=("e2", "e3"), builders=(clique_motif, clique_motif)):
    return {
        N.MOTIF_SIZES: sizes,
        N.EDGE_NAMES: list(names),
        N.BUILD_FUNCTIONS: list(builders),
    }


def custom_params(sizes, names, builders, indices):
    return {
        N.MOTIF_SIZES: sizes,
        N.EDGE_NAMES: names,
        N.BUILD_FUNCTIONS: builders,
        N.MOTIF_INDICES: indices,
    }


def section(title):
    print("==== " + title)


def main():
    random.seed(30303)
    np.random.seed(30303)
    print("start rng=" + rng_digest())

    # ------------------------------------------------------------- Fast
    section("fast")
    fast = GCMAlgorithmFast(fast_params([2, 3]))
    for name, jds in [
        ("jds_fast", JDS_FAST),
        ("jds_fast_again", JDS_FAST),
        ("jds_odd", JDS_ODD),
        ("jds_np", JDS_NP),
        ("jds_lists", JDS_LISTS),
        ("jds_bool", JDS_BOOL),
        ("jds_neg", JDS_NEG),
        ("jds_float", JDS_FLOAT),
        ("jds_float_late", JDS_FLOAT_LATE),
        ("jds_none", JDS_NONE),
        ("jds_ragged", JDS_RAGGED),
        ("jds_not_iter", JDS_NOT_ITER),
        ("jds_zero", JDS_ZERO),
        ("jds_empty", []),
        ("jds_empty_tuples", JDS_EMPTY_TUPLES),
        ("jds_self", JDS_SELF),
        ("jds_tuple_outer", tuple(JDS_FAST)),
        ("jds_after_errors", JDS_FAST),
    ]:
        call("fast[2,3] " + name, fast.random_clustered_graph, jds, show=show_edge_list)

    call(
        "fast generator-jds",
        lambda: fast.random_clustered_graph(r for r in JDS_FAST),
        show=lambda el: "edges=%r topologies=%r motif_id=%r" % (
            el.edge_list, el.topologies, el.motif_id),
    )

    for sizes in [
        [1, 1],
        [3, 2],
        [5, 4],
        [100, 100],
        [2, 3, 7],      # longer than the number of topologies
        (2, 3),
        [np.int64(2), np.int64(3)],
        [True, 2],
        [2],            # shorter: IndexError after first topology
        [],
        [0, 3],
        [2, 0],
        [-1, 3],
        [2, -2],
        [2.0, 3],
        [2, 3.0],
        [None, 3],
        ["2", 3],
        {0: 2, 1: 3},
        None,
    ]:
        alg = GCMAlgorithmFast(fast_params(sizes))
        call("fast sizes=%r jds_fast" % (sizes,), alg.random_clustered_graph, JDS_FAST,
             show=show_edge_list)
        call("fast sizes=%r jds_odd" % (sizes,), alg.random_clustered_graph, JDS_ODD,
             show=show_edge_list)

    # short name / builder lists, failing builders
    call("fast short-names", GCMAlgorithmFast(fast_params([2, 3], names=("e2",)))
         .random_clustered_graph, JDS_FAST, show=show_edge_list)
    call("fast short-builders", GCMAlgorithmFast(
        fast_params([2, 3], builders=(clique_motif,))).random_clustered_graph,
        JDS_FAST, show=show_edge_list)
    call("fast indexing-builder-odd", GCMAlgorithmFast(
        fast_params([2, 3], builders=(twoclique, threeclique))).random_clustered_graph,
        JDS_ODD, show=show_edge_list)
    call("fast path-builder", GCMAlgorithmFast(
        fast_params([4, 2], builders=(path_list, path_list))).random_clustered_graph,
        JDS_FAST, show=show_edge_list)

    # single topology, the enumerable spaces of the property
    pairs = GCMAlgorithmFast(
        {N.MOTIF_SIZES: [2], N.EDGE_NAMES: ["2-clique"], N.BUILD_FUNCTIONS: [clique_motif]})
    tris = GCMAlgorithmFast(
        {N.MOTIF_SIZES: [3], N.EDGE_NAMES: ["3-clique"], N.BUILD_FUNCTIONS: [clique_motif]})
    for i in range(6):
        call("fast pairs #%d" % i, pairs.random_clustered_graph, [(1,)] * 4,
             show=show_edge_list)
        call("fast tris #%d" % i, tris.random_clustered_graph, [(1,)] * 6,
             show=show_edge_list)

    # ---------------------------------------------------------- Network
    section("network")
    net = GCMAlgorithmNetwork(fast_params([2, 3]))
    for name, jds in [("jds_fast", JDS_FAST), ("jds_odd", JDS_ODD), ("jds_np", JDS_NP),
                      ("jds_float", JDS_FLOAT), ("jds_empty", []),
                      ("jds_fast_again", JDS_FAST)]:
        call("network[2,3] " + name, net.random_clustered_graph, jds, show=show_network)
    call("network sizes=[0,3]", GCMAlgorithmNetwork(fast_params([0, 3]))
         .random_clustered_graph, JDS_FAST, show=show_network)
    call("network sizes=[2]", GCMAlgorithmNetwork(fast_params([2]))
         .random_clustered_graph, JDS_FAST, show=show_network)

    # ---------------------------------------------------- Custom motifs
    section("custom")
    test_names = [twoclique_names, threeclique_names, diamond_names, pentagon_names]
    test_builders = [twoclique, threeclique, diamond, pentagon]
    test_indices = [[0], [1], [2, 3], [4, 5, 6]]
    custom = GCMAlgorithmCustomMotifs(
        custom_params([2, 3, 2, 2, 2, 2, 1], test_names, test_builders, test_indices))
    for i in range(4):
        call("custom test-config #%d" % i, custom.random_clustered_graph, JDS_TEST,
             show=show_edge_list)
    call("custom test-config lists", custom.random_clustered_graph,
         [list(r) for r in JDS_TEST], show=show_edge_list)
    call("custom test-config np", custom.random_clustered_graph,
         [tuple(np.int64(x) for x in r) for r in JDS_TEST], show=show_edge_list)
    call("custom test-config too-few-columns", custom.random_clustered_graph, JDS_FAST,
         show=show_edge_list)
    call("custom test-config empty", custom.random_clustered_graph, [],
         show=show_edge_list)
    call("custom test-config float", custom.random_clustered_graph,
         [JDS_TEST[0], tuple(float(x) for x in JDS_TEST[1])], show=show_edge_list)
    call("custom test-config after-errors", custom.random_clustered_graph, JDS_TEST,
         show=show_edge_list)

    # the enumerable spaces of the property
    cpairs = GCMAlgorithmCustomMotifs(
        custom_params([2], [twoclique_names], [twoclique], [[0]]))
    ctris = GCMAlgorithmCustomMotifs(
        custom_params([3], [threeclique_names], [threeclique], [[0]]))
    for i in range(8):
        call("custom pairs #%d" % i, cpairs.random_clustered_graph, [(1,)] * 4,
             show=show_edge_list)
        call("custom tris #%d" % i, ctris.random_clustered_graph, [(1,)] * 6,
             show=show_edge_list)
    call("custom pairs self-loops", cpairs.random_clustered_graph, [(4,), (2,), (0,)],
         show=show_edge_list)
    call("custom pairs odd-count", cpairs.random_clustered_graph, [(1,)] * 5,
         show=show_edge_list)
    call("custom tris remainder-2", ctris.random_clustered_graph, [(1,)] * 8,
         show=show_edge_list)
    call("custom pairs zero", cpairs.random_clustered_graph, JDS_ZERO, show=show_edge_list)
    call("custom pairs neg", cpairs.random_clustered_graph, [(2,), (-1,), (2,)],
         show=show_edge_list)
    call("custom pairs none", cpairs.random_clustered_graph, [(2,), (None,)],
         show=show_edge_list)
    call("custom pairs not-iter", cpairs.random_clustered_graph, [(2,), 2],
         show=show_edge_list)
    call("custom pairs empty-tuples", cpairs.random_clustered_graph, JDS_EMPTY_TUPLES,
         show=show_edge_list)
    call("custom pairs bool", cpairs.random_clustered_graph,
         [(True,), (True,), (False,), (True,), (True,)], show=show_edge_list)

    # two columns, configurable sizes / indices: success, reordered and error paths
    two_names = [lenient_names, lenient_names]
    two_builders = [lenient, lenient]
    for sizes, indices in [
        ([2, 3], [[0], [1]]),
        ([2, 3], [[1], [0]]),
        ([2, 3], [[0, 1]]),
        ([2, 3], [[1, 0]]),
        ([2, 3], [[0, 1], [1]]),      # column 1 consumed twice: pop from empty list
        ([2, 3], [[0], [0]]),
        ([2, 3], [[0]]),              # column 1 unused
        ([2, 3], [[0], [2]]),         # index out of range
        ([2, 3], [[], [1]]),          # empty orbit list
        ([2, 3], []),
        ([2, 3], [0, 1]),             # not lists
        ([2, 3], None),
        ([2, 3], [[0], [-1]]),        # negative index
        ([1, 1], [[0], [1]]),
        ([3, 2], [[0, 1]]),
        ([100, 100], [[0], [1]]),
        ([2, 3, 7], [[0], [1]]),      # sizes longer than the number of columns
        ([2, 3, 7], [[0], [2]]),
        ((2, 3), [[0], [1]]),
        ([np.int64(2), np.int64(3)], [[0], [1]]),
        ([True, 2], [[0], [1]]),
        ([2], [[0]]),                 # sizes shorter than the number of columns
        ([2], [[0], [1]]),
        ([], [[0]]),
        ([0, 3], [[0], [1]]),         # zero size first: error before later lists split
        ([2, 0], [[0], [1]]),
        ([0, 0], [[0], [1]]),
        ([0, 3], [[1]]),
        ([-1, 3], [[0], [1]]),
        ([2, -2], [[0], [1]]),
        ([-2, -3], [[1, 0]]),
        ([2.0, 3], [[0], [1]]),
        ([2, 3.0], [[0], [1]]),
        ([None, 3], [[0], [1]]),
        (["2", 3], [[0], [1]]),
        ({0: 2, 1: 3}, [[0], [1]]),
        ({0: 2}, [[0]]),
        (None, [[0], [1]]),
        (5, [[0], [1]]),
    ]:
        try:
            alg = GCMAlgorithmCustomMotifs(
                custom_params(sizes, two_names, two_builders, indices))
        except BaseException as e:  # noqa: BLE001
            print("custom ctor sizes=%r indices=%r !! %s" % (sizes, indices,
                                                             type(e).__name__))
            continue
        for jname, jds in [("jds_fast", JDS_FAST), ("jds_odd", JDS_ODD),
                           ("jds_zero", JDS_ZERO)]:
            call("custom sizes=%r indices=%r %s" % (sizes, indices, jname),
                 alg.random_clustered_graph, jds, show=show_edge_list)

    # three columns with a bad size in the middle / at the end: how far the
    # generator gets before the error is visible in the RNG state
    jds3 = [(2, 1, 3), (1, 1, 1), (3, 0, 2), (0, 2, 2)]
    for sizes in ([2, 2, 2], [0, 2, 2], [2, 0, 2], [2, 2, 0], [2, 2], [2], [2, 2.5, 2]):
        alg = GCMAlgorithmCustomMotifs(custom_params(
            sizes, [lenient_names] * 3, [lenient] * 3, [[0], [1], [2]]))
        call("custom3 sizes=%r" % (sizes,), alg.random_clustered_graph, jds3,
             show=show_edge_list)

    # builders returning lists, names shorter than edges, failing builders
    call("custom list-edges", GCMAlgorithmCustomMotifs(custom_params(
        [3, 2], [path_names_for(2), path_names_for(1)], [path_list, path_list],
        [[0], [1]])).random_clustered_graph, JDS_FAST, show=show_edge_list)
    call("custom list-edges merged-orbits", GCMAlgorithmCustomMotifs(custom_params(
        [3, 2], [path_names_for(4)], [path_list], [[0, 1]])).random_clustered_graph,
        JDS_FAST, show=show_edge_list)
    call("custom indexing-builder short-group", GCMAlgorithmCustomMotifs(custom_params(
        [2, 3], [twoclique_names, threeclique_names], [twoclique, threeclique],
        [[0], [1]])).random_clustered_graph, JDS_ODD, show=show_edge_list)
    call("custom short-builders", GCMAlgorithmCustomMotifs(custom_params(
        [2, 3], [twoclique_names], [twoclique], [[0], [1]])).random_clustered_graph,
        JDS_FAST, show=show_edge_list)
    call("custom names-not-callable", GCMAlgorithmCustomMotifs(custom_params(
        [2, 3], ["a", "b"], [lenient, lenient], [[0], [1]])).random_clustered_graph,
        JDS_FAST, show=show_edge_list)

    # constructor error paths
    for label, params in [
        ("no-indices", fast_params([2, 3])),
        ("empty", {}),
        ("no-sizes", {N.MOTIF_INDICES: [[0]]}),
    ]:
        call("custom ctor " + label, lambda p=params: type(GCMAlgorithmCustomMotifs(p)).__name__)
        call("fast ctor " + label, lambda p=params: type(GCMAlgorithmFast(p)).__name__)

    # partition helper through the instance
    section("partition")
    lst = list(range(7))
    for n in (1, 2, 3, 7, 8, 100, 0, -1, -3, 2.0, None, "2", True, np.int64(3)):
        call("partition(range7, %r)" % (n,), custom.partition, lst, n)
    call("partition([], 2)", custom.partition, [], 2)
    call("partition([], 0)", custom.partition, [], 0)
    call("partition(tuple, 2)", custom.partition, (1, 2, 3), 2)
    call("partition(str, 2)", custom.partition, "abcde", 2)
    call("partition(None, 2)", custom.partition, None, 2)
    call("partition(nested, 2)", custom.partition, [[1], [2], [3]], 2)
    part_in = [[1], [2], [3]]
    part_out = custom.partition(part_in, 2)
    print("partition aliasing: elements shared=%r fresh outer=%r" % (
        part_out[0][0] is part_in[0], part_out is not part_in))
    call("partition other-instance", cpairs.partition, lst, 4)

    # ---------------------------------------------------------- Factory
    section("factory")
    for t in (GCMAlgorithmTypes.FAST, GCMAlgorithmTypes.NETWORK):
        alg = GCMAlgorithmFactory.resolve_algorithm(t, fast_params([2, 3]))
        print("factory %s -> %s" % (t.name, type(alg).__name__))
        call("factory %s jds_fast" % t.name, alg.random_clustered_graph, JDS_FAST,
             show=show_network if t is GCMAlgorithmTypes.NETWORK else show_edge_list)
    alg = GCMAlgorithmFactory.resolve_algorithm(
        GCMAlgorithmTypes.MOTIFS,
        custom_params([2, 3, 2, 2, 2, 2, 1], test_names, test_builders, test_indices))
    print("factory MOTIFS -> %s" % type(alg).__name__)
    call("factory MOTIFS jds_test", alg.random_clustered_graph, JDS_TEST,
         show=show_edge_list)
    call("factory unknown", lambda: GCMAlgorithmFactory.resolve_algorithm("nope", {}))

    # interleaving on shared RNG: alternate generators on the same objects
    section("interleaved")
    for i in range(3):
        call("interleaved fast #%d" % i, fast.random_clustered_graph, JDS_FAST,
             show=show_edge_list)
        call("interleaved custom #%d" % i, custom.random_clustered_graph, JDS_TEST,
             show=show_edge_list)
        call("interleaved network #%d" % i, net.random_clustered_graph, JDS_ODD,
             show=show_network)
    print("object state: fast sizes=%r custom sizes=%r custom indices=%r" % (
        fast._motif_sizes, custom._motif_sizes, custom._motif_indices))
    print("end rng=" + rng_digest())


if __name__ == "__main__":
    main()
