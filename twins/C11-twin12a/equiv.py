import sys, os; sys.path.insert(0, os.getcwd())
# Variant a: MarkovChainMonteCarloRewiring.is_edge_choice_suitable -- target-edge scan reads
#   hashmap_e1s.get(topology, []) instead of hashmap_e1s[topology].
# One harness for the three variants: exercises DrawSet directly, is_edge_choice_suitable on every pair of
# corners and on malformed corner lists, rewire() on generated and hand-built networks (normal, boundary
# and malformed limits, repeated calls on one object, setters) and prints a deterministic digest with
# exception types and the RNG states after every call.
# through rewire() on generated and hand-built networks.  Prints a deterministic digest.
import hashlib
import random
import warnings

warnings.simplefilter("ignore")

import numpy as np
import networkx as nx

from gcmpy.network.network import Network
from gcmpy.names.network_names import NetworkNames as NN
from gcmpy.names.tools_names import ToolsNames as TN
from gcmpy.names.gcm_algorithm_names import GCMAlgorithmNames as GN
from gcmpy.motif_generators.clique_motif import clique_motif
from gcmpy.gcm_algorithm.gcm_algorithm_network import GCMAlgorithmNetwork
from gcmpy.tools.joint_excess_joint_degree import JointExcessJointDegree
from gcmpy.tools.joint_excess_joint_degree_matrices import JointExcessJointDegreeMatrices
from gcmpy.tools.markov_chain_monte_carlo_rewiring import MarkovChainMonteCarloRewiring
from gcmpy.tools.markov_chain_monte_carlo import MarkovChainMonteCarlo

EDGE_NAMES = ["2-clique", "3-clique"]


def h(obj) -> str:
    return hashlib.sha256(repr(obj).encode()).hexdigest()[:16]


def rng_digest() -> str:
    return h(random.getstate()) + "/" + h(np.random.get_state()[1].tolist())


def graph_digest(G) -> str:
    nodes = sorted((repr(n), repr(sorted((repr(k), repr(v)) for k, v in d.items())))
                   for n, d in G.nodes(data=True))
    edges = sorted((repr(tuple(sorted(map(repr, (u, v))))),
                    repr(sorted((repr(k), repr(v)) for k, v in d.items())))
                   for u, v, d in G.edges(data=True))
    return "%d/%d/%s" % (G.number_of_nodes(), G.number_of_edges(), h((nodes, edges)))


def gcm_network(n, seed):
    random.seed(seed)
    np.random.seed(seed)
    pool = [(0, 1), (1, 1), (2, 1), (3, 0), (1, 2), (2, 0), (4, 1), (0, 2)]
    jds = [random.choice(pool) for _ in range(n)]
    params = {GN.MOTIF_SIZES: [2, 3], GN.EDGE_NAMES: EDGE_NAMES,
              GN.BUILD_FUNCTIONS: [clique_motif, clique_motif]}
    return GCMAlgorithmNetwork(params).random_clustered_graph(jds)


def hand_network(edges_by_motif, extra_nodes=()):
    """edges_by_motif: list of (topology, motif_id, [edges])"""
    net = Network()
    for n in extra_nodes:
        net.G.add_node(n)
    for top, mid, es in edges_by_motif:
        for e in es:
            net.G.add_edge(*e)
            net.G.edges[e][NN.TOPOLOGY] = top
            net.G.edges[e][NN.MOTIF_IDS] = mid
    for n in net.G.nodes():
        jd = [0, 0]
        mids = {}
        for e in net.G.edges(n):
            mids[net.G.edges[e][NN.MOTIF_IDS]] = net.G.edges[e][NN.TOPOLOGY]
        for top in mids.values():
            jd[EDGE_NAMES.index(top)] += 1
        net.G.nodes[n][NN.JOINT_DEGREE] = tuple(jd)
    return net


def own_ejks(net):
    return JointExcessJointDegree({TN.NETWORK: net.G, TN.EDGE_NAMES: EDGE_NAMES}).get_ejks()


def call(label, fn):
    try:
        r = fn()
        out = "ok " + (graph_digest(r) if isinstance(r, nx.Graph) else repr(r))
    except BaseException as e:  # noqa
        out = "EXC " + type(e).__name__
    print(label, out, rng_digest())
    return out


def counters(m):
    return (m._proposal_count, m._proposals_accepted, len(m._acceptance_ratio),
            MarkovChainMonteCarlo._proposal_count, MarkovChainMonteCarlo._proposals_accepted,
            [(p._topology, p._motif_id, p._new_edge) for p in m._proposal_edges][:6])


def hand_cases():
    tri = "3-clique"
    tree = "2-clique"
    cases = {}
    cases["two_tri_two_edges"] = hand_network([
        (tri, 0, [(0, 1), (1, 2), (0, 2)]), (tri, 1, [(3, 4), (4, 5), (3, 5)]),
        (tree, 2, [(6, 7)]), (tree, 3, [(8, 9)]), (tree, 4, [(2, 6)])])
    cases["tri_sharing_vertex"] = hand_network([
        (tri, 0, [(0, 1), (1, 2), (0, 2)]), (tri, 1, [(2, 3), (3, 4), (2, 4)]),
        (tri, 2, [(5, 6), (6, 7), (5, 7)])])
    cases["edges_only"] = hand_network([
        (tree, i, [(2 * i, 2 * i + 1)]) for i in range(6)])
    cases["path"] = hand_network([(tree, i, [(i, i + 1)]) for i in range(7)])
    cases["single_edge"] = hand_network([(tree, 0, [(0, 1)])])
    cases["empty"] = hand_network([], extra_nodes=(0, 1, 2))
    cases["mixed_corner"] = hand_network([
        (tri, 0, [(0, 1), (1, 2), (0, 2)]), (tree, 1, [(0, 3)]), (tree, 2, [(4, 5)]),
        (tri, 3, [(6, 7), (7, 8), (6, 8)]), (tree, 4, [(6, 9)])])
    cases["hetero"] = hand_network([
        (tree, 0, [(0, 1)]), (tree, 1, [(0, 2)]), (tree, 2, [(0, 3)]), (tree, 3, [(4, 5)]),
        (tree, 4, [(6, 7)]), (tree, 5, [(6, 8)]), (tri, 6, [(1, 9), (9, 10), (1, 10)]),
        (tri, 7, [(5, 11), (11, 12), (5, 12)]), (tri, 8, [(13, 14), (14, 15), (13, 15)]),
        (tree, 9, [(13, 16)]), (tree, 10, [(13, 17)]), (tree, 11, [(18, 19)]),
        (tri, 12, [(0, 20), (20, 21), (0, 21)])])
    return cases


def direct_suitability(net, tag):
    """call is_edge_choice_suitable on every ordered pair of corners and on malformed lists"""
    G = net.G
    try:
        ejks = own_ejks(net)
    except BaseException:  # noqa
        ejks = JointExcessJointDegreeMatrices()
    m = MarkovChainMonteCarloRewiring({TN.NETWORK: net, TN.EJKS: ejks})
    corners = []
    for e in G.edges():
        for u in e:
            corners.append((u, m.get_all_edges(G, u, e)))
    res = []
    for (u0, e0s) in corners:
        for (v0, e1s) in corners:
            try:
                res.append(m.is_edge_choice_suitable(G, u0, v0, e0s, e1s))
            except BaseException as e:  # noqa
                res.append(type(e).__name__)
    print(tag, "pairs", len(res), h(res), sum(1 for r in res if r is True), rng_digest())
    before = graph_digest(G)
    some = corners[0] if corners else (0, [])
    other = corners[-1] if corners else (0, [])
    weird = [
        ("empty-empty", lambda: m.is_edge_choice_suitable(G, 0, 1, [], [])),
        ("empty-one", lambda: m.is_edge_choice_suitable(G, 0, 1, [], some[1])),
        ("tuples", lambda: m.is_edge_choice_suitable(G, some[0], other[0], tuple(some[1]), tuple(other[1]))),
        ("missing-edge", lambda: m.is_edge_choice_suitable(G, 0, 1, [(0, 99)], [(1, 98)])),
        ("not-incident", lambda: m.is_edge_choice_suitable(G, 77, 78, some[1], other[1])),
        ("none", lambda: m.is_edge_choice_suitable(G, 0, 1, None, None)),
        ("generator", lambda: m.is_edge_choice_suitable(G, 0, 1, iter(some[1]), iter(some[1]))),
        ("dup", lambda: m.is_edge_choice_suitable(G, some[0], other[0], some[1] * 2, other[1] * 2)),
        ("swapped-focal", lambda: m.is_edge_choice_suitable(G, other[0], some[0], some[1], other[1])),
    ]
    for name, fn in weird:
        call(tag + " weird " + name, fn)
    print(tag, "G unchanged", before == graph_digest(G))


def drawset_section():
    from gcmpy.tools.draw_set import DrawSet
    random.seed(99)
    np.random.seed(99)
    d = DrawSet()
    call("drawset empty draw", d.draw)
    call("drawset empty draw again", d.draw)
    call("drawset remove missing", lambda: d.remove((1, 2)))
    call("drawset add unhashable", lambda: d.add([1, 2]))
    call("drawset remove unhashable", lambda: d.remove([1, 2]))
    print("drawset state", list(d), len(d), (1, 2) in d)
    d.add((1, 2))
    call("drawset single draw", d.draw)
    d.add((1, 2))
    print("drawset dup", list(d), len(d))
    d.remove((1, 2))
    call("drawset drained draw", d.draw)
    trace = []
    items = [(i, j) for i in range(7) for j in range(i, 7)]
    for step in range(600):
        op = random.random()
        try:
            if op < 0.4:
                d.add(random.choice(items))
            elif op < 0.7:
                d.remove(random.choice(items))
            else:
                trace.append(d.draw())
        except BaseException as e:  # noqa
            trace.append(type(e).__name__)
        if step % 50 == 0:
            trace.append((list(d), len(d), sorted(d._edge_hashmap.items())))
    print("drawset trace", h(trace), len(d), rng_digest())
    for it in list(d):
        d.remove(it)
    call("drawset drained draw 2", d.draw)
    print("drawset end", list(d), len(d), d._edge_hashmap, rng_digest())


def run_rewire(label, net, kw, seed, again=True):
    random.seed(seed)
    np.random.seed(seed)
    before = graph_digest(net.G)
    try:
        try:
            ejks = own_ejks(net)
        except BaseException:  # noqa
            ejks = JointExcessJointDegreeMatrices()
        params = {TN.NETWORK: net, TN.EJKS: ejks}
        params.update(kw)
        m = MarkovChainMonteCarloRewiring(params)
    except BaseException as e:  # noqa
        print(label, "ctor EXC", type(e).__name__)
        return
    print(label, "limits", repr(m.convergence_limit), repr(m.search_limit))
    call(label, m.rewire)
    print("   counters", h(counters(m)), "input unchanged", before == graph_digest(net.G))
    if again:
        call(label + " again", m.rewire)
        print("   counters", h(counters(m)), "input unchanged", before == graph_digest(net.G))


def kwlabel(kw):
    return repr(sorted((k.value, repr(v)) for k, v in kw.items()))


NORMAL_KW = ({}, {TN.CONVERGENCE_LIMIT: 25, TN.SEARCH_LIMIT: 5}, {TN.CONVERGENCE_LIMIT: 0},
             {TN.CONVERGENCE_LIMIT: 200, TN.SEARCH_LIMIT: 1}, {TN.CONVERGENCE_LIMIT: 1},
             {TN.CONVERGENCE_LIMIT: True}, {TN.CONVERGENCE_LIMIT: False},
             {TN.CONVERGENCE_LIMIT: 2.5}, {TN.CONVERGENCE_LIMIT: np.int64(3)},
             {TN.SEARCH_LIMIT: 2})


class Opaque:
    def __repr__(self):
        return "Opaque()"


def odd_limits():
    from fractions import Fraction
    from decimal import Decimal
    return [-1, -5, -0.5, -0.0, float("-inf"), float("nan"), None, "3", b"x", [], (1,),
            np.int64(-1), np.float64(-2.0), np.float64("nan"), np.array([-1]), np.array(-3),
            np.array([-1, -2]), np.array([]), Fraction(-1, 2), Decimal(-1), Decimal("NaN"),
            complex(-1, 0), Opaque()]


def main():
    drawset_section()
    cases = hand_cases()
    for name, net in cases.items():
        direct_suitability(net, "hand:" + name)
        # non-negative limits never terminate on most of the tiny hand-built networks (no swap
        # is ever accepted), so only the limits that cannot enter the loop are used here
        for lim in odd_limits():
            if isinstance(lim, float) and lim == 0:
                continue  # -0.0 is a zero limit: the loop is entered (used on the generated network below)
            run_rewire("hand:%s odd limit %r" % (name, lim), net, {TN.CONVERGENCE_LIMIT: lim}, 5)
    for lim in (None, 0, 5):
        kw = {} if lim is None else {TN.CONVERGENCE_LIMIT: lim}
        run_rewire("hand:empty limit %r" % (lim,), cases["empty"], kw, 5)
    for s in (1, 2, 3):
        run_rewire("hand:hetero limit 0 seed %d" % s, cases["hetero"], {TN.CONVERGENCE_LIMIT: 0}, s,
                   again=False)
    for n, seed in ((40, 11), (90, 12), (200, 13)):
        net = gcm_network(n, seed)
        print("gcm", n, seed, graph_digest(net.G), rng_digest())
        if n <= 90:
            direct_suitability(net, "gcm%d" % n)
        for kw in NORMAL_KW:
            for s in (1, 2, 3):
                run_rewire("gcm%d rewire %s seed %d" % (n, kwlabel(kw), s), net, kw, s)
        if n == 40:
            for lim in odd_limits():
                run_rewire("gcm40 odd limit %r" % (lim,), net, {TN.CONVERGENCE_LIMIT: lim}, 7)
            # limits changed through the public setters between calls on one object
            random.seed(21)
            m = MarkovChainMonteCarloRewiring({TN.NETWORK: net, TN.EJKS: own_ejks(net)})
            for lim in (-1, 4, -2, 0, float("nan"), 3):
                m.convergence_limit = lim
                call("gcm40 setter limit %r" % (lim,), m.rewire)
                print("   counters", h(counters(m)))
    # malformed parameter dictionaries
    for label, p in (("no network", {TN.EJKS: None}), ("no ejks", {TN.NETWORK: cases["hetero"]}),
                     ("list", []), ("none", None), ("network is graph", {TN.NETWORK: cases["hetero"].G, TN.EJKS: None}),
                     ("network none", {TN.NETWORK: None, TN.EJKS: None})):
        call("ctor " + label, lambda: MarkovChainMonteCarloRewiring(p) and "constructed")
    call("ctor network none + limit", lambda: MarkovChainMonteCarloRewiring(
        {TN.NETWORK: None, TN.EJKS: None, TN.CONVERGENCE_LIMIT: -1}).rewire())
    print("final", rng_digest())


if __name__ == "__main__":
    main()
