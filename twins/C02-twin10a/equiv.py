import sys, os; sys.path.insert(0, os.getcwd())
import hashlib
import random

import numpy as np

from gcmpy.gcm_algorithm.gcm_algorithm_fast import GCMAlgorithmFast
from gcmpy.gcm_algorithm.gcm_algorithm_factory import GCMAlgorithmFactory
from gcmpy.gcm_algorithm.gcm_algorithm_types import GCMAlgorithmTypes
from gcmpy.names.gcm_algorithm_names import GCMAlgorithmNames
from gcmpy.names.joint_degree_names import JointDegreeNames
from gcmpy.joint_degree.joint_degree_loaders.joint_degree_manual import JointDegreeManual
from gcmpy.motif_generators.clique_motif import clique_motif
from gcmpy.motif_generators.cycle_motif import cycle_motif
from gcmpy.network.edge_list_to_network import EdgeListToNetwork


def h(obj):
    return hashlib.sha256(repr(obj).encode()).hexdigest()[:20]


def rng():
    return h(random.getstate()) + "/" + h(
        [x.tolist() if hasattr(x, "tolist") else x for x in np.random.get_state()]
    )


def describe(el, jds):
    cols = (el.edge_list, el.topologies, el.motif_id)
    return " ".join(
        [
            "len=%d,%d,%d" % tuple(len(c) for c in cols),
            "types=%s" % ",".join(type(c).__name__ for c in cols),
            "idtypes=%s" % sorted({type(i).__name__ for i in el.motif_id}),
            "same_jds=%s" % (el.joint_degrees is jds),
            "distinct=%s" % (len({id(c) for c in cols}) == 3),
            "edges=" + h(el.edge_list),
            "names=" + h(el.topologies),
            "ids=" + h(el.motif_id),
            "head=%r" % (list(zip(*cols))[:4],),
        ]
    )


def run(label, alg, jds, network=False):
    try:
        el = alg.random_clustered_graph(jds)
        out = describe(el, jds)
        if network:
            net = EdgeListToNetwork.convert(el)
            out += " G=" + h(sorted((min(u, v), max(u, v), sorted(map(str, d.items())))
                                    for u, v, d in net.G.edges(data=True)))
    except BaseException as e:
        out = "EXC %s: %s" % (type(e).__name__, e)
    print(label, "|", out, "| rng", rng())


def params(sizes, names, builds):
    return {
        GCMAlgorithmNames.MOTIF_SIZES: sizes,
        GCMAlgorithmNames.EDGE_NAMES: names,
        GCMAlgorithmNames.BUILD_FUNCTIONS: builds,
    }


def rand_jds(n, maxes):
    return [tuple(random.randint(0, m) for m in maxes) for _ in range(n)]


class Sized:
    """iterable with a len but no list semantics"""

    def __init__(self, es):
        self._es = es

    def __iter__(self):
        return iter(self._es)

    def __len__(self):
        return len(self._es)


def single_edge(vs):
    return (vs[0], vs[1])


def two_edges(vs):
    return [(vs[0], vs[1]), (vs[1], vs[2])]


def no_edges(vs):
    return []


def as_tuple(vs):
    return tuple(clique_motif(vs))


def as_sized(vs):
    return Sized(clique_motif(vs))


def as_set(vs):
    return set(clique_motif(vs))


def as_dict(vs):
    return {e: 1 for e in clique_motif(vs)}


def as_string(vs):
    return "ab"


def as_generator(vs):
    return (e for e in clique_motif(vs))


def as_none(vs):
    return None


def as_int(vs):
    return 3


def strict_triangle(vs):
    a, b, c = vs
    return [(a, b), (b, c), (a, c)]


def boom(vs):
    raise KeyError("boom")


calls = []


def counting(vs):
    calls.append(len(vs))
    return clique_motif(vs)


random.seed(20261004)
np.random.seed(20261004)

# ordinary runs, many shapes
for trial in range(40):
    n = random.choice([0, 1, 2, 3, 5, 8, 13, 40, 200])
    kind = trial % 4
    if kind == 0:
        p = params([2], ["2-clique"], [clique_motif]); mx = (4,)
    elif kind == 1:
        p = params([2, 3], ["2-clique", "3-clique"], [clique_motif, clique_motif]); mx = (3, 2)
    elif kind == 2:
        p = params([2, 3, 4, 5], ["e", "t", ("sq", 4), None],
                   [clique_motif, as_tuple, cycle_motif, as_sized]); mx = (2, 2, 1, 1)
    else:
        p = params([3, 2, 4], ["path", "pair", "empty"], [two_edges, single_edge, no_edges]); mx = (2, 3, 2)
    jds = rand_jds(n, mx)
    run("ok%02d n=%d kind=%d" % (trial, n, kind), GCMAlgorithmFast(p), jds, network=(kind != 3))

# repeated calls on one object, and through the factory
alg = GCMAlgorithmFactory.resolve_algorithm(
    GCMAlgorithmTypes.FAST, params([2, 3], ["2-clique", "3-clique"], [clique_motif, counting]))
jds = rand_jds(60, (3, 2))
for i in range(4):
    run("repeat%d" % i, alg, jds, network=True)
run("repeat-other", alg, rand_jds(7, (1, 1)), network=True)
print("calls", h(calls), len(calls))

# sampled joint degree sequence (numpy stream)
jp = {JointDegreeNames.JDD: {(1, 0): 0.2, (2, 1): 0.5, (3, 0): 0.1, (5, 1): 0.2},
      JointDegreeNames.MOTIF_SIZES: [2, 3]}
jds = JointDegreeManual(jp).sample_jds_from_jdd(500)
run("sampled", GCMAlgorithmFast(params([2, 3], ["2-clique", "3-clique"], [clique_motif, clique_motif])), jds, network=True)

# unusual but accepted inputs
run("numpy-degrees", GCMAlgorithmFast(params([2], ["x"], [clique_motif])),
    [tuple(r) for r in np.array([[2], [1], [3], [0], [2]])])
run("bool-degrees", GCMAlgorithmFast(params([2], ["x"], [clique_motif])), [(True,), (False,), (True,), (2,)])
run("negative-degrees", GCMAlgorithmFast(params([2], ["x"], [clique_motif])), [(-1,), (2,), (-3,), (2,)])
run("empty", GCMAlgorithmFast(params([2], ["x"], [clique_motif])), [])
run("zero-columns", GCMAlgorithmFast(params([2], ["x"], [clique_motif])), [(), (), ()])
run("ragged", GCMAlgorithmFast(params([2, 3], ["x", "y"], [clique_motif, clique_motif])), [(2, 3), (2,), (2, 3)])
run("leftover", GCMAlgorithmFast(params([3], ["t"], [clique_motif])), [(1,), (2,), (2,)])
run("set-result", GCMAlgorithmFast(params([3], ["t"], [as_set])), rand_jds(9, (2,)))
run("dict-result", GCMAlgorithmFast(params([3], ["t"], [as_dict])), rand_jds(9, (2,)))
run("string-result", GCMAlgorithmFast(params([2], ["t"], [as_string])), rand_jds(6, (2,)))
run("bare-edge", GCMAlgorithmFast(params([2], ["t"], [single_edge])), rand_jds(6, (2,)), network=False)
run("size-one", GCMAlgorithmFast(params([1], ["loop"], [lambda vs: [(vs[0], vs[0])]])), rand_jds(6, (2,)), network=True)
run("extra-names", GCMAlgorithmFast(params([2, 3, 9], ["a", "b", "c"], [clique_motif, clique_motif, boom])), rand_jds(12, (2, 1)))

# error paths
run("err-generator", GCMAlgorithmFast(params([2], ["x"], [as_generator])), rand_jds(6, (2,)))
run("err-none", GCMAlgorithmFast(params([2], ["x"], [as_none])), rand_jds(6, (2,)))
run("err-int", GCMAlgorithmFast(params([2], ["x"], [as_int])), rand_jds(6, (2,)))
run("err-build-raises", GCMAlgorithmFast(params([2], ["x"], [boom])), rand_jds(6, (2,)))
run("err-leftover-unpack", GCMAlgorithmFast(params([3], ["t"], [strict_triangle])), [(1,), (2,), (2,)])
run("err-short-names", GCMAlgorithmFast(params([2, 3], ["x"], [clique_motif, clique_motif])), rand_jds(9, (2, 1)))
run("err-short-builds", GCMAlgorithmFast(params([2, 3], ["x", "y"], [clique_motif])), rand_jds(9, (2, 1)))
run("err-short-sizes", GCMAlgorithmFast(params([2], ["x", "y"], [clique_motif, clique_motif])), rand_jds(9, (2, 1)))
run("err-size-zero", GCMAlgorithmFast(params([0], ["x"], [clique_motif])), rand_jds(6, (2,)))
run("err-size-float", GCMAlgorithmFast(params([2.0], ["x"], [clique_motif])), rand_jds(6, (2,)))
run("err-float-degree", GCMAlgorithmFast(params([2], ["x"], [clique_motif])), [(1.0,), (1,)])
run("err-str-degree", GCMAlgorithmFast(params([2], ["x"], [clique_motif])), [("1",), (1,)])
run("err-jds-none", GCMAlgorithmFast(params([2], ["x"], [clique_motif])), None)
run("err-jds-ints", GCMAlgorithmFast(params([2], ["x"], [clique_motif])), [1, 2, 3])
run("err-names-none", GCMAlgorithmFast(params([2], None, [clique_motif])), rand_jds(6, (2,)))
try:
    GCMAlgorithmFast({})
    print("ctor ok")
except BaseException as e:
    print("ctor EXC", type(e).__name__, e)
print("final rng", rng())
