"""
Equivalence harness for the C11 refactoring (MCMC rewiring, DrawSet, ProposalEdge).

Run with cwd = a checkout of gcmpy. Prints a deterministic digest of results, RNG
states and mutated inputs of every function touched by the refactoring. Only the
public interface that exists both before and after the refactoring is used.
"""
import ast
import hashlib
import logging
import os
import random
import sys
from collections import Counter

sys.path.insert(0, os.getcwd())

import networkx as nx  # noqa: E402
import numpy as np  # noqa: E402

from gcmpy.names.network_names import NetworkNames as NN  # noqa: E402
from gcmpy.names.tools_names import ToolsNames  # noqa: E402
from gcmpy.names.gcm_algorithm_names import GCMAlgorithmNames  # noqa: E402
from gcmpy.names.joint_degree_names import JointDegreeNames  # noqa: E402
from gcmpy.network.network import Network  # noqa: E402
from gcmpy.tools.draw_set import DrawSet  # noqa: E402
from gcmpy.tools.proposal_edge import ProposalEdge  # noqa: E402
from gcmpy.tools.markov_chain_monte_carlo import MarkovChainMonteCarlo  # noqa: E402
from gcmpy.tools import markov_chain_monte_carlo_rewiring as mod  # noqa: E402
from gcmpy.tools.markov_chain_monte_carlo_rewiring import (  # noqa: E402
    MarkovChainMonteCarloRewiring,
    ErrorMarkovChainMonteCarloRewiring,
)
from gcmpy.tools.joint_excess_joint_degree_matrices import (  # noqa: E402
    JointExcessJointDegreeMatrices,
)
from gcmpy.tools.joint_excess_from_ejk import JointExcessFromEjk  # noqa: E402
from gcmpy.tools.joint_degree_from_excess import JointDegreeFromExcess  # noqa: E402
from gcmpy.joint_degree.joint_degree_loaders.joint_degree_manual import (  # noqa: E402
    JointDegreeManual,
)
from gcmpy.motif_generators.clique_motif import clique_motif  # noqa: E402
from gcmpy.gcm_algorithm.gcm_algorithm_network import GCMAlgorithmNetwork  # noqa: E402


# ----------------------------------------------------------------------------
# helpers
# ----------------------------------------------------------------------------
def h(obj) -> str:
    return hashlib.sha256(repr(obj).encode()).hexdigest()[:16]


def rng_digest() -> str:
    st = np.random.get_state()
    return h((random.getstate(), st[0], st[1].tolist(), st[2:]))


def seed(n: int) -> None:
    random.seed(n)
    np.random.seed(n)


def graph_digest(G: nx.Graph, full: bool = False):
    nodes = [(u, sorted((k.value, repr(v)) for k, v in d.items())) for u, d in G.nodes(data=True)]
    # adjacency order is observable through G.edges(u): keep it
    adj = [(u, list(G.adj[u])) for u in G.nodes()]
    edges = sorted(
        (tuple(sorted(e[:2])), sorted((k.value, repr(v)) for k, v in e[2].items()))
        for e in G.edges(data=True)
    )
    obj = (nodes, adj, edges, list(G.edges()))
    return obj if full else h(obj)


def mcmc_state(m) -> tuple:
    return (
        [(p._topology, p._motif_id, p._new_edge, p.topology, p.motif_id, p.new_edge)
         for p in m._proposal_edges],
        m._proposal_count,
        m._proposals_accepted,
        list(m._acceptance_ratio),
        MarkovChainMonteCarlo._proposal_count,
        MarkovChainMonteCarlo._proposals_accepted,
        m._convergence_limit,
        m._search_limit,
    )


class Capture(logging.Handler):
    def __init__(self):
        super().__init__(level=0)
        self.records = []

    def emit(self, record):
        self.records.append((record.levelname, record.getMessage()))


def attach(m) -> Capture:
    c = Capture()
    m._logger.addHandler(c)
    return c


def call(label, fn, *args, **kwargs):
    """Calls fn, prints result or exception type + message."""
    try:
        res = fn(*args, **kwargs)
        print(label, "->", type(res).__name__, repr(res))
        return res
    except BaseException as e:  # noqa: B902
        print(label, "!!", type(e).__name__, repr(str(e)))
        return None


# ----------------------------------------------------------------------------
# 0. message strings of the three modules (log / exception texts are observable)
# ----------------------------------------------------------------------------
def string_constants(path: str) -> list:
    tree = ast.parse(open(path).read())
    doc_ids = set()
    for node in ast.walk(tree):
        if isinstance(node, (ast.Module, ast.ClassDef, ast.FunctionDef)):
            body = node.body
            if body and isinstance(body[0], ast.Expr) and isinstance(
                getattr(body[0], "value", None), ast.Constant
            ) and isinstance(body[0].value.value, str):
                doc_ids.add(id(body[0].value))
    out = Counter()
    for node in ast.walk(tree):
        if isinstance(node, ast.Constant) and isinstance(node.value, str):
            if id(node) not in doc_ids:
                out[node.value] += 1
    return sorted(out.items())


print("== 0. non-docstring string constants")
for f in (
    "gcmpy/tools/markov_chain_monte_carlo_rewiring.py",
    "gcmpy/tools/draw_set.py",
    "gcmpy/tools/proposal_edge.py",
):
    consts = string_constants(f)
    print(f, len(consts), h(consts))
    for c in consts:
        print("   ", repr(c))


# ----------------------------------------------------------------------------
# 1. DrawSet
# ----------------------------------------------------------------------------
print("== 1. DrawSet")
seed(1)
ds = DrawSet()
print("empty", len(ds), list(ds), (1, 2) in ds)
call("draw-empty", ds.draw)
call("remove-missing", ds.remove, (9, 9))
print("after-missing", ds._edges, ds._edge_hashmap)
call("add-unhashable", ds.add, [1, 2])
print("after-unhashable", ds._edges, ds._edge_hashmap)
for e in [(1, 2), (2, 3), (1, 2), (3, 4), (0, 9), (2, 3), (5, 6)]:
    ds.add(e)
    print("add", e, ds._edges, ds._edge_hashmap, len(ds), e in ds)
print("draws", [ds.draw() for _ in range(10)], rng_digest())
for e in [(2, 3), (5, 6), (1, 2)]:
    ds.remove(e)
    print("remove", e, ds._edges, ds._edge_hashmap, list(iter(ds)))
call("remove-again", ds.remove, (1, 2))
print("state", ds._edges, ds._edge_hashmap)
ds.add((1, 2))
ds.add((7, 8))
print("readd", ds._edges, ds._edge_hashmap)
print("draws", [ds.draw() for _ in range(10)], rng_digest())
# random add/remove workload
seed(2)
ds = DrawSet()
ref = set()
trace = []
for i in range(3000):
    e = tuple(sorted((random.randrange(12), random.randrange(12))))
    if random.random() < 0.55:
        ds.add(e)
        ref.add(e)
    elif e in ds:
        ds.remove(e)
        ref.discard(e)
    if len(ds):
        trace.append(ds.draw())
    assert set(ds) == ref and all(ds._edges[p] == k for k, p in ds._edge_hashmap.items())
print("workload", h(trace), ds._edges, ds._edge_hashmap, rng_digest())

# ----------------------------------------------------------------------------
# 2. ProposalEdge
# ----------------------------------------------------------------------------
print("== 2. ProposalEdge")
p = ProposalEdge()
print(p._topology, p._motif_id, p._new_edge, p.topology, p.motif_id, p.new_edge, sorted(vars(p)))
p.topology = "t"
p.motif_id = 4
p.new_edge = (1, 2)
print(p._topology, p._motif_id, p._new_edge, p.topology, p.motif_id, p.new_edge, sorted(vars(p)))
p._topology, p._motif_id, p._new_edge = "s", 5, (3, 4)
print(p.topology, p.motif_id, p.new_edge)


# ----------------------------------------------------------------------------
# 3. hand-made graph: two triangles, a few 2-cliques, a 4-cycle
# ----------------------------------------------------------------------------
def make_graph() -> nx.Graph:
    G = nx.Graph()
    jd = {
        0: (1, 1), 1: (1, 1), 2: (0, 1), 3: (1, 1), 4: (1, 1), 5: (2, 1),
        6: (2, 0), 7: (1, 0), 8: (2, 0), 9: (1, 0), 10: (2, 0), 11: (1, 0),
        13: (1, 0), 14: (1, 0), 15: (1, 0),
    }
    for u, d in jd.items():
        G.add_node(u, **{})
        G.nodes[u][NN.JOINT_DEGREE] = d

    def add(u, v, top, mid):
        G.add_edge(u, v)
        G.edges[u, v][NN.TOPOLOGY] = top
        G.edges[u, v][NN.MOTIF_IDS] = mid

    # triangle A: 0,1,2 ; triangle B: 3,4,5
    for (u, v) in [(0, 1), (1, 2), (2, 0)]:
        add(u, v, "3-clique", 100)
    for (u, v) in [(3, 4), (4, 5), (5, 3)]:
        add(u, v, "3-clique", 101)
    # 2-cliques
    add(0, 6, "2-clique", 1)
    add(1, 7, "2-clique", 2)
    add(3, 8, "2-clique", 3)
    add(4, 9, "2-clique", 4)
    add(8, 10, "2-clique", 5)
    add(10, 11, "2-clique", 6)
    add(5, 13, "2-clique", 10)
    add(5, 14, "2-clique", 11)
    add(6, 15, "2-clique", 12)
    return G


def make_ejks(full: bool = True) -> JointExcessJointDegreeMatrices:
    tree = {}
    tri = {}
    if full:
        keys_tree = [(a, b) for a in (-1, 0, 1, 2) for b in (0, 1)]
        for i, a in enumerate(keys_tree):
            for j, b in enumerate(keys_tree):
                tree[a + b] = 0.01 * (1 + ((3 * i + 5 * j) % 7))
        keys_tri = [(a, b) for a in (0, 1, 2) for b in (-1, 0, 1)]
        for i, a in enumerate(keys_tri):
            for j, b in enumerate(keys_tri):
                tri[a + b] = 0.02 * (1 + ((2 * i + 3 * j) % 5))
    params = {
        ToolsNames.EDGE_NAMES: ["2-clique", "3-clique"],
        ToolsNames.EJKS: {"2-clique": tree, "3-clique": tri},
    }
    return JointExcessJointDegreeMatrices(params)


def make_mcmc(G=None, ejks=None, extra=None):
    net = Network()
    net.G = G if G is not None else make_graph()
    params = {ToolsNames.NETWORK: net, ToolsNames.EJKS: ejks if ejks is not None else make_ejks()}
    params.update(extra or {})
    m = MarkovChainMonteCarloRewiring(params)
    return m, net


print("== 3. constructor")
m, net = make_mcmc()
print("defaults", m.convergence_limit, m.search_limit, m.network is net, mcmc_state(m))
m2, _ = make_mcmc(extra={ToolsNames.CONVERGENCE_LIMIT: 7})
print("conv only", m2.convergence_limit, m2.search_limit)
m2, _ = make_mcmc(extra={ToolsNames.SEARCH_LIMIT: 3})
print("search only", m2.convergence_limit, m2.search_limit)
m2, _ = make_mcmc(extra={ToolsNames.SEARCH_LIMIT: 3, ToolsNames.CONVERGENCE_LIMIT: 0})
print("both", m2.convergence_limit, m2.search_limit)
call("no network", MarkovChainMonteCarloRewiring, {ToolsNames.EJKS: make_ejks()})
call("no ejks", MarkovChainMonteCarloRewiring, {ToolsNames.NETWORK: net})
call("graph not network", MarkovChainMonteCarloRewiring,
     {ToolsNames.NETWORK: make_graph(), ToolsNames.EJKS: make_ejks()})
call("graph + limit", lambda: MarkovChainMonteCarloRewiring(
    {ToolsNames.NETWORK: make_graph(), ToolsNames.EJKS: 1,
     ToolsNames.CONVERGENCE_LIMIT: 5}).convergence_limit)
call("params None", MarkovChainMonteCarloRewiring, None)

print("== 4. get_other_vertex / get_all_edges / get_hashmap")
G = make_graph()
m, net = make_mcmc(G)
cap = attach(m)
before = graph_digest(G)
for u, e in [(0, (0, 1)), (1, (0, 1)), (5, (0, 1)), (0, (0, 0)), (2, (2, 2, 7))]:
    call(f"other {u} {e}", m.get_other_vertex, u, e)
for u0, e in [
    (0, (0, 1)), (0, (1, 0)), (1, (0, 1)), (2, (2, 0)), (0, (0, 6)), (6, (0, 6)),
    (8, (3, 8)), (8, (8, 10)), (3, (3, 4)), (3, (3, 8)), (5, (0, 1)), (0, (3, 4)),
    (0, (0, 5)), (99, (0, 1)), (0, (0, 99)),
]:
    call(f"all_edges {u0} {e}", m.get_all_edges, G, u0, e)
for es in [
    [], [(0, 1)], [(0, 1), (0, 2)], [(0, 6), (0, 1), (0, 2)], [(0, 1), (0, 6), (2, 0), (1, 7)],
    [(8, 3), (8, 10), (3, 4)], [(0, 1), (0, 1)], [(0, 5)],
]:
    res = call(f"hashmap {es}", m.get_hashmap, G, es)
    if res is not None:
        print("   key order", list(res), [id(v) for v in res.values()].__len__())
print("G unchanged", before == graph_digest(G), "log", cap.records)

print("== 5. is_edge_choice_suitable")
G = make_graph()
# extra pieces to reach every branch
G.add_node(22)
G.nodes[22][NN.JOINT_DEGREE] = (1, 0)
G.add_node(23)
G.nodes[23][NN.JOINT_DEGREE] = (1, 0)
G.add_edge(22, 23)
G.edges[22, 23][NN.TOPOLOGY] = "2-clique"
G.edges[22, 23][NN.MOTIF_IDS] = 7
G.add_edge(2, 9)  # would be a target edge between triangle A and vertex 9
G.edges[2, 9][NN.TOPOLOGY] = "2-clique"
G.edges[2, 9][NN.MOTIF_IDS] = 8
G.add_edge(6, 9)
G.edges[6, 9][NN.TOPOLOGY] = "2-clique"
G.edges[6, 9][NN.MOTIF_IDS] = 9
m, net = make_mcmc(G)
cap = attach(m)
before = graph_digest(G)
cases = [
    # (u0, v0, e0s, e1s)
    (0, 3, [(0, 1), (0, 2)], [(3, 4)]),  # size mismatch
    (0, 3, [(0, 1), (0, 2)], [(3, 4), (3, 8)]),  # topology counts differ / keys
    (0, 3, [(0, 1), (0, 6)], [(3, 4), (3, 5)]),  # keys differ
    (0, 3, [(0, 1), (0, 2), (0, 6)], [(3, 4), (3, 8), (8, 10)]),  # same keys, different count
    (0, 1, [(0, 1), (0, 2)], [(1, 0), (1, 2)]),  # same motif
    (0, 2, [(0, 1), (0, 2)], [(2, 1), (2, 0)]),  # same motif, second pair
    (0, 3, [(0, 1), (0, 2)], [(3, 4), (3, 5)]),  # OK triangles
    (3, 0, [(3, 4), (3, 5)], [(0, 1), (0, 2)]),  # OK triangles reversed
    (0, 3, [(0, 6)], [(3, 8)]),  # OK 2-cliques
    (0, 6, [(0, 6)], [(6, 9)]),  # share a vertex: self loop u0 == v1? / v0 == u1
    (6, 9, [(6, 0)], [(9, 6)]),  # same edge topologies, shared vertex
    (6, 9, [(6, 9)], [(9, 4)]),  # v0 == u1
    (9, 6, [(9, 4)], [(6, 9)]),  # u0 == v1
    (2, 4, [(2, 9)], [(4, 9)]),  # shared far vertex: target edges present
    (0, 4, [(0, 6)], [(4, 9)]),  # target (0,9)? no ; (4,6)? no -> OK;
    (6, 4, [(6, 0)], [(4, 9)]),  # target (6,9) present
    (9, 0, [(9, 4)], [(0, 6)]),  # target (9,6) present
    (22, 8, [(22, 23)], [(8, 10)]),  # OK
    (8, 22, [(8, 3), (8, 10)], [(22, 23), (22, 23)]),  # duplicate edges in ebunch
    (5, 6, [(5, 13), (5, 14)], [(6, 0), (6, 15)]),
    (5, 6, [(5, 13), (5, 14), (5, 3), (5, 4)], [(6, 0), (6, 15), (6, 9), (6, 9)]),
    (0, 3, [], []),  # empty
    (0, 3, [(0, 1)], [(3, 99)]),  # missing edge
    (5, 3, [(0, 1)], [(3, 4)]),  # focal vertex not in edge
    (0, 3, [(0, 1), (0, 6)], [(3, 8), (3, 4)]),  # mixed order, should be OK
    (1, 4, [(1, 0), (1, 7), (1, 2)], [(4, 9), (4, 3), (4, 5)]),  # full corners mixed
    (2, 4, [(2, 0), (2, 1), (2, 9)], [(4, 3), (4, 5), (4, 9)]),  # full corners, shared 9
]
for i, (u0, v0, e0s, e1s) in enumerate(cases):
    n_before = len(cap.records)
    a, b = list(e0s), list(e1s)
    call(f"suitable[{i}] {u0} {v0} {e0s} {e1s}", m.is_edge_choice_suitable, G, u0, v0, a, b)
    print("   inputs intact", a == e0s and b == e1s, "log", cap.records[n_before:])
print("G unchanged", before == graph_digest(G), rng_digest())

print("== 6. joint excess degree keys")
G = make_graph()
m, net = make_mcmc(G)
before = graph_digest(G)
for e, idx in [((0, 1), 1), ((1, 0), 1), ((0, 6), 0), ((8, 3), 0), ((0, 1), 0), ((0, 1), -1),
               ((0, 1), 2), ((0, 99), 0), ((0,), 0), ((0, 1, 2), 1), ((0, 0), 1), ((0, 1), "x")]:
    call(f"key {e} {idx}", m.get_joint_excess_degree_key, G, e, idx)
for (e0, e1, u0, v0, idx) in [
    ((0, 1), (3, 4), 0, 3, 1), ((1, 0), (4, 3), 0, 3, 1), ((0, 1), (3, 4), 1, 4, 1),
    ((0, 6), (3, 8), 0, 3, 0), ((0, 6), (3, 8), 6, 8, 0), ((0, 6), (8, 10), 0, 8, 0),
    ((0, 1), (3, 4), 0, 3, 5), ((0, 1), (3, 4), 2, 3, 1), ((0, 1), (3, 4), 0, 5, 1),
    ((0, 1), (3, 99), 0, 3, 1), ((0, 1), (0, 1), 0, 1, -2),
]:
    kv = call(f"swapped {e0} {e1} {u0} {v0} {idx}",
              lambda: m.get_swapped_joint_excess_degree_key(G, e0, e1, u0, v0, idx)._keys)
print("G unchanged", before == graph_digest(G))

print("== 7. append_proposal_edges")
G = make_graph()
m, net = make_mcmc(G)
for (u0, old, new) in [(0, (0, 1), (0, 4)), (0, (0, 6), (8, 0)), (3, (3, 4), (3, 1)),
                       (0, (0, 1), (2, 4)), (0, (0, 99), (0, 4)), (0, (1, 0), (0, 0))]:
    call(f"append {u0} {old} {new}", m.append_proposal_edges, G, u0, old, new)
    print("   ", mcmc_state(m)[0])

print("== 8. swap_condition")


def swap_cases(ejks, label):
    G = make_graph()
    m, net = make_mcmc(G, ejks)
    cap = attach(m)
    before = graph_digest(G)
    cases = [
        (0, 3, [(0, 1), (0, 2)], [(3, 4), (3, 5)]),
        (3, 0, [(3, 4), (3, 5)], [(0, 1), (0, 2)]),
        (0, 3, [(0, 6)], [(3, 8)]),
        (6, 8, [(6, 0)], [(8, 3)]),
        (0, 8, [(0, 6)], [(8, 10)]),
        (8, 11, [(8, 10)], [(11, 10)]),
        (1, 4, [(1, 0), (1, 7), (1, 2)], [(4, 9), (4, 3), (4, 5)]),
        (1, 4, [(1, 7), (1, 0), (1, 2)], [(4, 3), (4, 5), (4, 9)]),
        (0, 3, [(0, 1), (0, 2)], [(3, 4)]),  # pop from empty list -> error
        (0, 3, [(0, 1)], [(3, 8)]),  # topology missing in hashmap -> KeyError
        (0, 3, [], []),
        (0, 3, [], [(3, 4)]),
        (0, 3, [(0, 1)], [(3, 4), (3, 5)]),
        (2, 5, [(2, 0), (2, 1)], [(5, 3), (5, 4)]),
        (6, 7, [(6, 0)], [(7, 1)]),  # identical degrees: swap changes nothing
        (9, 3, [(0, 1)], [(3, 4)]),  # focal vertex not in edge
        (5, 0, [(5, 3), (5, 4)], [(0, 1), (0, 2)]),
        (5, 1, [(5, 3), (5, 4), (5, 13)], [(1, 7), (1, 0), (1, 2)]),
        (5, 6, [(5, 13)], [(6, 15)]),
        (6, 8, [(6, 15)], [(8, 10)]),
        (10, 5, [(10, 11)], [(5, 14)]),
        (8, 0, [(8, 10)], [(0, 6)]),
        (3, 5, [(3, 8)], [(5, 13)]),
        (5, 3, [(5, 13)], [(3, 8)]),
        (3, 5, [(3, 8), (3, 4), (3, 5)], [(5, 13), (5, 3), (5, 4)]),
    ]
    for i, (u0, v0, e0s, e1s) in enumerate(cases):
        for rep in range(3):
            n_before = len(cap.records)
            a, b = list(e0s), list(e1s)
            call(f"swap[{label}][{i}.{rep}] {u0} {v0} {e0s} {e1s}",
                 m.swap_condition, G, a, b, u0, v0)
            print("   inputs intact", a == e0s and b == e1s, "log", cap.records[n_before:])
            print("   state", mcmc_state(m), rng_digest())
    print("G unchanged", before == graph_digest(G))


seed(3)
swap_cases(make_ejks(True), "full")
seed(4)
swap_cases(make_ejks(False), "empty")
# matrices with zeros -> numerator zero / divide by zero
seed(5)
z = make_ejks(True)
for top in z.ejks:
    for k in list(z.ejks[top]):
        z.ejks[top][k] = 0.0
swap_cases(z, "zeros")
# huge numerator: always accepted
seed(6)
big = make_ejks(True)
for k in list(big.ejks["2-clique"]):
    big.ejks["2-clique"][k] = 1.0 if k[:2] == k[2:] else 1e-9
for k in list(big.ejks["3-clique"]):
    big.ejks["3-clique"][k] = 1e-9 if k[:2] == k[2:] else 1.0
swap_cases(big, "big")
# flat matrices: every swap that changes something is accepted
seed(8)
flat = make_ejks(True)
for top in flat.ejks:
    for k in list(flat.ejks[top]):
        flat.ejks[top][k] = 0.05
swap_cases(flat, "flat")
# zero denominator with non-zero numerator
seed(9)
zd = make_ejks(True)
for top in zd.ejks:
    for k in list(zd.ejks[top]):
        zd.ejks[top][k] = 0.05
zd.ejks["2-clique"][(0, 1, 1, 0)] = 0.0
swap_cases(zd, "zero-denominator")
# numpy-valued matrices
seed(7)
npm = make_ejks(True)
for top in npm.ejks:
    for k in list(npm.ejks[top]):
        npm.ejks[top][k] = np.float64(npm.ejks[top][k])
swap_cases(npm, "numpy")

# ----------------------------------------------------------------------------
# 9. rewire on the hand-made graph and on generated GCM networks
# ----------------------------------------------------------------------------
print("== 9. rewire")


def check_property(G0: nx.Graph, G1: nx.Graph) -> tuple:
    same_nodes = list(G0.nodes(data=True)) == list(G1.nodes(data=True))
    same_m = G0.number_of_edges() == G1.number_of_edges()

    def topo_deg(G):
        return {u: Counter(G.edges[u, v][NN.TOPOLOGY] for v in G.adj[u]) for u in G}

    same_deg = topo_deg(G0) == topo_deg(G1)
    loops = nx.number_of_selfloops(G1)

    def shapes(G):
        by = {}
        for u, v, d in G.edges(data=True):
            by.setdefault(d[NN.MOTIF_IDS], []).append((u, v))
        return {k: (len(es), len({x for e in es for x in e})) for k, es in by.items()}

    return same_nodes, same_m, same_deg, loops, shapes(G0) == shapes(G1)


def run_rewire(label, G, ejks, sd, extra=None):
    seed(sd)
    MarkovChainMonteCarlo._proposal_count = 0
    MarkovChainMonteCarlo._proposals_accepted = 0
    m, net = make_mcmc(G, ejks, extra)
    cap = attach(m)
    before = graph_digest(net.G)
    G0 = net.G.copy()
    try:
        R = m.rewire()
        print(label, "result", graph_digest(R), "is copy", R is not net.G,
              "property", check_property(G0, R))
        if R.number_of_edges() <= 20:
            print("   ", graph_digest(R, full=True))
    except BaseException as e:  # noqa: B902
        print(label, "!!", type(e).__name__, repr(str(e)))
    print("   input unchanged", before == graph_digest(net.G), "state", h(mcmc_state(m)),
          mcmc_state(m)[1:], "rng", rng_digest())
    print("   log", len(cap.records), h(cap.records), cap.records[:3])
    print("   log kinds", sorted(Counter(r[1][:70] for r in cap.records).items()))


for sd in (10, 11, 12):
    run_rewire(f"hand[{sd}]", make_graph(), make_ejks(True), sd,
               extra={ToolsNames.CONVERGENCE_LIMIT: 5, ToolsNames.SEARCH_LIMIT: 6})
for sd in (30, 31, 32, 33):
    run_rewire(f"hand-flat[{sd}]", make_graph(), flat, sd,
               extra={ToolsNames.CONVERGENCE_LIMIT: sd - 29, ToolsNames.SEARCH_LIMIT: 10})
run_rewire("hand-flat-long", make_graph(), flat, 13,
           extra={ToolsNames.CONVERGENCE_LIMIT: 400, ToolsNames.SEARCH_LIMIT: 10})
run_rewire("hand-flat-default-search", make_graph(), flat, 14,
           extra={ToolsNames.CONVERGENCE_LIMIT: 30})
run_rewire("hand-flat-default-limits", make_graph(), flat, 34)
run_rewire("hand-conv0", make_graph(), flat, 15, extra={ToolsNames.CONVERGENCE_LIMIT: 0})
run_rewire("hand-conv-neg", make_graph(), flat, 16, extra={ToolsNames.CONVERGENCE_LIMIT: -1})
run_rewire("hand-numpy", make_graph(), npm, 17,
           extra={ToolsNames.CONVERGENCE_LIMIT: 10, ToolsNames.SEARCH_LIMIT: 8})
# graph whose edges lack annotations: exception path
Gbad = nx.path_graph(4)
run_rewire("unannotated", Gbad, make_ejks(True), 18, extra={ToolsNames.CONVERGENCE_LIMIT: 3})
run_rewire("empty-graph", nx.Graph(), make_ejks(True), 19, extra={ToolsNames.CONVERGENCE_LIMIT: 3})


def gcm_network(n: int, sd: int, eps: float = 0.02):
    seed(sd)
    edge_names = ["2-clique", "3-clique"]
    motif_sizes = [2, 3]
    e1 = e2 = e3 = eps
    ejk_tree = {
        (0, 3, 0, 3): 9 / 81 - e1 - e2, (0, 3, 4, 1): e1, (0, 3, 2, 2): e2,
        (4, 1, 0, 3): e1, (4, 1, 4, 1): 45 / 81 - e1 - e3, (4, 1, 2, 2): e3,
        (2, 2, 0, 3): e2, (2, 2, 4, 1): e3, (2, 2, 2, 2): 27 / 81 - e2 - e3,
    }
    ejk_tri = {
        (3, 1, 3, 1): 48 / 144 - e1 - e2, (3, 1, 1, 2): e1, (3, 1, 5, 0): e2,
        (1, 2, 3, 1): e1, (1, 2, 1, 2): 72 / 144 - e1 - e3, (1, 2, 5, 0): e3,
        (5, 0, 3, 1): e2, (5, 0, 1, 2): e3, (5, 0, 5, 0): 24 / 144 - e2 - e3,
    }
    target = JointExcessJointDegreeMatrices(
        {ToolsNames.EDGE_NAMES: edge_names,
         ToolsNames.EJKS: {"2-clique": ejk_tree, "3-clique": ejk_tri}}
    )
    qks = JointExcessFromEjk.get_excess_joint_distributions(target)
    jdd = JointDegreeFromExcess.get_joint_degree_distribution(qks, edge_names)
    jds = JointDegreeManual(
        {JointDegreeNames.JDD: jdd, JointDegreeNames.MOTIF_SIZES: motif_sizes}
    ).sample_jds_from_jdd(n)
    g = GCMAlgorithmNetwork(
        {GCMAlgorithmNames.MOTIF_SIZES: motif_sizes,
         GCMAlgorithmNames.EDGE_NAMES: edge_names,
         GCMAlgorithmNames.BUILD_FUNCTIONS: [clique_motif, clique_motif]}
    ).random_clustered_graph(jds)
    return g, target


def run_gcm(label, n, sd, extra=None, eps=0.02):
    g, target = gcm_network(n, sd, eps)
    MarkovChainMonteCarlo._proposal_count = 0
    MarkovChainMonteCarlo._proposals_accepted = 0
    params = {ToolsNames.NETWORK: g, ToolsNames.EJKS: target}
    params.update(extra or {})
    m = MarkovChainMonteCarloRewiring(params)
    cap = attach(m)
    before = graph_digest(g.G)
    G0 = g.G.copy()
    seed(sd + 1000)
    try:
        R = m.rewire()
        print(label, "n", G0.number_of_nodes(), "m", G0.number_of_edges(), "result",
              graph_digest(R), "property", check_property(G0, R))
    except BaseException as e:  # noqa: B902
        print(label, "!!", type(e).__name__, repr(str(e)))
    print("   input unchanged", before == graph_digest(g.G), "limits", m.convergence_limit,
          m.search_limit, "state", h(mcmc_state(m)), mcmc_state(m)[1:6], "rng", rng_digest())
    print("   log", len(cap.records), h(cap.records))
    print("   log kinds", sorted(Counter(r[1][:70] for r in cap.records).items()))
    print("   search failures", h([r for r in cap.records if "could not find" in r[1]]))


run_gcm("gcm-default-limits", 120, 21)
run_gcm("gcm-search-only", 200, 22, extra={ToolsNames.SEARCH_LIMIT: 5})
run_gcm("gcm-conv-only", 400, 23, extra={ToolsNames.CONVERGENCE_LIMIT: 300})
run_gcm("gcm-both", 1000, 24,
        extra={ToolsNames.CONVERGENCE_LIMIT: 1500, ToolsNames.SEARCH_LIMIT: 20})
run_gcm("gcm-tight-search", 300, 25,
        extra={ToolsNames.CONVERGENCE_LIMIT: 100, ToolsNames.SEARCH_LIMIT: 1})
run_gcm("gcm-assorted-target", 500, 27,
        extra={ToolsNames.CONVERGENCE_LIMIT: 60, ToolsNames.SEARCH_LIMIT: 20}, eps=1e-8)
run_gcm("gcm-both-2", 600, 26,
        extra={ToolsNames.CONVERGENCE_LIMIT: 800, ToolsNames.SEARCH_LIMIT: 30})
print("== done", rng_digest())
