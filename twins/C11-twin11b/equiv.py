import sys, os; sys.path.insert(0, os.getcwd())
import hashlib
import random
import numpy as np
import networkx as nx

from gcmpy.joint_degree.joint_degree_loaders.joint_degree_manual import JointDegreeManual
from gcmpy.motif_generators.clique_motif import clique_motif
from gcmpy.gcm_algorithm.gcm_algorithm_network import GCMAlgorithmNetwork
from gcmpy.names.gcm_algorithm_names import GCMAlgorithmNames
from gcmpy.names.joint_degree_names import JointDegreeNames
from gcmpy.names.tools_names import ToolsNames
from gcmpy.names.network_names import NetworkNames
from gcmpy.network.network import Network
from gcmpy.tools.joint_excess_joint_degree_matrices import JointExcessJointDegreeMatrices
from gcmpy.tools.markov_chain_monte_carlo import MarkovChainMonteCarlo
from gcmpy.tools.markov_chain_monte_carlo_rewiring import (
    MarkovChainMonteCarloRewiring,
    ErrorMarkovChainMonteCarloRewiring,
)
from gcmpy.tools.joint_excess_from_ejk import JointExcessFromEjk
from gcmpy.tools.joint_degree_from_excess import JointDegreeFromExcess
from gcmpy.tools.draw_set import DrawSet
from gcmpy.tools.proposal_edge import ProposalEdge

EDGE_NAMES = ["2-clique", "3-clique"]
MOTIF_SIZES = [2, 3]
OUT = []


def emit(*parts):
    OUT.append(" ".join(str(p) for p in parts))


def rng_state():
    h = hashlib.sha256()
    h.update(repr(random.getstate()).encode())
    st = np.random.get_state()
    h.update(repr((st[0], st[1].tolist(), st[2], st[3], st[4])).encode())
    return h.hexdigest()[:16]


def seed(n):
    random.seed(n)
    np.random.seed(n)


def attempt(label, fn):
    """Runs fn, records value or exception type + message."""
    try:
        r = fn()
        emit(label, "->", repr(r))
        return r
    except BaseException as e:  # noqa
        emit(label, "!!", type(e).__name__, repr(str(e)))
        return None


def target_ejks(eps):
    tree = {
        (0, 3, 0, 3): 9 / 81 - 2 * eps,
        (0, 3, 4, 1): eps,
        (0, 3, 2, 2): eps,
        (4, 1, 0, 3): eps,
        (4, 1, 4, 1): 45 / 81 - 2 * eps,
        (4, 1, 2, 2): eps,
        (2, 2, 0, 3): eps,
        (2, 2, 4, 1): eps,
        (2, 2, 2, 2): 27 / 81 - 2 * eps,
    }
    tri = {
        (3, 1, 3, 1): 48 / 144 - 2 * eps,
        (3, 1, 1, 2): eps,
        (3, 1, 5, 0): eps,
        (1, 2, 3, 1): eps,
        (1, 2, 1, 2): 72 / 144 - 2 * eps,
        (1, 2, 5, 0): eps,
        (5, 0, 3, 1): eps,
        (5, 0, 1, 2): eps,
        (5, 0, 5, 0): 24 / 144 - 2 * eps,
    }
    p = {ToolsNames.EDGE_NAMES: list(EDGE_NAMES),
         ToolsNames.EJKS: {"2-clique": tree, "3-clique": tri}}
    return JointExcessJointDegreeMatrices(p)


def build_network(n, ejk):
    qks = JointExcessFromEjk.get_excess_joint_distributions(ejk)
    jdd = JointDegreeFromExcess.get_joint_degree_distribution(qks, EDGE_NAMES)
    p = {JointDegreeNames.JDD: jdd, JointDegreeNames.MOTIF_SIZES: MOTIF_SIZES}
    jds = JointDegreeManual(p).sample_jds_from_jdd(n)
    p = {GCMAlgorithmNames.MOTIF_SIZES: MOTIF_SIZES,
         GCMAlgorithmNames.EDGE_NAMES: EDGE_NAMES,
         GCMAlgorithmNames.BUILD_FUNCTIONS: [clique_motif, clique_motif]}
    return GCMAlgorithmNetwork(p).random_clustered_graph(jds)


def graph_digest(G):
    h = hashlib.sha256()
    h.update(repr(list(G.nodes(data=True))).encode())
    h.update(repr(list(G.edges(data=True))).encode())
    h.update(repr({u: list(G.adj[u]) for u in G}).encode())
    return "%s n=%d m=%d" % (h.hexdigest()[:16], G.number_of_nodes(), G.number_of_edges())


def mcmc_state(m):
    d = vars(m)
    keys = list(d.keys())
    return (
        keys,
        d.get("_convergence_limit"), d.get("_search_limit"),
        d.get("_proposal_count"), d.get("_proposals_accepted"),
        list(d.get("_acceptance_ratio", [])),
        [(type(p).__name__, list(vars(p).items())) for p in d.get("_proposal_edges", [])],
        ("cls", MarkovChainMonteCarlo._proposal_count, MarkovChainMonteCarlo._proposals_accepted),
    )


def finish():
    text = "\n".join(OUT)
    print(text)
    print("DIGEST", hashlib.sha256(text.encode()).hexdigest())


def run_rewire(label, n, seedv, eps, extra, repeat=1):
    seed(seedv)
    ejk = target_ejks(eps)
    g = build_network(n, ejk)
    before = graph_digest(g.G)
    params = {ToolsNames.NETWORK: g, ToolsNames.EJKS: ejk}
    params.update(extra)
    pkeys = list(params.keys())
    try:
        m = MarkovChainMonteCarloRewiring(params)
    except Exception as e:
        emit(label, "ctor failed", type(e).__name__)
        return
    emit(label, "state0", mcmc_state(m))
    for r in range(repeat):
        try:
            G = m.rewire()
            emit(label, r, "result", graph_digest(G), "is_input", G is g.G)
            deg = sorted(
                (u, sorted((d[NetworkNames.TOPOLOGY], 1) for _, _, d in G.edges(u, data=True)).__repr__())
                for u in G
            )
            emit(label, r, "degtopo", hashlib.sha256(repr(deg).encode()).hexdigest()[:16])
            emit(label, r, "selfloops", nx.number_of_selfloops(G))
        except BaseException as e:  # noqa
            emit(label, r, "rewire !!", type(e).__name__, repr(str(e)))
        emit(label, r, "input", graph_digest(g.G), "unchanged", graph_digest(g.G) == before)
        emit(label, r, "state", mcmc_state(m))
        emit(label, r, "params keys same", list(params.keys()) == pkeys)
        emit(label, r, "rng", rng_state())


# ---------------------------------------------------------------- variant b
# DrawSet.add
def ds_state(s):
    return (list(s._edges), list(s._edge_hashmap.items()), len(s), list(iter(s)))


class FlakyHash:
    """hash() works `ok` times, then raises."""

    def __init__(self, ok):
        self.ok, self.calls = ok, 0

    def __hash__(self):
        self.calls += 1
        if self.calls > self.ok:
            raise RuntimeError("hash exploded")
        return 7

    def __repr__(self):
        return "Flaky(%d,%d)" % (self.ok, self.calls)


class LoudEq:
    log = []

    def __init__(self, tag, boom=False):
        self.tag, self.boom = tag, boom

    def __hash__(self):
        LoudEq.log.append(("hash", self.tag))
        return 1

    def __eq__(self, other):
        LoudEq.log.append(("eq", self.tag, getattr(other, "tag", other)))
        if self.boom:
            raise ValueError("eq exploded")
        return isinstance(other, LoudEq) and other.tag == self.tag

    def __repr__(self):
        return "L%s" % self.tag


def op(s, label, fn):
    try:
        r = fn()
        emit(label, "->", repr(r), ds_state(s))
    except BaseException as e:  # noqa
        emit(label, "!!", type(e).__name__, repr(str(e)), ds_state(s))
    emit(label, "rng", rng_state())


seed(1)
s = DrawSet()
emit("fresh", ds_state(s), (1, 2) in s)
op(s, "draw-empty", lambda: s.draw())
op(s, "remove-empty", lambda: s.remove((1, 2)))
nan = float("nan")
items = [(1, 2), (2, 1), (1, 2), (1.0, 2.0), (True, 2), (3, 3), (), None, 0, False, 0.0, "ab", ("a", "b"),
         nan, nan, float("nan"), (nan,), (nan,), frozenset([1]), -1, -2, (1, 2), [1, 2], {1: 2}, {1}, (1, [2]),
         (2, 3), (3, 2), (2 ** 70, 1), (1, 2 ** 70)]
for k, it in enumerate(items):
    op(s, "add%d %r" % (k, it), lambda it=it: s.add(it))
    try:
        emit("  contains", it in s)
    except BaseException as e:  # noqa
        emit("  contains !!", type(e).__name__)
for k, it in enumerate([(1, 2), (1, 2), (2, 1), 0, nan, float("nan"), [1], (9, 9), (3, 2), None, ()]):
    op(s, "rm%d %r" % (k, it), lambda it=it: s.remove(it))
for k in range(5):
    op(s, "draw%d" % k, lambda: s.draw())

# objects whose hash / eq misbehave at different moments
for ok in range(0, 5):
    s = DrawSet()
    f = FlakyHash(ok)
    op(s, "flaky ok=%d add" % ok, lambda: s.add(f))
    op(s, "flaky ok=%d add again" % ok, lambda: s.add(f))
    op(s, "flaky ok=%d add other" % ok, lambda: s.add((4, 5)))
    emit("flaky calls", f.calls)
s = DrawSet()
a, b, c = LoudEq("a"), LoudEq("b", boom=True), LoudEq("a")
for name, it in [("a", a), ("a2", a), ("c", c), ("b", b), ("b2", b), ("c2", c)]:
    op(s, "loud add " + name, lambda it=it: s.add(it))
emit("loud log", LoudEq.log)

# long random sessions: add / duplicate add / remove / draw / membership, repeated on one object
for sess in range(6):
    seed(100 + sess)
    s = DrawSet()
    h = hashlib.sha256()
    for step in range(3000):
        r = random.random()
        e = (random.randrange(12), random.randrange(12))
        if sess % 2:
            e = tuple(sorted(e))
        try:
            if r < 0.45:
                out = s.add(e)
            elif r < 0.55 and len(s):
                out = s.add(s.draw())  # guaranteed duplicate
            elif r < 0.8:
                out = s.remove(e)
            elif r < 0.9:
                out = s.draw()
            else:
                out = (e in s, len(s))
        except BaseException as ex:  # noqa
            out = type(ex).__name__
        h.update(repr((step, out, ds_state(s))).encode())
    emit("session", sess, h.hexdigest()[:16], len(s), rng_state())

# add returns None and never touches an existing entry's position
s = DrawSet()
rets = [s.add((i % 5, i % 3)) for i in range(40)]
emit("rets", set(rets), ds_state(s))
# two sets do not share state
s1, s2 = DrawSet(), DrawSet()
s1.add((1, 2))
emit("independent", ds_state(s1), ds_state(s2), DrawSet.__bases__, sorted(k for k in DrawSet.__dict__ if not k.startswith("__")))

# the rewiring that is built on it
C_, S_ = ToolsNames.CONVERGENCE_LIMIT, ToolsNames.SEARCH_LIMIT
run_rewire("defaults", 40, 21, 0.02, {})
run_rewire("both", 120, 22, 0.02, {C_: 80, S_: 20}, repeat=2)
run_rewire("conv-only", 200, 23, 0.03, {C_: 100})
run_rewire("search-only", 30, 24, 0.02, {S_: 8})
finish()
