"""Deterministic digest of the built-in degree distributions (run with cwd = a checkout)."""
import hashlib
import os
import random
import struct
import sys

sys.path.insert(0, os.getcwd())

import numpy as np  # noqa: E402

random.seed(12345)
np.random.seed(12345)

from gcmpy.distributions.exponential import exponential  # noqa: E402
from gcmpy.distributions.poisson import poisson  # noqa: E402
from gcmpy.distributions.power_law import power_law  # noqa: E402
from gcmpy.distributions.scale_free_cut_off import scale_free_cut_off  # noqa: E402

h = hashlib.sha256()


def rec(label, value):
    """Record type and exact bits of a value."""
    if isinstance(value, np.ndarray):
        bits = value.dtype.str + ":" + value.tobytes().hex()
    elif isinstance(value, (float, np.floating)):
        bits = struct.pack(">d", float(value)).hex()
    elif callable(value):
        value = "<callable %s>" % value.__qualname__  # repr has a memory address
        bits = value
    else:
        bits = repr(value)
    line = "%s | %s | %s | %r" % (label, type(value).__name__, bits, value)
    h.update(line.encode())
    if not isinstance(value, np.ndarray) or value.size <= 8:
        print(line)
    else:
        print("%s | ndarray | sha=%s" % (label, hashlib.sha256(bits.encode()).hexdigest()[:16]))


def attempt(label, fn):
    try:
        rec(label, fn())
    except Exception as e:  # noqa: BLE001
        rec(label, "EXC %s: %s" % (type(e).__name__, e))


ks0 = list(range(0, 60)) + [100, 170, 171, 500]
ks1 = list(range(1, 60)) + [100, 1000, 10**6]

# exponential
for a in [0.05, 0.5, 1.0, 2.5, np.float64(0.7), 3, random.uniform(0.1, 3.0)]:
    p = exponential(a)
    for k in ks0:
        attempt("exp a=%r k=%r" % (a, k), lambda: p(k))
    attempt("exp a=%r sum" % (a,), lambda: sum(p(k) for k in range(0, 2000)))
    attempt("exp a=%r arr" % (a,), lambda: p(np.arange(0, 50)))
    attempt("exp a=%r kfloat" % (a,), lambda: p(2.5))
    attempt("exp a=%r kneg" % (a,), lambda: p(-3))
attempt("exp a=str", lambda: exponential("x"))
attempt("exp a=str call", lambda: exponential("x")(1))

# poisson
for m in [0.1, 1.0, 2.5, 7.3, 30.0, 4, np.float64(2.5), 0.0, 0, random.uniform(0.5, 10.0)]:
    p = poisson(m)
    for k in ks0:
        attempt("poi m=%r k=%r" % (m, k), lambda: p(k))
    attempt("poi m=%r sum" % (m,), lambda: sum(p(k) for k in range(0, 150)))
    attempt("poi m=%r kneg" % (m,), lambda: p(-1))
    attempt("poi m=%r kfloat" % (m,), lambda: p(2.5))
    attempt("poi m=%r knp" % (m,), lambda: p(np.int64(3)))
attempt("poi m=str call", lambda: poisson("x")(1))

# power law
for alpha in [2.0, 2.5, 3.0, 3.7, 5, np.float64(2.2), 1.8, random.uniform(2.0, 4.0)]:
    p = power_law(alpha)
    for k in ks1:
        attempt("pl alpha=%r k=%r" % (alpha, k), lambda: p(k))
    attempt("pl alpha=%r sum" % (alpha,), lambda: sum(p(k) for k in range(1, 5000)))
    attempt("pl alpha=%r k0" % (alpha,), lambda: p(0))
    attempt("pl alpha=%r kfloat" % (alpha,), lambda: p(2.5))
    attempt("pl alpha=%r kneg" % (alpha,), lambda: p(-2))
    attempt("pl alpha=%r arr" % (alpha,), lambda: p(np.arange(1.0, 40.0)))
    attempt("pl alpha=%r knp" % (alpha,), lambda: p(np.int64(3)))
attempt("pl alpha=str", lambda: power_law("x"))

# scale free with cut-off
for alpha, kappa in [
    (2.0, 10.0),
    (2.5, 20.0),
    (3.0, 5.0),
    (1.0, 8.0),
    (0.5, 3.0),
    (2, 15),
    (np.float64(2.3), np.float64(50.0)),
    (2.5, 1000.0),
    (0.0, 4.0),
    (-0.5, 2.0),
    (random.uniform(1.5, 3.5), random.uniform(2.0, 40.0)),
]:
    p = scale_free_cut_off(alpha, kappa)
    for k in ks1:
        attempt("sfc alpha=%r kappa=%r k=%r" % (alpha, kappa, k), lambda: p(k))
    attempt("sfc alpha=%r kappa=%r sum" % (alpha, kappa), lambda: sum(p(k) for k in range(1, 5000)))
    attempt("sfc alpha=%r kappa=%r k0" % (alpha, kappa), lambda: p(0))
    attempt("sfc alpha=%r kappa=%r kfloat" % (alpha, kappa), lambda: p(2.5))
    attempt("sfc alpha=%r kappa=%r kneg" % (alpha, kappa), lambda: p(-2))
    attempt("sfc alpha=%r kappa=%r arr" % (alpha, kappa), lambda: p(np.arange(1, 40)))
    attempt("sfc alpha=%r kappa=%r knp" % (alpha, kappa), lambda: p(np.int64(3)))
attempt("sfc kappa=0", lambda: scale_free_cut_off(2.0, 0))
attempt("sfc alpha=str", lambda: scale_free_cut_off("x", 2.0))

# call history: interleave repeated factory creation and calls
fs = []
for i in range(5):
    fs.append(power_law(2.0 + 0.1 * i))
    fs.append(scale_free_cut_off(2.0 + 0.1 * i, 10.0 + i))
    fs.append(poisson(1.0 + i))
    fs.append(exponential(0.3 + 0.1 * i))
for rep in range(2):
    for i, f in enumerate(fs):
        attempt("hist rep=%d i=%d" % (rep, i), lambda: [f(k) for k in range(1, 6)])

# RNG state must be untouched by the library
rec("rng py", random.random())
rec("rng np", float(np.random.random()))

print("DIGEST", h.hexdigest())
