import sys, os; sys.path.insert(0, os.getcwd())
# Variant a: JointExcessJointDegreeMatrices.__init__ (parameter parsing of the
# matrices container).  Exercises the constructor through every public route
# that reaches it today: direct construction (no argument, None, well-formed
# and malformed parameter objects), the extractor JointExcessJointDegree.get_ejks
# (which builds the container without parameters and fills it through the
# setters), and JointExcessFromEjk (which consumes the container).
# string hashing is randomised per process; pin it so set orders are repeatable
if os.environ.get("PYTHONHASHSEED") != "0":
    os.environ["PYTHONHASHSEED"] = "0"
    os.execv(sys.executable, [sys.executable] + sys.argv)
import hashlib
import random

import numpy as np
import networkx as nx

from gcmpy.names.tools_names import ToolsNames
from gcmpy.names.network_names import NetworkNames
from gcmpy.names.joint_degree_names import JointDegreeNames
from gcmpy.names.gcm_algorithm_names import GCMAlgorithmNames
from gcmpy.tools.joint_excess_joint_degree_matrices import (
    JointExcessJointDegreeMatrices,
)
from gcmpy.tools.joint_excess_joint_degree import JointExcessJointDegree
from gcmpy.tools.joint_excess_degree import JointExcessDegree
from gcmpy.tools.joint_excess_from_ejk import JointExcessFromEjk
from gcmpy.joint_degree.joint_degree_loaders.joint_degree_manual import (
    JointDegreeManual,
)
from gcmpy.motif_generators.clique_motif import clique_motif
from gcmpy.gcm_algorithm.gcm_algorithm_network import GCMAlgorithmNetwork

random.seed(20261004)
np.random.seed(20261004)

LINES = []


def out(*parts):
    line = " ".join(str(p) for p in parts)
    LINES.append(line)
    print(line)


class LoggingDict(dict):
    """dict that records the order in which keys are looked up"""

    def __init__(self, *a, **k):
        super().__init__(*a, **k)
        self.log = []

    def __getitem__(self, key):
        self.log.append(("getitem", key))
        return super().__getitem__(key)

    def get(self, key, default=None):
        self.log.append(("get", key))
        return super().get(key, default)

    def __contains__(self, key):
        self.log.append(("contains", key))
        return super().__contains__(key)


class Weird:
    """truthiness / equality traps: falsy, and == None is True"""

    def __init__(self):
        self.log = []

    def __bool__(self):
        self.log.append("bool")
        return False

    def __eq__(self, other):
        self.log.append("eq")
        return True

    def __ne__(self, other):
        self.log.append("ne")
        return False

    def __hash__(self):
        return 1

    def __getitem__(self, key):
        self.log.append(("getitem", key))
        raise LookupError("weird")


def describe(m):
    return (
        type(m).__name__,
        list(vars(m).items()),
        m.ejks,
        m.excess_degree_keys,
        m.topology_names,
    )


def attempt(label, params_factory, *, noarg=False):
    for rep in range(2):
        params = None if noarg else params_factory()
        try:
            m = JointExcessJointDegreeMatrices() if noarg else JointExcessJointDegreeMatrices(params)
        except BaseException as e:  # noqa
            out(label, rep, "EXC", type(e).__name__, repr(str(e)))
            m = None
        else:
            out(label, rep, "OK", describe(m))
            if isinstance(params, dict) and ToolsNames.EJKS in dict.keys(params):
                out(label, rep, "same ejks object", m.ejks is dict.__getitem__(params, ToolsNames.EJKS))
            if isinstance(params, dict) and ToolsNames.EDGE_NAMES in dict.keys(params):
                out(
                    label, rep, "same names object",
                    m.topology_names is dict.__getitem__(params, ToolsNames.EDGE_NAMES),
                )
            # repeated calls on the one object
            for t in list(m.topology_names) + ["missing"] if isinstance(m.topology_names, (list, tuple)) else ["missing"]:
                try:
                    out(label, rep, "index", repr(t), m.get_topology_index(t))
                except BaseException as e:  # noqa
                    out(label, rep, "index", repr(t), "EXC", type(e).__name__, repr(str(e)))
            for again in range(2):
                try:
                    m.get_excess_degree_keys()
                    out(label, rep, "rekey", again, m.excess_degree_keys)
                except BaseException as e:  # noqa
                    out(label, rep, "rekey", again, "EXC", type(e).__name__, repr(str(e)))
            try:
                out(label, rep, "qk", JointExcessFromEjk.get_excess_joint_distributions(m))
            except BaseException as e:  # noqa
                out(label, rep, "qk EXC", type(e).__name__, repr(str(e)))
        if hasattr(params, "log"):
            out(label, rep, "log", params.log)


ejk_tree = {(0, 3, 0, 3): 0.25, (0, 3, 4, 1): 0.125, (4, 1, 0, 3): 0.125, (4, 1, 4, 1): 0.5}
ejk_tri = {(3, 1, 3, 1): 0.5, (3, 1, 1, 2): 0.25, (1, 2, 3, 1): 0.25}

attempt("noarg", None, noarg=True)
attempt("None", lambda: None)
attempt("good", lambda: {ToolsNames.EJKS: {"t": dict(ejk_tree), "c": dict(ejk_tri)}, ToolsNames.EDGE_NAMES: ["t", "c"]})
attempt("good-log", lambda: LoggingDict({ToolsNames.EJKS: {"t": dict(ejk_tree)}, ToolsNames.EDGE_NAMES: ["t"]}))
attempt("extra-keys", lambda: LoggingDict({ToolsNames.EJKS: {"t": dict(ejk_tree)}, ToolsNames.EDGE_NAMES: ["t"], ToolsNames.EXCESS_DEGREE_KEYS: {"t": [(9, 9)]}, "junk": 1}))
attempt("empty-ejks", lambda: {ToolsNames.EJKS: {}, ToolsNames.EDGE_NAMES: []})
attempt("names-tuple", lambda: {ToolsNames.EJKS: {"t": dict(ejk_tree)}, ToolsNames.EDGE_NAMES: ("t", "u")})
attempt("names-mismatch", lambda: {ToolsNames.EJKS: {"t": dict(ejk_tree)}, ToolsNames.EDGE_NAMES: ["x", "y", "x"]})
attempt("odd-key-length", lambda: {ToolsNames.EJKS: {"t": {(1, 2, 3): 1.0, (): 0.0, (7,): 0.5}}, ToolsNames.EDGE_NAMES: ["t"]})
attempt("string-key", lambda: {ToolsNames.EJKS: {"t": {"abcd": 1.0}}, ToolsNames.EDGE_NAMES: ["t"]})
attempt("empty-dict", lambda: LoggingDict())
attempt("plain-empty-dict", lambda: {})
attempt("missing-ejks", lambda: LoggingDict({ToolsNames.EDGE_NAMES: ["t"]}))
attempt("missing-names", lambda: LoggingDict({ToolsNames.EJKS: {"t": dict(ejk_tree)}}))
attempt("string-keys-not-enum", lambda: LoggingDict({"ejks": {"t": dict(ejk_tree)}, "edge_names": ["t"]}))
attempt("ejks-None", lambda: {ToolsNames.EJKS: None, ToolsNames.EDGE_NAMES: ["t"]})
attempt("ejks-list", lambda: {ToolsNames.EJKS: [1, 2], ToolsNames.EDGE_NAMES: ["t"]})
attempt("ejk-key-int", lambda: {ToolsNames.EJKS: {"t": {5: 1.0}}, ToolsNames.EDGE_NAMES: ["t"]})
attempt("ejk-value-None", lambda: {ToolsNames.EJKS: {"t": None}, ToolsNames.EDGE_NAMES: ["t"]})
attempt("names-None", lambda: {ToolsNames.EJKS: {"t": dict(ejk_tree)}, ToolsNames.EDGE_NAMES: None})
attempt("int-0", lambda: 0)
attempt("int-7", lambda: 7)
attempt("False", lambda: False)
attempt("empty-str", lambda: "")
attempt("str", lambda: "ejks")
attempt("empty-tuple", lambda: ())
attempt("empty-list", lambda: [])
attempt("list", lambda: [1, 2, 3])
attempt("weird", lambda: Weird())
attempt("numpy-array", lambda: np.zeros(3))
attempt("Ellipsis", lambda: Ellipsis)
attempt("NotImplemented", lambda: NotImplemented)

# keyword form and positional form
for form in ("kw", "pos"):
    p = {ToolsNames.EJKS: {"t": dict(ejk_tri)}, ToolsNames.EDGE_NAMES: ["t"]}
    m = JointExcessJointDegreeMatrices(params=p) if form == "kw" else JointExcessJointDegreeMatrices(p)
    out("form", form, describe(m))
try:
    JointExcessJointDegreeMatrices(None, None)
except BaseException as e:  # noqa
    out("two-args EXC", type(e).__name__, repr(str(e)))

# re-running __init__ on a live object (each public method that exists today)
m = JointExcessJointDegreeMatrices({ToolsNames.EJKS: {"t": dict(ejk_tree)}, ToolsNames.EDGE_NAMES: ["t"]})
out("reinit before", describe(m))
r = m.__init__()
out("reinit None ->", r, describe(m))
r = m.__init__({ToolsNames.EJKS: {"c": dict(ejk_tri)}, ToolsNames.EDGE_NAMES: ["c"]})
out("reinit params ->", r, describe(m))
try:
    m.__init__({ToolsNames.EJKS: {"z": {}}})
except BaseException as e:  # noqa
    out("reinit partial EXC", type(e).__name__, repr(str(e)), describe(m))

# two fresh objects do not share their containers
m1 = JointExcessJointDegreeMatrices()
m2 = JointExcessJointDegreeMatrices(None)
m1.ejks["x"] = {(0, 0): 1.0}
m1.topology_names.append("x")
m1.excess_degree_keys["x"] = [(0,)]
out("isolation", describe(m1), describe(m2))


# the extractor route: networks built by the generator with seeded streams
def build(jdd, sizes, names, n):
    p = {JointDegreeNames.JDD: jdd, JointDegreeNames.MOTIF_SIZES: sizes}
    jds = JointDegreeManual(p).sample_jds_from_jdd(n)
    q = {
        GCMAlgorithmNames.MOTIF_SIZES: sizes,
        GCMAlgorithmNames.EDGE_NAMES: names,
        GCMAlgorithmNames.BUILD_FUNCTIONS: [clique_motif] * len(sizes),
    }
    return GCMAlgorithmNetwork(q).random_clustered_graph(jds)


def canon(d):
    return sorted((k, float(v).hex()) for k, v in d.items())


cases = [
    ({(5, 1): 1 / 3, (3, 2): 1 / 3, (1, 3): 1 / 3}, [2, 3], ["2-clique", "3-clique"], 300),
    ({(1, 0): 0.2, (2, 1): 0.5, (3, 0): 0.1, (5, 1): 0.2}, [2, 3], ["2-clique", "3-clique"], 200),
    ({(2,): 0.5, (3,): 0.5}, [2], ["tree"], 150),
    ({(1, 1, 1): 0.5, (2, 0, 1): 0.25, (0, 2, 0): 0.25}, [2, 3, 4], ["a", "b", "c"], 240),
]
for ci, (jdd, sizes, names, n) in enumerate(cases):
    for rep in range(2):
        g = build(jdd, sizes, names, n)
        C = JointExcessJointDegree({ToolsNames.NETWORK: g.G, ToolsNames.EDGE_NAMES: names})
        for q in range(3):
            M = C.get_ejks()
            out("net", ci, rep, q, type(M).__name__, list(vars(M).keys()), M.topology_names,
                [(t, canon(M.ejks[t])) for t in M.ejks],
                [(t, M.excess_degree_keys[t]) for t in M.excess_degree_keys],
                [M.get_topology_index(t) for t in names])
            qk = JointExcessFromEjk.get_excess_joint_distributions(M)
            out("net-qk", ci, rep, q, [(t, canon(qk[t])) for t in qk])
            # feed the extracted matrices back through the parameter route
            M2 = JointExcessJointDegreeMatrices({ToolsNames.EJKS: M.ejks, ToolsNames.EDGE_NAMES: M.topology_names})
            out("net-round", ci, rep, q, M2.ejks is M.ejks, M2.topology_names is M.topology_names,
                [(t, M2.excess_degree_keys[t]) for t in M2.excess_degree_keys])
        out("net-overall", ci, rep, canon(JointExcessDegree.get_ejk(g.G)))

out("py-random-state", hashlib.sha256(repr(random.getstate()).encode()).hexdigest())
st = np.random.get_state()
out("np-random-state", hashlib.sha256(st[1].tobytes() + repr(st[2:]).encode()).hexdigest())
print("DIGEST", hashlib.sha256("\n".join(LINES).encode()).hexdigest())
