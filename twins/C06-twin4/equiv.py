"""Equivalence digest for property C06 (joint degree loaders).

Run with cwd = a checkout of gcmpy. Prints a deterministic transcript: results
(bit exact floats through repr), exceptions, RNG state digests afterwards and
mutated inputs. The transcript of the original and of the changed code must be
byte-identical.
"""
import hashlib
import logging
import os
import random
import sys
from fractions import Fraction

sys.path.insert(0, os.getcwd())

import numpy as np  # noqa: E402

from gcmpy.joint_degree.joint_degree import JointDegree  # noqa: E402
from gcmpy.joint_degree.joint_degree_type import JointDegreeType  # noqa: E402
from gcmpy.joint_degree.joint_degree_factory import JointDegreeFactory  # noqa: E402
from gcmpy.joint_degree.joint_degree_distribution import (  # noqa: E402
    JointDegreeDistribution,
)
from gcmpy.joint_degree.joint_degree_loaders.joint_degree_manual import (  # noqa: E402
    JointDegreeManual,
)
from gcmpy.joint_degree.joint_degree_loaders.joint_degree_empirical import (  # noqa: E402
    JointDegreeEmpirical,
)
from gcmpy.joint_degree.joint_degree_loaders.joint_degree_function import (  # noqa: E402
    JointDegreeFunction,
)
from gcmpy.joint_degree.joint_degree_loaders.joint_degree_marginal import (  # noqa: E402
    JointDegreeMarginal,
)
from gcmpy.names.joint_degree_names import JointDegreeNames as N  # noqa: E402


# ---------------------------------------------------------------- plumbing
class _Recorder(logging.Handler):
    """Records everything at WARNING and above anywhere in the process."""

    def __init__(self):
        super().__init__(level=logging.WARNING)
        self.records = []

    def emit(self, record):
        self.records.append((record.name, record.levelname, record.getMessage()))


_recorder = _Recorder()
logging.getLogger().addHandler(_recorder)


def rng_digest() -> str:
    h = hashlib.sha256()
    h.update(repr(random.getstate()).encode())
    st = np.random.get_state()
    h.update(repr((st[0], st[1].tolist(), st[2], st[3], st[4])).encode())
    return h.hexdigest()[:16]


def seed(s: int) -> None:
    random.seed(s)
    np.random.seed(s)


def show(x) -> str:
    """repr with dict insertion order kept, types made explicit for scalars."""
    if isinstance(x, dict):
        return (
            type(x).__name__
            + "{"
            + ", ".join(f"{show(k)}: {show(v)}" for k, v in x.items())
            + "}"
        )
    if isinstance(x, (list, tuple)):
        o, c = ("[", "]") if isinstance(x, list) else ("(", ")")
        return o + ", ".join(show(v) for v in x) + c
    if isinstance(x, (float, int, np.generic, Fraction, bool)):
        return f"{type(x).__name__}:{x!r}"
    if isinstance(x, JointDegree):
        return state(x)
    if callable(x) or hasattr(x, "__next__"):
        return f"<{type(x).__name__}>"
    text = repr(x)
    assert " at 0x" not in text, text
    return text


def exc_text(e: BaseException) -> str:
    ctx = e.__context__
    cause = e.__cause__
    return (
        f"EXC {type(e).__name__}({str(e)!r})"
        f" ctx={type(ctx).__name__ if ctx is not None else None}"
        f"({str(ctx)!r})"
        f" cause={type(cause).__name__ if cause is not None else None}"
    )


def run(label: str, fn):
    try:
        out = fn()
        print(f"[{label}] -> {show(out)}")
        return out
    except BaseException as e:  # noqa: B902
        print(f"[{label}] -> {exc_text(e)}")
        return None
    finally:
        print(f"[{label}] rng={rng_digest()}")


def state(loader) -> str:
    if loader is None:
        return "None"
    items = sorted(vars(loader).items())
    parts = []
    for k, v in items:
        if callable(v) or (
            isinstance(v, list) and v and all(callable(c) for c in v)
        ):
            parts.append(f"{k}=<callable(s)>")
        elif hasattr(v, "__next__"):
            parts.append(f"{k}=<iterator>")
        else:
            parts.append(f"{k}={show(v)}")
    return type(loader).__name__ + "(" + "; ".join(parts) + ")"


class Calls:
    """Callable wrapper recording every call (order of callback invocations)."""

    def __init__(self, fn, name):
        self.fn = fn
        self.name = name
        self.log = []

    def __call__(self, *a):
        self.log.append(a)
        return self.fn(*a)


def poisson_like(mean):
    def f(k):
        return (mean ** k) / (1.0 + k * k)

    return f


def geometric(p):
    def f(k):
        return p * (1.0 - p) ** k

    return f


# ---------------------------------------------------------------- base class
def section_base():
    print("== base class")
    run("abstract-new", lambda: JointDegree())
    run("abstract-new-args", lambda: JointDegree({}))

    class Minimal(JointDegree):
        def create_jdd(self):
            return super().create_jdd()

    m = Minimal()
    run("minimal-vars-before-init", lambda: sorted(vars(m)))
    run("virtual", m.create_jdd)
    JointDegree.__init__(m)
    run("minimal-state", lambda: state(m))

    # jdd / motif_sizes accessors
    d = {(1, 0): 0.25, (0, 1): 0.75}
    m.jdd = d
    run("jdd-identity", lambda: m.jdd is d)
    m.motif_sizes = [2, 3]
    run("motif-sizes", lambda: m.motif_sizes)

    # normalise_jdd
    for label, jdd in [
        ("floats", {(0,): 1.0, (1,): 3.0, (2,): 0.1}),
        ("ints", {(0,): 1, (1,): 3}),
        ("fractions", {(0,): Fraction(1, 3), (1,): Fraction(1, 6)}),
        ("np", {(0,): np.float64(0.1), (1,): np.float32(0.7)}),
        ("zero-sum", {(0,): 0.0, (1,): 0.0}),
        ("zero-sum-np", {(0,): np.float64(0.0), (1,): np.float64(0.0)}),
        ("empty", {}),
        ("negative", {(0,): -1.0, (1,): 3.0}),
        ("tiny", {(0,): 5e-324, (1,): 1e-320, (2,): 1e-310}),
        ("strings", {(0,): "a"}),
    ]:
        m.jdd = jdd
        with np.errstate(all="ignore"):
            run(f"normalise-{label}", m.normalise_jdd)
        run(f"normalise-{label}-after", lambda: m.jdd)
        run(f"normalise-{label}-same-object", lambda: m.jdd is jdd)
        with np.errstate(all="ignore"):
            run(f"normalise-{label}-again", m.normalise_jdd)
        run(f"normalise-{label}-after2", lambda: m.jdd)
    m.jdd = None
    run("normalise-none", m.normalise_jdd)
    m.jdd = [1, 2]
    run("normalise-list", m.normalise_jdd)

    # convert_jds_to_jdd
    for label, jds in [
        ("plain", [(1, 0), (0, 1), (1, 0), (2, 2), (1, 0), (0, 1), (3, 3)]),
        ("single", [(4, 4)]),
        ("empty", []),
        ("thirds", [(0,), (1,), (2,)]),
        ("tuple-input", ((1, 1), (1, 1), (0, 0))),
        ("mapping-input", {(1, 1): 5, (0, 0): 2}),
        ("empty-mapping", {}),
        ("string-input", "abca"),
        ("unhashable", [[1, 0], [0, 1]]),
        ("mixed-unhashable", [(1, 0), [0, 1]]),
        ("no-len", iter([(1, 0)])),
        ("none", None),
        ("int-keys", [1, 1.0, True, 2]),
        ("nan-keys", [float("nan"), float("nan")]),
    ]:
        before = {"sentinel": 1.0}
        m.jdd = before
        snapshot = repr(jds) if not hasattr(jds, "__next__") else "<iter>"
        run(f"convert-{label}", lambda: m.convert_jds_to_jdd(jds))
        run(f"convert-{label}-jdd", lambda: m.jdd)
        run(f"convert-{label}-replaced", lambda: m.jdd is before)
        run(f"convert-{label}-sentinel", lambda: before)
        if not hasattr(jds, "__next__"):
            print(f"[convert-{label}] input-unchanged={snapshot == repr(jds)}")

    # handshaking_lemma / sample_jds_from_jdd (share code that was touched)
    for s in (0, 1, 7):
        for sizes, jds in [
            ([2, 3], [(1, 0), (0, 1), (1, 1), (2, 2), (0, 2)]),
            ([2, 3], [(1, 1), (1, 2)]),
            ([2, 3], [(2, 3)]),
            ([5, 4], [(1, 1), (1, 1), (1, 1)]),
            ([1, 1], [(3, 4), (0, 9)]),
            ([2], [(1, 1), (0, 1)]),
            ([2, 3, 4], [(1, 1), (0, 1)]),
            ([2, 3], []),
            ([0, 3], [(1, 1)]),
        ]:
            m.motif_sizes = sizes
            seed(s)
            work = list(jds)
            out = run(f"handshake-s{s}-{sizes}-{jds}", lambda: m.handshaking_lemma(work))
            print(f"   same-object={out is work} input-now={show(work)}")
    m.motif_sizes = [2, 3]
    for s in (0, 3):
        for jdd in [
            {(1, 0): 0.25, (0, 1): 0.5, (2, 2): 0.25},
            {(1, 1): 1.0},
            {(1, 1): 0.0},
            {},
        ]:
            for n in (0, 1, 5, 17):
                m.jdd = jdd
                seed(s)
                run(f"sample-s{s}-{show(jdd)}-{n}", lambda: m.sample_jds_from_jdd(n))


# ---------------------------------------------------------------- manual
def section_manual():
    print("== manual")
    d = {(1, 0): 0.2, (0, 1): 0.3, (2, 2): 0.5}
    params = {N.JDD: d, N.MOTIF_SIZES: [2, 3], "extra": 1}
    keys_before = list(params)
    ld = run("manual-ok", lambda: JointDegreeManual(params))
    print("   state", state(ld))
    print("   identity", ld.jdd is d, ld.motif_sizes is params[N.MOTIF_SIZES])
    run("manual-create", ld.create_jdd)
    run("manual-create-again", ld.create_jdd)
    print("   identity-after", ld.jdd is d, show(d), list(params) == keys_before)
    run("manual-type", lambda: JointDegreeManual._type)
    for label, p in [
        ("missing-jdd", {N.MOTIF_SIZES: [2, 3]}),
        ("missing-sizes", {N.JDD: {}}),
        ("empty", {}),
        ("string-keys", {"jdd": {}, "motif_sizes": []}),
        ("none", None),
        ("list", [1, 2]),
    ]:
        run(f"manual-{label}", lambda: JointDegreeManual(p))
    for label, j in [
        ("none-jdd", None),
        ("list-jdd", [((1,), 1.0)]),
        ("unnormalised", {(1,): 2.0, (2,): 5.0}),
        ("empty-jdd", {}),
        ("negative", {(1,): -2.0}),
    ]:
        ld = run(f"manual-{label}", lambda: JointDegreeManual({N.JDD: j, N.MOTIF_SIZES: [2]}))
        print("   state", state(ld), "identity", ld is not None and ld.jdd is j)

    class DictSub(dict):
        def __len__(self):
            raise RuntimeError("len must not be called")

        def __iter__(self):
            raise RuntimeError("iter must not be called")

    ds = DictSub()
    dict.__setitem__(ds, (1,), 1.0)
    ld = run("manual-dictsub", lambda: JointDegreeManual({N.JDD: ds, N.MOTIF_SIZES: [2]}))
    print("   identity", ld is not None and ld.jdd is ds)


# ---------------------------------------------------------------- empirical
def section_empirical():
    print("== empirical")
    jds = [(1, 0), (0, 1), (1, 0), (2, 2), (1, 0), (0, 1), (3, 3)]
    params = {N.JDS: jds, N.MOTIF_SIZES: [2, 3]}
    ld = run("emp-ok", lambda: JointDegreeEmpirical(params))
    print("   state", state(ld))
    print("   identity", ld.empirical_jds is jds, show(jds))
    first = ld.jdd
    run("emp-create-again", ld.create_jdd)
    print("   new-dict", ld.jdd is first, show(ld.jdd), show(first))
    ld.empirical_jds = [(5, 5), (5, 5), (6, 6)]
    run("emp-after-setter-before-create", lambda: ld.jdd)
    run("emp-create-after-setter", ld.create_jdd)
    run("emp-after-setter", lambda: ld.jdd)
    jds.append((9, 9))
    ld.empirical_jds = jds
    run("emp-create-after-append", ld.create_jdd)
    run("emp-after-append", lambda: ld.jdd)
    run("emp-type", lambda: JointDegreeEmpirical._type)
    for label, p in [
        ("missing-jds", {N.MOTIF_SIZES: [2, 3]}),
        ("missing-sizes", {N.JDS: [(1, 1)]}),
        ("empty", {}),
        ("none", None),
    ]:
        run(f"emp-{label}", lambda: JointDegreeEmpirical(p))
    for label, j in [
        ("empty-jds", []),
        ("single", [(1, 2)]),
        ("thirds", [(0,), (1,), (2,)]),
        ("sevenths", [(0,)] * 3 + [(1,)] * 4),
        ("mapping", {(1, 1): 5, (0, 0): 2}),
        ("tuple", ((1, 1), (2, 2), (1, 1))),
        ("unhashable", [[1, 1]]),
        ("generator", ((k, k) for k in range(3))),
        ("none-jds", None),
        ("string", "aab"),
    ]:
        ld = run(f"emp-{label}", lambda: JointDegreeEmpirical({N.JDS: j, N.MOTIF_SIZES: [2, 3]}))
        print("   state", state(ld))
    # failure keeps the previous distribution of a living object
    ld = JointDegreeEmpirical({N.JDS: [(1, 1)], N.MOTIF_SIZES: [2, 3]})
    ld.empirical_jds = [[1, 1]]
    run("emp-fail-on-living", ld.create_jdd)
    print("   state", state(ld))
    ld.empirical_jds = 5
    run("emp-fail-on-living-2", ld.create_jdd)
    print("   state", state(ld))


# ---------------------------------------------------------------- function
def section_function():
    print("== function")

    def joint(jd):
        return 1.0 / (1.0 + sum((i + 1) * k for i, k in enumerate(jd))) ** 2

    fp = Calls(joint, "fp")
    bounds = [(0, 2), (1, 3)]
    params = {N.FP: fp, N.MOTIF_SIZES: [2, 3], N.LOW_HIGH_DEGREE_BOUND: bounds}
    ld = run("fn-ok", lambda: JointDegreeFunction(params))
    print("   jdd", show(ld.jdd))
    print("   calls", fp.log)
    print("   bounds-identity", ld._low_high_degree_bounds is bounds, show(bounds))
    first = ld.jdd
    fp.log.clear()
    run("fn-create-again", ld.create_jdd)
    print("   new-dict", ld.jdd is first, ld.jdd == first, list(ld.jdd) == list(first))
    print("   calls", fp.log)
    bounds[0] = (1, 1)
    fp.log.clear()
    run("fn-create-after-bound-change", ld.create_jdd)
    print("   jdd", show(ld.jdd), "calls", fp.log)
    run("fn-type", lambda: JointDegreeFunction._type)

    for label, b in [
        ("1d", [(0, 4)]),
        ("3d", [(0, 1), (2, 3), (5, 6)]),
        ("empty-bounds", []),
        ("inverted", [(3, 1), (0, 2)]),
        ("degenerate", [(2, 2)]),
        ("negative", [(-2, 0)]),
        ("tuple-bounds", ((0, 1), (0, 1))),
        ("generator-bounds", ((0, k) for k in (1, 2))),
        ("float-bounds", [(0.0, 2.0)]),
        ("triple", [(0, 1, 2)]),
        ("flat", (0, 5)),
        ("none", None),
        ("np-bounds", [(np.int64(0), np.int64(2))]),
        ("bool-bounds", [(False, True)]),
    ]:
        fp.log.clear()
        ld = run(
            f"fn-{label}",
            lambda: JointDegreeFunction(
                {N.FP: fp, N.MOTIF_SIZES: [2, 3], N.LOW_HIGH_DEGREE_BOUND: b}
            ),
        )
        print("   state", state(ld))
        print("   calls", fp.log)
        if ld is not None:
            fp.log.clear()
            run(f"fn-{label}-again", ld.create_jdd)
            print("   state", state(ld))
            print("   calls", fp.log)

    for label, p in [
        ("missing-fp", {N.MOTIF_SIZES: [2], N.LOW_HIGH_DEGREE_BOUND: [(0, 1)]}),
        ("missing-bounds", {N.MOTIF_SIZES: [2], N.FP: joint}),
        ("missing-sizes", {N.FP: joint, N.LOW_HIGH_DEGREE_BOUND: [(0, 1)]}),
        ("empty", {}),
        ("none", None),
    ]:
        run(f"fn-{label}", lambda: JointDegreeFunction(p))

    # callbacks: failing, non-float, not callable, random-consuming
    def failing(jd):
        if jd == (1, 1):
            raise KeyError("boom at (1, 1)")
        return 0.5

    class Holder:
        pass

    h = Holder()

    def build(fn, b=((0, 1), (0, 2))):
        ld = JointDegreeFunction.__new__(JointDegreeFunction)
        h.ld = ld
        JointDegreeFunction.__init__(
            ld, {N.FP: fn, N.MOTIF_SIZES: [2, 3], N.LOW_HIGH_DEGREE_BOUND: list(b)}
        )
        return ld

    run("fn-failing", lambda: build(failing))
    print("   partial-state", state(h.ld))
    run("fn-not-callable", lambda: build(3))
    print("   partial-state", state(h.ld))
    ld = run("fn-returns-objects", lambda: build(lambda jd: [sum(jd)]))
    print("   state", state(ld))
    ld = run("fn-returns-negative", lambda: build(lambda jd: -1.0 * sum(jd)))
    print("   state", state(ld))
    seed(5)
    ld = run("fn-random-callback", lambda: build(lambda jd: random.random()))
    print("   state", state(ld))
    seed(5)
    ld = run("fn-nprandom-callback", lambda: build(lambda jd: np.random.rand()))
    print("   state", state(ld))

    # a callback that looks at the loader while it is being filled
    seen = []

    def peeking(jd):
        seen.append((jd, len(h.ld._jdd), list(h.ld._jdd)))
        return float(len(h.ld._jdd))

    ld = run("fn-peeking", lambda: build(peeking))
    print("   state", state(ld), "seen", seen)


# ---------------------------------------------------------------- marginal
def section_marginal():
    print("== marginal")
    f0 = Calls(poisson_like(1.3), "f0")
    f1 = Calls(geometric(0.4), "f1")
    bounds = [(0, 4), (1, 4)]
    params = {
        N.ARR_FP: [f0, f1],
        N.MOTIF_SIZES: [2, 3],
        N.LOW_HIGH_DEGREE_BOUND: bounds,
    }
    seed(11)
    ld = run("mar-direct", lambda: JointDegreeMarginal(params))
    print("   jdd", show(ld.jdd))
    print("   sum", repr(sum(ld.jdd.values())))
    print("   calls f0", f0.log)
    print("   calls f1", f1.log)
    print("   state", state(ld))
    first = ld.jdd
    f0.log.clear()
    f1.log.clear()
    run("mar-direct-again", ld.create_jdd)
    print("   new-dict", ld.jdd is first, ld.jdd == first, list(ld.jdd) == list(first))
    print("   calls", len(f0.log), len(f1.log))
    run("mar-directly-method", ld.create_jdd_directly)
    print("   jdd", show(ld.jdd))
    run("mar-generate", ld.generate_all_joint_degrees)
    run("mar-generate-type", lambda: type(ld.generate_all_joint_degrees()).__name__)
    for jd in [(0, 1), (3, 3), (2,), (), [1, 2], (1, 2, 3), (1.5, 2), "ab", None, 5]:
        run(f"mar-evaluate-{jd!r}", lambda: ld.evaluate_prob_of_joint_degree(jd))
    run("mar-type", lambda: JointDegreeMarginal._type)
    run("mar-normalise-twice", ld.normalise_jdd)
    print("   jdd", show(ld.jdd))

    def make(b, fps=None, **kw):
        p = {
            N.ARR_FP: fps if fps is not None else [poisson_like(0.9), geometric(0.3), geometric(0.6)],
            N.MOTIF_SIZES: [2, 3, 4],
            N.LOW_HIGH_DEGREE_BOUND: b,
        }
        for k, v in kw.items():
            p[getattr(N, k)] = v
        return p

    holder = {}

    def build(p):
        ld = JointDegreeMarginal.__new__(JointDegreeMarginal)
        holder["ld"] = ld
        JointDegreeMarginal.__init__(ld, p)
        return ld

    for label, b in [
        ("1d", [(0, 5)]),
        ("3d", [(0, 2), (1, 3), (2, 4)]),
        ("empty-bounds", []),
        ("inverted", [(3, 1), (0, 2)]),
        ("degenerate", [(2, 2)]),
        ("one-wide", [(2, 3)]),
        ("negative", [(-2, 1)]),
        ("too-many-dims", [(0, 2)] * 4),
        ("generator-bounds", ((0, k) for k in (2, 3))),
        ("tuple-bounds", ((0, 2), (0, 2))),
        ("float-bounds", [(0.0, 2.0)]),
        ("flat", (0, 5)),
        ("none", None),
        ("np-bounds", [(np.int64(0), np.int64(3))]),
    ]:
        for sampling in (False, True):
            seed(21)
            mode = "samp" if sampling else "dir"
            ld = run(
                f"mar-{label}-{mode}",
                lambda: build(make(b, USE_SAMPLING=sampling, N_SAMPLES=25)),
            )
            print("   state", state(holder["ld"]))
            if ld is not None:
                run(f"mar-{label}-{mode}-again", ld.create_jdd)
                print("   state", state(ld))

    # weights: zero, negative, numpy, ints, fractions
    for label, fps in [
        ("all-zero", [lambda k: 0.0, lambda k: 0.0]),
        ("one-zero", [lambda k: 0.0, geometric(0.5)]),
        ("np-zero", [lambda k: np.float64(0.0), lambda k: np.float64(0.0)]),
        ("np", [lambda k: np.float64(0.1) * (k + 1), lambda k: np.float32(0.3) / (k + 1)]),
        ("ints", [lambda k: k + 1, lambda k: 2 * k + 1]),
        ("fractions", [lambda k: Fraction(1, k + 1), lambda k: Fraction(k + 1, 7)]),
        ("negative", [lambda k: -1.0 * (k + 1), lambda k: 1.0]),
        ("raising", [lambda k: 1.0, lambda k: 1.0 / (k - 1)]),
        ("not-callable", [1.0, 2.0]),
        ("short", [geometric(0.5)]),
        ("strings", [lambda k: "a", lambda k: "b"]),
        ("inf", [lambda k: float("inf"), lambda k: 1.0]),
        ("nan", [lambda k: float("nan"), lambda k: 1.0]),
    ]:
        for sampling in (False, True):
            seed(31)
            mode = "samp" if sampling else "dir"
            with np.errstate(all="ignore"):
                ld = run(
                    f"mar-w-{label}-{mode}",
                    lambda: build(
                        make([(0, 2), (0, 3)], fps=fps, USE_SAMPLING=sampling, N_SAMPLES=12)
                    ),
                )
            print("   state", state(holder["ld"]))

    # n_samples and use_sampling variants
    for label, kw in [
        ("n0", dict(USE_SAMPLING=True, N_SAMPLES=0)),
        ("n1", dict(USE_SAMPLING=True, N_SAMPLES=1)),
        ("n-neg", dict(USE_SAMPLING=True, N_SAMPLES=-3)),
        ("n-true", dict(USE_SAMPLING=True, N_SAMPLES=True)),
        ("n-float", dict(USE_SAMPLING=True, N_SAMPLES=4.0)),
        ("n-none", dict(USE_SAMPLING=True, N_SAMPLES=None)),
        ("n-np", dict(USE_SAMPLING=True, N_SAMPLES=np.int64(6))),
        ("n-str", dict(USE_SAMPLING=True, N_SAMPLES="7")),
        ("n-ignored-in-direct", dict(USE_SAMPLING=False, N_SAMPLES="7")),
        ("us-1", dict(USE_SAMPLING=1, N_SAMPLES=5)),
        ("us-0", dict(USE_SAMPLING=0, N_SAMPLES=5)),
        ("us-str", dict(USE_SAMPLING="no", N_SAMPLES=5)),
        ("us-empty-str", dict(USE_SAMPLING="", N_SAMPLES=5)),
        ("us-none", dict(USE_SAMPLING=None, N_SAMPLES=5)),
        ("us-array", dict(USE_SAMPLING=np.array([1, 0]), N_SAMPLES=5)),
        ("us-np-true", dict(USE_SAMPLING=np.bool_(True), N_SAMPLES=5)),
        ("defaults", dict()),
    ]:
        seed(41)
        ld = run(f"mar-opt-{label}", lambda: build(make([(0, 2), (1, 2)], **kw)))
        print("   state", state(holder["ld"]))

    # default number of samples (big draw, digest only)
    seed(51)
    ld = run(
        "mar-default-n-samples",
        lambda: len(build(make([(0, 3), (0, 2)], USE_SAMPLING=True)).jdd),
    )
    ld = holder["ld"]
    print("   n_samples", show(ld._n_samples))
    print("   jdd", show(ld.jdd))
    print("   sum", repr(sum(ld.jdd.values())))

    # draw_from_analytical_joint / create_jdd_by_sampling on a living object
    seed(61)
    ld = build(make([(0, 3), (1, 2), (0, 1)], USE_SAMPLING=True, N_SAMPLES=9))
    run("mar-draw", ld.draw_from_analytical_joint)
    run("mar-draw-again", ld.draw_from_analytical_joint)
    run("mar-draw-type", lambda: [type(x).__name__ + ":" + ",".join(type(y).__name__ for y in x) for x in ld.draw_from_analytical_joint()][:2])
    run("mar-by-sampling", ld.create_jdd_by_sampling)
    print("   state", state(ld))
    ld._use_sampling = False
    run("mar-switch-to-direct", ld.create_jdd)
    print("   state", state(ld))
    ld._use_sampling = True
    ld._n_samples = 4
    run("mar-switch-to-sampling", ld.create_jdd)
    print("   state", state(ld))

    # random-consuming marginals: order of callback calls against the draws
    seed(71)
    ld = run(
        "mar-random-marginals-dir",
        lambda: build(
            make([(0, 2), (0, 2)], fps=[lambda k: random.random(), lambda k: random.random()])
        ),
    )
    print("   state", state(ld))
    seed(71)
    ld = run(
        "mar-random-marginals-samp",
        lambda: build(
            make(
                [(0, 2), (0, 2)],
                fps=[lambda k: random.random(), lambda k: random.random()],
                USE_SAMPLING=True,
                N_SAMPLES=6,
            )
        ),
    )
    print("   state", state(ld))

    for label, p in [
        ("missing-arr", {N.MOTIF_SIZES: [2], N.LOW_HIGH_DEGREE_BOUND: [(0, 1)]}),
        ("missing-bounds", {N.MOTIF_SIZES: [2], N.ARR_FP: [geometric(0.5)]}),
        ("missing-sizes", {N.ARR_FP: [geometric(0.5)], N.LOW_HIGH_DEGREE_BOUND: [(0, 1)]}),
        ("empty", {}),
        ("none", None),
    ]:
        run(f"mar-{label}", lambda: build(p))
        print("   partial-state", state(holder["ld"]))


# ---------------------------------------------------------------- dispatch
def section_dispatch():
    print("== factory / distribution")

    def joint(jd):
        return 1.0 / (1.0 + sum(jd)) ** 3

    def all_params():
        return {
            N.JDD: {(1, 0): 0.2, (0, 1): 0.3, (2, 2): 0.5},
            N.JDS: [(1, 0), (0, 1), (1, 0), (2, 2), (1, 0)],
            N.FP: joint,
            N.ARR_FP: [poisson_like(1.1), geometric(0.35)],
            N.MOTIF_SIZES: [2, 3],
            N.LOW_HIGH_DEGREE_BOUND: [(0, 3), (1, 3)],
        }

    direct = {
        JointDegreeType.MANUAL: JointDegreeManual,
        JointDegreeType.EMPIRICAL: JointDegreeEmpirical,
        JointDegreeType.JOINT_FUNCTION: JointDegreeFunction,
        JointDegreeType.MARGINAL: JointDegreeMarginal,
    }
    for t in JointDegreeType:
        for extra in ({}, {N.USE_SAMPLING: True, N.N_SAMPLES: 8}):
            tag = f"{t.name}-{'samp' if extra else 'plain'}"
            p = all_params()
            p.update(extra)
            seed(81)
            ld = run(f"factory-{tag}", lambda: JointDegreeFactory.resolve_joint_degree(t, p))
            print("   state", state(ld))
            for type_value in (t.value, t):
                p = all_params()
                p.update(extra)
                p[N.JOINT_DEGREE_TYPE] = type_value
                keys = list(p)
                seed(81)
                ld2 = run(
                    f"load-{tag}-{type(type_value).__name__}",
                    lambda: JointDegreeDistribution.load_joint_degree(p),
                )
                print("   state", state(ld2))
                print("   params-keys-unchanged", keys == list(p))
            if t in direct:
                p = all_params()
                p.update(extra)
                seed(81)
                ld3 = run(f"direct-{tag}", lambda: direct[t](p))
                if ld3 is not None and ld is not None and ld2 is not None:
                    print(
                        "   same-as-factory",
                        show(ld3.jdd) == show(ld.jdd),
                        "same-as-load",
                        show(ld3.jdd) == show(ld2.jdd),
                        type(ld3) is type(ld) is type(ld2),
                    )

    # manual through the entry point keeps the identity of the dict
    p = all_params()
    p[N.JOINT_DEGREE_TYPE] = "manual"
    ld = JointDegreeDistribution.load_joint_degree(p)
    print("   manual-identity", ld.jdd is p[N.JDD])

    # bad types
    class Spy:
        """Records the order of the comparisons made by the factory."""

        def __init__(self, equal_to=None):
            self.seen = []
            self.equal_to = equal_to

        def __eq__(self, other):
            self.seen.append(other)
            return other is self.equal_to

        __hash__ = None

    for label, t in [
        ("string", "manual"),
        ("none", None),
        ("int", 0),
        ("names-enum", N.JDD),
        ("undefined", JointDegreeType.UNDEFINED),
    ]:
        run(f"factory-bad-{label}", lambda: JointDegreeFactory.resolve_joint_degree(t, all_params()))
    spy = Spy()
    run("factory-spy-none", lambda: JointDegreeFactory.resolve_joint_degree(spy, all_params()))
    print("   comparisons", spy.seen)
    spy = Spy(JointDegreeType.MARGINAL)
    ld = run("factory-spy-marginal", lambda: JointDegreeFactory.resolve_joint_degree(spy, all_params()))
    print("   comparisons", spy.seen, state(ld))
    run("factory-params-none", lambda: JointDegreeFactory.resolve_joint_degree(JointDegreeType.MANUAL, None))
    run("factory-undefined-params-none", lambda: JointDegreeFactory.resolve_joint_degree(JointDegreeType.UNDEFINED, None))

    for label, p in [
        ("missing-type", all_params()),
        ("bad-type", dict(all_params(), **{"x": 1}) | {N.JOINT_DEGREE_TYPE: "nonsense"}),
        ("none-type", all_params() | {N.JOINT_DEGREE_TYPE: None}),
        ("unhashable-type", all_params() | {N.JOINT_DEGREE_TYPE: []}),
        ("undefined", all_params() | {N.JOINT_DEGREE_TYPE: "undefined"}),
        ("string-key", all_params() | {"joint_degree_type": "manual"}),
        ("params-none", None),
        ("only-type-manual", {N.JOINT_DEGREE_TYPE: "manual"}),
        ("only-type-marginal", {N.JOINT_DEGREE_TYPE: "marginal"}),
        ("only-type-function", {N.JOINT_DEGREE_TYPE: "function"}),
        ("only-type-empirical", {N.JOINT_DEGREE_TYPE: "empirical"}),
    ]:
        seed(91)
        run(f"load-{label}", lambda: JointDegreeDistribution.load_joint_degree(p))

    # the entry point builds the distribution twice: callbacks / draws doubled
    calls = Calls(joint, "fp")
    p = all_params() | {N.JOINT_DEGREE_TYPE: "function", N.FP: calls}
    run("load-function-calls", lambda: len(JointDegreeDistribution.load_joint_degree(p).jdd))
    print("   n-calls", len(calls.log), calls.log[:3], calls.log[-3:])
    f0 = Calls(poisson_like(1.1), "f0")
    p = all_params() | {
        N.JOINT_DEGREE_TYPE: "marginal",
        N.ARR_FP: [f0, geometric(0.2)],
        N.USE_SAMPLING: True,
        N.N_SAMPLES: 10,
    }
    seed(101)
    ld = run("load-marginal-sampling-calls", lambda: JointDegreeDistribution.load_joint_degree(p))
    print("   n-calls", len(f0.log), f0.log, state(ld))

    # entry point failure inside the second build
    class Flaky:
        def __init__(self):
            self.n = 0

        def __call__(self, jd):
            self.n += 1
            if self.n > 7:
                raise RuntimeError(f"call {self.n}")
            return 1.0

    fl = Flaky()
    p = all_params() | {N.JOINT_DEGREE_TYPE: "function", N.FP: fl}
    run("load-function-flaky", lambda: JointDegreeDistribution.load_joint_degree(p))
    print("   flaky-calls", fl.n)


def main():
    seed(12345)
    section_base()
    section_manual()
    section_empirical()
    section_function()
    section_marginal()
    section_dispatch()
    print("== epilogue")
    print("warnings-or-above-logged", _recorder.records)
    print("final-rng", rng_digest())


if __name__ == "__main__":
    import warnings

    warnings.simplefilter("ignore")
    main()
