"""
Equivalence digest for C03 (stub matching). Run with cwd = a checkout of gcmpy.
Uses only the pre-existing public signatures, so it runs on the original code.
"""
import hashlib
import os
import random
import sys

sys.path.insert(0, os.getcwd())

import numpy as np  # noqa: E402

from gcmpy.gcm_algorithm.gcm_algorithm_fast import GCMAlgorithmFast  # noqa: E402
from gcmpy.gcm_algorithm.gcm_algorithm_custom_motifs import (  # noqa: E402
    GCMAlgorithmCustomMotifs,
)
from gcmpy.gcm_algorithm.gcm_algorithm_network import GCMAlgorithmNetwork  # noqa: E402
from gcmpy.gcm_algorithm.gcm_algorithm_main import GCMAlgorithmMain  # noqa: E402
from gcmpy.names.gcm_algorithm_names import GCMAlgorithmNames as N  # noqa: E402
from gcmpy.motif_generators.clique_motif import clique_motif  # noqa: E402

LINES = []


def out(*args):
    line = " ".join(str(a) for a in args)
    LINES.append(line)
    print(line)


def rng_state():
    st = random.getstate()
    h = hashlib.sha256(repr(st).encode()).hexdigest()[:16]
    nst = np.random.get_state()
    nh = hashlib.sha256(
        repr((nst[0], nst[1].tolist(), nst[2], nst[3], repr(nst[4]))).encode()
    ).hexdigest()[:16]
    return "py=%s np=%s" % (h, nh)


def seed(s):
    random.seed(s)
    np.random.seed(s)


def show_edge_list(tag, el, jds_in=None):
    out(tag, "type", type(el).__name__)
    out(tag, "edges", repr(el.edge_list))
    out(tag, "topologies", repr(el.topologies))
    out(tag, "motif_id", repr(el.motif_id))
    out(tag, "joint_degrees", repr(el.joint_degrees))
    if jds_in is not None:
        out(tag, "jds_is_same_object", el.joint_degrees is jds_in)
    out(tag, "attrs", sorted(vars(el).keys()))


def attempt(tag, fn):
    try:
        res = fn()
        out(tag, "OK")
        return res
    except BaseException as e:  # noqa
        out(tag, "EXC", type(e).__name__, repr(str(e)))
        return None
    finally:
        out(tag, "rng", rng_state())


# ----------------------------------------------------------------------------
# GCMAlgorithmFast
# ----------------------------------------------------------------------------
def fast_params(sizes, names, builders):
    p = {}
    p[N.MOTIF_SIZES] = sizes
    p[N.EDGE_NAMES] = names
    p[N.BUILD_FUNCTIONS] = builders
    return p


CALLS = []


def recording_clique(vs):
    CALLS.append(list(vs))
    return clique_motif(vs)


def raising_builder(vs):
    CALLS.append(list(vs))
    if len(CALLS) >= 3:
        raise RuntimeError("builder failed on %r" % (vs,))
    return clique_motif(vs)


def make_jds(n, cols, s):
    r = random.Random(s)
    return [tuple(r.randrange(0, 4) for _ in range(cols)) for _ in range(n)]


def run_fast():
    out("== FAST ==")
    cases = {
        "four_deg1": ([(1,), (1,), (1,), (1,)], [2], ["2-clique"]),
        "mixed_2_3": (
            [(1, 0), (2, 1), (3, 0), (5, 1), (1, 1), (0, 0), (2, 3)],
            [2, 3],
            ["2-clique", "3-clique"],
        ),
        "odd_leftover": ([(1, 2), (2, 1), (2, 1)], [2, 3], ["a", "b"]),
        "empty": ([], [2], ["2-clique"]),
        "all_zero": ([(0, 0), (0, 0)], [2, 3], ["a", "b"]),
        "lists_not_tuples": ([[2, 1], [1, 1], [1, 1]], [2, 3], ["a", "b"]),
        "rand_30x3": (make_jds(30, 3, 5), [2, 3, 4], ["e2", "e3", "e4"]),
        "size1": ([(2,), (1,)], [1], ["loop"]),
    }
    for name, (jds, sizes, names) in cases.items():
        for s in (0, 1, 12345):
            seed(s)
            del CALLS[:]
            jds_copy = repr(jds)
            params = fast_params(sizes, names, [recording_clique] * len(sizes))
            params_repr = repr(sorted((k.name, repr(v)) for k, v in params.items()))
            alg = GCMAlgorithmFast(params)
            tag = "fast/%s/seed%d" % (name, s)
            el = attempt(tag, lambda: alg.random_clustered_graph(jds))
            if el is not None:
                show_edge_list(tag, el, jds)
            out(tag, "builder_calls", repr(CALLS))
            out(tag, "jds_unchanged", repr(jds) == jds_copy)
            out(
                tag,
                "params_unchanged",
                repr(sorted((k.name, repr(v)) for k, v in params.items()))
                == params_repr,
            )
            # repeated calls on the same object (no reseed)
            for rep in range(2):
                t2 = "%s/rep%d" % (tag, rep)
                el2 = attempt(t2, lambda: alg.random_clustered_graph(jds))
                if el2 is not None:
                    show_edge_list(t2, el2, jds)
                    out(t2, "fresh_object", el2 is not el)
            out(tag, "alg_attrs", sorted(vars(alg).keys()))

    # positional call
    seed(7)
    alg = GCMAlgorithmFast(fast_params([2], ["2-clique"], [clique_motif]))
    el = attempt("fast/positional", lambda: alg.random_clustered_graph([(1,)] * 6))
    show_edge_list("fast/positional", el)
    seed(7)
    el = attempt(
        "fast/keyword", lambda: alg.random_clustered_graph(jds=[(1,)] * 6)
    )
    show_edge_list("fast/keyword", el)

    # error paths
    out("-- fast errors --")
    seed(3)
    alg = GCMAlgorithmFast(fast_params([2], ["2-clique"], [clique_motif]))
    attempt("fast/err/none", lambda: alg.random_clustered_graph(None))
    attempt("fast/err/int", lambda: alg.random_clustered_graph(5))
    attempt("fast/err/ints", lambda: alg.random_clustered_graph([1, 2, 3]))
    attempt("fast/err/noarg", lambda: alg.random_clustered_graph())
    attempt(
        "fast/err/too_many_cols",
        lambda: alg.random_clustered_graph([(1, 1), (1, 2), (0, 3)]),
    )
    attempt("fast/err/float_deg", lambda: alg.random_clustered_graph([(1.5,), (2,)]))
    attempt("fast/err/neg_deg", lambda: alg.random_clustered_graph([(-1,), (2,)]))
    attempt("fast/err/str_deg", lambda: alg.random_clustered_graph([("a",), (2,)]))
    alg0 = GCMAlgorithmFast(fast_params([0], ["z"], [clique_motif]))
    attempt("fast/err/size0", lambda: alg0.random_clustered_graph([(1,), (1,)]))
    algn = GCMAlgorithmFast(fast_params([-1], ["z"], [clique_motif]))
    attempt("fast/err/sizeneg", lambda: algn.random_clustered_graph([(1,), (1,)]))
    algs = GCMAlgorithmFast(fast_params(["2"], ["z"], [clique_motif]))
    attempt("fast/err/sizestr", lambda: algs.random_clustered_graph([(1,), (1,)]))
    del CALLS[:]
    algr = GCMAlgorithmFast(fast_params([2], ["2-clique"], [raising_builder]))
    attempt("fast/err/builder_raises", lambda: algr.random_clustered_graph([(2,)] * 6))
    out("fast/err/builder_raises calls", repr(CALLS))
    algb = GCMAlgorithmFast(fast_params([2], ["x"], [lambda vs: 5]))
    attempt("fast/err/builder_returns_int", lambda: algb.random_clustered_graph([(1,)] * 4))
    algg = GCMAlgorithmFast(fast_params([2], ["x"], [lambda vs: (e for e in [(1, 2)])]))
    attempt("fast/err/builder_returns_gen", lambda: algg.random_clustered_graph([(1,)] * 4))
    attempt("fast/err/ctor_missing", lambda: GCMAlgorithmFast({}))
    attempt("fast/err/ctor_none", lambda: GCMAlgorithmFast(None))
    algm = GCMAlgorithmFast(fast_params([2], [], []))
    attempt("fast/err/no_builders", lambda: algm.random_clustered_graph([(1,)] * 4))
    attempt("fast/ok/no_builders_empty", lambda: algm.random_clustered_graph([]))

    # via network algorithm and loader
    out("-- network / loader --")
    for s in (0, 9):
        seed(s)
        p = fast_params([2, 3], ["2-clique", "3-clique"], [clique_motif, clique_motif])
        jds = [(1, 1), (2, 1), (1, 1), (2, 0), (0, 3), (1, 1), (1, 1), (2, 1)]
        net = attempt(
            "network/seed%d" % s, lambda: GCMAlgorithmNetwork(p).random_clustered_graph(jds)
        )
        if net is not None:
            g = getattr(net, "_G", None)
            if g is None:
                g = getattr(net, "G", None)
            out("network type", type(net).__name__, sorted(vars(net).keys()))
            try:
                out("network edges", repr(sorted(g.edges(data=True), key=repr)))
                out("network nodes", repr(sorted(g.nodes(data=True), key=repr)))
            except Exception as e:  # noqa
                out("network dump failed", type(e).__name__)
        for t in ("fast", "network", "motifs", "bogus"):
            seed(s)
            p2 = dict(p)
            p2[N.GCM_TYPE] = t
            p2[N.MOTIF_INDICES] = [[0], [1]]
            p2[N.EDGE_NAMES] = (
                [lambda: "2-clique", lambda: ("3-clique",) * 3]
                if t == "motifs"
                else p[N.EDGE_NAMES]
            )
            tag = "loader/%s/seed%d" % (t, s)
            alg = attempt(tag + "/load", lambda: GCMAlgorithmMain.load_gcm_algorithm(p2))
            if alg is None:
                continue
            out(tag, "alg", type(alg).__name__)
            res = attempt(tag, lambda: alg.random_clustered_graph(jds))
            if isinstance(res, object) and hasattr(res, "edge_list"):
                show_edge_list(tag, res, jds)


# ----------------------------------------------------------------------------
# GCMAlgorithmCustomMotifs
# ----------------------------------------------------------------------------
def diamond(vs):
    return (
        (vs[0], vs[1]),
        (vs[1], vs[2]),
        (vs[2], vs[3]),
        (vs[3], vs[1]),
        (vs[0], vs[2]),
    )


def diamond_names():
    return ("d-outer", "d-outer", "d-outer", "d-outer", "d-inner")


def twoclique(vs):
    CALLS.append(list(vs))
    return (vs[0], vs[1])


def twoclique_list(vs):
    return [vs[0], vs[1]]


def twoclique_packed(vs):
    return ((vs[0], vs[1]),)


def twoclique_names():
    return "2-clique"


def twoclique_names_packed():
    return ("2-clique",)


def threeclique(vs):
    return (vs[0], vs[1]), (vs[0], vs[2]), (vs[1], vs[2])


def threeclique_names():
    return "3-clique", "3-clique", "3-clique"


def pentagon(vs):
    return (
        (vs[0], vs[1]),
        (vs[1], vs[2]),
        (vs[2], vs[3]),
        (vs[3], vs[4]),
        (vs[0], vs[4]),
        (vs[1], vs[3]),
    )


def pentagon_names():
    return "p01", "p12", "p23", "p34", "p40", "p13"


def path2(vs):
    # two edges given as tuples -> len(es) == 2 but es[0] is a tuple
    return ((vs[0], vs[1]), (vs[1], vs[2]))


def path2_names():
    return ("path", "path")


JDS_TEST = [
    (2, 1, 0, 1, 1, 0, 0),
    (1, 1, 0, 1, 1, 0, 0),
    (3, 1, 1, 0, 0, 1, 0),
    (2, 0, 1, 0, 0, 1, 0),
    (0, 0, 0, 1, 0, 0, 1),
    (1, 0, 0, 1, 0, 0, 0),
    (1, 0, 1, 0, 0, 0, 0),
    (1, 0, 1, 0, 0, 0, 0),
    (1, 0, 0, 1, 0, 0, 0),
    (1, 0, 0, 1, 0, 0, 0),
    (1, 0, 1, 0, 0, 0, 0),
    (0, 0, 1, 0, 0, 0, 0),
]


def custom_params(sizes, names, builders, indices):
    p = {}
    p[N.MOTIF_SIZES] = sizes
    p[N.EDGE_NAMES] = names
    p[N.BUILD_FUNCTIONS] = builders
    p[N.MOTIF_INDICES] = indices
    return p


def run_custom():
    out("== CUSTOM ==")
    cases = {
        "manuscript": (
            JDS_TEST,
            [2, 3, 2, 2, 2, 2, 1],
            [twoclique_names, threeclique_names, diamond_names, pentagon_names],
            [twoclique, threeclique, diamond, pentagon],
            [[0], [1], [2, 3], [4, 5, 6]],
        ),
        "four_deg1": (
            [(1,), (1,), (1,), (1,)],
            [2],
            [twoclique_names],
            [twoclique],
            [[0]],
        ),
        "four_deg1_list_edge": (
            [(1,), (1,), (1,), (1,)],
            [2],
            [twoclique_names],
            [twoclique_list],
            [[0]],
        ),
        "four_deg1_packed": (
            [(1,), (1,), (1,), (1,)],
            [2],
            [twoclique_names_packed],
            [twoclique_packed],
            [[0]],
        ),
        "odd_stubs": (
            [(1,), (1,), (1,), (1,), (1,)],
            [2],
            [twoclique_names],
            [twoclique],
            [[0]],
        ),
        "two_and_three": (
            [(1, 1), (2, 1), (1, 1), (2, 0), (0, 3), (1, 1), (1, 1), (2, 1)],
            [2, 3],
            [twoclique_names, threeclique_names],
            [twoclique, threeclique],
            [[0], [1]],
        ),
        "path_two_tuple_edges": (
            [(1,), (1,), (1,), (2,), (1,)],
            [3],
            [path2_names],
            [path2],
            [[0]],
        ),
        "empty_jds_no_motifs": ([], [2], [], [], []),
        "all_zero": (
            [(0, 0), (0, 0)],
            [2, 3],
            [twoclique_names, threeclique_names],
            [twoclique, threeclique],
            [[0], [1]],
        ),
        "reordered_indices": (
            [(1, 1), (2, 1), (1, 1), (2, 0), (0, 3), (1, 1), (1, 1), (2, 1)],
            [2, 3],
            [threeclique_names, twoclique_names],
            [threeclique, twoclique],
            [[1], [0]],
        ),
    }
    for name, (jds, sizes, names, builders, indices) in cases.items():
        for s in (0, 1, 4242):
            seed(s)
            del CALLS[:]
            jds_copy = repr(jds)
            idx_copy = repr(indices)
            params = custom_params(sizes, names, builders, indices)
            tag = "custom/%s/seed%d" % (name, s)
            alg = attempt(tag + "/ctor", lambda: GCMAlgorithmCustomMotifs(params))
            if alg is None:
                continue
            el = attempt(tag, lambda: alg.random_clustered_graph(jds))
            if el is not None:
                show_edge_list(tag, el, jds)
            out(tag, "twoclique_calls", repr(CALLS))
            out(tag, "jds_unchanged", repr(jds) == jds_copy)
            out(tag, "indices_unchanged", repr(indices) == idx_copy)
            for rep in range(2):
                t2 = "%s/rep%d" % (tag, rep)
                el2 = attempt(t2, lambda: alg.random_clustered_graph(jds))
                if el2 is not None:
                    show_edge_list(t2, el2, jds)
            out(tag, "alg_attrs", sorted(vars(alg).keys()))

    out("-- custom partition --")
    alg = GCMAlgorithmCustomMotifs(
        custom_params([2], [twoclique_names], [twoclique], [[0]])
    )
    for lst, n in [
        ([], 1),
        ([], 3),
        ([1], 1),
        ([1, 2, 3], 1),
        ([1, 2, 3, 4], 2),
        ([1, 2, 3, 4, 5], 2),
        ([1, 2, 3, 4, 5], 7),
        (list(range(10)), 3),
        ("abcdefg", 3),
        ((1, 2, 3, 4, 5), 2),
        ([1, 2, 3], 0),
        ([1, 2, 3], -1),
        ([], 0),
        ([1, 2, 3], 1.5),
        ([1, 2, 3], None),
        (None, 2),
        (5, 2),
        ({1: 2, 3: 4}, 1),
    ]:
        before = repr(lst)
        tag = "partition/%r/%r" % (lst, n)
        res = attempt(tag, lambda: alg.partition(lst, n))
        out(tag, "result", repr(res), "input_unchanged", repr(lst) == before)
        if isinstance(res, list) and res and isinstance(lst, list):
            out(tag, "chunks_are_new_objects", all(c is not lst for c in res))
    res = attempt("partition/kw", lambda: alg.partition(lst=[1, 2, 3], n=2))
    out("partition/kw result", repr(res))
    attempt("partition/noargs", lambda: alg.partition())
    attempt("partition/onearg", lambda: alg.partition([1]))

    out("-- custom errors --")
    seed(11)
    attempt("custom/err/ctor_empty", lambda: GCMAlgorithmCustomMotifs({}))
    attempt("custom/err/ctor_none", lambda: GCMAlgorithmCustomMotifs(None))
    attempt(
        "custom/err/ctor_no_sizes",
        lambda: GCMAlgorithmCustomMotifs({N.MOTIF_INDICES: [[0]]}),
    )
    alg = GCMAlgorithmCustomMotifs(
        custom_params([2], [twoclique_names], [twoclique], [[0]])
    )
    attempt("custom/err/none", lambda: alg.random_clustered_graph(None))
    attempt("custom/err/int", lambda: alg.random_clustered_graph(3))
    attempt("custom/err/noarg", lambda: alg.random_clustered_graph())
    attempt("custom/err/ints", lambda: alg.random_clustered_graph([1, 2]))
    attempt("custom/err/float_deg", lambda: alg.random_clustered_graph([(1.0,), (1,)]))
    attempt(
        "custom/err/too_many_cols", lambda: alg.random_clustered_graph([(1, 1), (1, 1)])
    )
    alg0 = GCMAlgorithmCustomMotifs(
        custom_params([0], [twoclique_names], [twoclique], [[0]])
    )
    attempt("custom/err/size0", lambda: alg0.random_clustered_graph([(1,), (1,)]))
    attempt("custom/err/size0_empty", lambda: alg0.random_clustered_graph([]))
    # orbit with too few partitions -> pop from empty list
    algp = GCMAlgorithmCustomMotifs(
        custom_params([2, 2], [diamond_names], [diamond], [[0, 1]])
    )
    attempt(
        "custom/err/orbit_mismatch",
        lambda: algp.random_clustered_graph([(1, 0), (1, 0), (1, 1), (1, 1)]),
    )
    attempt(
        "custom/err/index_out_of_range",
        lambda: GCMAlgorithmCustomMotifs(
            custom_params([2], [twoclique_names], [twoclique], [[3]])
        ).random_clustered_graph([(1,), (1,)]),
    )
    attempt(
        "custom/err/empty_index_list",
        lambda: GCMAlgorithmCustomMotifs(
            custom_params([2], [twoclique_names], [twoclique], [[]])
        ).random_clustered_graph([(1,), (1,)]),
    )

    def bad_builder(vs):
        raise KeyError("bad builder %r" % (vs,))

    attempt(
        "custom/err/builder_raises",
        lambda: GCMAlgorithmCustomMotifs(
            custom_params([2], [twoclique_names], [bad_builder], [[0]])
        ).random_clustered_graph([(1,), (1,), (1,), (1,)]),
    )
    attempt(
        "custom/err/names_not_callable",
        lambda: GCMAlgorithmCustomMotifs(
            custom_params([2], ["2-clique"], [twoclique], [[0]])
        ).random_clustered_graph([(1,), (1,), (1,), (1,)]),
    )
    attempt(
        "custom/err/builder_returns_int",
        lambda: GCMAlgorithmCustomMotifs(
            custom_params([2], [twoclique_names], [lambda vs: 3], [[0]])
        ).random_clustered_graph([(1,), (1,)]),
    )
    attempt(
        "custom/err/builder_returns_empty",
        lambda: show_edge_list(
            "custom/err/builder_returns_empty",
            GCMAlgorithmCustomMotifs(
                custom_params([2], [lambda: ()], [lambda vs: ()], [[0]])
            ).random_clustered_graph([(1,), (1,)]),
        ),
    )


def run_distribution():
    # empirical distribution of the perfect matchings of four degree-1 vertices
    out("== DISTRIBUTION ==")
    seed(2024)
    fast = GCMAlgorithmFast(fast_params([2], ["2-clique"], [clique_motif]))
    cust = GCMAlgorithmCustomMotifs(
        custom_params([2], [twoclique_names], [twoclique_list], [[0]])
    )
    jds = [(1,), (1,), (1,), (1,)]
    for label, alg in (("fast", fast), ("custom", cust)):
        counts = {}
        seq = []
        for _ in range(600):
            el = alg.random_clustered_graph(jds)
            key = tuple(sorted(tuple(sorted(e)) for e in el.edge_list))
            counts[key] = counts.get(key, 0) + 1
            seq.append(repr(el.edge_list))
        out("dist", label, repr(sorted(counts.items())))
        out("dist", label, "seqhash", hashlib.sha256("|".join(seq).encode()).hexdigest())
        out("dist", label, "rng", rng_state())


if __name__ == "__main__":
    run_fast()
    run_custom()
    run_distribution()
    print("DIGEST", hashlib.sha256("\n".join(LINES).encode()).hexdigest())
