import sys, os; sys.path.insert(0, os.getcwd())

import hashlib
import itertools
import random
import warnings
from decimal import Decimal
from fractions import Fraction

import networkx as nx
import numpy as np

warnings.simplefilter("ignore")

random.seed(20261004)
np.random.seed(20261004)

from gcmpy.message_passing.equations.clique_equation import clique_equation
from gcmpy.message_passing.equations.chordless_cycle_equation import (
    chordless_cycle_equation,
)
from gcmpy.message_passing import number_connected_graphs as ncg
from gcmpy.message_passing.number_connected_graphs import (
    number_of_connected_graphs,
    QQ,
    Q,
    binomial,
)
import gcmpy
import gcmpy.message_passing as mp
import gcmpy.message_passing.equations as eqs

LINES = []


def emit(*parts):
    line = " ".join(str(p) for p in parts)
    LINES.append(line)
    print(line)


def show(value):
    if isinstance(value, np.ndarray):
        return "ndarray(%s,%s)" % (value.dtype, [repr(x) for x in value.tolist()])
    if isinstance(value, Traced):
        return "Traced(%r)" % (value.v,)
    return "%s:%r" % (type(value).__name__, value)


def attempt(label, fn, *args, **kwargs):
    try:
        out = fn(*args, **kwargs)
    except BaseException as exc:  # noqa
        emit(label, "RAISED", type(exc).__module__, type(exc).__name__, "|", str(exc))
        return None
    emit(label, "->", show(out))
    return out


# --------------------------------------------------------------------------
# an operand that records every arithmetic operation applied to it, in order
# --------------------------------------------------------------------------
LOG = []


class Traced:
    def __init__(self, v):
        self.v = v

    @staticmethod
    def _val(o):
        return o.v if isinstance(o, Traced) else o

    def _bin(self, name, o, f):
        LOG.append((name, repr(self.v), repr(Traced._val(o))))
        return Traced(f(self.v, Traced._val(o)))

    def __mul__(self, o):
        return self._bin("mul", o, lambda a, b: a * b)

    def __rmul__(self, o):
        return self._bin("rmul", o, lambda a, b: b * a)

    def __imul__(self, o):
        LOG.append(("imul", repr(self.v), repr(Traced._val(o))))
        self.v = self.v * Traced._val(o)
        return self

    def __add__(self, o):
        return self._bin("add", o, lambda a, b: a + b)

    def __radd__(self, o):
        return self._bin("radd", o, lambda a, b: b + a)

    def __sub__(self, o):
        return self._bin("sub", o, lambda a, b: a - b)

    def __rsub__(self, o):
        return self._bin("rsub", o, lambda a, b: b - a)

    def __pow__(self, o, mod=None):
        return self._bin("pow", o, lambda a, b: a ** b)

    def __rpow__(self, o, mod=None):
        return self._bin("rpow", o, lambda a, b: b ** a)


def log_digest(ordered=True):
    items = LOG if ordered else sorted(LOG)
    h = hashlib.sha256(repr(items).encode()).hexdigest()[:16]
    n = len(LOG)
    del LOG[:]
    return "ops=%d digest=%s" % (n, h)


# --------------------------------------------------------------------------
emit("== module surface")
for mod, names in [
    (ncg, ["number_of_connected_graphs", "QQ", "Q", "binomial", "itertools", "nx",
           "lru_cache", "factorial"]),
    (mp, ["number_of_connected_graphs", "QQ", "Q", "MessagePassing"]),
    (eqs, ["clique_equation", "AutomatedEquation"]),
    (gcmpy, ["number_of_connected_graphs", "QQ", "Q", "clique_equation"]),
]:
    for name in names:
        emit(mod.__name__, name, hasattr(mod, name))
emit("same Q", mp.Q is Q, gcmpy.Q is Q, ncg.Q is Q)
emit("same QQ", mp.QQ is QQ, gcmpy.QQ is QQ)
emit("same nocg", mp.number_of_connected_graphs is number_of_connected_graphs)
emit("same clique", gcmpy.clique_equation is clique_equation, eqs.clique_equation is clique_equation)
for f in (Q, QQ, binomial):
    emit(f.__name__, f.cache_parameters(), f.cache_info(), callable(f.__wrapped__))

# --------------------------------------------------------------------------
emit("== binomial")
for n, k in itertools.product(range(-2, 8), range(-2, 8)):
    attempt("binomial(%d,%d)" % (n, k), binomial, n, k)
attempt("binomial(3.0,2)", binomial, 3.0, 2)
attempt("binomial(3,2.0)", binomial, 3, 2.0)
attempt("binomial(2,3.0)", binomial, 2, 3.0)
attempt("binomial('a',1)", binomial, "a", 1)
attempt("binomial(50,25)", binomial, 50, 25)
attempt("binomial(np5,np2)", binomial, np.int64(5), np.int64(2))
attempt("binomial([1],1)", binomial, [1], 1)
emit("binomial cache", binomial.cache_info())

# --------------------------------------------------------------------------
emit("== Q")
for n in range(0, 9):
    for k in range(-2, n * (n - 1) // 2 + 3):
        attempt("Q(%d,%d)" % (n, k), Q, n, k)
emit("Q cache", Q.cache_info())
for n in range(0, 9):
    for k in range(-2, n * (n - 1) // 2 + 3):
        attempt("Q again(%d,%d)" % (n, k), Q, n, k)
emit("Q cache", Q.cache_info())
attempt("Q(12,30)", Q, 12, 30)
attempt("Q(15,14)", Q, 15, 14)
attempt("Q(14,50)", Q, 14, 50)
attempt("Q(3.0,2.0)", Q, 3.0, 2.0)
attempt("Q(3.0,3.0)", Q, 3.0, 3.0)
attempt("Q(4.0,4)", Q, 4.0, 4)
attempt("Q(4,4.0)", Q, 4, 4.0)
attempt("Q(4,3.5)", Q, 4, 3.5)
attempt("Q('a',1)", Q, "a", 1)
attempt("Q(None,1)", Q, None, 1)
attempt("Q([1],1)", Q, [1], 1)
attempt("Q(np5,np6)", Q, np.int64(5), np.int64(6))
attempt("Q(n=5,k=6)", Q, n=5, k=6)
attempt("Q(True,False)", Q, True, False)
attempt("Q(-3,2)", Q, -3, 2)
attempt("Q(-3,-4)", Q, -3, -4)
attempt("Q(-1,-2)", Q, -1, -2)
emit("Q cache", Q.cache_info())
emit("binomial cache", binomial.cache_info())
attempt("Q.__wrapped__(6,9)", Q.__wrapped__, 6, 9)
emit("Q cache", Q.cache_info())

# --------------------------------------------------------------------------
emit("== number_of_connected_graphs")


def graph_state(G):
    return (type(G).__name__, list(G.nodes(data=True)), list(G.edges(data=True)))


def run_nocg(label, G, ak, i, k):
    before = graph_state(G)
    ak_before = repr(ak)
    attempt(label, number_of_connected_graphs, G, ak, i, k)
    emit(label, "G unchanged", before == graph_state(G), "ak unchanged", ak_before == repr(ak))
    emit(label, "state", hashlib.sha256(repr(graph_state(G)).encode()).hexdigest()[:12])


tri = nx.complete_graph(3)
for k in range(-1, 5):
    run_nocg("tri k=%d" % k, tri, [1, 2], 0, k)
    run_nocg("tri(again) k=%d" % k, tri, [1, 2], 0, k)
k5 = nx.complete_graph(5)
for k in range(0, 11):
    run_nocg("K5 all k=%d" % k, k5, [1, 2, 3, 4], 0, k)
for k in range(0, 5):
    run_nocg("K5 sub{0,2,4} k=%d" % k, k5, [2, 4], 0, k)
    run_nocg("K5 sub tuple k=%d" % k, k5, (4, 2, 1), 3, k)
    run_nocg("K5 sub set k=%d" % k, k5, {1, 3}, 2, k)
run_nocg("K5 ak empty", k5, [], 0, 0)
run_nocg("K5 ak empty k=1", k5, [], 0, 1)
run_nocg("K5 focal missing", k5, [1, 2], 99, 0)
run_nocg("K5 focal missing ak empty", k5, [], 99, 0)
run_nocg("K5 ak has unknown", k5, [1, 2, 77], 0, 1)
run_nocg("K5 ak None", k5, None, 0, 1)
run_nocg("K5 ak int", k5, 3, 0, 1)
run_nocg("K5 k float", k5, [1, 2], 0, 1.0)
run_nocg("K5 k None", k5, [1, 2], 0, None)
run_nocg("empty graph", nx.Graph(), [], 0, 0)
run_nocg("empty graph k=1", nx.Graph(), [], 0, 1)
attempt("not a graph", number_of_connected_graphs, "abc", [1], 0, 0)

cyc = nx.cycle_graph(6)
for k in range(0, 4):
    run_nocg("C6 k=%d" % k, cyc, [1, 2, 3, 4, 5], 0, k)
    run_nocg("C6 part k=%d" % k, cyc, [1, 2, 5], 0, k)
path = nx.path_graph(5)
for k in range(0, 3):
    run_nocg("P5 k=%d" % k, path, [1, 2, 3, 4], 0, k)
    run_nocg("P5 gap k=%d" % k, path, [1, 3], 0, k)

rg = nx.gnp_random_graph(8, 0.5, seed=7)
rg.add_edge(2, 2)
for n, d in rg.nodes(data=True):
    d["u"] = n / 10
for a, b, d in rg.edges(data=True):
    d["w"] = a + b
for k in range(0, 4):
    run_nocg("gnp k=%d" % k, rg, [1, 2, 3, 5, 6], 0, k)
    run_nocg("gnp whole k=%d" % k, rg, list(rg.nodes()), 4, k)

lab = nx.Graph()
lab.add_edges_from([("a", "b"), ("b", "c"), ("c", "a"), ("c", "d"), ("d", "a"), ("d", "e")])
for k in range(0, 4):
    run_nocg("labelled k=%d" % k, lab, ["b", "c", "d"], "a", k)
    run_nocg("labelled str ak k=%d" % k, lab, "bcd", "a", k)

multi = nx.MultiGraph()
multi.add_edges_from([(0, 1), (0, 1), (1, 2), (2, 0), (2, 3)])
for k in range(0, 4):
    run_nocg("multi k=%d" % k, multi, [1, 2], 0, k)
    run_nocg("multi all k=%d" % k, multi, [1, 2, 3], 0, k)
di = nx.DiGraph([(0, 1), (1, 2), (2, 0)])
run_nocg("digraph", di, [1, 2], 0, 1)
run_nocg("digraph k too big", di, [1, 2], 0, 7)


class ListLike:
    """membership container that records the queries made to it"""

    def __init__(self, items):
        self.items = items
        self.seen = []

    def __contains__(self, x):
        self.seen.append(x)
        return x in self.items


ll = ListLike([1, 3])
attempt("K5 ListLike", number_of_connected_graphs, k5, ll, 0, 1)
emit("ListLike queries", ll.seen)

# --------------------------------------------------------------------------
emit("== QQ")
for n in range(0, 6):
    for k in range(-1, n * (n - 1) // 2 + 2):
        attempt("QQ(%d,%d)" % (n, k), QQ, n, k)
emit("QQ cache", QQ.cache_info())
for k in (15, 14, 13, 9, 6, 5, 4):
    attempt("QQ(6,%d)" % k, QQ, 6, k)
for n in range(1, 6):
    for k in range(0, n * (n - 1) // 2 + 1):
        emit("QQ==Q", n, k, QQ(n, k) == Q(n, k))
emit("QQ cache", QQ.cache_info())
attempt("QQ(3.0,2)", QQ, 3.0, 2)
attempt("QQ(3,2.0)", QQ, 3, 2.0)
attempt("QQ('a',2)", QQ, "a", 2)
attempt("QQ(-2,0)", QQ, -2, 0)
attempt("QQ(n=4,k=4)", QQ, n=4, k=4)
attempt("QQ(np4,np4)", QQ, np.int64(4), np.int64(4))
attempt("QQ.__wrapped__(4,5)", QQ.__wrapped__, 4, 5)
emit("QQ cache", QQ.cache_info())

# --------------------------------------------------------------------------
emit("== clique_equation")
phis = [0.0, 1.0, 0.5, 0.3, 0.123456789, 1e-9, 1 - 1e-12, -0.25, 1.75]
for tau in range(0, 8):
    for phi in phis:
        hs = [random.random() for _ in range(max(tau - 1, 0))]
        keep = list(hs)
        attempt("clique tau=%d phi=%r" % (tau, phi), clique_equation, tau, phi, hs)
        attempt("clique(again) tau=%d phi=%r" % (tau, phi), clique_equation, tau, phi, hs)
        emit("Hs unchanged", hs == keep)
        attempt("clique tuple tau=%d phi=%r" % (tau, phi), clique_equation, tau, phi, tuple(hs))

for tau in range(1, 7):
    hs = [Fraction(random.randint(0, 9), 10) for _ in range(tau - 1)]
    attempt("clique Fraction tau=%d" % tau, clique_equation, tau, Fraction(3, 7), hs)
    attempt("clique Fraction/float phi tau=%d" % tau, clique_equation, tau, 0.4, hs)
    hs = [random.randint(0, 3) for _ in range(tau - 1)]
    attempt("clique int Hs tau=%d" % tau, clique_equation, tau, 0.4, hs)
    attempt("clique int Hs int phi tau=%d" % tau, clique_equation, tau, 1, hs)
    attempt("clique int Hs phi=0 tau=%d" % tau, clique_equation, tau, 0, hs)
    attempt("clique int Hs phi=2 tau=%d" % tau, clique_equation, tau, 2, hs)
    hs = [Decimal(random.randint(0, 9)) / 10 for _ in range(tau - 1)]
    attempt("clique Decimal tau=%d" % tau, clique_equation, tau, Decimal("0.35"), hs)
    attempt("clique Decimal float phi tau=%d" % tau, clique_equation, tau, 0.35, hs)
    hs = [complex(random.random(), random.random()) for _ in range(tau - 1)]
    attempt("clique complex tau=%d" % tau, clique_equation, tau, 0.35, hs)
    attempt("clique complex phi tau=%d" % tau, clique_equation, tau, 0.35 + 0.1j, hs)

# special floats
for tau in (2, 3, 4, 5):
    for special in (float("inf"), float("nan"), 1e308, 1e-320, -0.0):
        hs = [special] + [0.5] * (tau - 2)
        attempt("clique special %r tau=%d" % (special, tau), clique_equation, tau, 0.4, hs)
        attempt("clique special phi %r tau=%d" % (special, tau), clique_equation, tau, special, [0.5] * (tau - 1))

# wrong number of H values, odd containers
attempt("clique too few", clique_equation, 5, 0.4, [0.1, 0.2])
attempt("clique too many", clique_equation, 3, 0.4, [0.1, 0.2, 0.3, 0.4, 0.5])
attempt("clique empty Hs", clique_equation, 4, 0.4, [])
d = {"a": 0.2, "b": 0.7, "c": 0.9}
attempt("clique dict values", clique_equation, 4, 0.4, d.values())
attempt("clique dict keys(str)", clique_equation, 2, 0.4, d)
attempt("clique dict keys(str) tau=3", clique_equation, 3, 0.4, d)
attempt("clique set", clique_equation, 3, 0.4, {0.25, 0.5})
gen = (x for x in [0.2, 0.7, 0.9])
attempt("clique generator", clique_equation, 4, 0.4, gen)
emit("generator left", list(gen))
it = iter([0.2, 0.7, 0.9])
attempt("clique iterator tau=1", clique_equation, 1, 0.4, it)
emit("iterator left", list(it))
attempt("clique range", clique_equation, 4, 0.4, range(1, 4))
attempt("clique str Hs", clique_equation, 3, 0.4, "ab")
attempt("clique list Hs elements", clique_equation, 3, 0.4, [[1], [2]])
attempt("clique list Hs elements tau=2", clique_equation, 2, 0.4, [[1, 2]])
attempt("clique None Hs", clique_equation, 3, 0.4, None)
attempt("clique None Hs tau=0", clique_equation, 0, 0.4, None)
attempt("clique None in Hs", clique_equation, 3, 0.4, [None, 0.5])
attempt("clique int Hs arg", clique_equation, 2, 0.4, 5)
attempt("clique tau float", clique_equation, 3.0, 0.4, [0.5, 0.5])
attempt("clique tau None", clique_equation, None, 0.4, [0.5, 0.5])
attempt("clique tau str", clique_equation, "3", 0.4, [0.5, 0.5])
attempt("clique tau negative", clique_equation, -2, 0.4, [0.5, 0.5])
attempt("clique tau np", clique_equation, np.int64(4), 0.4, [0.5, 0.25, 0.125])
attempt("clique tau bool", clique_equation, True, 0.4, [0.5])
attempt("clique phi str", clique_equation, 3, "x", [0.5, 0.5])
attempt("clique phi None", clique_equation, 3, None, [0.5, 0.5])
attempt("clique phi None tau=0", clique_equation, 0, None, [0.5, 0.5])
attempt("clique phi list", clique_equation, 2, [0.5], [0.5])
attempt("clique kwargs", clique_equation, tau=3, phi=0.2, Hs=[0.1, 0.9])
attempt("clique phi np float", clique_equation, 4, np.float64(0.3), [np.float64(0.5)] * 3)
attempt("clique phi np float32", clique_equation, 4, np.float32(0.3), [np.float32(0.5)] * 3)

# numpy arrays as H values: in-place products and dtype casting
a_int = np.array([1, 2, 3])
a_flt = np.array([0.5, 0.25, 0.125])
a_int2 = np.array([2, 2, 2])
for label, hs in [
    ("float,float", [a_flt, a_flt.copy()]),
    ("int,int", [a_int, a_int2]),
    ("int,float", [a_int, a_flt]),
    ("float,int", [a_flt, a_int]),
    ("int,float,int", [a_int, a_flt, a_int2]),
    ("float,float,float", [a_flt, a_flt + 0.1, a_flt + 0.2]),
]:
    copies = [h.copy() for h in hs]
    attempt("clique ndarray " + label, clique_equation, len(hs) + 1, 0.4, hs)
    emit("ndarray inputs unchanged", all((h == c).all() for h, c in zip(hs, copies)),
         [show(h) for h in hs])
attempt("clique ndarray as Hs", clique_equation, 4, 0.4, a_flt)
attempt("clique ndarray phi", clique_equation, 3, np.array([0.1, 0.9]), [0.5, 0.25])

# traced operands: exact order of every arithmetic operation
for tau in range(0, 6):
    hs = [Traced(random.random()) for _ in range(max(tau - 1, 0))]
    vals = [h.v for h in hs]
    attempt("clique traced Hs tau=%d" % tau, clique_equation, tau, 0.45, hs)
    emit("traced Hs log", log_digest(), "unchanged", vals == [h.v for h in hs])
    attempt("clique traced phi tau=%d" % tau, clique_equation, tau, Traced(0.45), vals)
    emit("traced phi log", log_digest())
    attempt("clique traced both tau=%d" % tau, clique_equation, tau, Traced(0.45), hs)
    emit("traced both log", log_digest(), "unchanged", vals == [h.v for h in hs])
hs = [Traced(0.5), 0.25, Traced(0.125), 2]
attempt("clique traced mixed", clique_equation, 5, 0.45, hs)
emit("traced mixed log", log_digest(), [show(h) for h in hs])
hs = [0.25, Traced(0.5), 3, Traced(0.125)]
attempt("clique traced mixed2", clique_equation, 5, 0.45, hs)
emit("traced mixed2 log", log_digest(), [show(h) for h in hs])
hs = [Traced("s"), Traced(0.5)]
attempt("clique traced bad", clique_equation, 3, 0.45, hs)
emit("traced bad log", log_digest())

emit("Q cache after clique", Q.cache_info())
emit("binomial cache after clique", binomial.cache_info())

# --------------------------------------------------------------------------
emit("== chordless_cycle_equation")
for n in range(-1, 12):
    for phi in phis:
        u = random.random()
        attempt("cycle n=%d phi=%r" % (n, phi), chordless_cycle_equation, n, u, phi)
        attempt("cycle(again) n=%d phi=%r" % (n, phi), chordless_cycle_equation, n, u, phi)
for n in (3, 4, 7, 40, 400):
    for u in (0.0, 1.0, -0.5, 1e-300, 1e300, float("inf"), float("nan"), -0.0, 3, 0):
        attempt("cycle n=%d u=%r" % (n, u), chordless_cycle_equation, n, u, 0.37)
        attempt("cycle n=%d u=%r phi int" % (n, u), chordless_cycle_equation, n, u, 1)
        attempt("cycle n=%d u=%r phi 2" % (n, u), chordless_cycle_equation, n, u, 2)
for n in (0, 1, 2, 3, 4, 5, 9):
    attempt("cycle Fraction n=%d" % n, chordless_cycle_equation, n, Fraction(2, 3), Fraction(3, 7))
    attempt("cycle Fraction u only n=%d" % n, chordless_cycle_equation, n, Fraction(2, 3), 0.3)
    attempt("cycle Decimal n=%d" % n, chordless_cycle_equation, n, Decimal("0.6"), Decimal("0.35"))
    attempt("cycle Decimal/float n=%d" % n, chordless_cycle_equation, n, Decimal("0.6"), 0.35)
    attempt("cycle complex n=%d" % n, chordless_cycle_equation, n, 0.5 + 0.5j, 0.35)
    attempt("cycle ndarray u n=%d" % n, chordless_cycle_equation, n, np.array([0.1, 0.5, 0.9]), 0.35)
    attempt("cycle ndarray phi n=%d" % n, chordless_cycle_equation, n, 0.6, np.array([0.0, 0.5, 1.0]))
    attempt("cycle np scalars n=%d" % n, chordless_cycle_equation, n, np.float64(0.6), np.float32(0.35))
    attempt("cycle np n n=%d" % n, chordless_cycle_equation, np.int64(n), 0.6, 0.35)
    attempt("cycle traced u n=%d" % n, chordless_cycle_equation, n, Traced(0.6), 0.35)
    emit("traced u log (multiset)", log_digest(ordered=False))
    attempt("cycle traced phi n=%d" % n, chordless_cycle_equation, n, 0.6, Traced(0.35))
    emit("traced phi log (multiset)", log_digest(ordered=False))
attempt("cycle n float", chordless_cycle_equation, 4.0, 0.5, 0.5)
attempt("cycle n None", chordless_cycle_equation, None, 0.5, 0.5)
attempt("cycle n str", chordless_cycle_equation, "4", 0.5, 0.5)
attempt("cycle u str", chordless_cycle_equation, 4, "u", 0.5)
attempt("cycle u str n=2", chordless_cycle_equation, 2, "u", 0.5)
attempt("cycle u None", chordless_cycle_equation, 4, None, 0.5)
attempt("cycle phi None", chordless_cycle_equation, 4, 0.5, None)
attempt("cycle phi str", chordless_cycle_equation, 2, 0.5, "p")
attempt("cycle u list", chordless_cycle_equation, 3, [0.5], 0.5)
attempt("cycle overflow", chordless_cycle_equation, 5, 1e200, 0.5)
attempt("cycle overflow n=3", chordless_cycle_equation, 3, 1e200, 0.5)
attempt("cycle zero neg power", chordless_cycle_equation, 0, 0.0, 0.5)
attempt("cycle zero neg power int", chordless_cycle_equation, 0, 0, 1)
attempt("cycle kwargs", chordless_cycle_equation, n=5, u=0.4, phi=0.6)
attempt("cycle big ints", chordless_cycle_equation, 30, 7, 3)

# clique and cycle agree on the triangle
for _ in range(5):
    u, phi = random.random(), random.random()
    emit("triangle", repr(clique_equation(3, phi, [u, u])), repr(chordless_cycle_equation(3, u, phi)))

# --------------------------------------------------------------------------
emit("== rng state")
emit("random", hashlib.sha256(repr(random.getstate()).encode()).hexdigest())
st = np.random.get_state()
emit("numpy", hashlib.sha256(repr((st[0], st[1].tolist(), st[2], st[3], st[4])).encode()).hexdigest())
emit("next draws", repr(random.random()), repr(float(np.random.random())))
emit("final caches", Q.cache_info(), QQ.cache_info(), binomial.cache_info())
emit("TOTAL", len(LINES), hashlib.sha256("\n".join(LINES).encode()).hexdigest())
