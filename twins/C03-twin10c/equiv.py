import sys, os; sys.path.insert(0, os.getcwd())
import hashlib
import random
import warnings

import numpy as np

from gcmpy.gcm_algorithm.gcm_algorithm_main import GCMAlgorithmMain
from gcmpy.gcm_algorithm.gcm_algorithm_fast import GCMAlgorithmFast
from gcmpy.gcm_algorithm.gcm_algorithm_network import GCMAlgorithmNetwork
from gcmpy.gcm_algorithm.gcm_algorithm_custom_motifs import GCMAlgorithmCustomMotifs
from gcmpy.names.gcm_algorithm_names import GCMAlgorithmNames as N
from gcmpy.motif_generators.clique_motif import clique_motif
from gcmpy.motif_generators.cycle_motif import cycle_motif

warnings.simplefilter("ignore")
H = hashlib.sha256()
LINES = 0


def emit(*parts):
    global LINES
    s = " | ".join(repr(p) for p in parts)
    H.update(s.encode() + b"\n")
    LINES += 1
    print(s[:240])


def rng_state():
    a = hashlib.sha256(repr(random.getstate()).encode()).hexdigest()[:16]
    st = np.random.get_state()
    b = hashlib.sha256(repr((st[0], st[1].tobytes(), st[2:])).encode()).hexdigest()[:16]
    return a, b


def dump(res):
    if hasattr(res, "edge_list"):
        return (
            "EL",
            [tuple(e) if isinstance(e, (tuple, list)) else e for e in res.edge_list],
            list(res.topologies),
            list(res.motif_id),
            [type(e).__name__ for e in res.edge_list[:3]],
            res.joint_degrees if isinstance(res.joint_degrees, (list, tuple)) else type(res.joint_degrees).__name__,
        )
    if hasattr(res, "G"):
        G = res.G
        return ("NET", list(G.nodes(data=True)), list(G.edges(data=True)))
    return ("OTHER", repr(res))


def call(label, f, *a):
    try:
        r = f(*a)
        out = dump(r)
    except BaseException as e:  # noqa
        out = ("EXC", type(e).__name__)
    emit(label, out, rng_state())


class Idx:
    def __init__(self, v):
        self.v = v

    def __index__(self):
        return self.v

    def __repr__(self):
        return "Idx(%r)" % self.v


def fast_params(sizes, builders=None, names=None):
    k = len(sizes)
    return {
        N.MOTIF_SIZES: sizes,
        N.BUILD_FUNCTIONS: builders or [clique_motif] * k,
        N.EDGE_NAMES: names or ["t%d" % i for i in range(k)],
    }


def rand_jds(rng, n, k, hi):
    return [tuple(rng.randrange(hi + 1) for _ in range(k)) for _ in range(n)]


random.seed(20261004)
np.random.seed(77)
gen = random.Random(5)

# ---- fast / network algorithm: regular inputs
for trial in range(120):
    k = gen.randrange(1, 4)
    n = gen.randrange(0, 14)
    sizes = [gen.randrange(1, 6) for _ in range(k)]
    builders = [gen.choice([clique_motif, cycle_motif, lambda vs: [tuple(vs)]]) for _ in range(k)]
    jds = rand_jds(gen, n, k, 4)
    p = fast_params(sizes, builders)
    alg = GCMAlgorithmFast(p)
    call(("fast", trial, sizes, n), alg.random_clustered_graph, jds)
    call(("fast-again", trial), alg.random_clustered_graph, jds)
    if trial % 3 == 0:
        call(("net", trial), GCMAlgorithmNetwork(p).random_clustered_graph, jds)
    if trial % 5 == 0:
        q = dict(p)
        q[N.GCM_TYPE] = "fast"
        call(("main-fast", trial), lambda: GCMAlgorithmMain.load_gcm_algorithm(q).random_clustered_graph(jds))

# four degree-1 vertices: the three matchings
cnt = {}
alg = GCMAlgorithmFast(fast_params([2]))
for _ in range(600):
    es = alg.random_clustered_graph([(1,)] * 4).edge_list
    key = tuple(sorted(tuple(sorted(e)) for e in es))
    cnt[key] = cnt.get(key, 0) + 1
emit("matchings-fast", sorted(cnt.items()), rng_state())

# ---- fast: odd motif sizes and error paths
jds5 = [(2, 1), (1, 1), (0, 1), (3, 0), (1, 2)]
odd_sizes = [0, -1, 1, 7, True, False, 2.0, None, "2", 2**63 - 1, 2**63, 2**70, -(2**70),
             np.int64(2), np.int64(0), np.float64(2), Idx(2), Idx(0), Idx(-3), Idx(2**65)]
for s in odd_sizes:
    for jds in (jds5, [], [(0, 0)], [(1, 0)]):
        for sizes in ([s, 2], [2, s], [s]):
            call(("fast-odd", repr(s), sizes and len(sizes), len(jds)), GCMAlgorithmFast(fast_params(sizes, [clique_motif] * 2, ["x", "y"])).random_clustered_graph, jds)

bad_jds = [None, 5, [5], [(1,), 5], [(1, 2), (3,)], [(1.0,), (2,)], [(-1,), (3,)], [("a",), (1,)],
           [(None,)], [(2**70,)], [[1, 1], [1, 1]], ((1,), (1,)), iter([(1,), (1,)]), [(np.int64(2),), (np.int64(2),)],
           [(True,), (True,)], [(1, 1, 1), (1, 1, 1)], [()], [(), ()]]
for i, jds in enumerate(bad_jds):
    call(("fast-badjds", i), GCMAlgorithmFast(fast_params([2, 3])).random_clustered_graph, jds)
    call(("net-badjds", i), GCMAlgorithmNetwork(fast_params([2, 3])).random_clustered_graph, bad_jds[i] if not hasattr(jds, "__next__") else iter([(1,), (1,)]))


def boom(vs):
    raise KeyError("boom")


def gen_builder(vs):
    return (x for x in vs)


for i, b in enumerate([boom, gen_builder, lambda vs: None, lambda vs: 7, lambda vs: "ab", lambda vs: {1: 2}, lambda vs: ()]):
    call(("fast-badbuilder", i), GCMAlgorithmFast(fast_params([2], [b])).random_clustered_graph, [(1,), (1,), (2,)])
call(("fast-short-names",), GCMAlgorithmFast(fast_params([2, 2], [clique_motif] * 2, ["only"])).random_clustered_graph, jds5)
call(("fast-short-builders",), GCMAlgorithmFast(fast_params([2, 2], [clique_motif], ["a", "b"])).random_clustered_graph, jds5)
call(("fast-short-sizes",), GCMAlgorithmFast(fast_params([2], [clique_motif] * 2, ["a", "b"])).random_clustered_graph, jds5)
call(("fast-missing-key",), lambda: GCMAlgorithmFast({N.MOTIF_SIZES: [2]}))


# ---- custom motifs
def twoclique(vs):
    return (vs[0], vs[1])


def threeclique(vs):
    return (vs[0], vs[1]), (vs[0], vs[2]), (vs[1], vs[2])


def diamond(vs):
    return ((vs[0], vs[1]), (vs[1], vs[2]), (vs[2], vs[3]), (vs[3], vs[1]), (vs[0], vs[2]))


def pent(vs):
    return ((vs[0], vs[1]), (vs[1], vs[2]), (vs[2], vs[3]), (vs[3], vs[4]), (vs[0], vs[4]), (vs[1], vs[3]))


def whole(vs):
    return [tuple(vs), ("len", len(vs))]


def cparams(sizes=None, idx=None, builders=None, names=None):
    return {
        N.MOTIF_SIZES: sizes if sizes is not None else [2, 3, 2, 2, 2, 2, 1],
        N.EDGE_NAMES: names or [lambda: "2-clique", lambda: ("3c",) * 3, lambda: ("do",) * 4 + ("di",), lambda: ("p01", "p12", "p23", "p34", "p40", "p13")],
        N.BUILD_FUNCTIONS: builders or [twoclique, threeclique, diamond, pent],
        N.MOTIF_INDICES: idx if idx is not None else [[0], [1], [2, 3], [4, 5, 6]],
    }


JDS = [
    (2, 1, 0, 1, 1, 0, 0), (1, 1, 0, 1, 1, 0, 0), (3, 1, 1, 0, 0, 1, 0), (2, 0, 1, 0, 0, 1, 0),
    (0, 0, 0, 1, 0, 0, 1), (1, 0, 0, 1, 0, 0, 0), (1, 0, 1, 0, 0, 0, 0), (1, 0, 1, 0, 0, 0, 0),
    (1, 0, 0, 1, 0, 0, 0), (1, 0, 0, 1, 0, 0, 0), (1, 0, 1, 0, 0, 0, 0), (0, 0, 1, 0, 0, 0, 0),
]
alg = GCMAlgorithmCustomMotifs(cparams())
for r in range(25):
    call(("custom-paper", r), alg.random_clustered_graph, JDS)
q = cparams()
q[N.GCM_TYPE] = "motifs"
call(("main-motifs",), lambda: GCMAlgorithmMain.load_gcm_algorithm(q).random_clustered_graph(JDS))

for trial in range(150):
    k = gen.randrange(1, 5)
    n = gen.randrange(0, 12)
    sizes = [gen.randrange(1, 4) for _ in range(k)]
    cols = list(range(k))
    gen.shuffle(cols)
    idx, pos = [], 0
    while pos < k:
        w = gen.randrange(1, 3)
        idx.append(cols[pos:pos + w])
        pos += w
    if trial % 7 == 0:
        idx.append([gen.randrange(k)])  # a column used twice: pops may run dry
    jds = rand_jds(gen, n, k, 3)
    p = cparams(sizes, idx, [whole] * len(idx), [lambda: ("w", "l")] * len(idx))
    alg = GCMAlgorithmCustomMotifs(p)
    call(("custom", trial, sizes, idx, n), alg.random_clustered_graph, jds)
    call(("custom-again", trial), alg.random_clustered_graph, jds)

cnt = {}
alg = GCMAlgorithmCustomMotifs(cparams([2], [[0]], [twoclique], [lambda: "2-clique"]))
for _ in range(600):
    es = alg.random_clustered_graph([(1,)] * 4).edge_list
    key = tuple(sorted(tuple(sorted(e)) for e in es))
    cnt[key] = cnt.get(key, 0) + 1
emit("matchings-custom", sorted(cnt.items()), rng_state())

for s in odd_sizes:
    for jds in ([(2, 1), (1, 1), (1, 0), (2, 2)], [], [(0, 0)]):
        for sizes in ([s, 2], [2, s]):
            call(("custom-odd", repr(s), len(jds), sizes.index(s) if s in sizes else -1),
                 GCMAlgorithmCustomMotifs(cparams(sizes, [[0], [1]], [whole] * 2, [lambda: ("w", "l")] * 2)).random_clustered_graph, jds)
for i, jds in enumerate(bad_jds):
    if hasattr(jds, "__next__"):
        jds = iter([(1,), (1,)])
    call(("custom-badjds", i), GCMAlgorithmCustomMotifs(cparams([2, 3], [[0, 1]], [whole], [lambda: ("w", "l")])).random_clustered_graph, jds)
for i, idx in enumerate([[], [[]], [[5]], [[0, 5]], [[-1]], [[0], [0]], [[0, 0]], None, [None], [[0.0]], [[1, 0]], [(1,), (0,)]]):
    call(("custom-badidx", i), GCMAlgorithmCustomMotifs(cparams([2, 1], idx, [whole] * 2, [lambda: ("w", "l")] * 2)).random_clustered_graph, [(1, 1), (1, 1), (2, 0)])
for i, b in enumerate([boom, gen_builder, lambda vs: None, lambda vs: 7, lambda vs: "ab", lambda vs: [1, 2], lambda vs: [[1, 2], [3, 4]], lambda vs: ()]):
    call(("custom-badbuilder", i), GCMAlgorithmCustomMotifs(cparams([2], [[0]], [b], [lambda: ("w", "l")])).random_clustered_graph, [(1,), (1,), (2,)])
call(("custom-missing-key",), lambda: GCMAlgorithmCustomMotifs({N.MOTIF_SIZES: [2]}))
alg = GCMAlgorithmCustomMotifs(cparams())
for lst, n in [([], 2), ([1, 2, 3, 4, 5], 2), ([1, 2, 3], 5), ([1], 0), ([1, 2], -1), ("abcde", 2), ([1, 2], 1.0), (None, 1)]:
    try:
        emit("partition", lst, n, alg.partition(lst, n))
    except Exception as e:
        emit("partition", lst, n, type(e).__name__)

emit("final", rng_state())
print("LINES", LINES)
print("DIGEST", H.hexdigest())
