import sys, os; sys.path.insert(0, os.getcwd())
# Variant b: gcmpy/network/edge_list.py  LightWeightEdgeList.__init__ creates its four
# columns in one tuple assignment.  Exercises the container directly and through every
# producer / consumer of it (GCMAlgorithmFast, GCMAlgorithmCustomMotifs,
# GCMAlgorithmNetwork, EdgeListToNetwork, NetworkToEdgeList).
import copy
import hashlib
import pickle
import random

import numpy as np

from gcmpy.network.network import Network
from gcmpy.network.edge_list import LightWeightEdgeList
from gcmpy.network.edge_list_to_network import EdgeListToNetwork
from gcmpy.network.network_to_edge_list import NetworkToEdgeList
from gcmpy.names.gcm_algorithm_names import GCMAlgorithmNames
from gcmpy.gcm_algorithm.gcm_algorithm_fast import GCMAlgorithmFast
from gcmpy.gcm_algorithm.gcm_algorithm_network import GCMAlgorithmNetwork
from gcmpy.gcm_algorithm.gcm_algorithm_custom_motifs import GCMAlgorithmCustomMotifs
from gcmpy.gcm_algorithm.gcm_algorithm_factory import GCMAlgorithmFactory
from gcmpy.gcm_algorithm.gcm_algorithm_types import GCMAlgorithmTypes
from gcmpy.motif_generators.clique_motif import clique_motif
from gcmpy.motif_generators.cycle_motif import cycle_motif
from gcmpy.motif_generators.diamond_motif import diamond_motif

LINES = []
FIELDS = ("edge_list", "topologies", "joint_degrees", "motif_id")
PRIV = ("_edge_list", "_topologies", "_joint_degrees", "_motif_id")


def out(*parts):
    line = " ".join(str(p) for p in parts)
    LINES.append(line)
    print(line)


def rng_state():
    h = hashlib.sha256()
    h.update(repr(random.getstate()).encode())
    s = np.random.get_state()
    h.update(repr((s[0], s[1].tolist(), s[2], s[3], s[4])).encode())
    return h.hexdigest()[:16]


def attempt(label, fn):
    try:
        r = fn()
        out(label, "->", r)
        return r
    except BaseException as e:  # noqa
        out(label, "!!", type(e).__name__, "|", e)
        return None


def graph_digest(G):
    nodes = [(n, repr(sorted(d.items(), key=repr))) for n, d in G.nodes(data=True)]
    edges = [(u, v, repr(sorted(d.items(), key=repr))) for u, v, d in G.edges(data=True)]
    return hashlib.sha256(repr((type(G).__name__, nodes, edges)).encode()).hexdigest()[:16]


def cols(el):
    return (el.edge_list, el.topologies, el.joint_degrees, el.motif_id)


def el_digest(el):
    return hashlib.sha256(repr(cols(el)).encode()).hexdigest()[:16]


random.seed(4041)
np.random.seed(4041)

# ---- 1. class object ------------------------------------------------------------
out("class dict", sorted(k for k in vars(LightWeightEdgeList) if not k.startswith("__")))
for f in FIELDS:
    p = vars(LightWeightEdgeList)[f]
    out("descriptor", f, type(p).__name__, p.fget is not None, p.fset is not None, p.fdel)
out("class-level private", [hasattr(LightWeightEdgeList, p) for p in PRIV])
out("annotations", getattr(LightWeightEdgeList, "__annotations__", None))

# ---- 2. a fresh object ------------------------------------------------------------
for rep in range(3):
    el = LightWeightEdgeList()
    out("fresh", rep, list(vars(el).keys()), [type(getattr(el, p)).__name__ for p in PRIV],
        cols(el), [getattr(el, f) is getattr(el, p) for f, p in zip(FIELDS, PRIV)])
    # the four columns are four different list objects
    out("pairwise distinct", [[getattr(el, a) is getattr(el, b) for b in PRIV] for a in PRIV])
    out("distinct ids", len({id(getattr(el, p)) for p in PRIV}))
    # ... so filling one leaves the others alone
    el.edge_list.append((0, 1))
    out("after edge append", cols(el))
    el.topologies.extend(["t"] * 2)
    out("after topology extend", cols(el))
    el.joint_degrees.append((1,))
    out("after jd append", cols(el))
    el.motif_id.extend([7])
    out("after id extend", cols(el))
a, b = LightWeightEdgeList(), LightWeightEdgeList()
out("instances share nothing", [[getattr(a, p) is getattr(b, q) for q in PRIV] for p in PRIV])
a.edge_list.append((1, 2))
a.motif_id.append(0)
out("a, b", cols(a), cols(b))
c = LightWeightEdgeList()
out("third instance clean", cols(c))

# re-running __init__ resets all four columns to new empty lists, keeps old ones untouched
old = [getattr(a, p) for p in PRIV]
r = a.__init__()
out("re-init", r, list(vars(a).keys()), cols(a), old,
    [getattr(a, p) is o for p, o in zip(PRIV, old)], len({id(getattr(a, p)) for p in PRIV}))

raw = LightWeightEdgeList.__new__(LightWeightEdgeList)
for f in FIELDS:
    attempt("raw." + f, lambda: getattr(raw, f))
attempt("raw vars", lambda: list(vars(raw).keys()))
attempt("ctor(1)", lambda: LightWeightEdgeList(1))
attempt("ctor(edge_list=[])", lambda: LightWeightEdgeList(edge_list=[]))

# ---- 3. setters / getters -----------------------------------------------------------
el = LightWeightEdgeList()
for f, p in zip(FIELDS, PRIV):
    for v in ([(9, 9)], (), None, 3, "xy", {1: 2}):
        setattr(el, f, v)
        out("set", f, type(v).__name__, getattr(el, f) is v, getattr(el, p) is v,
            list(vars(el).keys()), cols(el))
    attempt("del " + f, lambda: delattr(el, f))
shared = []
el = LightWeightEdgeList()
el.edge_list = shared
el.topologies = shared
out("caller aliasing kept", el.edge_list is el.topologies, el.joint_degrees is el.motif_id)
el.foo = 1
out("free attribute", list(vars(el).keys()))

el = LightWeightEdgeList()
el.edge_list.extend([(0, 1), (1, 2)])
el.topologies.extend(["a", "b"])
el.joint_degrees.extend([(1,), (2,), (1,)])
el.motif_id.extend([0, 1])
p2 = pickle.loads(pickle.dumps(el))
out("pickle", list(vars(p2).keys()), cols(p2))
c1, c2 = copy.copy(el), copy.deepcopy(el)
out("copy", list(vars(c1).keys()), c1.edge_list is el.edge_list, c2.edge_list is not el.edge_list, cols(c2))
out("rng", rng_state())

# ---- 4. conversions -------------------------------------------------------------------


def mk(edges, tops, jds, ids, via_setters):
    el = LightWeightEdgeList()
    if via_setters:
        el.edge_list, el.topologies, el.joint_degrees, el.motif_id = edges, tops, jds, ids
    else:  # fill the lists the constructor made
        el.edge_list.extend(edges)
        el.topologies.extend(tops)
        el.joint_degrees.extend(jds)
        el.motif_id.extend(ids)
    return el


CASES = {
    "empty": ([], [], [], []),
    "isolated only": ([], [], [(0, 0)] * 4, []),
    "simple": ([(0, 1), (1, 2)], ["2-clique", "2-clique"], [(1, 0), (2, 0), (1, 0), (0, 0)], [0, 1]),
    "triangle+edge": ([(0, 1), (0, 2), (1, 2), (2, 3)], ["3-clique"] * 3 + ["2-clique"],
                      [(0, 1), (0, 1), (1, 1), (1, 0), (0, 0)], [0, 0, 0, 1]),
    "duplicate pair": ([(0, 1), (1, 0), (0, 1)], ["a", "b", "c"], [(3,), (3,)], [0, 1, 2]),
    "self loop": ([(0, 0), (0, 1)], ["a", "b"], [(3,), (1,)], [0, 1]),
    "vertex beyond jds": ([(0, 5)], ["a"], [(1,), (0,)], [0]),
    "short topologies": ([(0, 1), (1, 2)], ["a"], [(1,), (2,), (1,)], [0, 1]),
    "short ids": ([(0, 1), (1, 2)], ["a", "b"], [(1,), (2,), (1,)], [0]),
    "long ids": ([(0, 1)], ["a", "b"], [(1,), (1,)], [0, 1, 2]),
    "lists as edges": ([[0, 1]], ["a"], [(1,), (1,)], [0]),
    "string nodes": ([("x", "y")], ["a"], [(1,), (1,)], [0]),
}
for name, c in CASES.items():
    for via in (True, False):
        def run():
            el = mk(*c, via)
            snapshot = repr(cols(el))
            g = EdgeListToNetwork.convert(el)
            unchanged = repr(cols(el)) == snapshot
            back = NetworkToEdgeList.convert(g)
            g2 = EdgeListToNetwork.convert(back)
            back2 = NetworkToEdgeList.convert(g2)
            return (unchanged, graph_digest(g.G), list(vars(back).keys()), cols(back),
                    len({id(x) for x in cols(back)}), graph_digest(g2.G), cols(back2) == cols(back))
        attempt("convert[%s,%s]" % (name, via), run)
attempt("convert(fresh)", lambda: graph_digest(EdgeListToNetwork.convert(LightWeightEdgeList()).G))
attempt("back(fresh net)", lambda: (list(vars(NetworkToEdgeList.convert(Network())).keys()),
                                    cols(NetworkToEdgeList.convert(Network()))))
attempt("convert(raw)", lambda: EdgeListToNetwork.convert(raw))
out("rng", rng_state())

# ---- 5. producers: the GCM algorithms fill a fresh container ---------------------------


def diamond(vs):
    return ((vs[0], vs[1]), (vs[1], vs[2]), (vs[2], vs[3]), (vs[3], vs[1]), (vs[0], vs[2]))


def diamond_names():
    return ("diamond-outer",) * 4 + ("diamond-inner",)


def twoclique(vs):
    return (vs[0], vs[1])


def twoclique_names():
    return "2-clique"


def threeclique(vs):
    return (vs[0], vs[1]), (vs[0], vs[2]), (vs[1], vs[2])


def threeclique_names():
    return "3-clique", "3-clique", "3-clique"


CUSTOM_JDS = [
    (2, 1, 0, 1), (1, 1, 0, 1), (3, 1, 1, 0), (2, 0, 1, 0), (0, 0, 0, 0), (1, 0, 0, 1),
    (1, 0, 1, 0), (1, 0, 1, 0), (1, 0, 0, 1), (0, 0, 0, 0),
]
CUSTOM = {
    GCMAlgorithmNames.MOTIF_SIZES: [2, 3, 2, 2],
    GCMAlgorithmNames.EDGE_NAMES: [twoclique_names, threeclique_names, diamond_names],
    GCMAlgorithmNames.BUILD_FUNCTIONS: [twoclique, threeclique, diamond],
    GCMAlgorithmNames.MOTIF_INDICES: [[0], [1], [2, 3]],
}

for seed in (1, 2, 3, 4, 5, 6):
    random.seed(seed)
    np.random.seed(seed)
    nv = 24 + 5 * seed
    jds = [(random.randrange(0, 4), random.randrange(0, 3), random.randrange(0, 2)) for _ in range(nv)]
    # pad so that every stub list splits into whole motifs (sizes 2, 3, 4)
    for k, size in enumerate((2, 3, 4)):
        for _ in range((-sum(jd[k] for jd in jds)) % size):
            jds.append(tuple(1 if i == k else 0 for i in range(3)))
    params = {
        GCMAlgorithmNames.MOTIF_SIZES: [2, 3, 4],
        GCMAlgorithmNames.EDGE_NAMES: ["2-clique", "3-cycle", "diamond"],
        GCMAlgorithmNames.BUILD_FUNCTIONS: [clique_motif, cycle_motif, diamond_motif],
    }
    fast = GCMAlgorithmFactory.resolve_algorithm(GCMAlgorithmTypes.FAST, params)
    prev = None
    for rep in range(3):  # one algorithm object, several graphs: each gets its own container
        el = fast.random_clustered_graph(jds)
        out("fast", seed, rep, len(jds), list(vars(el).keys()), el.joint_degrees is jds,
            len(el.edge_list), len(el.topologies), len(el.motif_id),
            len({id(x) for x in cols(el)}), el_digest(el),
            prev is None or (prev is not el and prev.edge_list is not el.edge_list),
            rng_state())
        prev = el
        attempt("  round trip", lambda: el_digest(NetworkToEdgeList.convert(EdgeListToNetwork.convert(el))))
    net = GCMAlgorithmNetwork(params)
    for rep in range(2):
        g = net.random_clustered_graph(jds)
        out("network", seed, rep, graph_digest(g.G), el_digest(NetworkToEdgeList.convert(g)), rng_state())
    cm = GCMAlgorithmFactory.resolve_algorithm(GCMAlgorithmTypes.MOTIFS, CUSTOM)
    for rep in range(2):
        el = cm.random_clustered_graph(CUSTOM_JDS)
        out("custom", seed, rep, list(vars(el).keys()), len(el.edge_list), len(el.topologies),
            len(el.motif_id), len({id(x) for x in cols(el)}), el_digest(el), rng_state())
        attempt("  custom to network", lambda: graph_digest(EdgeListToNetwork.convert(el).G))
    attempt("fast []", lambda: cols(fast.random_clustered_graph([])))
    attempt("fast None", lambda: cols(fast.random_clustered_graph(None)))
    attempt("fast ragged", lambda: cols(fast.random_clustered_graph([(1, 1, 1), (1,)])))
    attempt("fast odd stubs", lambda: cols(fast.random_clustered_graph([(1, 0, 0), (1, 0, 0), (1, 0, 0)])))
    attempt("fast short diamond", lambda: cols(fast.random_clustered_graph([(0, 0, 1), (0, 0, 1)])))
    attempt("custom []", lambda: cols(cm.random_clustered_graph([])))
    out("rng", rng_state())

out("FINAL", hashlib.sha256("\n".join(LINES).encode()).hexdigest(), rng_state())
