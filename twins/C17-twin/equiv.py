"""Deterministic digest of the message passing results (run with cwd = a checkout)."""
import hashlib
import os
import random
import sys

sys.path.insert(0, os.getcwd())

import numpy as np
import networkx as nx

from gcmpy.message_passing.message_passing import MessagePassing
from gcmpy.message_passing.message_passing_mixin import MessagePassingMixin

random.seed(12345)
np.random.seed(12345)

MOTIFS = {
    "edge": (2, [(0, 1)]),
    "triangle": (3, [(0, 1), (0, 2), (1, 2)]),
    "square": (4, [(0, 1), (1, 2), (2, 3), (3, 0)]),
    "diamond": (4, [(0, 1), (1, 2), (2, 3), (3, 0), (0, 2)]),
    "k4": (4, [(0, 1), (0, 2), (0, 3), (1, 2), (1, 3), (2, 3)]),
    "path3": (3, [(0, 1), (1, 2)]),
}


def covered_graph(rng, n, attempts, kinds, isolated=0):
    G = nx.Graph()
    G.add_nodes_from(range(n + isolated))
    uid = 0
    for _ in range(attempts):
        kind = rng.choice(kinds)
        size, template = MOTIFS[kind]
        vs = rng.sample(range(n), size)
        es = [(vs[a], vs[b]) for a, b in template]
        if any(G.has_edge(a, b) for a, b in es):
            continue
        label = f"{size}-{vs}-{es}-{uid}"
        uid += 1
        for a, b in es:
            G.add_edge(a, b, CoverLabel=label)
    return G


def digest(obj):
    return hashlib.sha256(repr(obj).encode()).hexdigest()[:16]


def h_tau_digest(mp):
    return digest(sorted((k, repr(v)) for k, v in mp._H_tau.items()))


def main():
    rng = random.Random(2024)
    graphs = {
        "edges_only": covered_graph(rng, 30, 40, ["edge"]),
        "triangles": covered_graph(rng, 25, 30, ["triangle"], isolated=2),
        "mixed_sparse": covered_graph(rng, 40, 30, list(MOTIFS)),
        "mixed_dense": covered_graph(rng, 18, 60, list(MOTIFS)),
        "single_k4": covered_graph(rng, 4, 1, ["k4"]),
        "no_edges": covered_graph(rng, 5, 0, ["edge"]),
    }
    phis = [0.0, 0.05, 0.2, 0.35, 0.5, 0.65, 0.8, 0.95, 1.0]

    for name, G in graphs.items():
        print(f"== {name}: n={G.number_of_nodes()} m={G.number_of_edges()} "
              f"labels={digest(sorted(nx.get_edge_attributes(G, 'CoverLabel').items()))}")

        # label parsing
        mixin = MessagePassingMixin("motif cover", G)
        parsed = []
        for i, j in G.edges():
            label = mixin.get_edge_cover_label(i, j)
            parsed.append((
                i, j, mixin.get_motif_topology(label), mixin.get_motif_ID(label),
                mixin.get_vertices_in_motif(label), mixin.get_edges_in_motif(label),
            ))
        print("parsed", digest(parsed), len(parsed))

        # fresh objects
        for iterations in (1, 3, 25):
            for phi in phis:
                mp = MessagePassing(G, iterations=iterations)
                value = mp.theoretical(phi)
                print(f"fresh it={iterations} phi={phi!r} S={value!r} type={type(value).__name__} "
                      f"H={h_tau_digest(mp)} nH={len(mp._H_tau)}")

        # one object queried repeatedly in shuffled order
        order = phis + phis
        rng.shuffle(order)
        mp = MessagePassing(G, iterations=7)
        for phi in order:
            value = mp.theoretical(phi)
            print(f"reuse phi={phi!r} S={value!r} H={h_tau_digest(mp)}")
        print("caches", len(mp._AE._connected_subgraphs), len(mp._AE._edge_combinations),
              digest(sorted(mp._AE._connected_subgraphs)), digest(sorted(mp._AE._edge_combinations)))

        # direct calls of the building blocks
        if G.number_of_edges():
            mp = MessagePassing(G, iterations=2)
            mp.theoretical(0.4)
            for i, j in list(G.edges())[:10]:
                label = mp._MPM.get_edge_cover_label(i, j)
                for focal in (j, i):
                    mp.calculate_H_tau(focal, label)
                    key = (focal, mp._MPM.get_motif_ID(label))
                    print(f"calc {key} {mp._H_tau[key]!r}")
                others = {v: 0.1 + 0.8 * rng.random()
                          for v in mp._MPM.get_vertices_in_motif(label) if v != i}
                print(f"resolve {i} {mp.resolve_equation(i, label, others)!r}")
            print("H after", h_tau_digest(mp))

    # error behaviour on a malformed label and on an empty graph
    G = nx.Graph()
    G.add_edge(0, 1, CoverLabel="2-[0, 1]-[(0, 1)]-x")
    G.add_edge(1, 2)
    for H in (G, nx.Graph()):
        try:
            print("odd", MessagePassing(H).theoretical(0.5))
        except Exception as exc:  # noqa: BLE001
            print("odd raised", type(exc).__name__, exc)


if __name__ == "__main__":
    main()
