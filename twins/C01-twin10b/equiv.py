import sys, os; sys.path.insert(0, os.getcwd())
import hashlib
import random
from fractions import Fraction
import numpy as np

from gcmpy.motif_generators import clique_motif
from gcmpy.motif_generators.clique_motif import clique_motif as clique_direct
from gcmpy.gcm_algorithm.gcm_algorithm_fast import GCMAlgorithmFast
from gcmpy.gcm_algorithm.gcm_algorithm_network import GCMAlgorithmNetwork
from gcmpy.gcm_algorithm.gcm_algorithm_custom_motifs import GCMAlgorithmCustomMotifs
from gcmpy.gcm_algorithm.gcm_algorithm_main import GCMAlgorithmMain
from gcmpy.names.gcm_algorithm_names import GCMAlgorithmNames as N


def h(x):
    return hashlib.sha256(repr(x).encode()).hexdigest()[:16]


def rng_digest():
    return h(random.getstate()) + "/" + h(np.random.get_state()[1].tolist())


def describe(out):
    return (type(out).__name__, out, [type(e).__name__ for e in out],
            [[type(x).__name__ for x in e] for e in out[:8]])


def run(label, fn):
    try:
        out = fn()
        print(label, "OK", h(out), rng_digest())
    except BaseException as e:  # noqa
        print(label, "EXC", type(e).__name__, rng_digest())


random.seed(2)
np.random.seed(2)
rnd = random.Random(77)

# 1. direct calls: sizes 0..12, many element kinds
for n in range(0, 13):
    run(f"ints {n}", lambda: describe(clique_motif(list(range(n)))))
    vs = [rnd.randrange(0, 5) for _ in range(n)]
    run(f"dup ints {n}", lambda: describe(clique_motif(vs)))
    run(f"tuple {n}", lambda: describe(clique_motif(tuple(vs))))
    run(f"iter {n}", lambda: describe(clique_motif(iter(vs))))
    run(f"gen {n}", lambda: describe(clique_motif(x * x for x in vs)))
    run(f"range {n}", lambda: describe(clique_motif(range(n))))
    run(f"nparr {n}", lambda: describe(clique_motif(np.arange(n))))
    run(f"set {n}", lambda: describe(clique_motif(set(vs))))
    run(f"dict {n}", lambda: describe(clique_motif({v: None for v in vs})))
    run(f"str {n}", lambda: describe(clique_motif("abcdefghijklm"[:n])))

# identity of the elements is carried through (same objects, not copies)
objs = [object() for _ in range(5)]
out = clique_motif(objs)
print("identity", [(objs.index(a), objs.index(b)) for a, b in out],
      all(any(a is o for o in objs) and any(b is o for o in objs) for a, b in out))
mixed = [1, 1.0, True, Fraction(1, 1), "1", None, (1,), float("nan")]
run("mixed", lambda: describe(clique_motif(mixed)))
print("direct is package export", clique_direct is clique_motif)

# the argument is not mutated and is consumed exactly once
vs = [3, 1, 2]
clique_motif(vs)
print("unchanged", vs)
it = iter([1, 2, 3, 4])
clique_motif(it)
print("consumed", list(it))

# 2. error paths
run("int", lambda: clique_motif(5))
run("none", lambda: clique_motif(None))
run("float", lambda: clique_motif(2.5))
run("no arg", lambda: clique_motif())
run("two args", lambda: clique_motif([1], [2]))


class Raising:
    def __init__(self, k, exc):
        self.k, self.exc = k, exc

    def __iter__(self):
        for i in range(self.k):
            yield i
        raise self.exc


for k in (0, 1, 2, 5):
    for exc in (OSError("x"), KeyError("k"), ZeroDivisionError()):
        run(f"raising {k} {type(exc).__name__}", lambda: clique_motif(Raising(k, exc)))


class BadIter:
    def __iter__(self):
        raise RuntimeError("iter")


class IterNotIterator:
    def __iter__(self):
        return 3


class OnlyGetitem:
    def __getitem__(self, i):
        if i < 4:
            return i * 10
        raise IndexError


class GetitemRaises:
    def __getitem__(self, i):
        if i < 2:
            return i
        raise ValueError("gi")


class Counting:
    def __init__(self, n):
        self.n, self.calls, self.len_calls = n, 0, 0

    def __iter__(self):
        return self

    def __next__(self):
        self.calls += 1
        if self.calls > self.n:
            raise StopIteration
        return self.calls

    def __len__(self):
        self.len_calls += 1
        return self.n

    def __length_hint__(self):
        self.len_calls += 100
        return self.n


run("bad iter", lambda: clique_motif(BadIter()))
run("iter not iterator", lambda: clique_motif(IterNotIterator()))
run("only getitem", lambda: describe(clique_motif(OnlyGetitem())))
run("getitem raises", lambda: clique_motif(GetitemRaises()))
for n in (0, 1, 3):
    c = Counting(n)
    run(f"counting {n}", lambda: describe(clique_motif(c)))
    print("counting calls", n, c.calls, c.len_calls)

# 3. through the generators (fast, network, custom motifs, loader)
def handshake_jds(n, sizes, maxdeg=4):
    jds = [[rnd.randrange(0, maxdeg) for _ in sizes] for _ in range(n)]
    for k, s in enumerate(sizes):
        tot = sum(r[k] for r in jds)
        jds[rnd.randrange(n)][k] += (-tot) % s
    return [tuple(r) for r in jds]


sizes = [1, 2, 3, 4, 6]
p = {N.MOTIF_SIZES: sizes, N.BUILD_FUNCTIONS: [clique_motif] * 5,
     N.EDGE_NAMES: ["k1", "k2", "k3", "k4", "k6"]}
fast = GCMAlgorithmFast(p)
netw = GCMAlgorithmNetwork(p)
loaded = GCMAlgorithmMain.load_gcm_algorithm({**p, N.GCM_TYPE: "fast"})
for n in (1, 2, 5, 17, 64):
    for rep in range(3):
        jds = handshake_jds(n, sizes)
        for name, alg in (("fast", fast), ("loaded", loaded)):
            def go():
                el = alg.random_clustered_graph(jds)
                return el.edge_list, el.topologies, el.motif_id, el.joint_degrees is jds
            run(f"gen {name} {n} {rep}", go)

        def gon():
            G = netw.random_clustered_graph(jds).G
            return sorted(G.nodes(data=True), key=repr), sorted(G.edges(data=True), key=repr)
        run(f"gen netw {n} {rep}", gon)
# broken handshake: short last group reaches the builder
for jds in ([(1, 1, 1, 1, 1)], [(0, 1, 2, 3, 5), (0, 0, 0, 0, 0)], [(2, 3, 4, 5, 7)] * 3):
    def go():
        el = fast.random_clustered_graph(jds)
        return el.edge_list, el.topologies, el.motif_id
    run("broken", go)

pc = {N.MOTIF_SIZES: [2, 3, 2, 2], N.MOTIF_INDICES: [[0], [1], [2, 3]],
      N.BUILD_FUNCTIONS: [clique_motif, clique_motif, clique_motif],
      N.EDGE_NAMES: [lambda: ["k2"], lambda: ["k3"] * 3, lambda: ["k4"] * 6]}
cust = GCMAlgorithmCustomMotifs(pc)
for n in (2, 6, 30):
    for rep in range(3):
        jds = handshake_jds(n, [2, 3, 2, 2])
        # the two orbits of the third motif must supply the same number of motifs
        d = sum(r[2] for r in jds) - sum(r[3] for r in jds)
        jds = [list(r) for r in jds]
        if d > 0:
            jds[0][3] += d
        else:
            jds[0][2] -= d
        jds = [tuple(r) for r in jds]

        def goc():
            el = cust.random_clustered_graph(jds)
            return el.edge_list, el.topologies, el.motif_id, el.joint_degrees is jds
        run(f"custom {n} {rep}", goc)
print("final", rng_digest())
