"""
Equivalence digest for gcmpy/covers/mpcc.py through its PRE-EXISTING
signature only:  MPCC(G)  and  MPCC(G, max_size)  (positional or keyword).

Run with cwd = a checkout of gcmpy.  Prints a deterministic digest: every
edge label, node/edge order, the returned object identity, exception types,
and the state of the global RNGs after every call.
"""
import hashlib
import os
import random
import sys
import warnings

warnings.simplefilter("ignore")
sys.path.insert(0, os.getcwd())

import networkx as nx  # noqa: E402
import numpy as np  # noqa: E402

from gcmpy.covers.mpcc import MPCC  # noqa: E402
import gcmpy  # noqa: E402
import gcmpy.covers  # noqa: E402

assert gcmpy.MPCC is MPCC and gcmpy.covers.MPCC is MPCC


def rng_state():
    h = hashlib.sha256()
    h.update(repr(random.getstate()).encode())
    st = np.random.get_state()
    h.update(repr((st[0], st[1].tolist(), st[2], st[3], repr(st[4]))).encode())
    return h.hexdigest()[:16]


def dump(G):
    out = []
    out.append("nodes=" + repr(list(G.nodes(data=True))))
    if G.is_multigraph():
        out.append("edges=" + repr(list(G.edges(keys=True, data=True))))
    else:
        out.append("edges=" + repr(list(G.edges(data=True))))
    out.append("adj=" + repr({u: list(nb) for u, nb in G.adjacency()}))
    out.append("graph=" + repr(G.graph))
    return out


def call(name, G, *args, **kwargs):
    print(f"== {name} args={args!r} kwargs={kwargs!r}")
    try:
        R = MPCC(G, *args, **kwargs)
    except BaseException as exc:  # noqa: BLE001
        print("  raised", type(exc).__name__)
        R = None
    else:
        print("  returned_same_object", R is G, type(R).__name__)
    if isinstance(G, nx.Graph):
        lines = dump(G)
        blob = "\n".join(lines)
        if len(blob) > 4000:
            print("  state_sha", hashlib.sha256(blob.encode()).hexdigest())
        else:
            for ln in lines:
                print("  " + ln)
    print("  rng", rng_state())
    return R


def graphs():
    yield "empty", nx.Graph()
    yield "one node", nx.empty_graph(1)
    yield "three isolated", nx.empty_graph(3)
    yield "single edge", nx.path_graph(2)
    yield "K3", nx.complete_graph(3)
    yield "K4", nx.complete_graph(4)
    yield "K6", nx.complete_graph(6)
    yield "two K5", nx.disjoint_union(nx.complete_graph(5), nx.complete_graph(5))
    yield "ring of cliques", nx.ring_of_cliques(5, 4)
    yield "caveman", nx.caveman_graph(4, 5)
    yield "connected caveman", nx.connected_caveman_graph(4, 4)
    yield "path", nx.path_graph(6)
    yield "star", nx.star_graph(5)
    yield "lollipop", nx.lollipop_graph(4, 3)
    yield "petersen", nx.petersen_graph()
    yield "karate", nx.karate_club_graph()
    yield "windmill", nx.windmill_graph(4, 4)
    for seed in range(5):
        yield f"gnp12-{seed}", nx.gnp_random_graph(12, 0.5, seed)
    yield "gnp40", nx.gnp_random_graph(40, 0.3, 7)
    # string nodes inserted in a scrambled order
    H = nx.Graph()
    H.add_nodes_from(["d", "a", "c", "b", "e"])
    H.add_edges_from([("e", "a"), ("b", "a"), ("c", "b"), ("a", "c"),
                      ("d", "c"), ("d", "a"), ("d", "b"), ("e", "d")])
    yield "string nodes", H
    # self loops, existing attributes
    L = nx.complete_graph(4)
    L.add_edge(0, 0)
    L.add_edge(2, 2)
    L.add_edge(3, 4, weight=1.5, clique="stale")
    L.graph["name"] = "loops"
    yield "self loops", L
    # tuple nodes
    yield "grid", nx.grid_2d_graph(3, 3)
    T = nx.relabel_nodes(nx.complete_graph(4), {i: (i, -i) for i in range(4)})
    yield "tuple K4", T
    # multigraph
    M = nx.MultiGraph()
    M.add_edges_from([(0, 1), (0, 1), (1, 2), (2, 0), (2, 3)])
    yield "multigraph", M


def main():
    random.seed(20261004)
    np.random.seed(20261004)
    print("start rng", rng_state())

    for name, G in graphs():
        call(name, G.copy())
        call(name, G.copy(), 0)
        call(name, G.copy(), 1)
        call(name, G.copy(), 2)
        call(name, G.copy(), 3)
        call(name, G.copy(), 4)
        call(name, G.copy(), 100)
        call(name, G.copy(), -1)
        call(name, G.copy(), max_size=3)
        call(name, G.copy(), 2.5)
        call(name, G.copy(), True)
        # repeated calls on one object, with changing limits
        K = G.copy()
        call(name + " rep1", K)
        call(name + " rep2", K)
        call(name + " rep3", K, 2)
        call(name + " rep4", K, 3)
        call(name + " rep5", K)

    # keyword form for G
    try:
        R = MPCC(G=nx.complete_graph(4), max_size=3)
        print("kw", list(R.edges(data=True)))
    except BaseException as exc:  # noqa: BLE001
        print("kw raised", type(exc).__name__)
    print("  rng", rng_state())

    # error paths
    for name, G in [
        ("None", None),
        ("int", 3),
        ("list", [(0, 1), (1, 2)]),
        ("dict", {0: [1], 1: [0]}),
        ("digraph", nx.DiGraph([(0, 1), (1, 2), (2, 0)])),
        ("multidigraph", nx.MultiDiGraph([(0, 1), (1, 2), (2, 0)])),
        ("frozen K3", nx.freeze(nx.complete_graph(3))),
        ("frozen empty", nx.freeze(nx.Graph())),
        ("frozen isolated", nx.freeze(nx.empty_graph(2))),
    ]:
        call("err " + name, G)
        call("err " + name, G, 2)
        call("err " + name, G, 3)

    for name, G in [("empty", nx.Graph()), ("one node", nx.empty_graph(1)),
                    ("K3", nx.complete_graph(3)), ("K4", nx.complete_graph(4))]:
        for bad in ["a", None, [2], (3,), 2 + 0j, float("nan"), float("inf"),
                    -float("inf"), "", b"x"]:
            call("badmax " + name, G.copy(), bad)

    for args in [(), (nx.complete_graph(3), 2, 3, 4)]:
        try:
            MPCC(*args)
            print("arity ok")
        except BaseException as exc:  # noqa: BLE001
            print("arity raised", type(exc).__name__)
        print("  rng", rng_state())
    try:
        MPCC(nx.complete_graph(3), size=2)
        print("badkw ok")
    except BaseException as exc:  # noqa: BLE001
        print("badkw raised", type(exc).__name__)
    print("  rng", rng_state())

    # a larger clustered network like the one in the test-suite
    random.seed(5)
    B = nx.Graph()
    n = 3000
    B.add_nodes_from(range(n))
    for _ in range(1500):
        a, b, c = random.sample(range(n), 3)
        B.add_edges_from([(a, b), (b, c), (a, c)])
    for _ in range(2000):
        a, b = random.sample(range(n), 2)
        B.add_edge(a, b)
    call("clustered", B.copy())
    call("clustered", B.copy(), 2)
    call("clustered", B.copy(), 3)
    call("clustered rep", B)
    call("clustered rep", B, 2)

    print("end rng", rng_state())


if __name__ == "__main__":
    main()
