import sys, os; sys.path.insert(0, os.getcwd())

import hashlib
import random

import numpy as np

from gcmpy.tools.draw_set import DrawSet
from gcmpy import DrawSet as DrawSetTop
from gcmpy.tools import DrawSet as DrawSetTools

OUT = []


def emit(*parts):
    OUT.append(" ".join(repr(p) for p in parts))


def rng_digest():
    return hashlib.sha256(repr(random.getstate()).encode()).hexdigest()[:16]


def call(label, f, *a):
    try:
        r = f(*a)
        emit(label, "->", r)
        return r
    except BaseException as exc:  # noqa
        emit(label, "raised", type(exc).__name__, exc.args)


def snapshot(ds, label, universe):
    emit(label, "len", len(ds), "bool", bool(ds), "items", list(ds),
         "again", [x for x in ds],
         "member", [(x in ds) for x in universe])


emit("same class", DrawSet is DrawSetTop is DrawSetTools, DrawSet.__name__,
     [c.__name__ for c in DrawSet.__mro__])

U = [(i, j) for i in range(5) for j in range(i + 1, 6)]

# ---- 1. empty object: every entry point ----
random.seed(11)
ds = DrawSet()
snapshot(ds, "empty", U)
call("empty.draw", ds.draw)
call("empty.remove", ds.remove, (0, 1))
call("empty.remove unhashable", ds.remove, [0, 1])
call("empty.add unhashable", ds.add, [0, 1])
call("empty.contains unhashable", ds.__contains__, [0, 1])
snapshot(ds, "empty after errors", U)
emit("rng", rng_digest())

# ---- 2. directed scenarios on one object ----
random.seed(12)
ds = DrawSet()
emit("add returns", ds.add((0, 1)), ds.add((0, 2)), ds.add((1, 2)), ds.add((0, 1)))
snapshot(ds, "three", U)
emit("remove returns", ds.remove((1, 2)))          # tail
snapshot(ds, "tail removed", U)
call("remove absent again", ds.remove, (1, 2))
snapshot(ds, "after failed remove", U)
ds.add((1, 2))
snapshot(ds, "re-added", U)
ds.remove((0, 1))                                   # head -> swap
snapshot(ds, "head removed", U)
ds.add((3, 4)); ds.add((2, 5)); ds.add((0, 1))
ds.remove((0, 2))                                   # middle
snapshot(ds, "middle removed", U)
emit("draws", [ds.draw() for _ in range(25)])
for e in list(ds):                                  # down to empty, FIFO order
    ds.remove(e)
    snapshot(ds, "draining fifo %r" % (e,), U)
call("drained.draw", ds.draw)
call("drained.remove", ds.remove, (0, 1))
for e in U:
    ds.add(e)
for e in reversed(list(ds)):                        # down to empty, LIFO order
    ds.remove(e)
snapshot(ds, "drained lifo", U)
ds.add((4, 5))
snapshot(ds, "single", U)
emit("single draws", [ds.draw() for _ in range(5)])
ds.remove((4, 5))
snapshot(ds, "single removed", U)
emit("rng", rng_digest())

# ---- 3. elements that compare equal but are distinct objects / types ----
random.seed(13)
ds = DrawSet()
for e in [1, 2.0, "a", (1, 2), None, frozenset([3]), True, 1.0, 2]:
    ds.add(e)
emit("mixed", [(type(x).__name__, x) for x in ds], len(ds))
ds.remove(1.0)            # equal to the int 1 stored at slot 0
emit("mixed after remove(1.0)", [(type(x).__name__, x) for x in ds],
     [x in ds for x in (1, True, 1.0, 2, 2.0, "a", None)])
ds.remove(2)              # equal to the float 2.0
emit("mixed after remove(2)", [(type(x).__name__, x) for x in ds])
call("mixed remove(True)", ds.remove, True)
last = list(ds)[-1]
ds.remove(last)
emit("mixed after tail", [(type(x).__name__, x) for x in ds], last in ds)
emit("mixed draws", [ds.draw() for _ in range(10)])
emit("rng", rng_digest())

# ---- 4. mutation while iterating, interleaved iterators ----
random.seed(14)
ds = DrawSet()
for e in U[:6]:
    ds.add(e)
seen = []
for x in ds:
    seen.append(x)
    if len(seen) == 2:
        ds.add((9, 9))
    if len(seen) == 4:
        ds.remove(U[0])
emit("iter with mutation", seen, list(ds))
it1, it2 = iter(ds), iter(ds)
emit("two iterators", next(it1), next(it1), next(it2), list(it1), list(it2),
     call("exhausted", next, it1))
emit("rng", rng_digest())

# ---- 5. seeded random histories against a plain model, full trace ----
for seed in range(40):
    rng = random.Random(1000 + seed)
    random.seed(seed)
    ds, model = DrawSet(), []
    trace = hashlib.sha256()
    for step in range(150):
        op = rng.random()
        if op < 0.45 or not model:
            e = rng.choice(U)
            ds.add(e)
            if e not in model:
                model.append(e)
            rec = ("add", e)
        elif op < 0.55:
            e = rng.choice(U)
            try:
                ds.remove(e)
                rec = ("rm", e, "ok")
                model.remove(e)
            except KeyError as exc:
                rec = ("rm", e, "KeyError", exc.args)
            except Exception as exc:
                rec = ("rm", e, type(exc).__name__)
        elif op < 0.75:
            e = model[-1] if op < 0.65 else rng.choice(model)
            ds.remove(e)
            model.remove(e)
            rec = ("rm-present", e)
        else:
            rec = ("draw", ds.draw())
        trace.update(repr((rec, len(ds), list(ds), [x in ds for x in U])).encode())
    emit("history", seed, trace.hexdigest()[:20], len(ds), list(ds), rng_digest())

# ---- 6. the only library user: MCMC rewiring on a small network ----
try:
    import networkx as nx
    from gcmpy.joint_degree.joint_degree_loaders.joint_degree_manual import JointDegreeManual
    from gcmpy.motif_generators.clique_motif import clique_motif
    from gcmpy.gcm_algorithm.gcm_algorithm_network import GCMAlgorithmNetwork
    from gcmpy.names.gcm_algorithm_names import GCMAlgorithmNames
    from gcmpy.names.joint_degree_names import JointDegreeNames
    from gcmpy.names.tools_names import ToolsNames
    from gcmpy.tools.joint_excess_joint_degree_matrices import JointExcessJointDegreeMatrices
    from gcmpy.tools.markov_chain_monte_carlo_rewiring import MarkovChainMonteCarloRewiring
    from gcmpy.tools.joint_excess_from_ejk import JointExcessFromEjk
    from gcmpy.tools.joint_degree_from_excess import JointDegreeFromExcess

    edge_names = ["2-clique", "3-clique"]
    motif_sizes = [2, 3]
    e1 = e2 = e3 = 1e-8
    ejk_tree = {
        (0, 3, 0, 3): 9 / 81 - e1 - e2, (0, 3, 4, 1): e1, (0, 3, 2, 2): e2,
        (4, 1, 0, 3): e1, (4, 1, 4, 1): 45 / 81 - e1 - e3, (4, 1, 2, 2): e3,
        (2, 2, 0, 3): e2, (2, 2, 4, 1): e3, (2, 2, 2, 2): 27 / 81 - e2 - e3,
    }
    ejk_tri = {
        (3, 1, 3, 1): 48 / 144 - e1 - e2, (3, 1, 1, 2): e1, (3, 1, 5, 0): e2,
        (1, 2, 3, 1): e1, (1, 2, 1, 2): 72 / 144 - e1 - e3, (1, 2, 5, 0): e3,
        (5, 0, 3, 1): e2, (5, 0, 1, 2): e3, (5, 0, 5, 0): 24 / 144 - e2 - e3,
    }
    for seed, size, climit in [(5, 300, 150), (6, 600, 300)]:
        random.seed(seed)
        np.random.seed(seed)
        target = JointExcessJointDegreeMatrices(
            {ToolsNames.EDGE_NAMES: edge_names,
             ToolsNames.EJKS: {"2-clique": dict(ejk_tree), "3-clique": dict(ejk_tri)}})
        qks = JointExcessFromEjk.get_excess_joint_distributions(target)
        jdd = JointDegreeFromExcess.get_joint_degree_distribution(qks, edge_names)
        jds = JointDegreeManual({JointDegreeNames.JDD: jdd,
                                 JointDegreeNames.MOTIF_SIZES: motif_sizes}).sample_jds_from_jdd(size)
        g = GCMAlgorithmNetwork({GCMAlgorithmNames.MOTIF_SIZES: motif_sizes,
                                 GCMAlgorithmNames.EDGE_NAMES: edge_names,
                                 GCMAlgorithmNames.BUILD_FUNCTIONS: [clique_motif, clique_motif]}
                                ).random_clustered_graph(jds)
        mcmc = MarkovChainMonteCarloRewiring({ToolsNames.NETWORK: g, ToolsNames.EJKS: target,
                                              ToolsNames.SEARCH_LIMIT: 20,
                                              ToolsNames.CONVERGENCE_LIMIT: climit})
        for rep in range(2):   # repeated call on the same object
            try:
                G = mcmc.rewire()
                edges = [(u, v, sorted((repr(k), repr(d[k])) for k in d)) for u, v, d in G.edges(data=True)]
                emit("mcmc", seed, rep, G.number_of_nodes(), G.number_of_edges(),
                     hashlib.sha256(repr(edges).encode()).hexdigest()[:20],
                     hashlib.sha256(repr(list(g.G.edges())).encode()).hexdigest()[:20],
                     [repr(x) for x in mcmc._acceptance_ratio[-3:]], len(mcmc._acceptance_ratio),
                     mcmc._proposal_count, mcmc._proposals_accepted, rng_digest(),
                     hashlib.sha256(repr(np.random.get_state()).encode()).hexdigest()[:16])
            except BaseException as exc:  # noqa
                emit("mcmc", seed, rep, "raised", type(exc).__name__, str(exc)[:80], rng_digest())
except BaseException as exc:  # noqa
    emit("mcmc setup raised", type(exc).__name__, str(exc)[:120])

print("\n".join(OUT))
print("DIGEST", hashlib.sha256("\n".join(OUT).encode()).hexdigest())
