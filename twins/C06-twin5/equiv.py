"""Behavioural digest of the joint degree loaders (existing signatures only).

Run with cwd = a checkout of gcmpy.  Prints a deterministic transcript.
"""
import sys
import os
import random
import hashlib
import math

sys.path.insert(0, os.getcwd())

import numpy as np  # noqa: E402

from gcmpy.joint_degree.joint_degree import JointDegree  # noqa: E402
from gcmpy.joint_degree.joint_degree_type import JointDegreeType  # noqa: E402
from gcmpy.joint_degree.joint_degree_factory import JointDegreeFactory  # noqa: E402
from gcmpy.joint_degree.joint_degree_distribution import (  # noqa: E402
    JointDegreeDistribution,
)
from gcmpy.joint_degree.joint_degree_loaders.joint_degree_manual import (  # noqa: E402
    JointDegreeManual,
)
from gcmpy.joint_degree.joint_degree_loaders.joint_degree_empirical import (  # noqa: E402
    JointDegreeEmpirical,
)
from gcmpy.joint_degree.joint_degree_loaders.joint_degree_function import (  # noqa: E402
    JointDegreeFunction,
)
from gcmpy.joint_degree.joint_degree_loaders.joint_degree_marginal import (  # noqa: E402
    JointDegreeMarginal,
)
from gcmpy.names.joint_degree_names import JointDegreeNames as N  # noqa: E402


def seed(s):
    random.seed(s)
    np.random.seed(s)


def rng_state():
    h = hashlib.sha256()
    h.update(repr(random.getstate()).encode())
    st = np.random.get_state()
    h.update(repr((st[0], st[1].tolist(), st[2], st[3], st[4])).encode())
    return h.hexdigest()[:20]


def show(x):
    """Order preserving, bit exact rendering."""
    if isinstance(x, dict):
        return "{" + ", ".join(show(k) + ": " + show(v) for k, v in x.items()) + "}"
    if isinstance(x, list):
        return "[" + ", ".join(show(v) for v in x) + "]"
    if isinstance(x, tuple):
        return "(" + ", ".join(show(v) for v in x) + ",)"
    if isinstance(x, float):
        return repr(x) + "f"
    if callable(x) and hasattr(x, "__name__"):
        return "<callable %s>" % x.__name__
    if type(x).__repr__ is object.__repr__:
        return "<%s object>" % type(x).__name__
    return type(x).__name__ + ":" + repr(x)


def digest(x):
    s = show(x)
    if len(s) > 400:
        return "len=%d sha=%s head=%s" % (
            len(s),
            hashlib.sha256(s.encode()).hexdigest()[:20],
            s[:120],
        )
    return s


def emit(label, thunk):
    try:
        r = thunk()
        print("%s -> %s" % (label, digest(r)))
        return r
    except BaseException as e:  # noqa: B902
        print("%s !! %s: %s" % (label, type(e).__name__, e))
        return None
    finally:
        print("    rng=%s" % rng_state())


def poisson(lam):
    def fp(k):
        return math.exp(-lam) * lam ** k / math.factorial(k)

    fp.__name__ = "poisson_%r" % lam
    return fp


class CountingFn:
    def __init__(self, f, name):
        self.f = f
        self.calls = []
        self.__name__ = name

    def __call__(self, x):
        self.calls.append(x)
        return self.f(x)


class DrawingFn:
    """Marginal that itself consumes the module level RNG (interleaving)."""

    __name__ = "drawing"

    def __call__(self, k):
        return random.random() + 0.1


def state(o):
    d = {}
    for k in sorted(vars(o)):
        d[k] = vars(o)[k]
    return d


# ---------------------------------------------------------------- manual
print("== manual")
seed(1)
jdd = {(1, 0): 0.25, (0, 1): 0.25, (2, 1): 0.5}
sizes = [2, 3]
params = {N.JDD: jdd, N.MOTIF_SIZES: sizes}
m = emit("manual ctor", lambda: state(JointDegreeManual(params)))
m = JointDegreeManual(params)
print("identity jdd", m.jdd is jdd, m._jdd is jdd, "sizes", m.motif_sizes is sizes)
print("params after", digest(params))
emit("manual create_jdd", lambda: m.create_jdd())
print("identity again", m.jdd is jdd)
for n in (0, 1, 7, 50):
    emit("manual sample %d" % n, lambda: m.sample_jds_from_jdd(n))
emit("manual sample repeated", lambda: m.sample_jds_from_jdd(11))
print("jdd after sampling", digest(jdd))
emit("manual missing key", lambda: JointDegreeManual({N.JDD: jdd}))
emit("manual missing jdd", lambda: JointDegreeManual({N.MOTIF_SIZES: [2]}))
emit("manual none", lambda: JointDegreeManual(None))
emit("manual str keys", lambda: JointDegreeManual({"jdd": jdd, "motif_sizes": [2]}))
m0 = JointDegreeManual({N.JDD: {}, N.MOTIF_SIZES: [2]})
emit("manual empty sample", lambda: m0.sample_jds_from_jdd(3))
emit("manual empty sample0", lambda: m0.sample_jds_from_jdd(0))
mz = JointDegreeManual({N.JDD: {(1,): 0.0, (2,): 0.0}, N.MOTIF_SIZES: [2]})
emit("manual zero weights", lambda: mz.sample_jds_from_jdd(3))
mneg = JointDegreeManual({N.JDD: {(1,): 1.0}, N.MOTIF_SIZES: [2]})
emit("manual negative N", lambda: mneg.sample_jds_from_jdd(-1))
emit("manual bool/contains", lambda: bool(m))
emit("manual normalise", lambda: (mneg.normalise_jdd(), mneg.jdd)[1])
mu = JointDegreeManual({N.JDD: {(1, 1): 2.0, (3, 0): 6.0}, N.MOTIF_SIZES: [2, 3]})
emit("manual normalise unnorm", lambda: (mu.normalise_jdd(), mu.jdd)[1])
mu.jdd = {(5,): 1.0}
mu.motif_sizes = [4]
emit("setter then sample", lambda: mu.sample_jds_from_jdd(6))
emit("state", lambda: state(mu))

# ---------------------------------------------------------------- handshaking
print("== handshaking")
seed(2)
h = JointDegreeManual({N.JDD: {(1, 1): 1.0}, N.MOTIF_SIZES: [2, 3]})
for jds in (
    [(1, 1), (1, 1), (1, 1)],
    [(1, 1), (1, 1), (1, 1), (1, 1), (1, 1), (1, 1)],
    [(0, 0)],
    [(1, 2), (3, 4), (5, 7), (0, 1)],
    [],
    [(1, 1, 1)],
    [[1, 1], [2, 2], [1, 0]],
):
    arg = list(jds)
    r = emit("handshake %s" % show(jds), lambda: h.handshaking_lemma(arg))
    print("    same object", r is arg, "arg after", digest(arg))
h1 = JointDegreeManual({N.JDD: {(1,): 1.0}, N.MOTIF_SIZES: [0]})
emit("handshake size zero", lambda: h1.handshaking_lemma([(1,), (2,)]))
h2 = JointDegreeManual({N.JDD: {(1,): 1.0}, N.MOTIF_SIZES: None})
emit("handshake sizes none", lambda: h2.handshaking_lemma([(1,), (2,)]))
emit("handshake tuple arg", lambda: h.handshaking_lemma(((1, 1), (1, 1), (1, 1))))
emit("abstract", lambda: JointDegree())

# ---------------------------------------------------------------- empirical
print("== empirical")
seed(3)
obs = [(1, 0), (1, 0), (0, 2), (3, 1), (1, 0), (0, 2), (2, 2)]
pe = {N.JDS: obs, N.MOTIF_SIZES: [2, 3]}
e = JointDegreeEmpirical(pe)
emit("empirical state", lambda: state(e))
print("identity", e.empirical_jds is obs, "obs after", digest(obs))
emit("empirical create again", lambda: (e.create_jdd(), e.jdd)[1])
emit("empirical sample", lambda: e.sample_jds_from_jdd(9))
e.empirical_jds = [(4, 4)] * 3 + [(0, 0)]
emit("empirical setter create", lambda: (e.create_jdd(), e.jdd)[1])
emit("empirical empty", lambda: JointDegreeEmpirical({N.JDS: [], N.MOTIF_SIZES: [2]}))
emit("empirical unhashable", lambda: JointDegreeEmpirical({N.JDS: [[1], [2]], N.MOTIF_SIZES: [2]}))
emit("empirical missing", lambda: JointDegreeEmpirical({N.MOTIF_SIZES: [2]}))
emit("convert", lambda: (e.convert_jds_to_jdd([(1,), (1,), (2,)]), e.jdd)[1])

# ---------------------------------------------------------------- function
print("== function")
seed(4)


def joint(jd):
    return poisson(1.5)(jd[0]) * poisson(0.7)(jd[1])


cf = CountingFn(joint, "joint")
bounds = [(0, 4), (1, 3)]
pf = {N.FP: cf, N.MOTIF_SIZES: [2, 3], N.LOW_HIGH_DEGREE_BOUND: bounds}
f = JointDegreeFunction(pf)
emit("function state", lambda: state(f))
print("calls", digest(cf.calls))
old = f.jdd
emit("function create again", lambda: (f.create_jdd(), f.jdd)[1])
print("new dict object", f.jdd is not old, "ncalls", len(cf.calls))
emit("function sample", lambda: f.sample_jds_from_jdd(13))
emit("function sample again", lambda: f.sample_jds_from_jdd(13))
emit(
    "function empty range",
    lambda: state(
        JointDegreeFunction(
            {N.FP: joint, N.MOTIF_SIZES: [2, 3], N.LOW_HIGH_DEGREE_BOUND: [(3, 2), (0, 1)]}
        )
    ),
)
emit(
    "function no dims",
    lambda: JointDegreeFunction(
        {N.FP: lambda jd: 1.0, N.MOTIF_SIZES: [], N.LOW_HIGH_DEGREE_BOUND: []}
    ).jdd,
)
emit("function missing", lambda: JointDegreeFunction({N.FP: joint, N.MOTIF_SIZES: [2]}))


def bad(jd):
    if jd == (1, 2):
        raise ValueError("boom at %r" % (jd,))
    return 1.0


fb = JointDegreeFunction.__new__(JointDegreeFunction)
fb._fp = bad
fb._low_high_degree_bounds = [(0, 2), (1, 2)]
fb._motif_sizes = [2, 3]
emit("function raising", lambda: fb.create_jdd())
emit("function partial", lambda: fb.jdd)
emit("function negative", lambda: JointDegreeFunction(
    {N.FP: lambda jd: -1.0 * jd[0], N.MOTIF_SIZES: [2], N.LOW_HIGH_DEGREE_BOUND: [(0, 2)]}).jdd)
emit("function bad bounds", lambda: JointDegreeFunction(
    {N.FP: joint, N.MOTIF_SIZES: [2], N.LOW_HIGH_DEGREE_BOUND: [(0, 2, 3)]}))
emit("function random fp", lambda: JointDegreeFunction(
    {N.FP: lambda jd: random.random(), N.MOTIF_SIZES: [2], N.LOW_HIGH_DEGREE_BOUND: [(0, 5)]}).jdd)

# ---------------------------------------------------------------- marginal
print("== marginal direct")
seed(5)
c1 = CountingFn(poisson(1.2), "p1")
c2 = CountingFn(poisson(0.4), "p2")
mb = [(0, 5), (1, 4)]
pm = {N.ARR_FP: [c1, c2], N.MOTIF_SIZES: [2, 3], N.LOW_HIGH_DEGREE_BOUND: mb}
md = JointDegreeMarginal(pm)
emit("marginal state", lambda: state(md))
print("calls", digest(c1.calls), digest(c2.calls))
emit("marginal all jds", lambda: md.generate_all_joint_degrees())
emit("marginal all jds again", lambda: md.generate_all_joint_degrees())
emit("marginal eval", lambda: md.evaluate_prob_of_joint_degree((2, 1)))
emit("marginal create again", lambda: (md.create_jdd(), md.jdd)[1])
emit("marginal directly", lambda: (md.create_jdd_directly(), md.jdd)[1])
emit("marginal sum", lambda: sum(md.jdd.values()))
emit("marginal sample", lambda: md.sample_jds_from_jdd(17))
print("params after", digest(pm), "bounds", digest(mb))
md._low_high_degree_bounds = [(2, 2), (0, 3)]
emit("marginal empty jds", lambda: md.generate_all_joint_degrees())
emit("marginal empty direct", lambda: (md.create_jdd_directly(), md.jdd)[1])
md._low_high_degree_bounds = [(0, 3)]
emit("marginal 1d", lambda: (md.create_jdd_directly(), md.jdd)[1])
md._low_high_degree_bounds = []
emit("marginal 0d jds", lambda: md.generate_all_joint_degrees())
emit("marginal 0d", lambda: (md.create_jdd_directly(), md.jdd)[1])
md._low_high_degree_bounds = [(0, 3), (0, 3), (0, 2)]
emit("marginal 3d with 2 fps", lambda: md.create_jdd_directly())
emit("marginal 3d jdd", lambda: md.jdd)
md._low_high_degree_bounds = None
emit("marginal none bounds", lambda: md.generate_all_joint_degrees())
md._low_high_degree_bounds = [(0.0, 3)]
emit("marginal float bounds", lambda: md.generate_all_joint_degrees())
emit("marginal zero marginals", lambda: JointDegreeMarginal(
    {N.ARR_FP: [lambda k: 0.0], N.MOTIF_SIZES: [2], N.LOW_HIGH_DEGREE_BOUND: [(0, 3)]}))
emit("marginal missing", lambda: JointDegreeMarginal({N.ARR_FP: [c1], N.MOTIF_SIZES: [2]}))

print("== marginal sampling")
seed(6)
for ns in (0, 1, 5, 200):
    ps = {
        N.ARR_FP: [poisson(1.2), poisson(0.4)],
        N.MOTIF_SIZES: [2, 3],
        N.LOW_HIGH_DEGREE_BOUND: [(0, 5), (1, 4)],
        N.USE_SAMPLING: True,
        N.N_SAMPLES: ns,
    }
    ms = emit("sampling ctor n=%d" % ns, lambda: JointDegreeMarginal(ps))
    if ms is not None:
        emit("  jdd", lambda: ms.jdd)
        emit("  draw", lambda: ms.draw_from_analytical_joint())
        emit("  draw again", lambda: ms.draw_from_analytical_joint())
        emit("  by sampling", lambda: (ms.create_jdd_by_sampling(), ms.jdd)[1])
        emit("  create", lambda: (ms.create_jdd(), ms.jdd)[1])
        emit("  sample", lambda: ms.sample_jds_from_jdd(8))
        emit("  state", lambda: state(ms))
pi = {
    N.ARR_FP: [DrawingFn(), poisson(0.9), DrawingFn()],
    N.MOTIF_SIZES: [2, 3, 4],
    N.LOW_HIGH_DEGREE_BOUND: [(0, 3), (1, 2), (2, 6)],
    N.USE_SAMPLING: True,
    N.N_SAMPLES: 30,
}
mi = emit("interleaved ctor", lambda: JointDegreeMarginal(pi))
emit("interleaved jdd", lambda: mi.jdd)
emit("interleaved draw", lambda: mi.draw_from_analytical_joint())
emit("interleaved resample", lambda: (mi.create_jdd_by_sampling(), mi.jdd)[1])
emit("interleaved direct", lambda: (mi.create_jdd_directly(), mi.jdd)[1])
emit("interleaved sample", lambda: mi.sample_jds_from_jdd(10))
mi._arr_fp = [poisson(1.0)]
emit("sampling too few fps", lambda: mi.draw_from_analytical_joint())
mi._arr_fp = [lambda k: 0.0, lambda k: 0.0, lambda k: 0.0]
emit("sampling zero weights", lambda: mi.draw_from_analytical_joint())
mi._low_high_degree_bounds = []
emit("sampling no dims", lambda: mi.draw_from_analytical_joint())
mi._low_high_degree_bounds = [(3, 1)]
emit("sampling empty range", lambda: mi.draw_from_analytical_joint())
emit("default n_samples", lambda: JointDegreeMarginal(
    {N.ARR_FP: [poisson(1.0)], N.MOTIF_SIZES: [2], N.LOW_HIGH_DEGREE_BOUND: [(0, 3)],
     N.USE_SAMPLING: True}).jdd)

# ---------------------------------------------------------------- factory / dispatcher
print("== factory and dispatcher")
seed(7)


def all_params():
    return {
        JointDegreeType.MANUAL: {N.JDD: {(1, 0): 0.5, (0, 1): 0.5}, N.MOTIF_SIZES: [2, 3]},
        JointDegreeType.EMPIRICAL: {N.JDS: [(1, 0), (0, 1), (1, 0)], N.MOTIF_SIZES: [2, 3]},
        JointDegreeType.JOINT_FUNCTION: {
            N.FP: joint, N.MOTIF_SIZES: [2, 3], N.LOW_HIGH_DEGREE_BOUND: [(0, 3), (0, 2)]},
        JointDegreeType.MARGINAL: {
            N.ARR_FP: [poisson(1.0), poisson(2.0)], N.MOTIF_SIZES: [2, 3],
            N.LOW_HIGH_DEGREE_BOUND: [(0, 4), (0, 3)]},
    }


for t, p in all_params().items():
    o = emit("factory %s" % t.value, lambda: JointDegreeFactory.resolve_joint_degree(t, p))
    emit("  type/state", lambda: (type(o).__name__, state(o)))
    emit("  instance call", lambda: type(JointDegreeFactory().resolve_joint_degree(t, p)).__name__)
sp = {
    N.ARR_FP: [poisson(1.0), poisson(2.0)], N.MOTIF_SIZES: [2, 3],
    N.LOW_HIGH_DEGREE_BOUND: [(0, 4), (0, 3)], N.USE_SAMPLING: True, N.N_SAMPLES: 50}
o = emit("factory marginal sampling", lambda: JointDegreeFactory.resolve_joint_degree(JointDegreeType.MARGINAL, sp))
emit("  jdd", lambda: o.jdd)
emit("factory undefined", lambda: JointDegreeFactory.resolve_joint_degree(JointDegreeType.UNDEFINED, {}))
emit("factory string", lambda: JointDegreeFactory.resolve_joint_degree("manual", {}))
emit("factory none", lambda: JointDegreeFactory.resolve_joint_degree(None, None))
emit("factory bad params", lambda: JointDegreeFactory.resolve_joint_degree(JointDegreeType.MANUAL, {}))
emit("factory kw", lambda: type(JointDegreeFactory.resolve_joint_degree(
    type=JointDegreeType.MANUAL, params=all_params()[JointDegreeType.MANUAL])).__name__)
emit("factory too few", lambda: JointDegreeFactory.resolve_joint_degree(JointDegreeType.MANUAL))

for t, p in all_params().items():
    p = dict(p)
    p[N.JOINT_DEGREE_TYPE] = t.value
    before = show(p)
    o = emit("load %s" % t.value, lambda: JointDegreeDistribution.load_joint_degree(p))
    emit("  type/state", lambda: (type(o).__name__, state(o)))
    d = JointDegreeFactory.resolve_joint_degree(t, p)
    print("  same as direct", show(d.jdd) == show(o.jdd), "params unchanged", show(p) == before)
    emit("  sample", lambda: o.sample_jds_from_jdd(12))
    p[N.JOINT_DEGREE_TYPE] = t
    emit("  load enum-typed", lambda: JointDegreeDistribution.load_joint_degree(p).jdd)
sp2 = dict(sp)
sp2[N.JOINT_DEGREE_TYPE] = "marginal"
o = emit("load marginal sampling", lambda: JointDegreeDistribution.load_joint_degree(sp2))
emit("  jdd", lambda: o.jdd)
mp = all_params()[JointDegreeType.MANUAL]
mp[N.JOINT_DEGREE_TYPE] = "manual"
o = JointDegreeDistribution.load_joint_degree(mp)
print("manual identity through dispatcher", o.jdd is mp[N.JDD])
emit("load no type", lambda: JointDegreeDistribution.load_joint_degree({}))
emit("load bad type", lambda: JointDegreeDistribution.load_joint_degree({N.JOINT_DEGREE_TYPE: "nope"}))
emit("load undefined", lambda: JointDegreeDistribution.load_joint_degree({N.JOINT_DEGREE_TYPE: "undefined"}))
emit("load none", lambda: JointDegreeDistribution.load_joint_degree(None))
emit("load kw", lambda: JointDegreeDistribution.load_joint_degree(params=mp).jdd)
emit("load instance", lambda: JointDegreeDistribution().load_joint_degree(mp).jdd)
print("final rng", rng_state())
