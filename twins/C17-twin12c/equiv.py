import sys, os; sys.path.insert(0, os.getcwd())
if os.environ.get("PYTHONHASHSEED") != "0":
    # string vertices make set order (and hence cache keys / float summation order) depend on
    # the hash seed: pin it so that the digest is deterministic
    os.environ["PYTHONHASHSEED"] = "0"
    os.execv(sys.executable, [sys.executable] + sys.argv)
import random, hashlib, itertools
from fractions import Fraction
import numpy as np
import networkx as nx
from gcmpy.message_passing.message_passing import MessagePassing
from gcmpy.message_passing.message_passing_mixin import MessagePassingMixin
from gcmpy.message_passing.equations.automated_equation import AutomatedEquation

random.seed(1717)
np.random.seed(1717)

OUT = []


def emit(*a):
    OUT.append(" ".join(str(x) for x in a))


def canon(x):
    """order-preserving, exact textual form (sets are sorted by repr)"""
    if isinstance(x, (set, frozenset)):
        return "{" + ",".join(sorted(canon(y) for y in x)) + "}"
    if isinstance(x, dict):
        return "{" + ",".join(canon(k) + ":" + canon(v) for k, v in x.items()) + "}"
    if isinstance(x, list):
        return "[" + ",".join(canon(y) for y in x) + "]"
    if isinstance(x, tuple):
        return "(" + ",".join(canon(y) for y in x) + ")"
    return type(x).__name__ + ":" + repr(x)


def graph_state(G):
    try:
        return canon([type(G).__name__, G.name, list(G.nodes(data=True)), list(G.edges(data=True)), dict(G.graph)])
    except Exception as e:  # pragma: no cover
        return "graph_state-failed:" + type(e).__name__


def ae_state(ae):
    return canon([ae._connected_subgraphs, ae._edge_combinations])


def mp_state(mp):
    d = dict(mp.__dict__)
    s = []
    for k, v in d.items():
        if k == "_MPM":
            s.append("_MPM:" + canon(v._CoverType) + graph_state(v._G))
        elif k == "_AE":
            s.append("_AE:" + ae_state(v))
        else:
            s.append(k + ":" + canon(v))
    return "|".join(s)


def h(s):
    return hashlib.sha256(s.encode()).hexdigest()[:20]


def call(tag, f, *a, **k):
    try:
        r = f(*a, **k)
        emit(tag, "->", canon(r))
        return r
    except BaseException as e:
        emit(tag, "!!", type(e).__name__, repr(str(e))[:200])
        return None


def label(key, vs, es, uid):
    return f"{key}-{list(vs)}-{list(es)}-{uid}"


def cover_graph(motifs, extra_nodes=(), cls=nx.Graph):
    """motifs: list of (key, vertices, edges); uid = position"""
    G = cls()
    G.add_nodes_from(extra_nodes)
    for uid, (key, vs, es) in enumerate(motifs):
        lab = label(key, vs, es, uid)
        for (a, b) in es:
            G.add_edge(a, b, CoverLabel=lab)
    return G


def clique(vs):
    vs = list(vs)
    return (len(vs), vs, list(itertools.combinations(vs, 2)))


def cycle(vs):
    vs = list(vs)
    return (100 + len(vs), vs, [(vs[i], vs[(i + 1) % len(vs)]) for i in range(len(vs))])


def diamond(vs):
    a, b, c, d = vs
    return (204, [a, b, c, d], [(a, b), (b, c), (c, d), (d, a), (a, c)])


def path_motif(vs):
    vs = list(vs)
    return (300 + len(vs), vs, [(vs[i], vs[i + 1]) for i in range(len(vs) - 1)])


def random_cover(rng, n, n_motifs):
    """edge-disjoint random cover: motifs placed on random vertex tuples, skipping edge clashes"""
    used = set()
    motifs = []
    tries = 0
    while len(motifs) < n_motifs and tries < 200:
        tries += 1
        kind = rng.choice(["e", "e", "t", "c4", "k4", "d", "p3", "c5"])
        size = {"e": 2, "t": 3, "c4": 4, "k4": 4, "d": 4, "p3": 3, "c5": 5}[kind]
        if size > n:
            continue
        vs = rng.sample(range(n), size)
        m = {"e": clique, "t": clique, "k4": clique, "c4": cycle, "c5": cycle, "d": diamond, "p3": path_motif}[kind](vs)
        es = {frozenset(e) for e in m[2]}
        if es & used:
            continue
        used |= es
        motifs.append(m)
    return motifs


PHIS = [0.0, 1.0, 0.5, 0.3, 0.8, 0.3, 0.0, 0.97]
BAD_PHIS = [-0.25, 1.5, "0.5", None, 1, 0, True, Fraction(1, 3), 2 + 0j, float("nan"), float("inf")]


def named_graphs():
    gs = {}
    gs["empty"] = cover_graph([])
    gs["isolated-only"] = cover_graph([], extra_nodes=[0, 1, 2])
    gs["single-edge"] = cover_graph([clique([0, 1])])
    gs["single-edge+isolated"] = cover_graph([clique([0, 1])], extra_nodes=[7, 8])
    gs["single-triangle"] = cover_graph([clique([0, 1, 2])])
    gs["single-diamond"] = cover_graph([diamond([0, 1, 2, 3])])
    gs["single-c5"] = cover_graph([cycle([0, 1, 2, 3, 4])])
    gs["path-of-edges"] = cover_graph([clique([i, i + 1]) for i in range(5)])
    gs["star-of-edges"] = cover_graph([clique([0, i]) for i in range(1, 6)])
    gs["triangle+tail"] = cover_graph([clique([0, 1, 2]), clique([2, 3]), clique([3, 4])])
    gs["two-triangles-shared-vertex"] = cover_graph([clique([0, 1, 2]), clique([2, 3, 4])])
    gs["two-components"] = cover_graph([clique([0, 1, 2]), cycle([5, 6, 7, 8]), clique([8, 9])])
    gs["p3-motifs"] = cover_graph([path_motif([0, 1, 2]), path_motif([2, 3, 4]), clique([1, 3])])
    gs["k4+c4"] = cover_graph([clique([0, 1, 2, 3]), cycle([3, 4, 5, 6]), clique([6, 0])])
    gs["string-vertices"] = cover_graph([clique(["a", "b", "c"]), clique(["c", "d"])])
    gs["digraph"] = cover_graph([clique([0, 1, 2]), clique([2, 3])], cls=nx.DiGraph)
    gs["multigraph"] = cover_graph([clique([0, 1, 2]), clique([2, 3])], cls=nx.MultiGraph)
    # malformed covers
    g = cover_graph([clique([0, 1, 2]), clique([2, 3])])
    g.add_edge(3, 4)  # edge without a cover label
    gs["unlabelled-edge"] = g
    g = nx.Graph()
    g.add_edge(0, 1, CoverLabel=label(2, [0, 1, 9], [(0, 1), (1, 9)], 0))  # vertex 9 not in G
    gs["label-vertex-missing"] = g
    g = nx.Graph()
    g.add_edge(0, 1, CoverLabel=label(2, [0], [(0, 1)], 0))  # vertex list too short
    g.add_edge(1, 2, CoverLabel=label(2, [1, 2], [(1, 2)], 1))
    gs["label-vertices-short"] = g
    g = nx.Graph()
    g.add_edge(0, 1, CoverLabel=label(2, [], [(0, 1)], 0))  # empty vertex list
    gs["label-vertices-empty"] = g
    g = nx.Graph()
    g.add_edge(0, 1, CoverLabel=label(2, [0, 1, 1, 0], [(0, 1), (0, 1)], 0))  # duplicates
    g.add_edge(1, 2, CoverLabel=label(2, [1, 2], [(1, 2)], 1))
    gs["label-duplicates"] = g
    g = nx.Graph()
    g.add_edge(0, 1, CoverLabel="2-[[0], [1]]-[(0, 1)]-0")  # unhashable vertices
    gs["label-unhashable"] = g
    g = nx.Graph()
    g.add_edge(0, 1, CoverLabel="2-[0, 1.0, True]-[(0, 1)]-0")  # hash-equal vertex spellings
    g.add_edge(1, 2, CoverLabel="2-[1, 2]-[(1, 2)]-1")
    gs["label-hash-equal"] = g
    g = nx.Graph()
    g.add_edge(0, 1, CoverLabel="garbage")
    gs["label-garbage"] = g
    g = nx.Graph()
    g.add_edge(0, 1, CoverLabel="2-[0, 1]-[(0, 1)]-x")
    gs["label-bad-id"] = g
    g = nx.Graph()
    g.add_edge(0, 0, CoverLabel=label(1, [0], [(0, 0)], 0))  # self loop
    g.add_edge(0, 1, CoverLabel=label(2, [0, 1], [(0, 1)], 1))
    gs["self-loop"] = g
    g = nx.Graph()  # two motifs sharing one ID
    g.add_edge(0, 1, CoverLabel=label(2, [0, 1], [(0, 1)], 0))
    g.add_edge(1, 2, CoverLabel=label(2, [1, 2], [(1, 2)], 0))
    g.add_edge(2, 3, CoverLabel=label(2, [2, 3], [(2, 3)], 1))
    gs["shared-motif-id"] = g
    g = nx.Graph()  # motif edges in the label that the graph does not have
    g.add_edge(0, 1, CoverLabel=label(3, [0, 1, 2], [(0, 1), (1, 2), (0, 2)], 0))
    g.add_edge(1, 2, CoverLabel=label(3, [0, 1, 2], [(0, 1), (1, 2), (0, 2)], 0))
    g.add_edge(2, 3, CoverLabel=label(2, [2, 3], [(2, 3)], 1))
    gs["label-extra-edge"] = g
    rng = random.Random(99)
    for t in range(6):
        n = rng.randint(4, 11)
        gs[f"random-{t}"] = cover_graph(random_cover(rng, n, rng.randint(2, 7)), extra_nodes=range(n) if t % 2 else ())
    return gs


def run_theoretical_suite(iterations_for=lambda name: 4):
    for name, G in named_graphs().items():
        before = graph_state(G)
        it = iterations_for(name)
        mp = MessagePassing(G, iterations=it)
        for phi in PHIS:
            call(f"[{name}] theoretical({phi!r})", mp.theoretical, phi)
            emit(f"[{name}]   state", h(mp_state(mp)), "H_tau", canon(mp._H_tau)[:400])
        # fresh object per phi must agree with the reused one (digest only records)
        for phi in PHIS[:4]:
            fresh = MessagePassing(G, iterations=it)
            call(f"[{name}] fresh theoretical({phi!r})", fresh.theoretical, phi)
            emit(f"[{name}]   fresh state", h(mp_state(fresh)))
        for phi in BAD_PHIS:
            call(f"[{name}] bad-phi theoretical({phi!r})", mp.theoretical, phi)
            emit(f"[{name}]   state", h(mp_state(mp)))
        emit(f"[{name}] graph unchanged", before == graph_state(G))
    # malformed constructor arguments
    G = named_graphs()["triangle+tail"]
    for it in [0, -3, 1, 2.5, "3", None, True]:
        mp = MessagePassing(G, iterations=it)
        call(f"[iterations={it!r}] theoretical(0.6)", mp.theoretical, 0.6)
        emit("   state", h(mp_state(mp)), canon(mp._H_tau)[:300])
    for bad in [None, 5, "graph", {0: {1: {}}}]:
        try:
            mp = MessagePassing(bad)
            call(f"[G={bad!r}] theoretical(0.5)", mp.theoretical, 0.5)
            emit("   state", canon({k: v for k, v in mp.__dict__.items() if k not in ("_MPM", "_AE")}))
        except BaseException as e:
            emit("   ctor failed", type(e).__name__)


def finish():
    emit("random state", h(repr(random.getstate())))
    emit("numpy state", h(repr(np.random.get_state())))
    text = "\n".join(OUT)
    print(text)
    print("DIGEST", hashlib.sha256(text.encode()).hexdigest())


# ---------------------------------------------------------------------------
# variant c: automated_equation / dropping the vertices left without edges
# ---------------------------------------------------------------------------
def with_u(G, us=None, name=None):
    if us is None:
        us = {n: 0.3 + 0.05 * i for i, n in enumerate(G.nodes())}
    nx.set_node_attributes(G, us, "u")
    if name is not None:
        G.name = name
    return G


def motif_graphs():
    ms = {}
    ms["K1"] = with_u(nx.empty_graph(1), name="K1")                     # root only, no edges
    ms["K2"] = with_u(nx.complete_graph(2), name="K2")
    ms["K3"] = with_u(nx.complete_graph(3), name="K3")
    ms["K4"] = with_u(nx.complete_graph(4), name="K4")
    ms["C4"] = with_u(nx.cycle_graph(4), name="C4")
    ms["C5"] = with_u(nx.cycle_graph(5), name="C5")
    ms["P4"] = with_u(nx.path_graph(4), name="P4")
    ms["S4"] = with_u(nx.star_graph(4), name="S4")
    d = nx.Graph([(0, 1), (1, 2), (2, 3), (3, 0), (0, 2)])
    ms["diamond"] = with_u(d, name="diamond")
    ms["bowtie"] = with_u(nx.Graph([(0, 1), (1, 2), (2, 0), (2, 3), (3, 4), (4, 2)]), name="bowtie")
    # already contains vertices without edges (the full component leaves them to be dropped)
    g = nx.complete_graph(3); g.add_nodes_from([7, 8])
    ms["K3+isolated"] = with_u(g, name="K3+isolated")
    g = nx.empty_graph(3)
    ms["E3"] = with_u(g, name="E3")
    # disconnected motif
    ms["2K2"] = with_u(nx.Graph([(0, 1), (2, 3)]), name="2K2")
    # self loops
    g = nx.Graph([(0, 0), (0, 1), (1, 2)])
    ms["selfloop-root"] = with_u(g, name="selfloop-root")
    g = nx.Graph([(0, 1), (1, 1), (1, 2)])
    ms["selfloop-inner"] = with_u(g, name="selfloop-inner")
    g = nx.Graph([(0, 1)]); g.add_edge(2, 2)
    ms["selfloop-isolated"] = with_u(g, name="selfloop-isolated")
    # other graph classes
    ms["DiK3"] = with_u(nx.DiGraph([(0, 1), (1, 2), (2, 0)]), name="DiK3")
    ms["DiP3"] = with_u(nx.DiGraph([(0, 1), (1, 2)]), name="DiP3")
    ms["MultiK2"] = with_u(nx.MultiGraph([(0, 1), (0, 1), (1, 2)]), name="MultiK2")
    ms["MultiDi"] = with_u(nx.MultiDiGraph([(0, 1), (0, 1), (1, 0)]), name="MultiDi")
    ms["frozen-K3"] = nx.freeze(with_u(nx.complete_graph(3), name="frozen-K3"))
    base = with_u(nx.complete_graph(5), name="base")
    ms["subgraph-view"] = base.subgraph([0, 1, 2])
    # attributes
    ms["no-u"] = nx.complete_graph(3)
    g = with_u(nx.complete_graph(3), name="partial-u"); del g.nodes[2]["u"]
    ms["partial-u"] = g
    ms["u-string"] = with_u(nx.complete_graph(3), us={0: "x", 1: "y", 2: "z"}, name="u-string")
    ms["u-int"] = with_u(nx.complete_graph(3), us={0: 1, 1: 1, 2: 0}, name="u-int")
    ms["u-fraction"] = with_u(nx.complete_graph(3), us={n: Fraction(1, 3) for n in range(3)}, name="u-frac")
    ms["unnamed"] = with_u(nx.complete_graph(3))
    ms["str-nodes"] = with_u(nx.Graph([("a", "b"), ("b", "c"), ("c", "a"), ("c", "d")]), name="str-nodes")
    ms["edge-data"] = with_u(nx.Graph([(0, 1, {"w": 2}), (1, 2, {"w": 3})]), name="edge-data")
    return ms


PS = [0.0, 1.0, 0.5, 0.3141, -0.5, 1.5, 1, 0, True, Fraction(2, 5), 0.5 + 0j, "0.5", None, float("nan"), float("inf"), [0.5]]


def variant_specific():
    ms = motif_graphs()
    shared = AutomatedEquation()          # one object for everything: exercises the caches, incl. name clashes
    for name, G in ms.items():
        before = graph_state(G)
        own = AutomatedEquation()
        roots = list(G.nodes()) + ["ghost", None]
        for root in roots:
            for p in PS:
                for tag, ae in (("own", own), ("shared", shared)):
                    call(f"[{name}] {tag} automated_equation(root={root!r}, p={p!r})", ae.automated_equation, G, p, root)
            emit(f"[{name}] root={root!r} caches", h(ae_state(own)), h(ae_state(shared)))
        emit(f"[{name}] own caches", ae_state(own)[:600])
        emit(f"[{name}] motif untouched", before == graph_state(G))
        # helpers directly
        for root in roots[:3] + ["ghost"]:
            call(f"[{name}] get_us(root={root!r})", AutomatedEquation().get_us, G, root)
            call(f"[{name}] get_connected_subgraphs(root={root!r})", AutomatedEquation().get_connected_subgraphs, G, root)
        call(f"[{name}] get_edge_combinations", AutomatedEquation().get_edge_combinations, G, list(G.nodes()))
    # same name, different graphs: stale cache hits must be the same stale hits
    ae = AutomatedEquation()
    a = with_u(nx.complete_graph(3), name="clash")
    b = with_u(nx.path_graph(3), name="clash")
    c = with_u(nx.star_graph(3), name="clash")
    for G in (a, b, c, b, a):
        for root in (0, 1):
            call(f"[clash] {type(G).__name__} n={G.order()} m={G.size()} root={root}", ae.automated_equation, G, 0.6, root)
    emit("[clash] caches", ae_state(ae))
    # poisoned caches
    ae = AutomatedEquation()
    G = with_u(nx.complete_graph(3), name="poison")
    for comps in ([], [set()], [{0}], [{0, 1, 2}], [{5}], [{0, 5}], [{0}, {0}], [[0, 1]], [{1, 2}], None, [7]):
        ae._connected_subgraphs["0-poison"] = comps
        call(f"[poison] components={comps!r}", ae.automated_equation, G, 0.4, 0)
    emit("[poison] caches", ae_state(ae))
    # non-graph arguments
    for bad in (None, 5, "K3", {0: [1]}, [(0, 1)]):
        call(f"[bad G={bad!r}]", AutomatedEquation().automated_equation, bad, 0.5, 0)
    # random motifs, every root, several p
    rng = random.Random(4242)
    ae = AutomatedEquation()
    for t in range(40):
        n = rng.randint(1, 6)
        G = nx.gnp_random_graph(n, rng.choice([0.3, 0.6, 0.9]), seed=rng.randint(0, 10 ** 6))
        if G.size() > 8:
            G.remove_edges_from(list(G.edges())[8:])
        with_u(G, us={v: rng.random() for v in G.nodes()}, name=f"rnd{t}")
        for root in G.nodes():
            for p in (0.0, 1.0, rng.random()):
                call(f"[rnd{t} n={n} m={G.size()}] root={root} p={p!r}", ae.automated_equation, G, p, root)
    emit("[rnd] caches", h(ae_state(ae)))


run_theoretical_suite()
variant_specific()
finish()
