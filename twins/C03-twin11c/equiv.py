import sys, os; sys.path.insert(0, os.getcwd())
# Variant c: GCMAlgorithmFactory.resolve_algorithm (dispatch from GCMAlgorithmTypes
# to the three generator classes).  Exercises the factory directly with every enum
# member, with non-members (strings, None, unhashable values, objects with
# instrumented / hostile __eq__, numpy arrays), with malformed parameter dicts,
# through GCMAlgorithmMain.load_gcm_algorithm, repeatedly, and then runs the
# generators it returned; prints a deterministic digest with exception types
# (incl. the chained context) and RNG states.
import hashlib
import inspect
import random

import numpy as np

from gcmpy.gcm_algorithm import gcm_algorithm_factory as factory_module
from gcmpy.gcm_algorithm.gcm_algorithm import GCMAlgorithm
from gcmpy.gcm_algorithm.gcm_algorithm_fast import GCMAlgorithmFast
from gcmpy.gcm_algorithm.gcm_algorithm_network import GCMAlgorithmNetwork
from gcmpy.gcm_algorithm.gcm_algorithm_custom_motifs import GCMAlgorithmCustomMotifs
from gcmpy.gcm_algorithm.gcm_algorithm_main import GCMAlgorithmMain
from gcmpy.gcm_algorithm.gcm_algorithm_factory import GCMAlgorithmFactory
from gcmpy.gcm_algorithm.gcm_algorithm_types import GCMAlgorithmTypes
from gcmpy.names.gcm_algorithm_names import GCMAlgorithmNames as N
from gcmpy.names.network_names import NetworkNames
from gcmpy.names.tools_names import ToolsNames
from gcmpy.motif_generators.clique_motif import clique_motif
from gcmpy.motif_generators.cycle_motif import cycle_motif
from gcmpy.network.edge_list import LightWeightEdgeList
from gcmpy.network.network import Network

random.seed(27182818)
np.random.seed(27182818)


def h(obj) -> str:
    return hashlib.sha256(repr(obj).encode()).hexdigest()[:16]


def rng() -> str:
    st = np.random.get_state()
    return "py=" + h(random.getstate()) + " np=" + h((st[0], st[1].tolist(), st[2], st[3], st[4]))


def attempt(label, fn):
    try:
        r = fn()
        print(label, "->", r)
    except BaseException as e:  # noqa
        ctx = type(e.__context__).__name__ if e.__context__ is not None else None
        print(label, "-> EXC", type(e).__name__, "|", str(e)[:90], "| ctx", ctx)
    print("   rng", rng())


def show(g):
    if isinstance(g, LightWeightEdgeList):
        return ("EL", len(g.edge_list), h(g.edge_list), h(g.topologies), h(g.motif_id), h(g.joint_degrees))
    if isinstance(g, Network):
        es = sorted((min(u, v), max(u, v), str(d.get(NetworkNames.TOPOLOGY)), d.get(NetworkNames.MOTIF_IDS))
                    for u, v, d in g.G.edges(data=True))
        return ("NW", g.G.number_of_nodes(), len(es), h(es), h(list(g.G.edges())))
    return ("??", type(g).__name__)


def describe(alg):
    d = vars(alg)
    return (type(alg).__name__, type(alg).__mro__[1].__name__, list(d),
            [(k, v if not callable(v) else "fn") for k, v in d.items() if not isinstance(v, list)],
            [(k, len(v)) for k, v in d.items() if isinstance(v, list)])


def two(vs):
    return (vs[0], vs[1])


def two_names():
    return "2-clique"


def three(vs):
    return (vs[0], vs[1]), (vs[0], vs[2]), (vs[1], vs[2])


def three_names():
    return "3-clique", "3-clique", "3-clique"


fastp = {N.MOTIF_SIZES: [2, 3], N.EDGE_NAMES: ["2-clique", "3-cycle"], N.BUILD_FUNCTIONS: [clique_motif, cycle_motif]}
motifp = {N.MOTIF_SIZES: [2, 3], N.EDGE_NAMES: [two_names, three_names], N.BUILD_FUNCTIONS: [two, three],
          N.MOTIF_INDICES: [[0], [1]]}

# ---------------------------------------------------------------- 1. members
print("== 1 members")
print("sig", inspect.signature(GCMAlgorithmFactory.resolve_algorithm),
      isinstance(inspect.getattr_static(GCMAlgorithmFactory, "resolve_algorithm"), staticmethod),
      sorted(k for k in vars(GCMAlgorithmFactory) if not k.startswith("__")),
      [m.name for m in GCMAlgorithmTypes], [m.value for m in GCMAlgorithmTypes])
for member in GCMAlgorithmTypes:
    for pname, p in (("fastp", fastp), ("motifp", motifp)):
        attempt(f"resolve({member}, {pname})", lambda: describe(GCMAlgorithmFactory.resolve_algorithm(member, p)))
        attempt(f"resolve-kw({member}, {pname})",
                lambda: describe(GCMAlgorithmFactory.resolve_algorithm(params=p, type=member)))
        attempt(f"resolve-instance({member}, {pname})",
                lambda: describe(GCMAlgorithmFactory().resolve_algorithm(member, p)))
# fresh object each call, parameters shared by reference not copied
a1 = GCMAlgorithmFactory.resolve_algorithm(GCMAlgorithmTypes.FAST, fastp)
a2 = GCMAlgorithmFactory.resolve_algorithm(GCMAlgorithmTypes.FAST, fastp)
print("fresh", a1 is a2, a1._motif_sizes is fastp[N.MOTIF_SIZES], a2._build_functions is fastp[N.BUILD_FUNCTIONS],
      a1._edge_names is a2._edge_names, list(fastp), isinstance(a1, GCMAlgorithm))
print("   rng", rng())

# ---------------------------------------------------------------- 2. non-members
print("== 2 non-members")


class Hostile:
    """records the comparisons made against it and answers from a script"""

    def __init__(self, answers, hashable=True, raise_at=None):
        self.answers, self.log, self.raise_at = list(answers), [], raise_at
        if not hashable:
            self.__class__ = type("HostileUnhashable", (Hostile,), {"__hash__": None})

    def __eq__(self, other):
        self.log.append(("eq", getattr(other, "name", repr(other))))
        if self.raise_at is not None and len(self.log) == self.raise_at:
            raise ArithmeticError("no comparison today")
        return self.answers.pop(0) if self.answers else False

    def __hash__(self):
        self.log.append("hash")
        return hash(GCMAlgorithmTypes.NETWORK)

    def __repr__(self):
        return "Hostile"


class Truthless:
    def __bool__(self):
        raise OverflowError("no truth value")


plain_bad = ["fast", "network", "motifs", "FAST", "", None, 0, 1, 2.5, (), ("fast",), [], ["fast"], {}, {"fast"},
             GCMAlgorithmTypes, GCMAlgorithmFast, N.GCM_TYPE, ToolsNames.NETWORK, NetworkNames.TOPOLOGY, b"fast",
             np.str_("fast"), np.array([1, 2]), np.array([]), np.array(["fast"]), float("nan"), object]
for i, bad in enumerate(plain_bad):
    lab = repr(bad)[:50].replace("\n", " ")
    attempt(f"resolve(#{i} {lab}, fastp)", lambda: describe(GCMAlgorithmFactory.resolve_algorithm(bad, fastp)))
    attempt(f"resolve(#{i} {lab}, {{}})", lambda: describe(GCMAlgorithmFactory.resolve_algorithm(bad, {})))
for answers, hashable, raise_at in [
    ([True], True, None), ([False, True], True, None), ([False, False, True], True, None), ([False, False, False], True, None),
    ([True], False, None), ([False, True], False, None), ([False, False, True], False, None), ([], False, None),
    ([1, 0], True, None), ([0, "yes"], True, None), ([0, 0, [0]], True, None), ([None, (), 0.0], True, None),
    ([NotImplemented], True, None), ([False, NotImplemented, NotImplemented], True, None),
    ([], True, 1), ([], True, 2), ([], True, 3), ([], False, 2),
    ([Truthless()], True, None), ([False, Truthless()], True, None), ([False, False, Truthless()], True, None),
    ([np.array([True, False])], True, None), ([np.array([True])], True, None), ([np.array([])], True, None),
]:
    for pname, p in (("fastp", fastp), ("motifp", motifp), ("empty", {})):
        hst = Hostile(answers, hashable, raise_at)
        lab = repr(answers).replace("\n", " ")[:60] if not any(isinstance(a, Truthless) for a in answers) else f"Truthless@{len(answers)}"
        attempt(f"hostile({lab}, hashable={hashable}, raise_at={raise_at}, {pname})",
                lambda: describe(GCMAlgorithmFactory.resolve_algorithm(hst, p)))
        print("   log", hst.log)
attempt("no-args", lambda: GCMAlgorithmFactory.resolve_algorithm())
attempt("one-arg", lambda: GCMAlgorithmFactory.resolve_algorithm(GCMAlgorithmTypes.FAST))
attempt("three-args", lambda: GCMAlgorithmFactory.resolve_algorithm(GCMAlgorithmTypes.FAST, fastp, 1))

# ---------------------------------------------------------------- 3. malformed parameter dicts
print("== 3 malformed params")
bad_params = [{}, None, [], 5, "x", {N.MOTIF_SIZES: [2]}, {N.MOTIF_SIZES: [2], N.BUILD_FUNCTIONS: [clique_motif]},
              {N.MOTIF_INDICES: [[0]]}, {"motif_sizes": [2], "build_functions": [clique_motif], "edge_names": ["e"]},
              {N.MOTIF_SIZES: None, N.BUILD_FUNCTIONS: None, N.EDGE_NAMES: None},
              {N.MOTIF_SIZES: None, N.BUILD_FUNCTIONS: None, N.EDGE_NAMES: None, N.MOTIF_INDICES: None}]
for i, bp in enumerate(bad_params):
    for member in GCMAlgorithmTypes:
        attempt(f"resolve({member.name}, bad#{i})", lambda: describe(GCMAlgorithmFactory.resolve_algorithm(member, bp)))
    for t in ("fast", "network", "motifs", "other", GCMAlgorithmTypes.MOTIFS, None):
        def run(bp=bp, t=t):
            q = dict(bp) if isinstance(bp, dict) else bp
            if isinstance(q, dict):
                q[N.GCM_TYPE] = t
            return describe(GCMAlgorithmMain.load_gcm_algorithm(q))
        attempt(f"main(type={t!r}, bad#{i})", run)

# ---------------------------------------------------------------- 4. main entry point + generators
print("== 4 main + generators")


def rand_jds(n, sizes, kmax):
    cols = []
    for s in sizes:
        col = [0] * n
        for _ in range(s * random.randint(0, max(1, n * kmax // (2 * s)))):
            col[random.randrange(n)] += 1
        cols.append(col)
    return [tuple(c[i] for c in cols) for i in range(n)]


for t in ("fast", "network", "motifs", GCMAlgorithmTypes.FAST, GCMAlgorithmTypes.NETWORK, GCMAlgorithmTypes.MOTIFS):
    p = dict(motifp if GCMAlgorithmTypes(t) is GCMAlgorithmTypes.MOTIFS else fastp)
    p[N.GCM_TYPE] = t
    via_main = GCMAlgorithmMain.load_gcm_algorithm(p)
    via_factory = GCMAlgorithmFactory.resolve_algorithm(GCMAlgorithmTypes(t), p)
    print(f"type {t!r}:", describe(via_main), describe(via_factory), type(via_main) is type(via_factory), list(p))
    for rep in range(10):
        attempt(f"  four#{rep}", lambda: show(via_main.random_clustered_graph([(1, 0)] * 4)))
    for n in (1, 2, 6, 50, 400):
        jds = rand_jds(n, [2, 3], 3)
        attempt(f"  n={n} main", lambda: show(via_main.random_clustered_graph(jds)))
        attempt(f"  n={n} main again", lambda: show(via_main.random_clustered_graph(jds)))
        attempt(f"  n={n} factory", lambda: show(via_factory.random_clustered_graph(jds)))
        attempt(f"  n={n} fresh", lambda: show(GCMAlgorithmFactory.resolve_algorithm(GCMAlgorithmTypes(t), p)
                                              .random_clustered_graph(jds)))
    attempt("  empty", lambda: show(via_main.random_clustered_graph([])))
    attempt("  none", lambda: show(via_main.random_clustered_graph(None)))

# the classes are looked up in the factory module at call time
print("== 5 late binding")
saved = factory_module.GCMAlgorithmNetwork
try:
    factory_module.GCMAlgorithmNetwork = GCMAlgorithmFast
    attempt("rebound NETWORK", lambda: describe(GCMAlgorithmFactory.resolve_algorithm(GCMAlgorithmTypes.NETWORK, fastp)))
    attempt("rebound FAST", lambda: describe(GCMAlgorithmFactory.resolve_algorithm(GCMAlgorithmTypes.FAST, fastp)))
    attempt("rebound main", lambda: describe(GCMAlgorithmMain.load_gcm_algorithm({**fastp, N.GCM_TYPE: "network"})))
finally:
    factory_module.GCMAlgorithmNetwork = saved
attempt("restored", lambda: describe(GCMAlgorithmFactory.resolve_algorithm(GCMAlgorithmTypes.NETWORK, fastp)))

print("== end", rng())
