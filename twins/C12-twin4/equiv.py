"""
Equivalence digest for property C12 (MCMC rewiring / keys view / ejk matrices).

Run with cwd = a checkout of gcmpy:  /venv/bin/python /tmp/wt7/C12.out/equiv.py
Prints a deterministic transcript (results via repr => bit-exact floats,
exceptions, RNG state digests, mutated inputs).  Must be byte-identical on the
original and on the changed code, with and without -O.
"""
import collections
import copy
import hashlib
import io
import itertools
import logging
import os
import random
import signal
import sys

# str hashing is randomised per process: pin it so that set orders of str keys
# are reproducible between runs (re-exec once, keeping -O if given)
if os.environ.get("PYTHONHASHSEED") != "0":
    os.environ["PYTHONHASHSEED"] = "0"
    _flags = ["-O"] * sys.flags.optimize
    os.execve(sys.executable, [sys.executable] + _flags + sys.argv, os.environ)

sys.path.insert(0, os.getcwd())

import networkx as nx  # noqa: E402

from gcmpy.names.tools_names import ToolsNames  # noqa: E402
from gcmpy.names.network_names import NetworkNames  # noqa: E402
from gcmpy.names.gcm_algorithm_names import GCMAlgorithmNames  # noqa: E402
from gcmpy.names.joint_degree_names import JointDegreeNames  # noqa: E402
from gcmpy.network.network import Network  # noqa: E402
from gcmpy.tools.joint_excess_joint_degree_keys_view import (  # noqa: E402
    JointExcessJointDegreeKeysView,
)
from gcmpy.tools.joint_excess_joint_degree_matrices import (  # noqa: E402
    JointExcessJointDegreeMatrices,
)
from gcmpy.tools.markov_chain_monte_carlo import MarkovChainMonteCarlo  # noqa: E402
from gcmpy.tools.markov_chain_monte_carlo_rewiring import (  # noqa: E402
    MarkovChainMonteCarloRewiring,
    ErrorMarkovChainMonteCarloRewiring,
)
from gcmpy.tools.joint_excess_joint_degree import JointExcessJointDegree  # noqa: E402
from gcmpy.tools.joint_excess_from_ejk import JointExcessFromEjk  # noqa: E402
from gcmpy.tools.joint_degree_from_excess import JointDegreeFromExcess  # noqa: E402
from gcmpy.joint_degree.joint_degree_loaders.joint_degree_manual import (  # noqa: E402
    JointDegreeManual,
)
from gcmpy.motif_generators.clique_motif import clique_motif  # noqa: E402
from gcmpy.gcm_algorithm.gcm_algorithm_network import GCMAlgorithmNetwork  # noqa: E402

# anything logged at WARNING or above through the logging tree ends up here and
# is printed at the end (must be empty / identical)
_LOG_CAPTURE = io.StringIO()
logging.basicConfig(stream=_LOG_CAPTURE, level=logging.WARNING)

TWO = "2-clique"
THREE = "3-clique"
EDGE_NAMES = [TWO, THREE]


def h(obj) -> str:
    return hashlib.sha256(repr(obj).encode()).hexdigest()[:16]


def rng() -> str:
    return h(random.getstate())


def out(*parts) -> None:
    print(*parts)


def call(label, fn, *args, **kwargs):
    """Call and print the result or the exception, then the rng digest."""
    try:
        res = fn(*args, **kwargs)
    except Exception as e:
        out(label, "-> EXC", type(e).__name__, repr(str(e)), "| rng", rng())
        return ("EXC", type(e).__name__)
    out(label, "->", type(res).__name__, repr(res), "| rng", rng())
    return res


def graph_repr(G) -> str:
    nodes = [(n, dict(d)) for n, d in G.nodes(data=True)]
    edges = [(u, v, dict(d)) for u, v, d in G.edges(data=True)]
    adj = [(n, list(G.adj[n])) for n in G.nodes()]
    return repr((type(G).__name__, nodes, edges, adj))


def graph_digest(G) -> str:
    return "%s n=%d m=%d" % (
        hashlib.sha256(graph_repr(G).encode()).hexdigest()[:16],
        G.number_of_nodes(),
        G.number_of_edges(),
    )


def counters(m) -> str:
    return repr(
        (
            m._proposal_count,
            m._proposals_accepted,
            list(m._acceptance_ratio),
            MarkovChainMonteCarlo._proposal_count,
            MarkovChainMonteCarlo._proposals_accepted,
            m._convergence_limit,
            m._search_limit,
        )
    )


def proposals(m) -> str:
    return repr([(p._topology, p._motif_id, p._new_edge) for p in m._proposal_edges])


# ----------------------------------------------------------------------------
# 1. keys view
# ----------------------------------------------------------------------------
def section_keys_view() -> None:
    out("== keys view")
    inputs = [
        [(0, 3), (4, 1), (2, 2), (1, 1)],
        [(1.5, -0.0), (float("inf"),), (), (2,)],
        [[1], [2], [3], [4]],
        ["ab", "cd", "ef", "gh"],
        ((0, 1), (2, 3), (4, 5), (6, 7), (8, 9)),
        [(0, 1), (2, 3), (4, 5)],
        [(0, 1), [2, 3], (4, 5), [6, 7]],
        [],
        None,
        {0: (1,), 1: (2,), 2: (3,), 3: (4,)},
    ]
    names = ["get_u0u1", "get_u1u0", "get_v0v1", "get_v1v0", "get_u0v1", "get_v0u1"]
    for i, keys in enumerate(inputs):
        before = repr(keys)
        view = JointExcessJointDegreeKeysView(keys)
        out("view", i, "keys is same object", view._keys is keys)
        for rnd in range(2):
            for name in names:
                call("view %d.%d %s" % (i, rnd, name), getattr(view, name))
        out("view", i, "input unchanged", before == repr(keys))


# ----------------------------------------------------------------------------
# 2. matrices
# ----------------------------------------------------------------------------
def test_target():
    e = 1e-8
    tree = {
        (0, 3, 0, 3): 9 / 81 - e - e,
        (0, 3, 4, 1): e,
        (0, 3, 2, 2): e,
        (4, 1, 0, 3): e,
        (4, 1, 4, 1): 45 / 81 - e - e,
        (4, 1, 2, 2): e,
        (2, 2, 0, 3): e,
        (2, 2, 4, 1): e,
        (2, 2, 2, 2): 27 / 81 - e - e,
    }
    tri = {
        (3, 1, 3, 1): 48 / 144 - e - e,
        (3, 1, 1, 2): e,
        (3, 1, 5, 0): e,
        (1, 2, 3, 1): e,
        (1, 2, 1, 2): 72 / 144 - e - e,
        (1, 2, 5, 0): e,
        (5, 0, 3, 1): e,
        (5, 0, 1, 2): e,
        (5, 0, 5, 0): 24 / 144 - e - e,
    }
    return {TWO: tree, THREE: tri}


def soft_target():
    """Full support, moderately assortative: keeps the chain moving."""
    t = test_target()
    res = {}
    for top, mat in t.items():
        res[top] = {}
        for k, v in mat.items():
            half = len(k) // 2
            res[top][k] = (0.25 if k[:half] == k[half:] else 0.041666666666666664)
    return res


def matrices_state(m) -> str:
    return repr(
        (
            m._ejks,
            m._excess_degree_keys,
            m._topology_names,
            m.ejks is m._ejks,
            m.excess_degree_keys is m._excess_degree_keys,
            m.topology_names is m._topology_names,
        )
    )


def section_matrices() -> None:
    out("== matrices")
    m0 = JointExcessJointDegreeMatrices()
    out("ctor none state", matrices_state(m0))
    m0b = JointExcessJointDegreeMatrices(None)
    out("ctor None explicit state", matrices_state(m0b))
    call("m0 index on empty names", m0.get_topology_index, TWO)
    call("m0 excess keys", m0.get_excess_degree_keys)
    out("state", matrices_state(m0))

    params = {ToolsNames.EDGE_NAMES: list(EDGE_NAMES), ToolsNames.EJKS: test_target()}
    params_before = repr(params)
    m1 = call("ctor params", lambda: matrices_state(JointExcessJointDegreeMatrices(params)))
    m1 = JointExcessJointDegreeMatrices(params)
    out("params unchanged", repr(params) == params_before)
    out("shares ejks", m1._ejks is params[ToolsNames.EJKS])
    out("shares names", m1._topology_names is params[ToolsNames.EDGE_NAMES])
    for top in [TWO, THREE, "4-clique", None, 0, ""]:
        call("index %r" % (top,), m1.get_topology_index, top)
    for rnd in range(3):
        old = m1._excess_degree_keys
        call("excess keys again %d" % rnd, m1.get_excess_degree_keys)
        out("fresh dict", m1._excess_degree_keys is not old, matrices_state(m1))

    call("ctor missing ejks", JointExcessJointDegreeMatrices, {ToolsNames.EDGE_NAMES: []})
    call("ctor missing names", JointExcessJointDegreeMatrices, {ToolsNames.EJKS: {}})
    call("ctor empty dict", JointExcessJointDegreeMatrices, {})
    call("ctor string keys", JointExcessJointDegreeMatrices, {"ejks": {}, "edge_names": []})

    # odd shaped keys / values
    weird = collections.OrderedDict()
    weird["a"] = {(1, 2, 3): 0.5, (): 0.25, (7,): 0.125, "wxyz": 1.0, (1, 2, 3, 4, 5, 6): 2}
    weird["b"] = {}
    weird["c"] = [(9, 8, 7, 6), (9, 8, 9, 8), (7, 6, 9, 8)]
    weird[3] = {(2, 2, 2, 2): float("nan"), (1.5, 2.5): -0.0}
    mw = JointExcessJointDegreeMatrices()
    mw.ejks = weird
    mw.topology_names = ["a", "b", "a", 3]
    call("weird excess keys", mw.get_excess_degree_keys)
    out("state", matrices_state(mw))
    for top in ["a", "b", "c", 3, 3.0, "z"]:
        call("weird index %r" % (top,), mw.get_topology_index, top)

    bad = JointExcessJointDegreeMatrices()
    bad.ejks = {"a": {5: 1.0}}
    call("non iterable key", bad.get_excess_degree_keys)
    out("state", matrices_state(bad))
    bad.ejks = {"a": None}
    call("none matrix", bad.get_excess_degree_keys)
    out("state", matrices_state(bad))
    bad.ejks = None
    call("none ejks", bad.get_excess_degree_keys)
    out("state", matrices_state(bad))

    dd = collections.defaultdict(dict)
    dd[TWO] = {(0, 1, 2, 3): 1.0}
    mdd = JointExcessJointDegreeMatrices({ToolsNames.EJKS: dd, ToolsNames.EDGE_NAMES: (TWO,)})
    out("state", matrices_state(mdd), list(dd.keys()))

    # setters
    mdd.excess_degree_keys = {"x": [1]}
    mdd.topology_names = ("p", "q")
    out("state", matrices_state(mdd))
    call("index q", mdd.get_topology_index, "q")

    # downstream consumer of the excess keys (order sensitive)
    call(
        "qks from target",
        JointExcessFromEjk.get_excess_joint_distributions,
        JointExcessJointDegreeMatrices(
            {ToolsNames.EDGE_NAMES: list(EDGE_NAMES), ToolsNames.EJKS: test_target()}
        ),
    )


# ----------------------------------------------------------------------------
# 3. rewiring: hand made network
# ----------------------------------------------------------------------------
def hand_network() -> Network:
    g = Network()
    motifs = [
        (THREE, 0, [(0, 1), (0, 2), (1, 2)]),
        (THREE, 1, [(3, 4), (3, 5), (4, 5)]),
        (TWO, 2, [(0, 6)]),
        (TWO, 3, [(3, 7)]),
        (TWO, 4, [(1, 4)]),
        (THREE, 5, [(6, 7), (6, 8), (7, 8)]),
        (TWO, 6, [(2, 9)]),
        (TWO, 7, [(5, 10)]),
        (TWO, 8, [(8, 11)]),
        (TWO, 9, [(9, 10)]),
        (TWO, 10, [(12, 13)]),
        (THREE, 11, [(12, 14), (12, 15), (14, 15)]),
        (TWO, 12, [(11, 13)]),
        (TWO, 13, [(0, 14)]),
    ]
    G = g.G
    G.add_nodes_from(range(17))
    for top, mid, es in motifs:
        for e in es:
            G.add_edge(*e)
            G.edges[e][NetworkNames.TOPOLOGY] = top
            G.edges[e][NetworkNames.MOTIF_IDS] = mid
    for n in G.nodes():
        n2 = sum(1 for e in G.edges(n) if G.edges[e][NetworkNames.TOPOLOGY] == TWO)
        n3 = len(
            set(
                G.edges[e][NetworkNames.MOTIF_IDS]
                for e in G.edges(n)
                if G.edges[e][NetworkNames.TOPOLOGY] == THREE
            )
        )
        G.nodes[n][NetworkNames.JOINT_DEGREE] = (n2, n3)
    return g


def hand_targets(G) -> dict:
    """Several targets over all excess-degree pairings present in G."""
    excess = {TWO: [], THREE: []}
    for i, top in enumerate(EDGE_NAMES):
        for n in G.nodes():
            jd = list(G.nodes[n][NetworkNames.JOINT_DEGREE])
            if jd[i] > 0:
                jd[i] -= 1
                if tuple(jd) not in excess[top]:
                    excess[top].append(tuple(jd))
    targets = {}
    full = {}
    for top in EDGE_NAMES:
        full[top] = {}
        for j, (a, b) in enumerate(itertools.product(excess[top], repeat=2)):
            full[top][a + b] = 0.05 + 0.013 * ((j * 7) % 11)
    targets["full"] = full
    zeros = copy.deepcopy(full)
    for top in EDGE_NAMES:
        for j, k in enumerate(list(zeros[top])):
            if j % 3 == 0:
                zeros[top][k] = 0.0
    targets["zeros"] = zeros
    missing = copy.deepcopy(full)
    for top in EDGE_NAMES:
        for j, k in enumerate(list(missing[top])):
            if j % 4 == 1:
                del missing[top][k]
    targets["missing"] = missing
    ints = copy.deepcopy(full)
    for top in EDGE_NAMES:
        for j, k in enumerate(list(ints[top])):
            ints[top][k] = (j % 3)
    targets["ints"] = ints
    targets["no3"] = {TWO: copy.deepcopy(full[TWO])}
    return targets


def make_mcmc(g, ejks, extra=None):
    params = {ToolsNames.NETWORK: g, ToolsNames.EJKS: ejks}
    for k, v in (extra or {}).items():
        params[k] = v
    return MarkovChainMonteCarloRewiring(params)


def section_ctor() -> None:
    out("== rewiring ctor")
    g = hand_network()
    ejks = JointExcessJointDegreeMatrices(
        {ToolsNames.EDGE_NAMES: list(EDGE_NAMES), ToolsNames.EJKS: hand_targets(g.G)["full"]}
    )
    m = make_mcmc(g, ejks)
    out("default", counters(m), m._logger.name, m._logger.level, type(m._logger).__name__,
        m._logger.handlers, m._logger.parent, m._proposal_edges)
    out("props", m.network is g, m.ejks is ejks, m.convergence_limit, m.search_limit)
    m = make_mcmc(g, ejks, {ToolsNames.SEARCH_LIMIT: 3})
    out("search", counters(m))
    m = make_mcmc(g, ejks, {ToolsNames.CONVERGENCE_LIMIT: 7})
    out("conv", counters(m))
    m = make_mcmc(g, ejks, {ToolsNames.CONVERGENCE_LIMIT: 0.5, ToolsNames.SEARCH_LIMIT: None})
    out("both", counters(m))
    m.network = None
    m.ejks = None
    m.convergence_limit = 11
    m.search_limit = 12
    out("setters", m.network, m.ejks, m.convergence_limit, m.search_limit, counters(m))
    call("missing network", MarkovChainMonteCarloRewiring, {ToolsNames.EJKS: ejks})
    call("missing ejks", MarkovChainMonteCarloRewiring, {ToolsNames.NETWORK: g})
    call("network is graph", MarkovChainMonteCarloRewiring,
         {ToolsNames.NETWORK: g.G, ToolsNames.EJKS: ejks})
    call("network is graph + limit", lambda: counters(MarkovChainMonteCarloRewiring(
        {ToolsNames.NETWORK: g.G, ToolsNames.EJKS: ejks, ToolsNames.CONVERGENCE_LIMIT: 4})))
    call("params none", MarkovChainMonteCarloRewiring, None)
    call("empty network", lambda: counters(make_mcmc(Network(), ejks)))


def section_helpers() -> None:
    out("== rewiring helpers")
    g = hand_network()
    G = g.G
    g_before = graph_repr(G)
    targets = hand_targets(G)
    ejks = JointExcessJointDegreeMatrices(
        {ToolsNames.EDGE_NAMES: list(EDGE_NAMES), ToolsNames.EJKS: targets["full"]}
    )
    m = make_mcmc(g, ejks)

    for u, e in [(0, (0, 1)), (1, (0, 1)), (2, (0, 1)), (0, (0, 0)), (0, [1, 0]),
                 (0, (0,)), (5, (0,)), (0, ()), (0, (1, 0, 7)), ("a", "ab"), (1.0, (1, 2)),
                 (None, (None, 3))]:
        call("other_vertex %r %r" % (u, e), m.get_other_vertex, u, e)

    for u0, e in [(0, (0, 1)), (0, (1, 0)), (1, (0, 1)), (0, (0, 6)), (6, (0, 6)),
                  (6, (6, 7)), (12, (12, 14)), (12, (12, 13)), (16, (0, 1)), (0, (3, 4)),
                  (0, (0, 3)), (99, (0, 1)), (0, (0, 1, 2))]:
        call("all_edges %r %r" % (u0, e), m.get_all_edges, G, u0, e)

    for es in [[], [(0, 1), (0, 2)], [(0, 1), (0, 6), (0, 2), (0, 14)], [(6, 0), (0, 6), (0, 6)],
               [(0, 1), (0, 3)], ((3, 4),), [(0, 1, 2)]]:
        res = call("hashmap %r" % (es,), m.get_hashmap, G, es)
        if isinstance(res, dict):
            out("  key order", list(res.keys()))

    for e in [(0, 1), (1, 0), (0, 6), (6, 0), (16, 16), (0, 99), (0,), (), (0, 1, 2), (3, 3)]:
        for idx in [0, 1, -1, 2]:
            call("excess_key %r %d" % (e, idx), m.get_joint_excess_degree_key, G, e, idx)

    for (e0, e1, u0, v0) in [((0, 1), (3, 4), 0, 3), ((0, 1), (3, 4), 1, 4), ((1, 0), (4, 3), 0, 3),
                             ((0, 1), (3, 4), 2, 3), ((0, 1), (3, 4), 0, 5), ((0, 6), (9, 10), 6, 9),
                             ((0, 6), (9, 10), 0, 10), ((0, 99), (3, 4), 0, 3)]:
        for idx in [0, 1, 5]:
            try:
                view = m.get_swapped_joint_excess_degree_key(G, e0, e1, u0, v0, idx)
                out("swapped_key", e0, e1, u0, v0, idx, "->", type(view).__name__, repr(view._keys),
                    [view.get_u0v1(), view.get_v0u1(), view.get_u0u1(), view.get_u1u0(),
                     view.get_v0v1(), view.get_v1v0()])
            except Exception as e:
                out("swapped_key", e0, e1, u0, v0, idx, "-> EXC", type(e).__name__, repr(str(e)))

    m._proposal_edges = []
    for (u0, old, new) in [(0, (0, 1), (0, 4)), (0, (0, 1), (4, 0)), (3, (3, 4), (3, 1)),
                           (0, (0, 1), (5, 4)), (0, (0, 99), (0, 4)), (0, (0, 6), (0, 0))]:
        call("append_proposal %r %r %r" % (u0, old, new), m.append_proposal_edges, G, u0, old, new)
        out("  proposals", proposals(m))

    out("graph unchanged", graph_repr(G) == g_before, "rng", rng())


def oriented_corners(m, G):
    """All (u0, e0s) corners: every edge, focal vertex either end."""
    res = []
    for (a, b) in G.edges():
        for u0, e in ((a, (a, b)), (b, (a, b))):
            res.append((u0, e, m.get_all_edges(G, u0, e)))
    return res


def section_suitable_and_swap() -> None:
    out("== is_edge_choice_suitable / swap_condition on the hand network")
    g = hand_network()
    G = g.G
    g_before = graph_repr(G)
    targets = hand_targets(G)
    for tname in ["full", "zeros", "missing", "ints", "no3"]:
        random.seed(1000 + len(tname))
        target = targets[tname]
        target_before = repr(target)
        ejks = JointExcessJointDegreeMatrices(
            {ToolsNames.EDGE_NAMES: list(EDGE_NAMES), ToolsNames.EJKS: target}
        )
        m = make_mcmc(g, ejks)
        corners = oriented_corners(m, G)
        n = 0
        acc = []
        for (u0, e0, e0s) in corners:
            for (v0, e1, e1s) in corners:
                n += 1
                e0s_before, e1s_before = repr(e0s), repr(e1s)
                try:
                    ok = m.is_edge_choice_suitable(G, u0, v0, e0s, e1s)
                    ok_r = repr(ok)
                except Exception as e:
                    ok_r = "EXC %s %r" % (type(e).__name__, str(e))
                try:
                    sw = m.swap_condition(G, e0s, e1s, u0, v0)
                    sw_r = repr(sw)
                except Exception as e:
                    sw_r = "EXC %s %r" % (type(e).__name__, str(e))
                acc.append((u0, e0, v0, e1, ok_r, sw_r, proposals(m), rng(),
                            repr(e0s) == e0s_before, repr(e1s) == e1s_before))
        # full transcript is long: print a digest plus a sample and a histogram
        out(tname, "pairs", n, "digest", h(acc))
        hist = collections.Counter((a[4], a[5][:60]) for a in acc)
        for k in sorted(hist):
            out("  ", k, hist[k])
        for a in acc[:: max(1, len(acc) // 25)]:
            out("  sample", a)
        out(tname, "counters", counters(m))
        out(tname, "target unchanged", repr(target) == target_before,
            "graph unchanged", graph_repr(G) == g_before, "rng", rng())

    # special shapes
    ejks = JointExcessJointDegreeMatrices(
        {ToolsNames.EDGE_NAMES: list(EDGE_NAMES), ToolsNames.EJKS: targets["full"]}
    )
    m = make_mcmc(g, ejks)
    random.seed(5)
    cases = [
        ("len mismatch", 0, 3, [(0, 1), (0, 2)], [(3, 4)]),
        ("topology mismatch", 0, 3, [(0, 1), (0, 6)], [(3, 4), (3, 5)]),
        ("count mismatch", 0, 3, [(0, 1), (0, 2), (0, 6)], [(3, 4), (3, 7), (3, 7)]),
        ("same motif", 0, 1, [(0, 1), (0, 2)], [(1, 0), (1, 2)]),
        ("shared vertex", 0, 6, [(0, 6)], [(6, 0)]),
        ("self", 0, 0, [(0, 1), (0, 2)], [(0, 1), (0, 2)]),
        ("empty", 0, 3, [], []),
        ("target present", 0, 14, [(0, 6)], [(14, 0)]),
        ("good 3", 0, 3, [(0, 1), (0, 2)], [(3, 4), (3, 5)]),
        ("good 2", 0, 3, [(0, 6)], [(3, 7)]),
        ("bad vertex", 9, 3, [(0, 6)], [(3, 7)]),
        ("bad edge", 0, 3, [(0, 99)], [(3, 7)]),
        ("tuples", 0, 3, ((0, 1), (0, 2)), ((3, 4), (3, 5))),
        ("unknown topology", 0, 3, [(0, 1)], [(3, 4)]),
    ]
    for label, u0, v0, e0s, e1s in cases:
        if label == "unknown topology":
            m.ejks = JointExcessJointDegreeMatrices(
                {ToolsNames.EDGE_NAMES: [TWO], ToolsNames.EJKS: targets["no3"]}
            )
        for rnd in range(2):
            call("suitable %s #%d" % (label, rnd), m.is_edge_choice_suitable, G, u0, v0, e0s, e1s)
            call("swap %s #%d" % (label, rnd), m.swap_condition, G, e0s, e1s, u0, v0)
            out("  proposals", proposals(m), "counters", counters(m))
    out("graph unchanged", graph_repr(G) == g_before)

    # denominator zero / missing
    for label, mutate in [
        ("bottom zero", lambda t: t[TWO].__setitem__((0, 1, 0, 1), 0.0)),
        ("bottom missing", lambda t: t[TWO].pop((0, 1, 0, 1))),
    ]:
        t = copy.deepcopy(targets["full"])
        # find the key of edge (2, 9) whatever it is, to stay generic
        mm = make_mcmc(g, JointExcessJointDegreeMatrices(
            {ToolsNames.EDGE_NAMES: list(EDGE_NAMES), ToolsNames.EJKS: t}))
        k29 = mm.get_joint_excess_degree_key(G, (2, 9), 0)
        if label == "bottom zero":
            t[TWO][k29] = 0.0
        else:
            t[TWO].pop(k29)
        random.seed(77)
        for (u0, v0, e0s, e1s) in [(2, 5, [(2, 9)], [(5, 10)]), (9, 10, [(9, 2)], [(10, 5)]),
                                   (2, 8, [(2, 9)], [(8, 11)]), (5, 8, [(5, 10)], [(8, 11)])]:
            call("swap %s %r" % (label, (u0, v0)), mm.swap_condition, G, e0s, e1s, u0, v0)
            out("  proposals", proposals(mm), "counters", counters(mm))


# ----------------------------------------------------------------------------
# 4. rewiring: full runs on generated networks
# ----------------------------------------------------------------------------
def generated_network(n: int, seed: int, target: dict) -> Network:
    random.seed(seed)
    ejk_target = JointExcessJointDegreeMatrices(
        {ToolsNames.EDGE_NAMES: list(EDGE_NAMES), ToolsNames.EJKS: target}
    )
    qks = JointExcessFromEjk.get_excess_joint_distributions(ejk_target)
    jdd = JointDegreeFromExcess.get_joint_degree_distribution(qks, list(EDGE_NAMES))
    jds = JointDegreeManual(
        {JointDegreeNames.JDD: jdd, JointDegreeNames.MOTIF_SIZES: [2, 3]}
    ).sample_jds_from_jdd(n)
    g = GCMAlgorithmNetwork(
        {
            GCMAlgorithmNames.MOTIF_SIZES: [2, 3],
            GCMAlgorithmNames.EDGE_NAMES: list(EDGE_NAMES),
            GCMAlgorithmNames.BUILD_FUNCTIONS: [clique_motif, clique_motif],
        }
    ).random_clustered_graph(jds)
    return g


def mixing(G) -> str:
    C = JointExcessJointDegree({ToolsNames.NETWORK: G, ToolsNames.EDGE_NAMES: list(EDGE_NAMES)})
    return repr(C.get_ejks().ejks)


def distance(G, target) -> str:
    C = JointExcessJointDegree({ToolsNames.NETWORK: G, ToolsNames.EDGE_NAMES: list(EDGE_NAMES)})
    got = C.get_ejks().ejks
    d = 0.0
    for top in EDGE_NAMES:
        for k in target[top]:
            d += abs(target[top][k] - got[top].get(k, 0.0))
    return repr(d)


def created_pairings_allowed(G0, G1, ejks) -> str:
    """Every edge in G1 not in G0 has positive weight in the target."""
    bad = 0
    new = 0
    for (u, v, d) in G1.edges(data=True):
        if G0.has_edge(u, v):
            continue
        new += 1
        top = d[NetworkNames.TOPOLOGY]
        i = ejks.get_topology_index(top)
        ku = list(G1.nodes[u][NetworkNames.JOINT_DEGREE])
        kv = list(G1.nodes[v][NetworkNames.JOINT_DEGREE])
        ku[i] -= 1
        kv[i] -= 1
        w = ejks.ejks[top].get(tuple(ku) + tuple(kv), 0.0)
        if not w > 0.0:
            bad += 1
    return "new=%d bad=%d" % (new, bad)


def section_rewire() -> None:
    out("== rewire on generated networks")
    runs = [
        ("soft n=300 limit 250", 300, 11, soft_target(), {ToolsNames.CONVERGENCE_LIMIT: 250}),
        ("soft n=120 default limit", 120, 12, soft_target(), {}),
        ("soft n=200 search 3", 200, 13, soft_target(),
         {ToolsNames.CONVERGENCE_LIMIT: 120, ToolsNames.SEARCH_LIMIT: 3}),
        ("test target n=400", 400, 14, test_target(),
         {ToolsNames.CONVERGENCE_LIMIT: 150, ToolsNames.SEARCH_LIMIT: 20}),
        ("limit 0", 150, 15, soft_target(), {ToolsNames.CONVERGENCE_LIMIT: 0}),
        ("limit -1", 150, 16, soft_target(), {ToolsNames.CONVERGENCE_LIMIT: -1}),
        ("limit 49.5", 150, 17, soft_target(), {ToolsNames.CONVERGENCE_LIMIT: 49.5}),
    ]
    # target with forbidden (zero) and absent pairings
    holes = soft_target()
    holes[TWO][(0, 3, 4, 1)] = 0.0
    holes[TWO][(4, 1, 0, 3)] = 0.0
    del holes[THREE][(3, 1, 5, 0)]
    del holes[THREE][(5, 0, 3, 1)]
    runs.append(("holes zero+absent n=300", 300, 18, holes, {ToolsNames.CONVERGENCE_LIMIT: 200}))
    absent = soft_target()
    del absent[TWO][(0, 3, 4, 1)]
    del absent[TWO][(4, 1, 0, 3)]
    del absent[THREE][(3, 1, 5, 0)]
    del absent[THREE][(5, 0, 3, 1)]
    runs.append(("holes absent n=300", 300, 19, absent, {ToolsNames.CONVERGENCE_LIMIT: 150}))

    for label, n, seed, target, extra in runs:
        g = generated_network(n, seed, soft_target() if label.startswith("holes") else target)
        out(label, "network", graph_digest(g.G), "rng", rng())
        g_before = graph_repr(g.G)
        target_before = repr(target)
        ejks = JointExcessJointDegreeMatrices(
            {ToolsNames.EDGE_NAMES: list(EDGE_NAMES), ToolsNames.EJKS: target}
        )
        m = make_mcmc(g, ejks, extra)
        out(label, "counters0", counters(m))
        random.seed(seed * 31 + 1)
        out(label, "distance before", distance(g.G, target))
        G1 = None
        for rnd in range(3):
            try:
                G1 = m.rewire()
                out(label, "run", rnd, graph_digest(G1), "is copy", G1 is not g.G)
                out(label, "run", rnd, "mixing", h(mixing(G1)), "distance", distance(G1, target))
                out(label, "run", rnd, "created", created_pairings_allowed(g.G, G1, ejks))
            except Exception as e:
                out(label, "run", rnd, "EXC", type(e).__name__, repr(str(e)))
            out(label, "run", rnd, "counters", counters(m), "proposals", h(proposals(m)), "rng", rng())
            out(label, "run", rnd, "input graph unchanged", graph_repr(g.G) == g_before,
                "target unchanged", repr(target) == target_before,
                "excess keys", h(ejks.excess_degree_keys))
        # object history: instance counters set by hand => acceptance ratio sampled
        m._proposal_count = 7
        m._proposals_accepted = 3
        m.convergence_limit = 60
        try:
            G1b = m.rewire()
            out(label, "history run", graph_digest(G1b))
        except Exception as e:
            out(label, "history run EXC", type(e).__name__, repr(str(e)))
        out(label, "history run ratios", len(m._acceptance_ratio), h(m._acceptance_ratio),
            repr(m._acceptance_ratio[:3]), "rng", rng())
        # chain: rewire the rewired graph with a fresh object
        g2 = Network()
        g2.G = G1 if G1 is not None else g.G.copy()
        m2 = make_mcmc(g2, ejks, {ToolsNames.CONVERGENCE_LIMIT: 40})
        try:
            G2 = m2.rewire()
            out(label, "chained", graph_digest(G2), counters(m2), "rng", rng())
        except Exception as e:
            out(label, "chained EXC", type(e).__name__, repr(str(e)), counters(m2), "rng", rng())

    # error paths of rewire
    out("-- rewire error paths")
    g = hand_network()
    ejks = JointExcessJointDegreeMatrices(
        {ToolsNames.EDGE_NAMES: list(EDGE_NAMES), ToolsNames.EJKS: hand_targets(g.G)["full"]}
    )
    random.seed(3)
    m = make_mcmc(Network(), ejks, {ToolsNames.CONVERGENCE_LIMIT: 3})
    call("empty graph", m.rewire)
    m = make_mcmc(g, ejks, {ToolsNames.CONVERGENCE_LIMIT: None})
    call("limit None", m.rewire)
    m = make_mcmc(g, ejks, {ToolsNames.CONVERGENCE_LIMIT: 2, ToolsNames.SEARCH_LIMIT: None})
    call("search None", m.rewire)
    m = make_mcmc(g, ejks, {ToolsNames.CONVERGENCE_LIMIT: 2, ToolsNames.SEARCH_LIMIT: float("nan")})
    call("search nan", m.rewire)
    m = make_mcmc(g, ejks, {ToolsNames.CONVERGENCE_LIMIT: -3})
    G1 = call("negative limit", lambda: graph_digest(m.rewire()))
    m = make_mcmc(g, None, {ToolsNames.CONVERGENCE_LIMIT: 2})
    call("ejks None", m.rewire)
    out("counters", counters(m))
    m = make_mcmc(g.G, ejks, {ToolsNames.CONVERGENCE_LIMIT: 2})
    call("network is graph", m.rewire)
    gm = Network()
    gm.G = nx.MultiGraph(g.G)
    m = make_mcmc(gm, ejks, {ToolsNames.CONVERGENCE_LIMIT: 2})
    call("multigraph", m.rewire)
    gd = Network()
    gd.G = nx.DiGraph(g.G)
    m = make_mcmc(gd, ejks, {ToolsNames.CONVERGENCE_LIMIT: 2, ToolsNames.SEARCH_LIMIT: 4})
    random.seed(9)
    call("digraph", lambda: graph_digest(m.rewire()))
    out("counters", counters(m), "rng", rng())
    # hand network, a few accepted swaps with the full target
    for seed in (1, 2, 3):
        random.seed(seed)
        m = make_mcmc(g, ejks, {ToolsNames.CONVERGENCE_LIMIT: 5, ToolsNames.SEARCH_LIMIT: 30})
        call("hand network seed %d" % seed, lambda: graph_repr(m.rewire()))
        out("counters", counters(m))
    # (targets with absent keys make the chain on this tiny network endless,
    # in the original code as well, so they are exercised on generated networks)
    for tname in ("zeros", "ints"):
        t = hand_targets(g.G)[tname]
        t_before = repr(t)
        ej = JointExcessJointDegreeMatrices(
            {ToolsNames.EDGE_NAMES: list(EDGE_NAMES), ToolsNames.EJKS: t}
        )
        for seed in (1, 2, 3, 4):
            random.seed(seed)
            m = make_mcmc(g, ej, {ToolsNames.CONVERGENCE_LIMIT: 3, ToolsNames.SEARCH_LIMIT: 30})
            call("hand network %s seed %d" % (tname, seed), lambda: graph_repr(m.rewire()))
            out("counters", counters(m), "proposals", proposals(m),
                "target unchanged", repr(t) == t_before)
    # missing attributes
    g3 = hand_network()
    del g3.G.edges[(0, 1)][NetworkNames.MOTIF_IDS]
    random.seed(4)
    m = make_mcmc(g3, ejks, {ToolsNames.CONVERGENCE_LIMIT: 50})
    call("missing motif id", lambda: graph_digest(m.rewire()))
    out("counters", counters(m), "rng", rng())
    g4 = hand_network()
    del g4.G.nodes[9][NetworkNames.JOINT_DEGREE]
    random.seed(4)
    m = make_mcmc(g4, ejks, {ToolsNames.CONVERGENCE_LIMIT: 50})
    call("missing joint degree", lambda: graph_digest(m.rewire()))
    out("counters", counters(m), "rng", rng())


def _watchdog(signum, frame):
    # never expected to fire; turns an endless chain into a visible failure
    sys.stdout.write("WATCHDOG: equiv.py ran for too long\n")
    sys.stdout.flush()
    os._exit(3)


def main() -> None:
    signal.signal(signal.SIGALRM, _watchdog)
    signal.alarm(600)
    random.seed(12345)
    section_keys_view()
    out("rng", rng())
    section_matrices()
    out("rng", rng())
    section_ctor()
    out("rng", rng())
    section_helpers()
    out("rng", rng())
    section_suitable_and_swap()
    out("rng", rng())
    section_rewire()
    out("rng", rng())
    out("class counters", MarkovChainMonteCarlo._proposal_count,
        MarkovChainMonteCarlo._proposals_accepted)
    out("captured warnings+", repr(_LOG_CAPTURE.getvalue()))


if __name__ == "__main__":
    main()
