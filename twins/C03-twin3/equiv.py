"""Equivalence harness for the C03 optimisation (stub matching generators).

Run with cwd = a checkout of gcmpy.  Prints a deterministic digest of every
result, of the RNG state afterwards and of the (possibly mutated) inputs.
"""
import copy
import hashlib
import os
import random
import sys

sys.path.insert(0, os.getcwd())

import numpy as np  # noqa: E402

from gcmpy.gcm_algorithm.gcm_algorithm_custom_motifs import (  # noqa: E402
    GCMAlgorithmCustomMotifs,
)
from gcmpy.gcm_algorithm.gcm_algorithm_fast import GCMAlgorithmFast  # noqa: E402
from gcmpy.motif_generators.clique_motif import clique_motif  # noqa: E402
from gcmpy.names.gcm_algorithm_names import GCMAlgorithmNames as N  # noqa: E402


def canon(x):
    """Canonical, type-preserving, bit-exact textual form."""
    if isinstance(x, float):
        return "f:" + repr(x)
    if isinstance(x, (bool, int, str, type(None))):
        return type(x).__name__ + ":" + repr(x)
    if isinstance(x, np.generic):
        return "np." + type(x).__name__ + ":" + repr(x.item())
    if isinstance(x, np.ndarray):
        return "nd[" + ",".join(canon(i) for i in x.tolist()) + "]"
    if isinstance(x, (list, tuple)):
        o, c = ("[", "]") if isinstance(x, list) else ("(", ")")
        return o + ",".join(canon(i) for i in x) + c
    if isinstance(x, dict):
        return "{" + ",".join(canon(k) + "=" + canon(v) for k, v in x.items()) + "}"
    if callable(x):
        return "fn:" + getattr(x, "__name__", type(x).__name__)
    return "obj:" + type(x).__name__


def digest(x):
    s = canon(x)
    return hashlib.sha256(s.encode()).hexdigest()[:16] + " len=%d" % len(s)


def rng_digest():
    st = random.getstate()
    nst = np.random.get_state()
    return (
        hashlib.sha256(repr(st).encode()).hexdigest()[:16],
        hashlib.sha256(
            repr((nst[0], nst[1].tolist(), nst[2], nst[3], nst[4])).encode()
        ).hexdigest()[:16],
    )


def seed(s):
    random.seed(s)
    np.random.seed(s)


def show_edge_list(tag, el):
    print(tag, "type", type(el).__name__)
    print(tag, "edge_list ", digest(el.edge_list))
    print(tag, "topologies", digest(el.topologies))
    print(tag, "motif_id  ", digest(el.motif_id))
    print(tag, "jds       ", digest(el.joint_degrees))
    if len(el.edge_list) <= 40:
        print(tag, "edges", canon(el.edge_list))
        print(tag, "topos", canon(el.topologies))
        print(tag, "ids  ", canon(el.motif_id))


def run(tag, fn):
    try:
        out = fn()
    except BaseException as e:  # noqa: BLE001
        print(tag, "RAISED", type(e).__name__, repr(str(e)))
        out = None
    print(tag, "rng", rng_digest())
    return out


# ----------------------------------------------------------------------
# build callbacks
# ----------------------------------------------------------------------
CALLS = []


def recording_clique(vs):
    CALLS.append((type(vs).__name__, tuple(vs)))
    return clique_motif(vs)


def random_builder(vs):
    """Consumes random draws, so the order of calls vs draws is observable."""
    CALLS.append(("rb", tuple(vs), random.random()))
    vs = list(vs)
    random.shuffle(vs)
    return [(vs[i], vs[i + 1]) for i in range(len(vs) - 1)]


def mutating_builder(vs):
    """Mutates and returns edges that alias the list it was given."""
    vs.reverse()
    CALLS.append(("mb", tuple(vs)))
    return [tuple(vs)]


def generator_builder(vs):
    CALLS.append(("gb", tuple(vs)))
    return ((vs[0], v) for v in vs[1:])


def empty_builder(vs):
    CALLS.append(("eb", tuple(vs)))
    return []


def tuple_builder(vs):
    CALLS.append(("tb", tuple(vs)))
    return tuple((vs[0], v) for v in vs[1:])


def make_jds(n, dist, rng):
    keys = list(dist)
    weights = [dist[k] for k in keys]
    return [rng.choices(keys, weights)[0] for _ in range(n)]


def fast_params(sizes, names, builders):
    return {N.MOTIF_SIZES: sizes, N.EDGE_NAMES: names, N.BUILD_FUNCTIONS: builders}


def fast_case(tag, sizes, names, builders, jds, seeds=(1, 2), repeat_calls=2):
    del CALLS[:]
    params = fast_params(sizes, names, builders)
    params_before = canon(params)
    jds_before = canon(jds)
    for s in seeds:
        seed(s)
        alg = run(tag + " ctor", lambda: GCMAlgorithmFast(params))
        if alg is None:
            continue
        for r in range(repeat_calls):
            t = "%s s=%d call=%d" % (tag, s, r)
            el = run(t, lambda: alg.random_clustered_graph(jds))
            if el is not None:
                show_edge_list(t, el)
                print(t, "jds identity", el.joint_degrees is jds)
        print(tag, "attrs", digest([alg._motif_sizes, alg._edge_names]),
              alg._motif_sizes is sizes, alg._build_functions is builders,
              alg._edge_names is names)
    print(tag, "params unchanged", canon(params) == params_before,
          "jds unchanged", canon(jds) == jds_before)
    print(tag, "callback log", digest(CALLS))


# ----------------------------------------------------------------------
# GCMAlgorithmFast
# ----------------------------------------------------------------------
print("=== GCMAlgorithmFast ===")
gen = random.Random(12345)

# the property example: four degree-1 vertices, three perfect matchings
counts = {}
seed(99)
alg = GCMAlgorithmFast(fast_params([2], ["2-clique"], [clique_motif]))
four = [(1,), (1,), (1,), (1,)]
for _ in range(600):
    el = alg.random_clustered_graph(four)
    key = tuple(sorted(tuple(sorted(e)) for e in el.edge_list))
    counts[key] = counts.get(key, 0) + 1
print("F matchings", canon(sorted(counts.items())), "rng", rng_digest())

fast_case("F1 single", [2], ["2-clique"], [recording_clique],
          make_jds(60, {(1,): 0.2, (2,): 0.5, (3,): 0.1, (5,): 0.2}, gen))
fast_case("F2 two", [2, 3], ["2-clique", "3-clique"],
          [recording_clique, recording_clique],
          make_jds(80, {(1, 0): 0.2, (2, 1): 0.5, (3, 0): 0.1, (5, 1): 0.2}, gen))
fast_case("F3 three+leftover", [2, 3, 4], ["a", "b", "c"],
          [recording_clique, tuple_builder, recording_clique],
          make_jds(37, {(1, 1, 0): 0.3, (2, 0, 1): 0.3, (0, 2, 1): 0.2,
                        (3, 1, 2): 0.2}, gen))
fast_case("F4 random builder", [2, 3], ["x", "y"],
          [random_builder, random_builder],
          make_jds(25, {(1, 0): 0.2, (2, 1): 0.5, (0, 2): 0.3}, gen))
fast_case("F5 mutating builder", [3], [("t", 3)], [mutating_builder],
          make_jds(20, {(1,): 0.5, (2,): 0.5}, gen))
fast_case("F6 empty builder", [2, 2], ["x", "y"], [empty_builder, recording_clique],
          make_jds(12, {(1, 1): 0.5, (2, 0): 0.5}, gen))
fast_case("F7 empty jds", [2], ["2-clique"], [recording_clique], [])
fast_case("F8 all zero", [2, 3], ["x", "y"], [recording_clique, recording_clique],
          [(0, 0), (0, 0), (0, 0)])
fast_case("F9 one vertex", [2], ["x"], [recording_clique], [(3,)])
fast_case("F10 size one", [1], ["loop"], [tuple_builder], [(2,), (1,), (0,)])
fast_case("F11 lists+numpy ints", [2, 3], ["x", "y"],
          [recording_clique, recording_clique],
          [[int(a), int(b)] for a, b in np.array([[1, 1], [2, 0], [1, 2], [0, 3]])])
fast_case("F12 ragged jds", [2, 3], ["x", "y"],
          [recording_clique, recording_clique], [(1, 1), (2,), (1, 2), (2, 0)])
# error paths: which exception, and the RNG / callback state when it surfaces
fast_case("E1 short sizes", [2], ["x", "y"], [random_builder, random_builder],
          [(1, 1), (1, 2), (2, 0)])
fast_case("E2 short builders", [2, 3], ["x", "y"], [random_builder],
          [(1, 1), (1, 2), (2, 0)])
fast_case("E3 short builders, empty column", [2, 3], ["x", "y"], [random_builder],
          [(1, 0), (1, 0), (2, 0)])
fast_case("E4 short names", [2, 3], ["x"], [random_builder, random_builder],
          [(1, 1), (1, 2), (2, 0)])
fast_case("E5 short names, empty column", [2, 3], ["x"],
          [random_builder, random_builder], [(1, 0), (1, 0), (2, 0)])
fast_case("E6 generator builder", [2, 3], ["x", "y"],
          [generator_builder, generator_builder], [(1, 1), (1, 2), (2, 0)])
fast_case("E7 generator builder + short names", [2], [], [generator_builder],
          [(1,), (1,)])
fast_case("E8 zero size", [0], ["x"], [random_builder], [(1,), (1,)])
fast_case("E9 zero size, empty column", [2, 0], ["x", "y"],
          [random_builder, random_builder], [(1, 0), (1, 0)])
fast_case("E10 float degree", [2, 2], ["x", "y"],
          [random_builder, random_builder], [(1, 1.0), (1, 1)])
fast_case("E11 negative degree", [2], ["x"], [recording_clique],
          [(-1,), (2,), (1,), (1,)])
fast_case("E12 builder raises", [2], ["x"], [lambda vs: vs[5]], [(1,), (1,)])
run("E13 missing key", lambda: GCMAlgorithmFast({N.MOTIF_SIZES: [2]}))
run("E14 jds not iterable", lambda: GCMAlgorithmFast(
    fast_params([2], ["x"], [recording_clique])).random_clustered_graph(5))

# larger run, as in the suite
seed(7)
big = make_jds(20000, {(1, 0): 0.2, (2, 1): 0.5, (3, 0): 0.1, (5, 1): 0.2}, gen)
alg = GCMAlgorithmFast(fast_params([2, 3], ["2-clique", "3-clique"],
                                   [clique_motif, clique_motif]))
for r in range(2):
    el = alg.random_clustered_graph(big)
    print("F big", r, digest(el.edge_list), digest(el.topologies),
          digest(el.motif_id), rng_digest())


# ----------------------------------------------------------------------
# GCMAlgorithmCustomMotifs
# ----------------------------------------------------------------------
print("=== GCMAlgorithmCustomMotifs ===")


def diamond(vs):
    CALLS.append(("diamond", type(vs).__name__, tuple(vs)))
    return ((vs[0], vs[1]), (vs[1], vs[2]), (vs[2], vs[3]), (vs[3], vs[1]),
            (vs[0], vs[2]))


def diamond_names():
    CALLS.append("diamond_names")
    return ("diamond-outer",) * 4 + ("diamond-inner",)


def twoclique(vs):
    CALLS.append(("two", tuple(vs)))
    return (vs[0], vs[1])


def twoclique_names():
    CALLS.append("two_names")
    return "2-clique"


def twoclique_listpair(vs):
    CALLS.append(("twolist", tuple(vs)))
    return [(vs[0], vs[1])]


def twoclique_listpair_names():
    return ["2-clique"]


def threeclique(vs):
    CALLS.append(("three", tuple(vs), random.random()))
    return (vs[0], vs[1]), (vs[0], vs[2]), (vs[1], vs[2])


def threeclique_names():
    CALLS.append(("three_names", random.random()))
    return "3-clique", "3-clique", "3-clique"


def path3(vs):
    # exactly two edges, each a list: must go through the `else` branch
    return [[vs[0], vs[1]], [vs[1], vs[2]]]


def path3_names():
    return ["p-a", "p-b"]


def pentagon(vs):
    CALLS.append(("pent", tuple(vs)))
    return ((vs[0], vs[1]), (vs[1], vs[2]), (vs[2], vs[3]), (vs[3], vs[4]),
            (vs[0], vs[4]), (vs[1], vs[3]))


def pentagon_names():
    return "p01", "p12", "p23", "p34", "p40", "p13"


def custom_params(sizes, names, builders, indices):
    p = fast_params(sizes, names, builders)
    p[N.MOTIF_INDICES] = indices
    return p


def custom_case(tag, sizes, names, builders, indices, jds, seeds=(1, 2),
                repeat_calls=2):
    del CALLS[:]
    params = custom_params(sizes, names, builders, indices)
    params_before = canon(params)
    jds_before = canon(jds)
    for s in seeds:
        seed(s)
        alg = run(tag + " ctor", lambda: GCMAlgorithmCustomMotifs(params))
        if alg is None:
            continue
        for r in range(repeat_calls):
            t = "%s s=%d call=%d" % (tag, s, r)
            el = run(t, lambda: alg.random_clustered_graph(jds))
            if el is not None:
                show_edge_list(t, el)
                print(t, "jds identity", el.joint_degrees is jds)
        print(tag, "attrs", digest([alg._motif_sizes, alg._motif_indices]),
              alg._motif_indices is indices, alg._motif_sizes is sizes)
    print(tag, "params unchanged", canon(params) == params_before,
          "jds unchanged", canon(jds) == jds_before)
    print(tag, "callback log", digest(CALLS))


manuscript_jds = [
    (2, 1, 0, 1, 1, 0, 0), (1, 1, 0, 1, 1, 0, 0), (3, 1, 1, 0, 0, 1, 0),
    (2, 0, 1, 0, 0, 1, 0), (0, 0, 0, 1, 0, 0, 1), (1, 0, 0, 1, 0, 0, 0),
    (1, 0, 1, 0, 0, 0, 0), (1, 0, 1, 0, 0, 0, 0), (1, 0, 0, 1, 0, 0, 0),
    (1, 0, 0, 1, 0, 0, 0), (1, 0, 1, 0, 0, 0, 0), (0, 0, 1, 0, 0, 0, 0),
]
custom_case("C1 manuscript", [2, 3, 2, 2, 2, 2, 1],
            [twoclique_names, threeclique_names, diamond_names, pentagon_names],
            [twoclique, threeclique, diamond, pentagon],
            [[0], [1], [2, 3], [4, 5, 6]], manuscript_jds, seeds=(1, 2, 3))

# partition() itself, on the same object, many shapes
alg = GCMAlgorithmCustomMotifs(custom_params([2], [twoclique_names], [twoclique],
                                             [[0]]))
for lst, n in [([], 1), ([], 3), ([1], 1), ([1, 2, 3], 1), ([1, 2, 3], 2),
               ([1, 2, 3, 4], 2), (list(range(11)), 4), ((1, 2, 3, 4, 5), 2),
               ("abcdefg", 3), ([1, 2], 5)]:
    before = canon(lst)
    out = run("P %s %d" % (canon(lst), n), lambda: alg.partition(lst, n))
    print("P out", canon(out), "input unchanged", canon(lst) == before)
run("P zero", lambda: alg.partition([1, 2], 0))
run("P neg", lambda: alg.partition([1, 2, 3], -1))
run("P float", lambda: alg.partition([1, 2, 3], 1.5))

cgen = random.Random(777)
custom_case("C2 two+three", [2, 3], [twoclique_names, threeclique_names],
            [twoclique, threeclique], [[0], [1]],
            make_jds(40, {(1, 0): 0.2, (2, 1): 0.5, (3, 0): 0.1, (5, 1): 0.2}, cgen))
custom_case("C3 list-pair two clique", [2], [twoclique_listpair_names],
            [twoclique_listpair], [[0]], make_jds(21, {(1,): 0.5, (2,): 0.5}, cgen))
custom_case("C4 two edges of lists", [3], [path3_names], [path3], [[0]],
            make_jds(21, {(1,): 0.5, (2,): 0.5}, cgen))


def balanced(jds, sizes):
    """Append one vertex so that every stub total is a multiple of its size."""
    fix = tuple((-sum(v[i] for v in jds)) % n for i, n in enumerate(sizes))
    return jds + [fix]


custom_case("C2b two+three balanced", [2, 3], [twoclique_names, threeclique_names],
            [twoclique, threeclique], [[0], [1]],
            balanced(make_jds(40, {(1, 0): 0.2, (2, 1): 0.5, (3, 0): 0.1,
                                   (5, 1): 0.2}, cgen), [2, 3]))
custom_case("C3b list-pair two clique balanced", [2], [twoclique_listpair_names],
            [twoclique_listpair], [[0]],
            balanced(make_jds(21, {(1,): 0.5, (2,): 0.5}, cgen), [2]))
custom_case("C4b two edges of lists balanced", [3], [path3_names], [path3], [[0]],
            balanced(make_jds(22, {(1,): 0.5, (2,): 0.5}, cgen), [3]))
custom_case("C5b diamond + pentagon balanced", [2, 2, 2, 2, 1],
            [diamond_names, pentagon_names], [diamond, pentagon],
            [[0, 1], [2, 3, 4]],
            [(1, 1, 0, 0, 0), (1, 1, 1, 1, 0), (1, 0, 1, 0, 1), (1, 0, 1, 1, 0),
             (0, 1, 1, 1, 1), (0, 1, 0, 1, 0), (1, 1, 1, 0, 0), (1, 1, 0, 0, 0),
             (1, 1, 0, 1, 0), (1, 1, 1, 1, 0), (0, 0, 1, 1, 0), (0, 0, 1, 1, 0),
             (0, 0, 0, 0, 0), (0, 0, 0, 0, 1), (0, 0, 0, 0, 1)])
custom_case("C5 diamond only, uneven orbits", [2, 2], [diamond_names], [diamond],
            [[0, 1]], [(1, 1), (1, 1), (1, 1), (1, 1), (1, 0), (1, 0)])
custom_case("C6 repeated orbit index", [2], [diamond_names], [diamond], [[0, 0]],
            [(1,)] * 8)
custom_case("C7 empty jds", [2], [twoclique_names], [twoclique], [[0]], [])
custom_case("C8 all zero", [2, 3], [twoclique_names, threeclique_names],
            [twoclique, threeclique], [[0], [1]], [(0, 0)] * 4)
custom_case("C9 no motifs declared", [2], [twoclique_names], [twoclique], [],
            [(1,), (1,)])
custom_case("C10 leftover stubs", [2, 3], [twoclique_names, threeclique_names],
            [twoclique, threeclique], [[0], [1]],
            [(1, 1), (1, 1), (1, 1), (0, 1), (0, 1), (1, 0), (1, 0)])
custom_case("C11 float size", [2.0], [twoclique_names], [twoclique], [[0]],
            [(1,), (1,)])
# error paths
custom_case("X1 orbits run dry", [2, 2], [diamond_names], [diamond], [[0, 1]],
            [(1, 1), (1, 0), (1, 0), (1, 0)])
custom_case("X2 short builders", [2, 3], [twoclique_names, threeclique_names],
            [twoclique], [[0], [1]], [(1, 1), (1, 1), (0, 1)])
custom_case("X3 short builders, no motif", [2, 3],
            [twoclique_names, threeclique_names], [twoclique], [[0], [1]],
            [(1, 0), (1, 0)])
custom_case("X4 short names", [2, 3], [twoclique_names], [twoclique, threeclique],
            [[0], [1]], [(1, 1), (1, 1), (0, 1)])
custom_case("X5 short sizes", [2], [twoclique_names, threeclique_names],
            [twoclique, threeclique], [[0], [1]], [(1, 1), (1, 1), (0, 1)])
custom_case("X6 bad orbit index", [2], [twoclique_names], [twoclique], [[3]],
            [(1,), (1,)])
custom_case("X7 zero size", [0], [twoclique_names], [twoclique], [[0]],
            [(1,), (1,)])
custom_case("X8 empty motif index list", [2], [twoclique_names], [twoclique], [[]],
            [(1,), (1,)])
custom_case("X9 generator builder", [3], [threeclique_names], [generator_builder],
            [[0]], [(1,), (1,), (1,)])
custom_case("X10 empty builder", [2], [lambda: []], [empty_builder], [[0]],
            [(1,), (1,), (1,), (1,)])
custom_case("X11 names not callable", [3], ["3-clique"], [threeclique], [[0]],
            [(1,), (1,), (1,)])
run("X12 missing indices", lambda: GCMAlgorithmCustomMotifs(
    fast_params([2], [twoclique_names], [twoclique])))
run("X13 missing sizes", lambda: GCMAlgorithmCustomMotifs(
    {N.MOTIF_INDICES: [[0]]}))

seed(11)
bigc = make_jds(9000, {(1, 0): 0.2, (2, 1): 0.5, (3, 0): 0.1, (5, 1): 0.2}, cgen)
# make the stub totals divisible by the motif sizes (the custom algorithm pops
# the trailing, possibly short, partition first)
bigc.append(((-sum(v[0] for v in bigc)) % 2, (-sum(v[1] for v in bigc)) % 3))
del CALLS[:]
alg = GCMAlgorithmCustomMotifs(custom_params(
    [2, 3], [twoclique_names, threeclique_names], [twoclique, threeclique],
    [[0], [1]]))
for r in range(2):
    el = run("C big %d" % r, lambda: alg.random_clustered_graph(bigc))
    if el is not None:
        print("C big", r, len(el.edge_list), digest(el.edge_list),
              digest(el.topologies), digest(el.motif_id))
# and the non-divisible variant, which fails inside the builder callback
el = run("C big short", lambda: alg.random_clustered_graph(bigc + [(1, 1)]))
print("C big callback log", digest(CALLS))
print("final rng", rng_digest())
