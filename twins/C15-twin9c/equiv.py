import sys, os; sys.path.insert(0, os.getcwd())
if os.environ.get("PYTHONHASHSEED") != "0":
    os.environ["PYTHONHASHSEED"] = "0"
    os.execv(sys.executable, [sys.executable] + sys.argv)
import hashlib
import itertools
import random
from fractions import Fraction

import numpy as np
import networkx as nx

from gcmpy.message_passing.equations.automated_equation import AutomatedEquation
from gcmpy.message_passing.message_passing import MessagePassing

FOCUS = "c"

random.seed(20261004)
np.random.seed(20261004)

_H = hashlib.sha256()
_N = [0]


def out(*parts):
    line = " ".join(str(p) for p in parts)
    _H.update(line.encode() + b"\n")
    _N[0] += 1
    print(line)


def show(v):
    if isinstance(v, float):
        return repr(v)
    if isinstance(v, (list, tuple)):
        return "[" + ",".join(show(x) for x in v) + "]"
    if isinstance(v, (set, frozenset)):
        return "{" + ",".join(show(x) for x in v) + "}"
    if isinstance(v, dict):
        return "{" + ",".join(show(k) + ":" + show(x) for k, x in v.items()) + "}"
    return type(v).__name__ + ":" + repr(v)


def call(tag, f, *a, **k):
    try:
        r = f(*a, **k)
    except BaseException as e:
        out(tag, "EXC", type(e).__name__, repr(str(e))[:160])
        return None
    out(tag, "OK", show(r))
    return r


def state(tag, ae):
    out(tag, "CS", show(ae._connected_subgraphs))
    out(tag, "EC", show(ae._edge_combinations))


def graph_state(tag, G):
    out(tag, "G", type(G).__name__, repr(G.name), show(list(G.nodes(data=True))),
        show([tuple(e) for e in G.edges(data=True)]),
        show({n: list(G.adj[n]) for n in G.nodes()}))


def rand_connected(n, extra, cls=nx.Graph, name="", labels=None, shuffle=True):
    labels = list(range(n)) if labels is None else list(labels)
    order = labels[:]
    if shuffle:
        random.shuffle(order)
    G = cls(name=name)
    G.add_nodes_from(order)
    edges = []
    for i in range(1, n):
        edges.append((order[i], order[random.randrange(i)]))
    cand = [(a, b) for a, b in itertools.combinations(labels, 2)]
    random.shuffle(cand)
    for e in cand[:extra]:
        edges.append(e)
    random.shuffle(edges)
    G.add_edges_from(edges)
    for v in G.nodes():
        G.nodes[v]["u"] = random.random()
    return G


PS = [0.0, 1.0, 0.5, 0.3, 0.123456789, -0.25, 1.75, 1, 0, Fraction(1, 3), 0.3 + 0.1j]

# ---------------------------------------------------------------- 1. sweep
ae_shared = AutomatedEquation()
gid = 0
for n in range(1, 7):
    for rep in range(6 if n < 6 else 3):
        extra = random.randrange(0, 1 + n * (n - 1) // 2)
        gid += 1
        G = rand_connected(n, extra, name=f"g{gid}")
        before = (list(G.nodes(data=True)), list(G.edges(data=True)))
        fresh = AutomatedEquation()
        for root in list(G.nodes()):
            p = random.choice(PS)
            r1 = call(f"sweep{gid}/fresh/r{root}/p{p}", fresh.automated_equation, G, p, root)
            r2 = call(f"sweep{gid}/shared/r{root}/p{p}", ae_shared.automated_equation, G, p, root)
            r3 = call(f"sweep{gid}/fresh-again/r{root}/p{p}", fresh.automated_equation, G, p, root)
            out("same", repr(r1) == repr(r2) == repr(r3))
        after = (list(G.nodes(data=True)), list(G.edges(data=True)))
        out("unmutated", before == after)
        state(f"sweep{gid}/fresh", fresh)
        if rep == 0:
            graph_state(f"sweep{gid}", G)
state("sweep/shared", ae_shared)

# ------------------------------------------- 2. one object, changing p / u / names
ae = AutomatedEquation()
G = rand_connected(5, 4, name="motif")
for rnd in range(4):
    for root in sorted(G.nodes()):
        for p in (0.2, 0.9, Fraction(2, 7)):
            call(f"reuse/rnd{rnd}/r{root}/p{p}", ae.automated_equation, G, p, root)
    for v in G.nodes():
        G.nodes[v]["u"] = random.random() if rnd < 2 else Fraction(random.randrange(1, 9), 9)
state("reuse", ae)
# same name, different topology: the caches are keyed by name
G2 = rand_connected(5, 7, name="motif")
for root in sorted(G2.nodes()):
    call(f"collide/r{root}", ae.automated_equation, G2, 0.4, root)
G3 = rand_connected(3, 1, name="motif")
for root in sorted(G3.nodes()):
    call(f"collide-small/r{root}", ae.automated_equation, G3, 0.4, root)
state("collide", ae)
# unnamed graphs
ae = AutomatedEquation()
for k in range(4):
    Gk = rand_connected(3 + k % 2, k)
    for root in sorted(Gk.nodes()):
        call(f"unnamed{k}/r{root}", ae.automated_equation, Gk, 0.35, root)
state("unnamed", ae)

# ------------------------------------------------------ 3. unusual graphs / errors
ae = AutomatedEquation()
E = nx.Graph(name="empty")
call("empty/root0", ae.automated_equation, E, 0.5, 0)
call("empty/cs", ae.get_connected_subgraphs, E, 0)
call("empty/ec", ae.get_edge_combinations, E, [])
call("empty/us", ae.get_us, E, 0)
S = nx.Graph(name="single")
S.add_node(7, u=0.25)
call("single/7", ae.automated_equation, S, 0.5, 7)
call("single/8", ae.automated_equation, S, 0.5, 8)
call("single/ec", ae.get_edge_combinations, S, [7])
call("single/us", ae.get_us, S, 7)
call("single/us-other", ae.get_us, S, 8)
L = nx.Graph(name="loop")
L.add_edges_from([(0, 0), (0, 1), (1, 1), (1, 2)])
nx.set_node_attributes(L, {0: 0.5, 1: 0.25, 2: 0.125}, "u")
for root in (0, 1, 2):
    call(f"loop/r{root}", ae.automated_equation, L, 0.3, root)
D = nx.Graph(name="disc")
D.add_edges_from([(0, 1), (1, 2), (3, 4)])
D.add_node(5)
nx.set_node_attributes(D, {i: 0.1 * (i + 1) for i in range(6)}, "u")
for root in range(6):
    call(f"disc/r{root}", ae.automated_equation, D, 0.3, root)
NU = nx.Graph(name="nou")
NU.add_edges_from([(0, 1), (1, 2), (2, 0)])
NU.nodes[1]["u"] = 0.5
for root in (0, 1, 2):
    call(f"nou/r{root}", ae.automated_equation, NU, 0.3, root)
    call(f"nou/us{root}", ae.get_us, NU, root)
BU = nx.Graph(name="badu")
BU.add_edges_from([(0, 1), (1, 2)])
nx.set_node_attributes(BU, {0: "x", 1: None, 2: [1]}, "u")
for root in (0, 1, 2):
    call(f"badu/r{root}", ae.automated_equation, BU, 0.3, root)
    call(f"badu/us{root}", ae.get_us, BU, root)
ST = nx.Graph(name="strs")
ST.add_edges_from([("a", "b"), ("b", "c"), ("c", "a"), ("c", "1"), ("1", 1)])
nx.set_node_attributes(ST, {"a": 0.5, "b": 0.25, "c": 0.75, "1": 0.3, 1: 0.6}, "u")
for root in ("a", "1", 1, "c", 1.0, True, None, ("a",)):
    call(f"strs/r{root!r}", ae.automated_equation, ST, 0.45, root)
call("unhashable-root", ae.automated_equation, ST, 0.45, [1])
call("p-str", ae.automated_equation, ST, "0.5", "a")
call("p-none", ae.automated_equation, ST, None, "b")
call("G-none", ae.automated_equation, None, 0.5, 0)
call("G-dict", ae.automated_equation, {0: [1]}, 0.5, 0)
state("odd", ae)
for cls in (nx.MultiGraph, nx.DiGraph, nx.MultiDiGraph):
    ae = AutomatedEquation()
    M = rand_connected(4, 3, cls=cls, name=cls.__name__)
    if cls is nx.MultiGraph:
        M.add_edge(0, 1)
        M.add_edge(0, 1)
    for root in sorted(M.nodes()):
        call(f"{cls.__name__}/r{root}", ae.automated_equation, M, 0.4, root)
        call(f"{cls.__name__}/cs{root}", ae.get_connected_subgraphs, M, root)
        call(f"{cls.__name__}/us{root}", ae.get_us, M, root)
    call(f"{cls.__name__}/ec", ae.get_edge_combinations, M, [0])
    state(cls.__name__, ae)

# ---------------------------------------------------- 4. the helpers, called directly
ae = AutomatedEquation()
for k in range(8):
    Gk = rand_connected(2 + k % 4, k % 5, name=f"h{k}")
    for root in list(Gk.nodes()):
        r = call(f"h{k}/cs/{root}", ae.get_connected_subgraphs, Gk, root)
        r2 = ae.get_connected_subgraphs(Gk, root)
        out("cs-identity", r is r2, r is ae._connected_subgraphs[f"{root}-{Gk.name}"],
            all(type(s) is set for s in r), len({id(s) for s in r}) == len(r))
        call(f"h{k}/us/{root}", ae.get_us, Gk, root)
    for c in ([0], [0, 1], "x", None):
        r = call(f"h{k}/ec/{c}", ae.get_edge_combinations, Gk, c)
        r2 = ae.get_edge_combinations(Gk, c)
        out("ec-identity", r is r2, r is ae._edge_combinations[f"{c}-{Gk.name}"], type(r).__name__)
    # the lists handed out are the cached ones: mutate and look again
    r = ae.get_edge_combinations(Gk, [0])
    r.append(99)
    call(f"h{k}/ec-after-append", ae.get_edge_combinations, Gk, [0])
    r = ae.get_connected_subgraphs(Gk, 0)
    r.append({"extra"})
    call(f"h{k}/cs-after-append", ae.get_connected_subgraphs, Gk, 0)
state("helpers", ae)

P = nx.path_graph(4)
C = nx.cycle_graph(5)
K = nx.complete_graph(4)
for nm, Gk in (("P", P), ("C", C), ("K", K)):
    for args in (
        ({0}, set(Gk.neighbors(0)), {0}, 4),
        ({0}, set(Gk.neighbors(0)), {0}, 2),
        ({0}, set(Gk.neighbors(0)), {0}, 1),
        ({0}, set(Gk.neighbors(0)), {0}, 0),
        ({0, 1}, {2, 3}, {0, 1}, 3),
        (set(), {0, 1, 2}, set(), 2),
        ({0}, {1, 2}, set(), 3),
        ({0}, {1, 2}, {0, 1, 2}, 3),
        (frozenset({0}), frozenset({1}), frozenset({0}), 3),
        ({0}, frozenset(Gk.neighbors(0)), {0}, 3),
        ([0], {1}, {0}, 3),
        ({0}, [1], {0}, 3),
        ({0}, {1}, [0], 3),
        ((0,), {1}, {0}, 3),
        ({0}, {1, 17}, {0}, 9),
        ({0}, {1}, {0}, None),
        ({0}, {1}, {0}, "3"),
        (None, {1}, {0}, 3),
        ({0}, None, {0}, 3),
        ({0}, {1}, None, 3),
    ):
        res = []
        sub, pos, exc = args[0], args[1], args[2]
        keep = (show(sub), show(pos), show(exc))
        try:
            rv = ae._get_connected_subgraphs(Gk, sub, pos, exc, res, args[3])
            out(f"direct/{nm}/{keep}/{args[3]}", "OK", show(rv), show(res))
        except BaseException as e:
            out(f"direct/{nm}/{keep}/{args[3]}", "EXC", type(e).__name__, repr(str(e))[:160], show(res))
        out("args-unmutated", keep == (show(sub), show(pos), show(exc)))
    call(f"direct/{nm}/results-none", ae._get_connected_subgraphs, Gk, {0}, {1}, {0}, None, 3)
    call(f"direct/{nm}/G-none", ae._get_connected_subgraphs, None, {0}, {1}, {0}, [], 3)

# --------------------------------------------- 5. through the message passing driver
N = nx.Graph()
tri1 = [(0, 1), (1, 2), (0, 2)]
tri2 = [(2, 3), (3, 4), (2, 4)]
sq = [(4, 5), (5, 6), (6, 7), (7, 4), (4, 6)]
for uid, (verts, edges) in enumerate((([0, 1, 2], tri1), ([2, 3, 4], tri2), ([4, 5, 6, 7], sq), ([7, 8], [(7, 8)]))):
    for (a, b) in edges:
        N.add_edge(a, b, CoverLabel=f"{len(verts)}-{verts}-{edges}-{uid}")
for phi in (0.0, 0.35, 0.8, 1.0):
    mp = MessagePassing(N, iterations=3)
    call(f"mp/{phi}", mp.theoretical, phi)
    call(f"mp/{phi}/again", mp.theoretical, phi / 2)
    out("mp-cache-sizes", len(mp._AE._connected_subgraphs), len(mp._AE._edge_combinations))
    out("mp-H", show(mp._H_tau))

# ------------------------------------------------------------ 6. focus: get_us
ae = AutomatedEquation()
for k in range(12):
    cls = (nx.Graph, nx.MultiGraph, nx.DiGraph, nx.MultiDiGraph)[k % 4]
    Gk = rand_connected(1 + k % 6, k % 5, cls=cls, name=f"us{k}")
    vals = [random.random(), Fraction(random.randrange(1, 7), 7), random.randrange(-3, 4), np.float64(random.random()),
            np.float32(0.1), True, float("inf"), float("nan"), 1e-320, -0.0, 2 + 1j]
    for v in Gk.nodes():
        Gk.nodes[v]["u"] = random.choice(vals)
        Gk.nodes[v]["other"] = k
    snapshot = show(list(Gk.nodes(data=True)))
    for root in list(Gk.nodes()) + [None, -1, 2.0, True, "0", float("nan")]:
        call(f"us6/{k}/r{root!r}", ae.get_us, Gk, root)
    out("us6-unmutated", snapshot == show(list(Gk.nodes(data=True))))
    # `u` missing on exactly one vertex: only an error when that vertex is not the root
    for miss in list(Gk.nodes()):
        keep = Gk.nodes[miss].pop("u")
        for root in list(Gk.nodes()):
            call(f"us6/{k}/miss{miss}/r{root}", ae.get_us, Gk, root)
        Gk.nodes[miss]["u"] = keep
    # attribute dict that is not subscriptable by "u" in the usual way
    first = next(iter(Gk.nodes()))
    Gk.nodes[first]["u"] = {"u": 1}
    call(f"us6/{k}/dict-u", ae.get_us, Gk, None)
    Gk.nodes[first]["u"] = "ab"
    call(f"us6/{k}/str-u", ae.get_us, Gk, None)
    Gk.nodes[first]["u"] = 3
    call(f"us6/{k}/int-then-str", ae.get_us, Gk, None)
V = nx.Graph(name="view")
V.add_edges_from([(0, 1), (1, 2), (2, 3)])
nx.set_node_attributes(V, {0: 0.5, 1: 0.25, 2: 0.75, 3: 0.1}, "u")
for sub in (V.subgraph([0, 1, 2]), nx.subgraph_view(V, filter_node=lambda n: n != 1), V.to_directed(as_view=True), nx.freeze(V.copy())):
    for root in (0, 1, 2, 3):
        call(f"us6/view/{type(sub).__name__}/r{root}", ae.get_us, sub, root)
        call(f"us6/view-ae/{type(sub).__name__}/r{root}", ae.automated_equation, sub, 0.3, root)
for bad in (None, 5, {0: {"u": 2.0}}, [0, 1], nx.Graph):
    call(f"us6/bad/{type(bad).__name__}", ae.get_us, bad, 0)

# ------------------------- 7. focus: which vertices survive in the component graph
ae = AutomatedEquation()
for k in range(14):
    cls = (nx.Graph, nx.MultiGraph)[k % 2]
    Gk = rand_connected(2 + k % 5, k % 6, cls=cls, name=f"iso{k}")
    nodes = list(Gk.nodes())
    for _ in range(k % 4):
        v = random.choice(nodes)
        Gk.add_edge(v, v)
    if k % 3 == 0:
        Gk.add_node("lonely", u=0.5)
    if k % 5 == 0:
        Gk.add_edge("x", "y")
        Gk.nodes["x"]["u"] = 0.2
        Gk.nodes["y"]["u"] = 0.9
    if k % 7 == 3:
        del Gk.nodes[nodes[-1]]["u"]
    for root in list(Gk.nodes()):
        for p in (0.0, 1.0, 0.37, Fraction(3, 5)):
            call(f"iso7/{k}/r{root!r}/p{p}", ae.automated_equation, Gk, p, root)
    graph_state(f"iso7/{k}", Gk)
state("iso7", ae)

# ----------------------------------------------------------------------- digest
out("python-rng", hashlib.sha256(repr(random.getstate()).encode()).hexdigest())
st = np.random.get_state()
out("numpy-rng", hashlib.sha256(st[1].tobytes() + repr(st[2:]).encode()).hexdigest())
print("focus", FOCUS, "lines", _N[0], "digest", _H.hexdigest())
