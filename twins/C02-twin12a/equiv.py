import sys, os; sys.path.insert(0, os.getcwd())
# ---------------------------------------------------------------------------
# Common harness (identical in variants a, b, c); the variant specific block
# with the boundary cases of the touched site follows at the end of the file.
# Run with cwd = a checkout of gcmpy.  Prints a deterministic digest.
# ---------------------------------------------------------------------------
import hashlib
import random
from fractions import Fraction
from itertools import combinations

import numpy as np

from gcmpy.gcm_algorithm.gcm_algorithm_fast import GCMAlgorithmFast
from gcmpy.gcm_algorithm.gcm_algorithm_custom_motifs import GCMAlgorithmCustomMotifs
from gcmpy.gcm_algorithm.gcm_algorithm_network import GCMAlgorithmNetwork
from gcmpy.gcm_algorithm.gcm_algorithm_main import GCMAlgorithmMain
from gcmpy.names.gcm_algorithm_names import GCMAlgorithmNames as N
from gcmpy.network.edge_list import LightWeightEdgeList
from gcmpy.motif_generators.clique_motif import clique_motif

LINES = []


def emit(*parts):
    LINES.append(" ".join(str(p) for p in parts))


def h(obj):
    return hashlib.sha256(repr(obj).encode()).hexdigest()[:16]


def rng_digest():
    st = np.random.get_state()
    return h(random.getstate()) + "/" + h((st[0], st[1].tolist(), st[2], st[3], st[4]))


def plain(x):
    """repr-stable rendering of nested containers / numpy values"""
    if isinstance(x, np.ndarray):
        return ("nd", x.tolist())
    if isinstance(x, (list, tuple)):
        return (type(x).__name__, [plain(y) for y in x])
    if isinstance(x, np.generic):
        return ("npg", type(x).__name__, x.item())
    return x


def describe(el, jds=None):
    if isinstance(el, LightWeightEdgeList):
        d = (
            "LWEL",
            plain(el.edge_list),
            plain(el.topologies),
            plain(el.motif_id),
            [type(i).__name__ for i in el.motif_id[:3]],
            len(el.edge_list),
            len(el.topologies),
            len(el.motif_id),
            el.joint_degrees is jds,
            type(el.edge_list).__name__,
            type(el.topologies).__name__,
            type(el.motif_id).__name__,
        )
        return d
    # a Network (networkx graph subclass)
    try:
        return (
            "NET",
            sorted((repr(u), repr(v), sorted((repr(k), repr(x)) for k, x in d.items()))
                   for u, v, d in el.G.edges(data=True)),
            sorted((repr(n), sorted((repr(k), repr(x)) for k, x in d.items())) for n, d in el.G.nodes(data=True)),
        )
    except Exception as e:  # pragma: no cover
        return ("OTHER", type(el).__name__, repr(e))


def run(label, fn, seed, jds=None, log=None):
    random.seed(seed)
    np.random.seed(seed)
    try:
        out = fn()
        d = describe(out, jds)
        emit(label, "OK", h(d), "n_edges=%s" % (d[5] if d[0] == "LWEL" else len(d[1])))
    except BaseException as e:  # noqa
        emit(label, "EXC", type(e).__name__, "|", str(e)[:120])
    if log is not None:
        emit(label, "calllog", h(log), len(log))
    emit(label, "rng", rng_digest(), "jds", h(plain(jds)) if not hasattr(jds, "__next__") else "iter")


# ------------------------------------------------------------- callbacks ---
def bare_edge(vs):
    return (vs[0], vs[1])


def bare_edge_list(vs):
    return [vs[0], vs[1]]


def two_edges(vs):
    return ((vs[0], vs[1]), (vs[1], vs[2]))


def two_edges_lists(vs):
    return [[vs[0], vs[1]], [vs[1], vs[2]]]


def no_edges(vs):
    return []


def no_edges_tuple(vs):
    return ()


def cycle(vs):
    return tuple((vs[i], vs[(i + 1) % len(vs)]) for i in range(len(vs)))


def gen_edges(vs):
    return (e for e in combinations(vs, 2))


def nd_edges(vs):
    return np.array(list(combinations(vs, 2)))


def random_subset(vs):
    return [e for e in combinations(vs, 2) if random.random() < 0.6]


def np_random_subset(vs):
    return [e for e in combinations(vs, 2) if np.random.random() < 0.6]


def dict_edges(vs):
    return {0: (vs[0], vs[1]), 1: (vs[0], vs[1])}


def str_edges(vs):
    return "ab"


class Logging:
    def __init__(self, fn, log, fail_at=None):
        self.fn, self.log, self.fail_at, self.n = fn, log, fail_at, 0

    def __call__(self, vs):
        self.n += 1
        self.log.append(("build", type(vs).__name__, list(vs)))
        if self.fail_at is not None and self.n == self.fail_at:
            raise RuntimeError("callback failure %d" % self.n)
        return self.fn(vs)


def names_const(*names):
    def f():
        return names if len(names) != 1 else names[0]
    return f


def rand_jds(rng, n, t, maxdeg, kind=tuple):
    return [kind(rng.randint(0, maxdeg) for _ in range(t)) for _ in range(n)]


def balanced_jds(rng, n, sizes, maxdeg):
    """joint degree sequence whose column sums are multiples of the sizes"""
    jds = [[rng.randint(0, maxdeg) for _ in sizes] for _ in range(n)]
    for c, s in enumerate(sizes):
        while n and sum(r[c] for r in jds) % s:
            jds[rng.randrange(n)][c] += 1
    return [tuple(r) for r in jds]


# ------------------------------------------------------ fast algorithm -----
def fast_params(sizes, names, builds):
    return {N.MOTIF_SIZES: sizes, N.EDGE_NAMES: names, N.BUILD_FUNCTIONS: builds}


def fast_section():
    rng = random.Random(12345)
    case = 0
    builders = [clique_motif, bare_edge, bare_edge_list, two_edges, two_edges_lists, no_edges,
                no_edges_tuple, cycle, gen_edges, nd_edges, random_subset, np_random_subset,
                dict_edges, str_edges]
    # fixed boundary joint degree sequences
    fixed = [
        [], [()], [(0,)], [(1,)], [(1,), (0,)], [(1,), (1,)], [(2,)], [(3,)], [(1,), (1,), (1,)],
        [(0, 0)], [(1, 0)], [(0, 1)], [(1, 1)], [(1, 1), (1, 0)], [(2, 1), (0, 1), (0, 1)],
        [(1, 0, 0), (0, 1, 0), (0, 0, 1)], [(2, 3, 4)], [(1,), (1, 1)], [(1, 2), (1,)],
        [(-1,), (2,)], [(1.5,)], [("a",)], [None], [(1,), None], ((1, 1), (1, 2)),
        [[1, 1], [1, 2]], [(True, False), (True, True)],
    ]
    size_sets = [[2], [3], [1], [2, 3], [3, 2], [2, 2, 2], [2, 3, 4], [1, 1], [0], [-1], [2, 0], [2, -2],
                 [2.0], [Fraction(2)], [np.int64(2), np.int64(3)], [True, 2], ["2"], [None], []]
    for jds in fixed:
        for sizes in size_sets:
            for b in (clique_motif, bare_edge, no_edges, random_subset):
                case += 1
                log = []
                t = len(sizes)
                p = fast_params(sizes, ["t%d" % i for i in range(t)], [Logging(b, log)] * t)
                run("F-fixed-%d" % case, lambda: GCMAlgorithmFast(p).random_clustered_graph(jds), case, jds, log)
    # numpy array / iterator joint degree sequences
    for sizes in ([2], [2, 3], [3, 3]):
        t = len(sizes)
        for n in (0, 1, 2, 5, 17):
            case += 1
            arr = np.array(rand_jds(rng, n, t, 3)).reshape(n, t)
            p = fast_params(sizes, ["x", "y", "z"][:t], [clique_motif] * t)
            run("F-nd-%d" % case, lambda: GCMAlgorithmFast(p).random_clustered_graph(arr), case, arr)
            it = iter(rand_jds(rng, n, t, 3))
            run("F-it-%d" % case, lambda: GCMAlgorithmFast(p).random_clustered_graph(it), case, it)
    # random joint degree sequences, every builder
    for b in builders:
        for sizes in ([2], [3], [2, 3], [3, 2, 4], [1, 2], [4, 4, 2, 3]):
            for n in (0, 1, 2, 3, 7, 31):
                for maxdeg in (0, 1, 3):
                    case += 1
                    t = len(sizes)
                    jds = rand_jds(rng, n, t, maxdeg)
                    log = []
                    p = fast_params(sizes, ["n%d" % i for i in range(t)], [Logging(b, log)] * t)
                    run("F-rand-%d-%s" % (case, b.__name__),
                        lambda: GCMAlgorithmFast(p).random_clustered_graph(jds), case, jds, log)
    # malformed parameters
    for sizes, names, builds in [
        ([2, 3], ["a"], [clique_motif, clique_motif]),
        ([2, 3], ["a", "b"], [clique_motif]),
        ([2], ["a", "b"], [clique_motif, clique_motif]),
        ([2, 3], ["a", "b"], [clique_motif, None]),
        ([2, 3], ("a", "b"), (clique_motif, clique_motif)),
        ([2, 3], {0: "a", 1: "b"}, {0: clique_motif, 1: clique_motif}),
        ([2, 3], "ab", [clique_motif, clique_motif]),
        ([2, 3], [["l"], ("t",)], [clique_motif, clique_motif]),
        (None, None, None),
    ]:
        for n in (0, 1, 4, 9):
            case += 1
            jds = rand_jds(rng, n, 2, 3)
            p = fast_params(sizes, names, builds)
            run("F-malf-%d" % case, lambda: GCMAlgorithmFast(p).random_clustered_graph(jds), case, jds)
    for p in ({}, {N.MOTIF_SIZES: [2]}, None, {"motif_sizes": [2], "edge_names": ["a"], "build_functions": [clique_motif]}):
        case += 1
        run("F-ctor-%d" % case, lambda: GCMAlgorithmFast(p).random_clustered_graph([(1,), (1,)]), case)
    # callbacks that raise part way
    for fail_at in (1, 2, 5):
        case += 1
        jds = rand_jds(rng, 12, 2, 3)
        log = []
        p = fast_params([2, 3], ["a", "b"], [Logging(clique_motif, log, fail_at), Logging(clique_motif, log)])
        run("F-raise-%d" % case, lambda: GCMAlgorithmFast(p).random_clustered_graph(jds), case, jds, log)
    # repeated calls on one object, and one params dict shared by several objects
    p = fast_params([2, 3], ["a", "b"], [clique_motif, random_subset])
    alg = GCMAlgorithmFast(p)
    jds = rand_jds(rng, 20, 2, 3)
    for rep in range(4):
        case += 1
        run("F-repeat-%d" % case, lambda: alg.random_clustered_graph(jds), case, jds)
    for rep in range(3):
        case += 1
        run("F-repeat-noseed-%d" % case, lambda: alg.random_clustered_graph([]), case, None)
    emit("F-params-after", h((p[N.MOTIF_SIZES], p[N.EDGE_NAMES])), h(jds))
    # through the factory and through the networkx flavour
    for gtype in ("fast", "network", "motifs", "nope"):
        for n in (0, 1, 6, 25):
            case += 1
            jds = rand_jds(rng, n, 2, 2)
            p = fast_params([2, 3], ["2-clique", "3-clique"], [clique_motif, clique_motif])
            p[N.GCM_TYPE] = gtype
            run("F-factory-%s-%d" % (gtype, case),
                lambda: GCMAlgorithmMain.load_gcm_algorithm(p).random_clustered_graph(jds), case, jds)
            run("F-net-%d" % case, lambda: GCMAlgorithmNetwork(p).random_clustered_graph(jds), case, jds)


# ---------------------------------------------------- custom algorithm -----
def custom_params(sizes, names, builds, indices):
    return {N.MOTIF_SIZES: sizes, N.EDGE_NAMES: names, N.BUILD_FUNCTIONS: builds, N.MOTIF_INDICES: indices}


def diamond(vs):
    return ((vs[0], vs[1]), (vs[1], vs[2]), (vs[2], vs[3]), (vs[3], vs[1]), (vs[0], vs[2]))


def threeclique(vs):
    return (vs[0], vs[1]), (vs[0], vs[2]), (vs[1], vs[2])


def pentagon(vs):
    return ((vs[0], vs[1]), (vs[1], vs[2]), (vs[2], vs[3]), (vs[3], vs[4]), (vs[0], vs[4]), (vs[1], vs[3]))


SUITE_JDS = [
    (2, 1, 0, 1, 1, 0, 0), (1, 1, 0, 1, 1, 0, 0), (3, 1, 1, 0, 0, 1, 0), (2, 0, 1, 0, 0, 1, 0),
    (0, 0, 0, 1, 0, 0, 1), (1, 0, 0, 1, 0, 0, 0), (1, 0, 1, 0, 0, 0, 0), (1, 0, 1, 0, 0, 0, 0),
    (1, 0, 0, 1, 0, 0, 0), (1, 0, 0, 1, 0, 0, 0), (1, 0, 1, 0, 0, 0, 0), (0, 0, 1, 0, 0, 0, 0),
]


def suite_params(log=None):
    w = (lambda f: Logging(f, log)) if log is not None else (lambda f: f)
    return custom_params(
        [2, 3, 2, 2, 2, 2, 1],
        [names_const("2-clique"), names_const("3-clique", "3-clique", "3-clique"),
         names_const("do", "do", "do", "do", "di"), names_const("p01", "p12", "p23", "p34", "p40", "p13")],
        [w(bare_edge), w(threeclique), w(diamond), w(pentagon)],
        [[0], [1], [2, 3], [4, 5, 6]],
    )


def custom_section():
    rng = random.Random(54321)
    case = 0
    # the configuration of the library's own test, many seeds
    for s in range(25):
        case += 1
        log = []
        p = suite_params(log)
        run("C-suite-%d" % case, lambda: GCMAlgorithmCustomMotifs(p).random_clustered_graph(SUITE_JDS), 1000 + s,
            SUITE_JDS, log)
    # single-orbit motifs: every builder, sizes and joint degree sequences incl. boundaries
    builders = [
        (clique_motif, None), (bare_edge, "one"), (bare_edge_list, "one"), (two_edges, ("x", "y")),
        (two_edges_lists, ("x", "y")), (no_edges, ()), (no_edges_tuple, ()), (cycle, None),
        (gen_edges, None), (nd_edges, None), (random_subset, None), (np_random_subset, None),
        (dict_edges, ("x", "y")), (str_edges, ("x", "y")), (two_edges, "xy"), (bare_edge, ("one",)),
    ]
    fixed = [[], [()], [(0,)], [(1,)], [(1,), (1,)], [(2,)], [(1,), (1,), (1,)], [(3,), (3,), (2,), (1,)],
             [(-1,), (2,)], [(1.5,)], [None], [[2], [2], [2]]]
    for b, names in builders:
        for size in (2, 3, 1, 4):
            nm = names if names is not None else tuple("e%d" % i for i in range(size * (size - 1) // 2))
            if b is cycle:
                nm = tuple("c%d" % i for i in range(size))
            jdss = list(fixed) + [balanced_jds(rng, n, [size], 3) for n in (1, 2, 5, 13)] + \
                [rand_jds(rng, n, 1, 3) for n in (3, 8)]
            for jds in jdss:
                case += 1
                log = []
                p = custom_params([size], [names_const(*nm) if isinstance(nm, tuple) else (lambda nm=nm: nm)],
                                  [Logging(b, log)], [[0]])
                run("C-single-%d-%s" % (case, b.__name__),
                    lambda: GCMAlgorithmCustomMotifs(p).random_clustered_graph(jds), case, jds, log)
    # malformed / boundary sizes and index tables
    size_sets = [[2, 3], [3, 2], [2, 2], [1, 1], [0, 2], [2, 0], [-2, 2], [2, -2], [-2, -3], [-1, -1],
                 [2.0, 2], [2, 2.0], [Fraction(2), 2], [np.int64(2), np.int64(2)], [True, True], ["2", 2],
                 [None, 2], [2], [], [10, 10], [-10, 3]]
    index_sets = [[[0], [1]], [[0, 1]], [[1, 0]], [[1], [0]], [[0]], [[1]], [], [[]], [[0], [0]], [[0, 0]],
                  [[2]], [[-1]], [[0], [1], [0]], [(0,), (1,)], ((0, 1),), [[0.0]], [["0"]], [None], None]
    jds_sets = [[], [(0, 0)], [(1, 1)], [(2, 2), (2, 2)], [(1, 0), (1, 0)], [(0, 3), (0, 3)],
                balanced_jds(rng, 6, [2, 2], 2), balanced_jds(rng, 9, [2, 3], 3), rand_jds(rng, 7, 2, 3)]
    for sizes in size_sets:
        for idx in index_sets:
            for jds in jds_sets:
                case += 1
                log = []
                nb = 3
                p = custom_params(sizes, [names_const("a", "b", "c", "d", "e", "f")] * nb,
                                  [Logging(lambda vs: list(zip(vs, vs[1:])), log)] * nb, idx)
                run("C-malf-%d" % case, lambda: GCMAlgorithmCustomMotifs(p).random_clustered_graph(jds), case, jds,
                    log)
    # names callbacks of the wrong shape, build tables too short
    for names, builds in [
        ([names_const("a")], [threeclique]),
        ([names_const("a", "b", "c", "d")], [threeclique]),
        ([names_const()], [threeclique]),
        ([lambda: None], [threeclique]),
        (["plain"], [threeclique]),
        ([], [threeclique]),
        ([names_const("a", "b", "c")], []),
        ([lambda: iter("abc")], [threeclique]),
        ([lambda: 7], [bare_edge]),
        ([lambda: ["l1", "l2"]], [bare_edge]),
    ]:
        for n in (0, 3, 6):
            case += 1
            jds = [(1,)] * n
            p = custom_params([3], names, builds, [[0]])
            run("C-names-%d" % case, lambda: GCMAlgorithmCustomMotifs(p).random_clustered_graph(jds), case, jds)
    # constructor failures
    for p in ({}, None, {N.MOTIF_INDICES: [[0]]}, suite_params()):
        case += 1
        if isinstance(p, dict) and N.MOTIF_SIZES in p:
            p = dict(p)
            del p[N.EDGE_NAMES]
        run("C-ctor-%d" % case, lambda: GCMAlgorithmCustomMotifs(p).random_clustered_graph(SUITE_JDS), case)
    # callbacks that raise part way
    for fail_at in (1, 3, 8):
        case += 1
        log = []
        p = suite_params(log)
        p[N.BUILD_FUNCTIONS] = [Logging(bare_edge, log, fail_at)] + p[N.BUILD_FUNCTIONS][1:]
        run("C-raise-%d" % case, lambda: GCMAlgorithmCustomMotifs(p).random_clustered_graph(SUITE_JDS), case,
            SUITE_JDS, log)
    # repeated calls on one object (ids must restart, partitions must be rebuilt)
    p = suite_params()
    alg = GCMAlgorithmCustomMotifs(p)
    for rep in range(5):
        case += 1
        run("C-repeat-%d" % case, lambda: alg.random_clustered_graph(SUITE_JDS), case, SUITE_JDS)
    emit("C-params-after", h((p[N.MOTIF_SIZES], p[N.MOTIF_INDICES])), h(SUITE_JDS))
    # partition() is public
    for lst in ([], [1], [1, 2], [1, 2, 3], list(range(10)), (1, 2, 3), "abcdef", np.arange(5), None, 5):
        for n in (1, 2, 3, 7, 0, -1, -3, 2.0, True, None, "2", np.int64(2)):
            try:
                out = alg.partition(lst, n)
                emit("C-partition", repr(lst)[:20], repr(n), "OK", h(plain(out)), len(out))
            except BaseException as e:  # noqa
                emit("C-partition", repr(lst)[:20], repr(n), "EXC", type(e).__name__, str(e)[:60])
    # through the factory
    p = suite_params()
    p[N.GCM_TYPE] = "motifs"
    for s in range(3):
        case += 1
        run("C-factory-%d" % case,
            lambda: GCMAlgorithmMain.load_gcm_algorithm(p).random_clustered_graph(SUITE_JDS), case, SUITE_JDS)


# ---------------------------------------------------- edge list object -----
def edge_list_section():
    el = LightWeightEdgeList()
    emit("E-init", el.edge_list, el.topologies, el.joint_degrees, el.motif_id,
         len({id(el.edge_list), id(el.topologies), id(el.joint_degrees), id(el.motif_id)}))
    for v in ([], [1], None, (1, 2), "s", el.edge_list):
        el.edge_list = v
        el.topologies = v
        el.joint_degrees = v
        el.motif_id = v
        emit("E-set", repr(v), el.edge_list is v, el.topologies is v, el.joint_degrees is v, el.motif_id is v,
             sorted(el.__dict__))
    raw = LightWeightEdgeList.__new__(LightWeightEdgeList)
    for attr in ("edge_list", "topologies", "joint_degrees", "motif_id"):
        try:
            getattr(raw, attr)
            emit("E-raw", attr, "OK")
        except BaseException as e:  # noqa
            emit("E-raw", attr, "EXC", type(e).__name__, str(e))
        setattr(raw, attr, [attr])
        emit("E-raw-set", attr, getattr(raw, attr))


def finish():
    text = "\n".join(LINES)
    print(text)
    print("TOTAL-LINES", len(LINES))
    print("TOTAL-DIGEST", hashlib.sha256(text.encode()).hexdigest())


# ---------------------------------------------------------------------------
# Variant a: clamp `range(max(0, int(num_motifs)))` in
# GCMAlgorithmCustomMotifs.random_clustered_graph.  Boundary cases: the motif
# count is 0, -0.0, negative (negative motif size), fractional, huge size.
# ---------------------------------------------------------------------------
def focus_a():
    rng = random.Random(777)
    case = 0
    chain_build = lambda vs: list(zip(vs, vs[1:]))  # noqa
    many = names_const(*["n%d" % i for i in range(12)])
    size_sets = [[-1], [-2], [-3], [-100], [1], [2], [3], [5], [100], [0], [-0.0], [0.0], [-2.0], [0.5], [-0.5],
                 [float("inf")], [float("-inf")], [float("nan")], [Fraction(-2)], [np.int64(-2)], [np.int64(3)],
                 [False], [True], [10 ** 30], [-10 ** 30],
                 [-2, 2], [2, -2], [-2, -2], [3, -1], [-1, 3], [2, 5], [5, 2], [1, -1]]
    index_sets = [[[0]], [[0], [0]], [[0], [1]], [[1], [0]], [[0, 1]], [[1, 0]], [[-1]], [[0], [-1]]]
    jds_sets = [[], [(0, 0)], [(1, 0)], [(0, 1)], [(1, 1)], [(2, 1), (1, 2)], [(1, 1)] * 2, [(1, 1)] * 3,
                [(1, 1)] * 4, [(1, 1)] * 5, [(1, 1)] * 6, [(1, 1)] * 7, [(3, 2), (0, 0), (1, 4)],
                rand_jds(rng, 11, 2, 3), rand_jds(rng, 30, 2, 2)]
    for sizes in size_sets:
        for idx in index_sets:
            for jds2 in jds_sets:
                case += 1
                log = []
                jds = [tuple(r[:len(sizes)]) for r in jds2]  # as many columns as there are sizes
                p = custom_params(sizes, [many, many], [Logging(chain_build, log), Logging(random_subset, log)], idx)
                alg = None
                def go():
                    nonlocal alg
                    alg = GCMAlgorithmCustomMotifs(p)
                    return alg.random_clustered_graph(jds)
                run("A-%d" % case, go, case, jds, log)
                # a second call on the same object, without reseeding
                if alg is not None:
                    try:
                        out = alg.random_clustered_graph(jds)
                        emit("A-%d-again" % case, "OK", h(describe(out, jds)))
                    except BaseException as e:  # noqa
                        emit("A-%d-again" % case, "EXC", type(e).__name__, str(e)[:80])
                    emit("A-%d-again" % case, "rng", rng_digest(), h(log), h((sizes, idx, plain(jds))))


if __name__ == "__main__":
    focus_a()
    custom_section()
    fast_section()
    edge_list_section()
    finish()
