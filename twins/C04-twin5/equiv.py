"""
Equivalence digest for the C04 additions. Uses ONLY the pre-existing API, so it
runs unchanged on the original code. Run with cwd = a checkout.
"""
import sys
import os
import random
import hashlib

sys.path.insert(0, os.getcwd())

import numpy as np
import networkx as nx

from gcmpy.network.network import Network
from gcmpy.network.edge_list import LightWeightEdgeList
from gcmpy.network.edge_list_to_network import EdgeListToNetwork
from gcmpy.network.network_to_edge_list import NetworkToEdgeList
from gcmpy.names.network_names import NetworkNames
from gcmpy.names.gcm_algorithm_names import GCMAlgorithmNames
from gcmpy.names.joint_degree_names import JointDegreeNames
from gcmpy.joint_degree.joint_degree_loaders.joint_degree_manual import (
    JointDegreeManual,
)
from gcmpy.gcm_algorithm.gcm_algorithm_network import GCMAlgorithmNetwork
from gcmpy.motif_generators.clique_motif import clique_motif
from gcmpy.covers.eecc import EECC


def rng_state():
    h = hashlib.sha256()
    h.update(repr(random.getstate()).encode())
    st = np.random.get_state()
    h.update(repr((st[0], st[1].tolist(), st[2], st[3], repr(st[4]))).encode())
    return h.hexdigest()


def long_digest(label, obj):
    s = repr(obj)
    print(label, len(s), hashlib.sha256(s.encode()).hexdigest())


def show_graph(label, G):
    print(label, "type", type(G).__name__)
    print(label, "nodes", repr(list(G.nodes(data=True))))
    print(label, "edges", repr(list(G.edges(data=True))))
    print(label, "adj", repr({n: dict(G.adj[n]) for n in G.nodes()}))


def show_el(label, el):
    print(label, "type", type(el).__name__)
    print(label, "edge_list", repr(el.edge_list))
    print(label, "topologies", repr(el.topologies))
    print(label, "joint_degrees", repr(el.joint_degrees))
    print(label, "motif_id", repr(el.motif_id))
    print(label, "vars", repr(sorted(vars(el).keys())))


def attempt(label, fn):
    try:
        r = fn()
        print(label, "OK")
        return r
    except BaseException as exc:  # noqa
        print(label, "EXC", type(exc).__name__, repr(exc.args))
        return None


def make_el(jds, edges, tops, mids):
    el = LightWeightEdgeList()
    el.joint_degrees = jds
    el.edge_list = edges
    el.topologies = tops
    el.motif_id = mids
    return el


random.seed(12345)
np.random.seed(54321)
print("rng0", rng_state())

# ---------------------------------------------------------------- edge list
print("== LightWeightEdgeList")
el0 = LightWeightEdgeList()
show_el("el0", el0)
print("el0 truth", bool(el0))
print("el0 hashable", isinstance(hash(el0), int))
print("el0 eq", el0 == LightWeightEdgeList(), el0 == el0)
lst = [(0, 1)]
el0.edge_list = lst
print("el0 identity", el0.edge_list is lst)
print(
    "public names",
    [n for n in ("edge_list", "topologies", "joint_degrees", "motif_id")
     if hasattr(LightWeightEdgeList, n)],
)

# ---------------------------------------------------------------- network
print("== Network")
net = Network()
print("net truth", bool(net))
show_graph("net.empty", net.G)
print("has_edges", net.has_edges())
print("find_cliques empty", repr(net.find_cliques()))
net.add_edge((0, 1))
net.add_edge((1, 2))
net.add_edge((0, 2))
net.add_edge((2, 3))
net.add_edges_from([(3, 4), (4, 5), (3, 5), (5, 6, {"w": 1.5})])
show_graph("net.built", net.G)
print("has_edges", net.has_edges())
c1 = net.find_cliques()
c2 = net.find_cliques()
print("find_cliques", repr(c1), repr(c2), c1 is c2, type(c1).__name__)
print("remove existing", repr(net.remove_edge(0, 1)))
print("remove again", repr(net.remove_edge(0, 1)))
print("remove reversed", repr(net.remove_edge(2, 1)))
print("remove missing node", repr(net.remove_edge(100, 200)))
attempt("remove unhashable", lambda: net.remove_edge([1], 2))
attempt("remove kw", lambda: net.remove_edge(i=3, j=4))
attempt("remove too few", lambda: net.remove_edge(3))
attempt("add_edge bad", lambda: net.add_edge((1,)))
attempt("add_edge 3", lambda: net.add_edge((7, 8, 9)))
attempt("add_edges_from bad", lambda: net.add_edges_from([(1, 2), (3,)]))
attempt("Network positional", lambda: Network(*()))
show_graph("net.after", net.G)
print("find_cliques after", repr(net.find_cliques()))
g_new = nx.path_graph(4)
net.G = g_new
print("setter identity", net.G is g_new, net._G is g_new)
print("find_cliques path", repr(net.find_cliques()))
while net.has_edges():
    e = list(net.G.edges())[0]
    net.remove_edge(*e)
print("drained", net.has_edges(), repr(list(net.G.edges())))
print("vars", repr(sorted(vars(net).keys())))
net.G = nx.DiGraph([(0, 1)])
attempt("find_cliques digraph", lambda: net.find_cliques())
print("rng1", rng_state())

# ---------------------------------------------------------------- EECC (subclass)
print("== EECC")
for m0 in (2, 3, 4):
    G = EECC()
    for e in [(1, 2), (1, 14), (2, 4), (2, 13), (2, 14), (3, 4), (3, 5), (4, 5),
              (4, 13), (4, 14), (6, 7), (6, 8), (7, 8), (8, 9), (9, 10), (9, 11),
              (10, 11), (10, 12), (11, 12), (13, 14)]:
        G.add_edge(e)
    G.set_max_clique_size(m0)
    print("eecc", m0, "find_cliques", repr(G.find_cliques()))
    print("eecc", m0, "limited", repr(G.limited_maximal_cliques()))
    r = attempt("eecc get %d" % m0, G.get_EECC)
    print("eecc", m0, "result", repr(r))
    print("eecc", m0, "left", repr(list(G.G.edges())), G.has_edges())
    print("eecc", m0, "vars", repr(sorted(vars(G).keys())))
print("rng2", rng_state())

# ---------------------------------------------------------------- conversions
print("== EdgeListToNetwork")
cases = {}
cases["empty"] = make_el([], [], [], [])
cases["isolated"] = make_el([(0, 0), (0, 0), (0, 0)], [], [], [])
cases["simple"] = make_el(
    [(1, 2), (1, 2), (2, 2), (1, 0), (0, 0)],
    [(0, 1), (1, 2), (2, 0), (2, 3)],
    ["3-clique", "3-clique", "3-clique", "2-clique"],
    [0, 0, 0, 1],
)
cases["reversed_dup"] = make_el(
    [(2, 0), (2, 0), (1, 0)],
    [(0, 1), (1, 0), (1, 2), (0, 1)],
    ["a", "b", "c", "d"],
    [10, 11, 12, 13],
)
cases["selfloop"] = make_el([(2, 0), (1, 0)], [(0, 0), (0, 1)], ["l", "e"], [0, 1])
cases["beyond_jds"] = make_el([(1, 0)], [(0, 5), (5, 7)], ["x", "y"], [0, 1])
cases["short_tops"] = make_el(
    [(1, 0), (1, 0), (1, 0)], [(0, 1), (1, 2)], ["only"], [0, 1, 2, 3]
)
cases["float_attrs"] = make_el(
    [0.1 + 0.2, 1e-300, float("inf")],
    [(0, 1), (1, 2)],
    [0.1 * 3, "t"],
    [1 / 3, -0.0],
)
cases["tuples_as_lists"] = make_el(
    ((1, 0), (1, 0)), ((0, 1),), ("t",), (0,)
)
cases["with_data"] = make_el(
    [(1, 0), (1, 0)], [(0, 1, {"w": 2})], ["t"], [0]
)
cases["str_nodes"] = make_el([(1, 0), (1, 0)], [("a", "b")], ["t"], [3])

for name, el in cases.items():
    before = (repr(el.edge_list), repr(el.topologies), repr(el.joint_degrees),
              repr(el.motif_id))
    s0 = rng_state()
    net1 = attempt("e2n " + name, lambda: EdgeListToNetwork.convert(el))
    net2 = attempt("e2n again " + name, lambda: EdgeListToNetwork.convert(el))
    after = (repr(el.edge_list), repr(el.topologies), repr(el.joint_degrees),
             repr(el.motif_id))
    print("e2n", name, "input unchanged", before == after, "rng unchanged",
          s0 == rng_state())
    if net1 is not None:
        print("e2n", name, "distinct", net1 is not net2, net1.G is not net2.G,
              type(net1).__name__, repr(sorted(vars(net1).keys())))
        show_graph("e2n " + name, net1.G)
        show_graph("e2n2 " + name, net2.G)
        # round trip
        back = attempt("n2e " + name, lambda: NetworkToEdgeList.convert(net1))
        back2 = attempt("n2e again " + name, lambda: NetworkToEdgeList.convert(net1))
        if back is not None:
            show_el("n2e " + name, back)
            print("n2e", name, "distinct", back is not back2,
                  back.edge_list is not back2.edge_list)
            show_graph("n2e graph after " + name, net1.G)
            net3 = attempt("e2n rt " + name, lambda: EdgeListToNetwork.convert(back))
            if net3 is not None:
                show_graph("e2n rt " + name, net3.G)

# generator inputs (consumed by add_edges_from before the attribute loop)
gen_el = make_el([(1, 0), (1, 0)], (e for e in [(0, 1)]), ["t"], [0])
netg = attempt("e2n generator", lambda: EdgeListToNetwork.convert(gen_el))
if netg is not None:
    show_graph("e2n generator", netg.G)
gen_el2 = make_el(iter([(1, 0), (1, 0)]), [(0, 1)], ["t"], [0])
attempt("e2n jds iterator", lambda: EdgeListToNetwork.convert(gen_el2))

# error paths
attempt("e2n None", lambda: EdgeListToNetwork.convert(None))
attempt("e2n no arg", lambda: EdgeListToNetwork.convert())
attempt("e2n kw", lambda: show_graph("kw", EdgeListToNetwork.convert(edgelist=cases["simple"]).G))
attempt("e2n bad edge", lambda: EdgeListToNetwork.convert(
    make_el([(1, 0)], [(0, 1), (2,)], ["a", "b"], [0, 1])))
attempt("e2n unhashable node", lambda: EdgeListToNetwork.convert(
    make_el([(1, 0)], [([0], 1)], ["a"], [0])))
attempt("e2n list edge", lambda: show_graph("list edge", EdgeListToNetwork.convert(
    make_el([(1, 0), (1, 0)], [[0, 1]], ["a"], [0])).G))
attempt("e2n None tops", lambda: EdgeListToNetwork.convert(
    make_el([(1, 0), (1, 0)], [(0, 1)], None, [0])))
attempt("e2n instance call", lambda: show_graph(
    "inst", EdgeListToNetwork().convert(cases["simple"]).G))


class Duck:
    """Records the order in which the converter reads its input."""

    def __init__(self):
        self.log = []

    @property
    def joint_degrees(self):
        self.log.append("joint_degrees")
        return [(1, 0), (1, 0)]

    @property
    def edge_list(self):
        self.log.append("edge_list")
        return [(0, 1)]

    @property
    def topologies(self):
        self.log.append("topologies")
        return ["t"]

    @property
    def motif_id(self):
        self.log.append("motif_id")
        return [7]


d = Duck()
netd = attempt("e2n duck", lambda: EdgeListToNetwork.convert(d))
print("duck access order", repr(d.log))
show_graph("e2n duck", netd.G)

print("== NetworkToEdgeList")
# hand built networks
hb = Network()
show_el("n2e empty", attempt("n2e empty", lambda: NetworkToEdgeList.convert(hb)))
hb.G.add_nodes_from(range(3))
attempt("n2e missing jd", lambda: NetworkToEdgeList.convert(hb))
nx.set_node_attributes(hb.G, {0: (1, 0), 1: (1, 0), 2: (0, 0)}, NetworkNames.JOINT_DEGREE)
show_el("n2e no edges", attempt("n2e no edges", lambda: NetworkToEdgeList.convert(hb)))
hb.add_edge((0, 1))
attempt("n2e missing topology", lambda: NetworkToEdgeList.convert(hb))
nx.set_edge_attributes(hb.G, {(0, 1): "2-clique"}, NetworkNames.TOPOLOGY)
attempt("n2e missing motif", lambda: NetworkToEdgeList.convert(hb))
nx.set_edge_attributes(hb.G, {(0, 1): 4}, NetworkNames.MOTIF_IDS)
r1 = attempt("n2e full", lambda: NetworkToEdgeList.convert(hb))
show_el("n2e full", r1)
# string-keyed attributes are NOT the enum-keyed ones
sk = Network()
sk.G.add_node(0, joint_degree=(0, 0))
attempt("n2e string key", lambda: NetworkToEdgeList.convert(sk))
# non contiguous labels
nc = Network()
nc.G.add_node(5, **{})
nc.G.nodes[5][NetworkNames.JOINT_DEGREE] = (0, 0)
attempt("n2e noncontiguous", lambda: NetworkToEdgeList.convert(nc))
attempt("n2e None", lambda: NetworkToEdgeList.convert(None))
attempt("n2e no arg", lambda: NetworkToEdgeList.convert())
attempt("n2e kw", lambda: show_el("n2e kw", NetworkToEdgeList.convert(network=hb)))
attempt("n2e instance call", lambda: show_el("inst", NetworkToEdgeList().convert(hb)))
# repeated calls and independence of results from the graph
r2 = NetworkToEdgeList.convert(hb)
r2.edge_list.append((9, 9))
r3 = NetworkToEdgeList.convert(hb)
show_el("n2e after mutation of earlier result", r3)
show_graph("hb after", hb.G)
print("rng3", rng_state())

# ---------------------------------------------------------------- random graphs
print("== random clustered graphs")
for seed, n in ((1, 0), (2, 1), (3, 10), (4, 200), (5, 2000)):
    random.seed(seed)
    np.random.seed(seed)
    params = {}
    params[JointDegreeNames.JDD] = {(1, 0): 0.2, (2, 1): 0.5, (3, 0): 0.1, (5, 1): 0.2}
    params[JointDegreeNames.MOTIF_SIZES] = [2, 3]
    jds = attempt("sample %d" % n, lambda: JointDegreeManual(params).sample_jds_from_jdd(n))
    if jds is None:
        continue
    params = {}
    params[GCMAlgorithmNames.MOTIF_SIZES] = [2, 3]
    params[GCMAlgorithmNames.EDGE_NAMES] = ["2-clique", "3-clique"]
    params[GCMAlgorithmNames.BUILD_FUNCTIONS] = [clique_motif, clique_motif]
    g = attempt("rcg %d" % n, lambda: GCMAlgorithmNetwork(params).random_clustered_graph(jds))
    print("rcg", n, "rng", rng_state())
    if g is None:
        continue
    long_digest("rcg %d nodes" % n, list(g.G.nodes(data=True)))
    long_digest("rcg %d edges" % n, list(g.G.edges(data=True)))
    el = NetworkToEdgeList.convert(g)
    long_digest("rcg %d el.edge_list" % n, el.edge_list)
    long_digest("rcg %d el.topologies" % n, el.topologies)
    long_digest("rcg %d el.joint_degrees" % n, el.joint_degrees)
    long_digest("rcg %d el.motif_id" % n, el.motif_id)
    g2 = EdgeListToNetwork.convert(el)
    long_digest("rcg %d g2 nodes" % n, list(g2.G.nodes(data=True)))
    long_digest("rcg %d g2 edges" % n, list(g2.G.edges(data=True)))
    el2 = NetworkToEdgeList.convert(g2)
    print("rcg", n, "round trip identical",
          el2.edge_list == el.edge_list, el2.topologies == el.topologies,
          el2.joint_degrees == el.joint_degrees, el2.motif_id == el.motif_id)
    cl = g2.find_cliques()
    long_digest("rcg %d cliques" % n, cl)
    print("rcg", n, "rng end", rng_state())

print("rng final", rng_state())
