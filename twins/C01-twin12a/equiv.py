import sys, os; sys.path.insert(0, os.getcwd())
# Variant a: GCMAlgorithmFast.random_clustered_graph - "skip the shuffle of a
# stub list that has fewer than two entries".
# Exercises the edge-list generator (directly, through the factory, through the
# main entry point and through the network generator that delegates to it) on
# joint degree sequences whose per-topology stub lists have length 0, 1, 2, ...
# and on malformed parameters; prints results, exception types and the state of
# both random streams after every call.
import hashlib
import random

import numpy as np

from gcmpy.gcm_algorithm.gcm_algorithm_fast import GCMAlgorithmFast
from gcmpy.gcm_algorithm.gcm_algorithm_network import GCMAlgorithmNetwork
from gcmpy.gcm_algorithm.gcm_algorithm_factory import GCMAlgorithmFactory
from gcmpy.gcm_algorithm.gcm_algorithm_main import GCMAlgorithmMain
from gcmpy.gcm_algorithm.gcm_algorithm_types import GCMAlgorithmTypes
from gcmpy.names.gcm_algorithm_names import GCMAlgorithmNames as N
from gcmpy.motif_generators.clique_motif import clique_motif
from gcmpy.motif_generators.cycle_motif import cycle_motif
from gcmpy.motif_generators.diamond_motif import diamond_motif
from gcmpy.network.network import Network
from gcmpy.network.edge_list import LightWeightEdgeList


def h(obj):
    return hashlib.sha256(repr(obj).encode()).hexdigest()[:16]


def rng():
    return "py=%s np=%s" % (h(random.getstate()), h(np.random.get_state()))


def show(res):
    if isinstance(res, LightWeightEdgeList):
        return "EL edges=%r topo=%r ids=%r jds=%r" % (
            res.edge_list, res.topologies, res.motif_id,
            res.joint_degrees if isinstance(res.joint_degrees, (list, tuple, np.ndarray))
            else type(res.joint_degrees).__name__)
    if isinstance(res, Network):
        return "NW nodes=%r edges=%r" % (
            list(res.G.nodes(data=True)), list(res.G.edges(data=True)))
    return "OTHER %r" % (res,)


def run(label, fn):
    try:
        out = show(fn())
    except BaseException as e:  # noqa
        out = "EXC %s" % type(e).__name__
    if len(out) > 400:
        out = out[:120] + "...#" + h(out) + " len=%d" % len(out)
    print("%-34s %s | %s" % (label, out, rng()))


def P(sizes, builds, names, kind=None):
    p = {N.MOTIF_SIZES: sizes, N.BUILD_FUNCTIONS: builds, N.EDGE_NAMES: names}
    if kind is not None:
        p[N.GCM_TYPE] = kind
    return p


def recording(tag, log):
    def build(vs):
        log.append((tag, list(vs)))
        return clique_motif(vs)
    return build


random.seed(20261004)
np.random.seed(20261004)
print("start", rng())

# --- boundary joint degree sequences: stub lists of length 0, 1, 2, 3 ... -----
JDS = {
    "empty": [],
    "one vertex no stubs": [(0,)],
    "one vertex one stub": [(1,)],
    "one vertex two stubs": [(2,)],
    "two vertices one stub each": [(1,), (1,)],
    "stub only on last vertex": [(0,), (0,), (1,)],
    "all zero two topologies": [(0, 0), (0, 0), (0, 0)],
    "cols len 0/1/2/3": [(0, 1, 1, 1), (0, 0, 1, 1), (0, 0, 0, 1)],
    "cols len 1 then many": [(1, 3), (0, 3), (0, 3), (0, 3)],
    "many then len 1": [(3, 0), (3, 0), (3, 1), (3, 0)],
    "zero-width rows": [(), (), ()],
    "lists not tuples": [[1, 1], [1, 2], [0, 0]],
    "negative count": [(-1, 2), (3, -5), (0, 1)],
    "ragged rows": [(1, 2, 3), (1, 2), (1,)],
    "triangles ok": [(1, 1), (1, 1), (2, 1), (0, 0)],
    "bools": [(True, False), (True, True)],
}

for name, jds in JDS.items():
    ncol = max([len(r) for r in jds] + [0])
    sizes = [2, 3, 4, 2][:ncol]
    builds = [clique_motif, clique_motif, clique_motif, cycle_motif][:ncol]
    names = ["2-clique", "3-clique", "4-clique", "2-cycle"][:ncol]
    alg = GCMAlgorithmFast(P(sizes, builds, names))
    for rep in range(3):  # repeated calls on one object
        run("fast[%s]#%d" % (name, rep), lambda: alg.random_clustered_graph(jds))
    run("factory-fast[%s]" % name, lambda: GCMAlgorithmFactory.resolve_algorithm(
        GCMAlgorithmTypes.FAST, P(sizes, builds, names)).random_clustered_graph(jds))
    run("main-fast[%s]" % name, lambda: GCMAlgorithmMain.load_gcm_algorithm(
        P(sizes, builds, names, "fast")).random_clustered_graph(jds))
    nw = GCMAlgorithmNetwork(P(sizes, builds, names))
    for rep in range(2):
        run("network[%s]#%d" % (name, rep), lambda: nw.random_clustered_graph(jds))
    run("main-network[%s]" % name, lambda: GCMAlgorithmMain.load_gcm_algorithm(
        P(sizes, builds, names, GCMAlgorithmTypes.NETWORK)).random_clustered_graph(jds))

# --- numpy / generator / other containers as the sequence -------------------
run("np 2d", lambda: GCMAlgorithmFast(P([2, 3], [clique_motif] * 2, ["a", "b"]))
    .random_clustered_graph(np.array([[1, 0], [0, 1], [1, 2]])))
run("np 2d single stub", lambda: GCMAlgorithmFast(P([2], [clique_motif], ["a"]))
    .random_clustered_graph(np.array([[0], [1], [0]])))
run("np empty", lambda: GCMAlgorithmFast(P([2], [clique_motif], ["a"]))
    .random_clustered_graph(np.zeros((0, 1), dtype=int)))
run("generator", lambda: GCMAlgorithmFast(P([2], [clique_motif], ["a"]))
    .random_clustered_graph(r for r in [(1,), (0,), (1,)]))
run("tuple of tuples", lambda: GCMAlgorithmFast(P([2], [clique_motif], ["a"]))
    .random_clustered_graph(((1,), (1,))))
run("strings as rows", lambda: GCMAlgorithmFast(P([2], [clique_motif], ["a"]))
    .random_clustered_graph(["1", "2"]))
run("float counts", lambda: GCMAlgorithmFast(P([2], [clique_motif], ["a"]))
    .random_clustered_graph([(1.0,), (1.0,)]))
run("None", lambda: GCMAlgorithmFast(P([2], [clique_motif], ["a"]))
    .random_clustered_graph(None))
run("ints not rows", lambda: GCMAlgorithmFast(P([2], [clique_motif], ["a"]))
    .random_clustered_graph([1, 2]))

# --- malformed parameters with short / empty stub lists -------------------------
for name, jds in [("len0", [(0,), (0,)]), ("len1", [(1,), (0,)]),
                  ("len2", [(1,), (1,)]), ("len5", [(2,), (3,)])]:
    for pname, p in [
        ("size0", P([0], [clique_motif], ["a"])),
        ("size-1", P([-1], [clique_motif], ["a"])),
        ("size1", P([1], [clique_motif], ["a"])),
        ("size float", P([2.0], [clique_motif], ["a"])),
        ("size None", P([None], [clique_motif], ["a"])),
        ("sizes empty", P([], [clique_motif], ["a"])),
        ("builds empty", P([2], [], ["a"])),
        ("names empty", P([2], [clique_motif], [])),
        ("build not callable", P([2], [None], ["a"])),
        ("build returns None", P([2], [lambda vs: None], ["a"])),
        ("build returns empty", P([2], [lambda vs: []], ["a"])),
        ("diamond too few", P([2], [diamond_motif], ["d"])),
        ("cycle", P([3], [cycle_motif], ["c"])),
        ("sizes is int", P(2, [clique_motif], ["a"])),
    ]:
        run("bad[%s][%s]" % (pname, name),
            lambda: GCMAlgorithmFast(p).random_clustered_graph(jds))
        run("badnw[%s][%s]" % (pname, name),
            lambda: GCMAlgorithmNetwork(p).random_clustered_graph(jds))

# --- constructor / factory errors ----------------------------------------------
run("ctor missing key", lambda: GCMAlgorithmFast({N.MOTIF_SIZES: [2]}))
run("ctor not dict", lambda: GCMAlgorithmFast(None))
run("factory unknown", lambda: GCMAlgorithmFactory.resolve_algorithm("fast", P([2], [clique_motif], ["a"])))
run("main unknown", lambda: GCMAlgorithmMain.load_gcm_algorithm(P([2], [clique_motif], ["a"], "nope")))

# --- the order in which stubs reach the build callbacks --------------------------
log = []
alg = GCMAlgorithmFast(P([2, 3, 1, 2], [recording(k, log) for k in range(4)], list("abcd")))
for rep in range(4):
    jds = [(1, 0, 0, 0), (1, 3, 1, 0), (2, 0, 0, 1), (0, 0, 0, 0), (0, 3, 0, 0)]
    run("recorded#%d" % rep, lambda: alg.random_clustered_graph(jds))
print("build log", h(log), len(log), log[:6])

# --- randomised sweep, lots of tiny columns ---------------------------------------
gen = random.Random(7)
for t in range(300):
    n = gen.randrange(0, 6)
    m = gen.randrange(0, 4)
    jds = [tuple(gen.choice([0, 0, 0, 1, 1, 2, 3]) for _ in range(m)) for _ in range(n)]
    sizes = [gen.choice([1, 2, 3, 4]) for _ in range(m)]
    builds = [gen.choice([clique_motif, cycle_motif]) for _ in range(m)]
    names = ["t%d" % i for i in range(m)]
    kind = gen.choice([GCMAlgorithmTypes.FAST, GCMAlgorithmTypes.NETWORK])
    run("sweep%03d" % t, lambda: GCMAlgorithmFactory.resolve_algorithm(
        kind, P(sizes, builds, names)).random_clustered_graph(jds))

# --- a larger valid instance --------------------------------------------------------
big = [(gen.randrange(0, 4), gen.randrange(0, 3)) for _ in range(600)]
s0 = sum(r[0] for r in big) % 2
s1 = sum(r[1] for r in big) % 3
big[0] = (big[0][0] + s0, big[0][1] + (3 - s1) % 3)
run("big fast", lambda: GCMAlgorithmFast(P([2, 3], [clique_motif] * 2, ["e", "t"])).random_clustered_graph(big))
run("big network", lambda: GCMAlgorithmNetwork(P([2, 3], [clique_motif] * 2, ["e", "t"])).random_clustered_graph(big))

print("end", rng(), "next draws", random.random(), np.random.random())
