import sys, os; sys.path.insert(0, os.getcwd())
import hashlib
import random
from fractions import Fraction
from decimal import Decimal

import numpy as np

from gcmpy.tools.joint_degree_from_excess import JointDegreeFromExcess
from gcmpy.tools.joint_excess_from_jdd import JointExcessfromJDD

random.seed(1414)
np.random.seed(1414)

LINES = []


def show(x):
    if isinstance(x, dict):
        return "{" + ", ".join(show(k) + ": " + show(v) for k, v in x.items()) + "}"
    if isinstance(x, (list, tuple)):
        o, c = ("[", "]") if isinstance(x, list) else ("(", ")")
        return o + ", ".join(show(e) for e in x) + c
    return type(x).__name__ + ":" + repr(x)


def run(label, fn, *args):
    before = show(list(args))
    try:
        out = show(fn(*args))
    except BaseException as e:
        out = "EXC " + type(e).__name__
    after = show(list(args))
    LINES.append(label + " -> " + out + (" | ARGS MUTATED " + after if after != before else ""))


inv = JointDegreeFromExcess.invert_single

# hand-made edge cases for invert_single
cases = [
    ({}, 0),
    ({(0, 0): 1.0}, 0),
    ({(0, 0): 1.0}, 1),
    ({(0, 0): 1.0}, -1),
    ({(0, 0): 1.0}, -2),
    ({(0, 0): 1.0}, 2),
    ({(0, 0): 1.0}, -3),
    ({(0, 3): 1 / 9, (4, 1): 5 / 9, (2, 2): 3 / 9}, 0),
    ({(0, 3): 1 / 9, (4, 1): 5 / 9, (2, 2): 3 / 9}, 1),
    ({(0, 3): 1 / 9, (4, 1): 5 / 9, (2, 2): 3 / 9}, True),
    ({(0, 3): 1 / 9, (4, 1): 5 / 9, (2, 2): 3 / 9}, False),
    ({(-1, 2): 0.5, (1, 1): 0.5}, 0),
    ({(1, 1): 0.5, (-1, 2): 0.5}, 0),
    ({(-2, 2): 0.5, (1, 1): 0.5}, 0),
    ({(-2, 2): 1.0, (0, 1): 1.0}, 0),
    ({(0, 1): 0.0, (2, 1): 0.0}, 0),
    ({(0, 1): 0.0, (2, 1): -0.0}, 1),
    ({(0, 1): 1, (2, 1): 3}, 0),
    ({(0, 1): 1, (2, 1): -1}, 0),
    ({(0, 1): True, (2, 1): False}, 0),
    ({(0.5, 1): 0.25, (1.5, 2): 0.75}, 0),
    ({(1e-20, 1): 0.25, (2.0 ** 53, 2): 0.75}, 0),
    ({(-0.0, 1): 0.25, (float("inf"), 2): 0.75}, 0),
    ({(float("nan"), 1): 0.25, (1, 2): 0.75}, 0),
    ({(True, False): 0.25, (False, True): 0.75}, 0),
    ({(True, False): 0.25, (False, True): 0.75}, 1),
    ({(10 ** 400, 1): 0.25, (1, 2): 0.75}, 0),
    ({(10 ** 400, 1): 10 ** 400, (1, 2): 3}, 0),
    ({(Fraction(1, 2), 1): Fraction(1, 4), (Fraction(3, 2), 2): Fraction(3, 4)}, 0),
    ({(Decimal("1"), 1): Decimal("0.25"), (Decimal("2"), 2): Decimal("0.75")}, 0),
    ({(Decimal("1"), 1): 0.25, (Decimal("2"), 2): 0.75}, 0),
    ({(np.int64(1), np.int64(0)): 0.25, (np.int64(2), np.int64(2)): 0.75}, 0),
    ({(np.uint8(255), np.uint8(0)): 0.25, (np.uint8(2), np.uint8(2)): 0.75}, 0),
    ({(np.float32(1.5), 0): np.float32(0.25), (np.float32(2.5), 2): np.float32(0.75)}, 0),
    ({(1 + 2j, 0): 0.25, (2, 2): 0.75}, 0),
    ({(1, 0): 1 + 1j, (2, 2): 0.75}, 0),
    ({b"ab": 0.25, b"cd": 0.75}, 0),
    ({b"ab": 0.25, b"cd": 0.75}, 1),
    ({range(3): 0.25, range(1, 4): 0.75}, 1),
    ({"ab": 0.25, "cd": 0.75}, 0),
    ({(1, 2): "x", (2, 2): 0.75}, 0),
    ({(1, 2): None, (2, 2): 0.75}, 0),
    ({(1, 2): 0.5, (2,): 0.5}, 1),
    ({(2,): 0.5, (1, 2): 0.5}, 1),
    ({(1, 2): 0.5, (): 0.5}, 0),
    ({(1, "a"): 0.5, (2, 2): 0.5}, 1),
    ({((1,), 2): 0.5, (2, 2): 0.5}, 0),
    ({(None, 2): 0.5, (2, 2): 0.5}, 0),
    ({5: 0.5, 6: 0.5}, 0),
    ({frozenset([1, 2]): 0.5}, 0),
    ({(1, 2): 0.5}, "0"),
    ({(1, 2): 0.5}, None),
    ({(1, 2): 0.5}, 0.0),
    ({(1, 2): 0.5}, slice(0, 1)),
    ({(1, 2): float("inf"), (2, 2): 0.5}, 0),
    ({(1, 2): float("nan"), (2, 2): 0.5}, 0),
    ({(1, 2): 1e308, (0, 2): 1e308}, 0),
    ({(1, 2): 5e-324, (3, 2): 5e-324}, 0),
    ([(1, 2), (2, 2)], 0),
    ([0.5, 0.5], 0),
    (None, 0),
    ("ab", 0),
    (((1, 2), (3, 4)), 0),
]
for n, (qk, i) in enumerate(cases):
    run("single%02d" % n, inv, qk, i)

# collisions: two excess keys mapping to one joint degree cannot happen, but
# keys that differ only in type can collide after the increment
run("collide", inv, {(1, 0): 0.25, (1.0, 1): 0.25, (True, 2): 0.5}, 0)

# repeated calls on one object
shared = {(0, 3): 1 / 9, (4, 1): 5 / 9, (2, 2): 3 / 9}
for r in range(3):
    run("repeat%d" % r, inv, shared, r % 2)

# random distributions, 1..4 topologies, every index incl. negative and out of range
for t in range(300):
    ntop = random.randint(1, 4)
    nkeys = random.randint(1, 9)
    qk = {}
    for _ in range(nkeys):
        k = tuple(random.randint(0, 6) for _ in range(ntop))
        qk[k] = random.random() if random.random() < 0.9 else random.choice([0.0, 1, 0.5, 2])
    if random.random() < 0.5:
        s = sum(qk.values())
        if s:
            qk = {k: v / s for k, v in qk.items()}
    for i in range(-ntop - 1, ntop + 1):
        run("rand%03d/%d" % (t, i), inv, qk, i)

# the two public callers
obs = JointDegreeFromExcess.observations_from_dict
full = JointDegreeFromExcess.get_joint_degree_distribution
for t in range(200):
    ntop = random.randint(1, 3)
    names = ["t%d" % j for j in range(ntop)]
    jdd = {}
    for _ in range(random.randint(1, 8)):
        lo = 0 if random.random() < 0.5 else 1
        jdd[tuple(random.randint(lo, 5) for _ in range(ntop))] = random.random()
    s = sum(jdd.values())
    jdd = {k: v / s for k, v in jdd.items()}
    try:
        qks_list = JointExcessfromJDD.get_joint_excess_distributions(jdd)
    except ZeroDivisionError:
        LINES.append("round%03d zero mean" % t)
        continue
    qks = JointExcessfromJDD.convert_list_qks_to_dict(qks_list, names)
    run("obs%03d" % t, obs, qks, names)
    run("full%03d" % t, full, qks, names)
    run("fullrev%03d" % t, full, qks, names[::-1])
    run("obsdup%03d" % t, obs, qks, names + names[:1])
    run("fullshort%03d" % t, full, qks, names[:1])

run("obs-missing", obs, {"a": {(1, 1): 1.0}}, ["a", "b"])
run("obs-empty", obs, {}, [])
run("full-empty", full, {}, [])
run("full-nocommon", full, {"a": {(0, 1): 1.0}, "b": {(3, 0): 1.0}}, ["a", "b"])
run("full-emptyqk", full, {"a": {}, "b": {(3, 0): 1.0}}, ["a", "b"])
run("full-zero", full, {"a": {(0, 1): 0.0}, "b": {(1, 0): 0.0}}, ["a", "b"])
run("full-gen", full, {"a": {(0, 1): 1.0}, "b": {(1, 0): 1.0}}, (x for x in ["a", "b"]))
run("full-tuple", full, {"a": {(0, 1): 1.0}, "b": {(1, 0): 1.0}}, ("a", "b"))

LINES.append("random " + hashlib.sha256(repr(random.getstate()).encode()).hexdigest())
LINES.append("numpy " + hashlib.sha256(repr(np.random.get_state()).encode()).hexdigest())
text = "\n".join(LINES)
print(text)
print("lines", len(LINES), "sha256", hashlib.sha256(text.encode()).hexdigest())
