import sys, os; sys.path.insert(0, os.getcwd())
import hashlib
import random
import warnings
from fractions import Fraction
from decimal import Decimal

import numpy as np
import networkx as nx

warnings.simplefilter("ignore")
random.seed(1616)
np.random.seed(1616)

from gcmpy.message_passing import number_connected_graphs as ncg
from gcmpy.message_passing.number_connected_graphs import Q, QQ, binomial, number_of_connected_graphs
import gcmpy
from gcmpy.message_passing.equations.clique_equation import clique_equation

out = []


def show(v):
    return "%s:%r" % (type(v).__name__, v)


def call(label, f, *args):
    try:
        r = f(*args)
        out.append("%s -> %s" % (label, show(r)))
    except BaseException as e:  # noqa
        out.append("%s !! %s: %s" % (label, type(e).__name__, e))


def caches(tag):
    out.append("%s Q.cache=%r binomial.cache=%r QQ.cache=%r" % (
        tag, Q.cache_info(), binomial.cache_info(), QQ.cache_info()))


# 0. identity of the public entry points
out.append("same objects: %r %r %r" % (gcmpy.Q is Q, gcmpy.QQ is QQ,
                                       gcmpy.number_of_connected_graphs is number_of_connected_graphs))

# 1. full integer grid, incl. negative / zero / one / two vertices and all
#    k far outside [n-1, n(n-1)/2]; fresh caches first
Q.cache_clear(); binomial.cache_clear(); QQ.cache_clear()
caches("start")
for n in range(-4, 11):
    for k in range(-4, n * (n - 1) // 2 + 4 if n > 0 else 6):
        call("Q(%d,%d)" % (n, k), Q, n, k)
    caches("after n=%d" % n)

# 2. same grid in the opposite order on a cold cache (different recursion
#    entry points), and a second pass on the warm cache
Q.cache_clear(); binomial.cache_clear()
for n in range(10, -5, -1):
    for k in range(n * (n - 1) // 2 + 3 if n > 0 else 5, -5, -1):
        call("rev Q(%d,%d)" % (n, k), Q, n, k)
caches("after reverse")
for n in range(-4, 11):
    for k in range(-4, 50):
        call("warm Q(%d,%d)" % (n, k), Q, n, k)
caches("after warm")

# 3. larger orders straight from a cold cache (deep recursion, big ints)
Q.cache_clear(); binomial.cache_clear()
for n, k in [(12, 11), (12, 12), (12, 30), (12, 66), (12, 65), (15, 14), (15, 40), (15, 105),
             (20, 19), (20, 20), (20, 100), (20, 190), (20, 189), (25, 150), (30, 29), (30, 200), (30, 435)]:
    call("big Q(%d,%d)" % (n, k), Q, n, k)
caches("after big")

# 4. every row sums / agrees with brute force (QQ) on small n
Q.cache_clear(); binomial.cache_clear(); QQ.cache_clear()
for n in range(0, 6):
    for k in range(0, n * (n - 1) // 2 + 1):
        call("QQ(%d,%d)" % (n, k), QQ, n, k)
        call("Q(%d,%d)" % (n, k), Q, n, k)
caches("after QQ")

# 5. malformed / unusual argument types, each on a cold cache
weird = [0.0, 1.0, 2.0, 3.0, 4.0, 2.5, -1.5, float("nan"), float("inf"), -float("inf"),
         None, "3", True, False, Fraction(3), Fraction(7, 2), Decimal(4), 3 + 0j,
         np.int64(4), np.int64(0), np.int64(-1), np.int32(5), np.float64(4.0), np.uint8(4)]
ints = [-1, 0, 1, 2, 3, 4, 5, 6]
for w in weird:
    for v in ints:
        Q.cache_clear(); binomial.cache_clear()
        call("Q(%s,%d)" % (show(w), v), Q, w, v)
        Q.cache_clear(); binomial.cache_clear()
        call("Q(%d,%s)" % (v, show(w)), Q, v, w)
    for w2 in weird:
        Q.cache_clear(); binomial.cache_clear()
        call("Q(%s,%s)" % (show(w), show(w2)), Q, w, w2)
for bad in ([1, 2], {1: 2}, {1}):
    call("Q(unhashable %r,3)" % (bad,), Q, bad, 3)
    call("Q(4, unhashable %r)" % (bad,), Q, 4, bad)
call("Q()", Q)
call("Q(4)", Q, 4)
call("Q(4,3,2)", Q, 4, 3, 2)
caches("after weird")

# 6. numpy integer arguments through the recursive branch
Q.cache_clear(); binomial.cache_clear()
for n in range(0, 9):
    for k in range(0, n * (n - 1) // 2 + 2):
        call("np Q(%d,%d)" % (n, k), Q, np.int64(n), np.int64(k))
        call("np/py Q(%d,%d)" % (n, k), Q, np.int64(n), k)
        call("py/np Q(%d,%d)" % (n, k), Q, n, np.int64(k))
caches("after numpy")

# 6b. unsigned numpy k: `k - (m + 1) * m // 2` wraps around, so lb can exceed
#     k - m and the p-range is empty - the one way the new guard can be False
for ut in (np.uint8, np.uint16):  # 32/64-bit wrap makes binomial() call factorial(~2**32) - does not terminate on either side
    for n in range(3, 10 if ut is np.uint8 else 6):
        for k in range(n - 1, n * (n - 1) // 2 + 2):
            Q.cache_clear(); binomial.cache_clear()
            call("%s Q(%d,u%d)" % (ut.__name__, n, k), Q, n, ut(k))
            out.append("   caches %r %r" % (Q.cache_info(), binomial.cache_info()))
            Q.cache_clear(); binomial.cache_clear()
            call("%s Q(u%d,u%d)" % (ut.__name__, n, k), Q, ut(n), ut(k))
            out.append("   caches %r %r" % (Q.cache_info(), binomial.cache_info()))
caches("after unsigned")

# 7. the consumer of Q: clique equation, exact arithmetic and floats
Q.cache_clear(); binomial.cache_clear()
for tau in range(0, 8):
    Hs = [Fraction(i + 1, i + 3) for i in range(max(0, tau - 1))]
    call("clique F tau=%d" % tau, clique_equation, tau, Fraction(2, 7), Hs)
    call("clique f tau=%d" % tau, clique_equation, tau, 0.37, [0.1 * (i + 1) for i in range(max(0, tau - 1))])
caches("after clique")

# 8. binomial / number_of_connected_graphs untouched but in the same module
for n in range(-2, 7):
    for k in range(-2, 8):
        call("binomial(%d,%d)" % (n, k), binomial, n, k)
G = nx.complete_graph(5)
for k in range(-1, 12):
    call("ncg K5 k=%d" % k, number_of_connected_graphs, G, [1, 2, 3], 0, k)

out.append("random state " + hashlib.sha256(repr(random.getstate()).encode()).hexdigest())
st = np.random.get_state()
out.append("numpy state " + hashlib.sha256(repr((st[0], st[1].tolist(), st[2], st[3], st[4])).encode()).hexdigest())
out.append("next draws %r %r" % (random.random(), float(np.random.random())))

text = "\n".join(out)
print(text)
print("DIGEST", hashlib.sha256(text.encode()).hexdigest(), len(out))
