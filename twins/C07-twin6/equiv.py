"""
C07 equivalence digest. Run with cwd = a checkout of gcmpy.

Exercises `JointDegreeSplitDegree` / `JointDegreeDelta` only through the API that
existed before the commit (constructors with the old parameter dict,
`create_jdd`, `resolve_degree`, `get_valid_joint_degrees`,
`calc_prob_of_joint_degree`, `jdd`, `sample_jds_from_jdd`) and prints a
deterministic digest: bit-exact floats (repr / float.hex), key order of the jdd,
exception types, helper-call order and argument types, RNG state afterwards and
the state of the inputs after the call. Nothing added by the commit is used.
"""
import hashlib
import os
import random
import sys
import warnings

warnings.simplefilter("ignore")
sys.path.insert(0, os.getcwd())

import numpy as np  # noqa: E402

from gcmpy.joint_degree.joint_degree_loaders.joint_degree_split_degree import (  # noqa: E402
    JointDegreeSplitDegree,
)
from gcmpy.joint_degree.joint_degree_loaders.joint_degree_delta import (  # noqa: E402
    JointDegreeDelta,
)
from gcmpy.names.joint_degree_names import JointDegreeNames as N  # noqa: E402


def fx(v):
    """bit exact rendering of a number"""
    if isinstance(v, (float, np.floating)):
        return f"{type(v).__name__}:{float(v).hex()}:{v!r}"
    return f"{type(v).__name__}:{v!r}"


def rng_state():
    h = hashlib.sha256()
    h.update(repr(random.getstate()).encode())
    st = np.random.get_state()
    h.update(repr((st[0], st[1].tolist(), st[2], st[3], st[4])).encode())
    return h.hexdigest()[:16]


def show_jdd(label, jdd):
    print(f"  [{label}] n={len(jdd)}")
    for jd, v in jdd.items():  # insertion order is part of the behaviour
        print(f"    {type(jd).__name__}{jd!r} "
              f"[{','.join(type(x).__name__ for x in jd)}] -> {fx(v)}")
    h = hashlib.sha256(
        repr([(k, float(v).hex()) for k, v in jdd.items()]).encode()
    ).hexdigest()[:16]
    print(f"    digest {h}")


def section(title):
    print("=" * 8, title)


def seed(s):
    random.seed(s)
    np.random.seed(s)


def fp_inv_sq(k):
    return 1.0 / (1.0 + k) ** 2


def fp_geom(k):
    return 0.7 ** k


def fp_int(k):
    return k + 1


class CountingFp:
    """records the order in which the degree function is consulted"""

    def __init__(self):
        self.calls = []

    def __call__(self, k):
        self.calls.append(k)
        return 1.0 / (2.0 + k)


def params(probs, bound, fp=fp_inv_sq, target_k=None, sizes=None):
    p = {
        N.MOTIF_SIZES: list(range(2, 2 + len(probs))) if sizes is None else sizes,
        N.PROBS: probs,
        N.FP: fp,
        N.LOW_HIGH_DEGREE_BOUND: bound,
    }
    if target_k is not None:
        p[N.TARGET_K] = target_k
    return p


def describe_params(p):
    out = []
    for k in sorted(p, key=lambda e: e.value):
        v = p[k]
        if callable(v):
            v = getattr(v, "__name__", type(v).__name__)
        elif isinstance(v, np.ndarray):
            v = ("ndarray", v.dtype.str, [float(x).hex() for x in v])
        out.append((k.value, repr(v)))
    return out


def attempt(label, fn):
    """runs fn, prints result or the exception type (+ message), rng afterwards"""
    try:
        r = fn()
        print(f"  {label}: ok")
        return r
    except BaseException as e:  # noqa: BLE001 - the type is the datum
        print(f"  {label}: raised {type(e).__name__}: {e}")
        return None
    finally:
        print(f"  rng after {label}: {rng_state()}")


# ---------------------------------------------------------------------------
def build_and_show(cls, label, p):
    before = describe_params(p)
    obj = attempt(f"build {label}", lambda: cls(p))
    print(f"  params unchanged: {describe_params(p) == before}")
    print(f"  params now: {describe_params(p)}")
    if obj is not None:
        show_jdd(label, obj.jdd)
        print(f"  type={obj._type!r} motif_sizes={obj.motif_sizes!r} "
              f"probs is input: {obj._probs is p[N.PROBS]}")
    return obj


def main():
    seed(1234)
    print("rng start:", rng_state())

    # -- 1. many loaders in ONE process, different probability vectors and
    #       different numbers of topologies, interleaving both classes
    section("1 constructors, several loaders in one process")
    loaders = []
    cases = [
        (JointDegreeSplitDegree, [0.8, 0.2], (0, 13), fp_inv_sq, None),
        (JointDegreeSplitDegree, [0.5, 0.5], (0, 13), fp_inv_sq, None),
        (JointDegreeDelta, [0.8, 0.2], (0, 13), fp_inv_sq, 6),
        (JointDegreeSplitDegree, [0.3, 0.7], (0, 13), fp_geom, None),
        (JointDegreeSplitDegree, [0.6, 0.3, 0.1], (0, 9), fp_inv_sq, None),
        (JointDegreeDelta, [0.25, 0.75], (0, 13), fp_geom, 6),
        (JointDegreeDelta, [0.5, 0.3, 0.2], (2, 11), fp_inv_sq, 7),
        (JointDegreeSplitDegree, [0.4, 0.3, 0.2, 0.1], (0, 8), fp_geom, None),
        (JointDegreeSplitDegree, [1.0], (0, 6), fp_inv_sq, None),
        (JointDegreeSplitDegree, [0.8, 0.2], (3, 7), fp_int, None),
        (JointDegreeSplitDegree, [2, 3], (0, 6), fp_int, None),  # ints, unnormalised
        (JointDegreeSplitDegree, (0.8, 0.2), (0, 6), fp_inv_sq, None),  # tuple
        (JointDegreeDelta, [0.8, 0.2], (0, 13), fp_inv_sq, 40),  # target outside
        (JointDegreeDelta, [0.9, 0.1], (5, 6), fp_inv_sq, 5),  # only the target
        (JointDegreeSplitDegree, [0.8, 0.2], (0, 13), fp_inv_sq, None),  # again
    ]
    for i, (cls, probs, bound, fp, tk) in enumerate(cases):
        label = f"{i}:{cls.__name__} probs={probs!r} bound={bound} fp={fp.__name__} tk={tk}"
        print(label)
        loaders.append(build_and_show(cls, label, params(probs, bound, fp, tk)))

    # numpy probability vector (numpy scalars flow through the arithmetic)
    print("numpy probs")
    arr = np.array([0.65, 0.35])
    o_np = build_and_show(JointDegreeSplitDegree, "np", params(arr, (0, 7)))
    arr32 = np.array([0.65, 0.35], dtype=np.float32)
    build_and_show(JointDegreeDelta, "np32", params(arr32, (0, 7), target_k=4))

    # -- 2. the degree function is consulted once per k, in order
    section("2 order of fp calls")
    for cls, tk in ((JointDegreeSplitDegree, None), (JointDegreeDelta, 3)):
        cf = CountingFp()
        o = cls(params([0.7, 0.3], (1, 8), cf, tk))
        print(f"  {cls.__name__} fp calls {cf.calls}")
        o.create_jdd()
        print(f"  {cls.__name__} fp calls after 2nd create_jdd {cf.calls}")
        show_jdd("after 2nd create_jdd", o.jdd)

    # -- 3. helper call order / argument types seen by overridable hooks on a
    #       freshly built object (first computation of every degree)
    section("3 hook calls on first build")

    class Spy(JointDegreeSplitDegree):
        log = None

        def calc_prob_of_joint_degree(self, jd):
            Spy.log.append(("calc", type(jd).__name__, tuple(jd)))
            return super().calc_prob_of_joint_degree(jd)

        def normalise_jdd(self):
            Spy.log.append(("normalise", len(self._jdd)))
            return super().normalise_jdd()

    class SpyDelta(JointDegreeDelta):
        log = None

        def calc_prob_of_joint_degree(self, jd):
            SpyDelta.log.append(("calc", type(jd).__name__, tuple(jd)))
            return super().calc_prob_of_joint_degree(jd)

    Spy.log = []
    s = Spy(params([0.6, 0.3, 0.1], (0, 7)))
    for e in Spy.log:
        print("   ", e)
    show_jdd("spy", s.jdd)
    SpyDelta.log = []
    sd = SpyDelta(params([0.6, 0.4], (0, 9), target_k=8))
    for e in SpyDelta.log:
        print("   ", e)
    show_jdd("spydelta", sd.jdd)

    # -- 4. repeated calls on one object
    section("4 repeated calls on one object")
    o = JointDegreeSplitDegree(params([0.8, 0.2], (0, 9)))
    first = dict(o.jdd)
    o.create_jdd()
    print("  create_jdd twice identical:",
          [(k, float(v).hex()) for k, v in first.items()]
          == [(k, float(v).hex()) for k, v in o.jdd.items()])
    # direct resolve_degree calls (writes unnormalised entries into _jdd)
    r = attempt("resolve_degree(4, 0.5)", lambda: o.resolve_degree(4, 0.5))
    print("  returned", r)
    show_jdd("after resolve(4,0.5)", o.jdd)
    attempt("resolve_degree(4, 2) again", lambda: o.resolve_degree(4, 2))
    attempt("resolve_degree(20, 0.125) beyond bound", lambda: o.resolve_degree(20, 0.125))
    attempt("resolve_degree(0, 1.0)", lambda: o.resolve_degree(0, 1.0))
    attempt("resolve_degree(-1, 1.0)", lambda: o.resolve_degree(-1, 1.0))
    attempt("resolve_degree(-4, 1.0)", lambda: o.resolve_degree(-4, 1.0))
    show_jdd("after directs", o.jdd)
    # jdd setter then resolve into the replaced dict
    mine = {}
    o.jdd = mine
    o.resolve_degree(5, 1.0)
    print("  resolve writes into user dict:", o.jdd is mine)
    show_jdd("user dict", mine)

    # probabilities changed on a live object: rebinding and in-place mutation
    print("  rebinding _probs then create_jdd")
    o._probs = [0.5, 0.5]
    o.create_jdd()
    show_jdd("rebound 0.5/0.5", o.jdd)
    print("  in-place mutation of the probs list then create_jdd")
    lst = [0.8, 0.2]
    o2 = JointDegreeSplitDegree(params(lst, (0, 9)))
    show_jdd("o2 initial", o2.jdd)
    lst[0], lst[1] = 0.1, 0.9
    o2.create_jdd()
    show_jdd("o2 after in-place", o2.jdd)
    lst.append(0.05)  # now three topologies
    o2.create_jdd()
    show_jdd("o2 three topologies", o2.jdd)
    del lst[1:]
    o2.create_jdd()
    show_jdd("o2 one topology", o2.jdd)
    lst[:] = [0.8, 0.2]
    o2.create_jdd()
    show_jdd("o2 back to 0.8/0.2", o2.jdd)
    o2.resolve_degree(6, 1.0)
    lst[0] = 0.3
    o2.resolve_degree(6, 1.0)
    show_jdd("o2 resolve(6) after mutation", o2.jdd)
    # bound / fp changed on a live object
    o2._low_high_degree_bound = (2, 5)
    o2._fp = fp_geom
    o2.create_jdd()
    show_jdd("o2 new bound+fp", o2.jdd)

    # the same for the delta loader
    d = JointDegreeDelta(params([0.8, 0.2], (0, 10), target_k=6))
    show_jdd("d initial", d.jdd)
    d._probs = [0.2, 0.8]
    d.create_jdd()
    show_jdd("d probs rebound", d.jdd)
    d._target_k = 4
    d.create_jdd()
    show_jdd("d target 4", d.jdd)
    d.resolve_degree(6, 0.25)
    show_jdd("d resolve(6)", d.jdd)

    # the earlier loaders are not disturbed by anything built later
    print("  earlier loaders rebuilt after everything else")
    for i in (0, 1, 2, 4, 6):
        loaders[i].create_jdd()
        show_jdd(f"loader {i} rebuilt", loaders[i].jdd)
    o_np.create_jdd()
    show_jdd("np rebuilt", o_np.jdd)

    # -- 5. unchanged helpers still answer the same
    section("5 enumeration and weights")
    o = JointDegreeSplitDegree(params([0.6, 0.3, 0.1], (0, 4)))
    for k, t in ((0, 1), (5, 1), (5, 2), (6, 3), (7, 4), (-1, 2), (3, 3)):
        rows = list(o.get_valid_joint_degrees(k, t))
        print(f"  valid({k},{t}) {type(rows[0]).__name__ if rows else None} {rows}")
    for jd in ((0, 0, 0), (3, 1, 0), [1, 1, 1], (2,), ()):
        print(f"  prob{jd!r} = {fx(o.calc_prob_of_joint_degree(jd))}")
    attempt("prob too long", lambda: o.calc_prob_of_joint_degree((1, 1, 1, 1)))

    # -- 6. error paths
    section("6 error paths")
    for cls in (JointDegreeSplitDegree, JointDegreeDelta):
        nm = cls.__name__
        tk = 3 if cls is JointDegreeDelta else None
        for missing in (N.FP, N.PROBS, N.MOTIF_SIZES, N.LOW_HIGH_DEGREE_BOUND, N.TARGET_K):
            p = params([0.8, 0.2], (0, 6), target_k=3)
            p.pop(missing, None)
            if cls is JointDegreeSplitDegree and missing is N.TARGET_K:
                continue
            attempt(f"{nm} missing {missing.value}", lambda: cls(p))
        attempt(f"{nm} params None", lambda: cls(None))
        attempt(f"{nm} all-zero probs", lambda: cls(params([0.0, 0.0], (0, 6), target_k=tk)))
        attempt(f"{nm} zero first prob", lambda: cls(params([0.0, 1.0], (0, 6), target_k=tk)))
        attempt(f"{nm} empty probs", lambda: cls(params([], (0, 6), target_k=tk, sizes=[2, 3])))
        attempt(f"{nm} probs None", lambda: cls(params([0.8, 0.2], (0, 6), target_k=tk) | {N.PROBS: None}))
        attempt(f"{nm} string probs", lambda: cls(params(["a", "b"], (0, 6), target_k=tk)))
        attempt(f"{nm} empty bound", lambda: cls(params([0.8, 0.2], (5, 5), target_k=tk)))
        attempt(f"{nm} reversed bound", lambda: cls(params([0.8, 0.2], (7, 2), target_k=tk)))
        attempt(f"{nm} float bound", lambda: cls(params([0.8, 0.2], (0.0, 4.0), target_k=tk)))
        attempt(f"{nm} negative bound", lambda: cls(params([0.8, 0.2], (-3, 3), target_k=tk)))
        attempt(f"{nm} fp zero", lambda: cls(params([0.8, 0.2], (0, 6), lambda k: 0.0, tk)))
        attempt(f"{nm} fp raises",
                lambda: cls(params([0.8, 0.2], (0, 6), lambda k: [][k], tk)))
        attempt(f"{nm} fp None", lambda: cls(params([0.8, 0.2], (0, 6), None, tk)))
    o = attempt("negative bound object",
                lambda: JointDegreeSplitDegree(params([0.8, 0.2], (-3, 3))))
    if o is not None:
        show_jdd("negative bound", o.jdd)
    o = attempt("zero first prob object",
                lambda: JointDegreeSplitDegree(params([0.0, 1.0], (0, 6))))
    if o is not None:
        show_jdd("zero first prob", o.jdd)
    # a failing degree leaves the entries of the earlier degrees in place
    o = JointDegreeSplitDegree(params([0.8, 0.2], (0, 4)))
    o._probs = [0.0, 0.0]
    attempt("resolve with zero probs k=3", lambda: o.resolve_degree(3, 1.0))
    attempt("resolve with zero probs k=0", lambda: o.resolve_degree(0, 1.0))
    show_jdd("after failed resolve", o.jdd)
    o._probs = [0.8, 0.2]
    attempt("resolve k=3 after restoring probs", lambda: o.resolve_degree(3, 1.0))
    show_jdd("after restored resolve", o.jdd)
    attempt("resolve_degree('x', 1.0)", lambda: o.resolve_degree("x", 1.0))
    attempt("resolve_degree(2.0, 1.0)", lambda: o.resolve_degree(2.0, 1.0))
    attempt("resolve_degree(3, None)", lambda: o.resolve_degree(3, None))
    attempt("resolve_degree(3)", lambda: o.resolve_degree(3))
    show_jdd("after bad calls", o.jdd)

    # -- 7. sampling consumes the RNG identically and sees the same jdd
    section("7 sampling")
    for cls, probs, tk in (
        (JointDegreeSplitDegree, [0.8, 0.2], None),
        (JointDegreeSplitDegree, [0.35, 0.65], None),
        (JointDegreeDelta, [0.35, 0.65], 5),
        (JointDegreeSplitDegree, [0.5, 0.3, 0.2], None),
    ):
        seed(99)
        o = cls(params(probs, (1, 9), fp_geom, tk))
        for n in (1, 7, 50):
            jds = o.sample_jds_from_jdd(n)
            print(f"  {cls.__name__} {probs} N={n}: "
                  f"{hashlib.sha256(repr(jds).encode()).hexdigest()[:16]} {jds[:6]}")
        print(f"  rng {rng_state()}")

    print("rng end:", rng_state())


if __name__ == "__main__":
    main()
