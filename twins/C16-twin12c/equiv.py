import sys, os; sys.path.insert(0, os.getcwd())
import hashlib
import random
import warnings
from fractions import Fraction
from decimal import Decimal

import numpy as np

warnings.simplefilter("ignore")
random.seed(161600)
np.random.seed(161600)

from gcmpy.message_passing.equations.chordless_cycle_equation import chordless_cycle_equation
from gcmpy.message_passing.equations import chordless_cycle_equation as cc2

out = []


def show(v):
    if isinstance(v, np.ndarray):
        return "ndarray[%s]%s:%s" % (v.dtype, v.shape, [show(x) for x in v.ravel().tolist()])
    if isinstance(v, float):
        return "float:%s" % v.hex()
    if isinstance(v, np.floating):
        return "%s:%s" % (type(v).__name__, float(v).hex())
    if isinstance(v, complex):
        return "complex:%s,%s" % (v.real.hex(), v.imag.hex())
    return "%s:%r" % (type(v).__name__, v)


def call(label, *args, **kw):
    try:
        r = chordless_cycle_equation(*args, **kw)
        out.append("%s -> %s" % (label, show(r)))
    except BaseException as e:  # noqa
        out.append("%s !! %s: %s" % (label, type(e).__name__, e))


out.append("same object: %r" % (cc2 is chordless_cycle_equation))

us = [0, 1, 0.0, 1.0, 0.5, 0.123, -0.4, 2.5, 1e-310, 1e200, Fraction(3, 5), Fraction(0), Fraction(1),
      np.float64(0.7), np.float32(0.7), True, False, float("nan"), float("inf")]
phis = [0, 1, 0.0, 1.0, 0.5, 0.37, -0.25, 1.5, 1 - 1e-16, 1e-300, Fraction(2, 7), Fraction(0), Fraction(1),
        np.float64(0.3), True, False, float("nan"), float("inf")]

# 1. every cycle length incl. the ones with an EMPTY inner sum (n <= 2, zero,
#    negative) and long ones, all u x phi
for n in range(-4, 14):
    for u in us:
        for phi in phis:
            call("n=%d u=%s phi=%s" % (n, show(u), show(phi)), n, u, phi)

# 2. exact polynomial identity points (Fractions) for n = 3 .. 12 against the
#    closed geometric form is not needed - just the exact values
for n in range(0, 13):
    for a in range(0, 6):
        for b in range(0, 6):
            call("F n=%d u=%d/5 phi=%d/5" % (n, a, b), n, Fraction(a, 5), Fraction(b, 5))

# 3. random floats, repeated calls
rng = random.Random(5)
for rep in range(200):
    n = rng.randint(-1, 30)
    u, phi = rng.random(), rng.random()
    call("rnd %d n=%d" % (rep, n), n, u, phi)
    call("rnd %d n=%d again" % (rep, n), n, u, phi)

# 4. malformed n
weird_n = [0.0, 1.0, 2.0, 3.0, 1.5, 2.5, 4.5, -1.5, float("nan"), float("inf"), -float("inf"), None, "3", "", [3], (3,),
           True, False, Fraction(3), Fraction(1), Fraction(5, 2), Decimal(3), Decimal(1), 3 + 0j, 1 + 0j,
           np.int64(0), np.int64(1), np.int64(2), np.int64(3), np.int64(6), np.int64(-2), np.uint8(0), np.uint8(1),
           np.uint8(2), np.uint8(5), np.float64(3.0), np.float64(1.0), np.array([3]), np.array(3), np.array([3, 4]),
           1000, -1000]
for wn in weird_n:
    for u, phi in ((0.5, 0.25), (Fraction(1, 2), Fraction(1, 4)), (0, 0), (1, 1), (0.0, 1.0), (2, 3)):
        call("n=%s u=%s phi=%s" % (show(wn), show(u), show(phi)), wn, u, phi)

# 5. malformed / array-valued u and phi, with empty and non-empty inner sums
weird_v = [None, "0.5", "", [0.5], (0.5,), {}, Decimal("0.5"), 0.5 + 0.5j, 1j, np.array([0.2, 0.8]),
           np.array([[0.1, 0.2], [0.3, 0.4]]), np.array([]), np.array(0.5), np.array([1, 2]), 10 ** 400, -10 ** 400,
           1e308, -1e308, np.float64("inf"), np.float32(1e38), np.array([None, 0.5], dtype=object)]
for wv in weird_v:
    for n in (-1, 0, 1, 2, 3, 4, 7):
        call("u=%s n=%d" % (show(wv), n), n, wv, 0.3)
        call("phi=%s n=%d" % (show(wv), n), n, 0.6, wv)
        call("both=%s n=%d" % (show(wv), n), n, wv, wv)

# 6. calling conventions
call("no args")
call("one arg", 3)
call("two args", 3, 0.5)
call("four args", 3, 0.5, 0.5, 1)
call("kw", n=5, u=0.25, phi=0.75)
call("kw mixed", 5, phi=0.75, u=0.25)
call("kw bad", 5, 0.25, T=0.75)

# 7. overflow inside the inner sum (float pow OverflowError) vs outside of it
for n in (1, 2, 3, 5, 400, 1200):
    call("overflow n=%d" % n, n, 1e10, 1e10)
    call("overflow2 n=%d" % n, n, 10.0, 10.0)
    call("underflow n=%d" % n, n, 1e-10, 1e-10)
    call("int big n=%d" % n, n, 10, 10)

out.append("random state " + hashlib.sha256(repr(random.getstate()).encode()).hexdigest())
st = np.random.get_state()
out.append("numpy state " + hashlib.sha256(repr((st[0], st[1].tolist(), st[2], st[3], st[4])).encode()).hexdigest())
out.append("next draws %r %r" % (random.random(), float(np.random.random())))

text = "\n".join(out)
print(text)
print("DIGEST", hashlib.sha256(text.encode()).hexdigest(), len(out))
