import sys, os; sys.path.insert(0, os.getcwd())
# Differential harness: message passing on motif covers (MessagePassing.theoretical,
# MessagePassing.calculate_H_tau, MessagePassing.resolve_equation, AutomatedEquation.*).
# Prints a deterministic digest; run with cwd = a checkout, on original and on changed code.
if os.environ.get("PYTHONHASHSEED") != "0":
    env = dict(os.environ)
    env["PYTHONHASHSEED"] = "0"
    os.execve(sys.executable, [sys.executable] + sys.argv, env)

import hashlib
import random
import decimal
import fractions
import warnings

import numpy as np
import networkx as nx

warnings.simplefilter("ignore")

from gcmpy.message_passing.message_passing import MessagePassing
from gcmpy.message_passing.message_passing_mixin import MessagePassingMixin
from gcmpy.message_passing.equations.automated_equation import AutomatedEquation

random.seed(170017)
np.random.seed(170017)

LINES = []


def out(*parts):
    LINES.append(" ".join(str(p) for p in parts))


def show(x):
    if isinstance(x, np.ndarray):
        return "ndarray" + repr(x.tolist())
    if isinstance(x, dict):
        return "{" + ", ".join(f"{show(k)}: {show(v)}" for k, v in x.items()) + "}"
    if isinstance(x, (list, tuple)):
        body = ", ".join(show(v) for v in x)
        return ("[" + body + "]") if isinstance(x, list) else ("(" + body + ")")
    if isinstance(x, (set, frozenset)):
        return "set[" + ", ".join(show(v) for v in x) + "]"
    return f"{type(x).__name__}:{x!r}"


def attempt(tag, fn):
    try:
        r = fn()
        out(tag, "->", show(r))
        return r
    except BaseException as e:  # noqa
        if isinstance(e, (KeyboardInterrupt, SystemExit)):
            raise
        msg = str(e)
        if "0x" in msg:
            msg = "<addr>"
        out(tag, "!!", type(e).__name__, msg[:120])
        return None


def rng_digest():
    h = hashlib.sha256()
    h.update(repr(random.getstate()).encode())
    st = np.random.get_state()
    h.update(repr((st[0], st[1].tolist(), st[2], st[3], st[4])).encode())
    return h.hexdigest()


# --------------------------------------------------------------------------- #
# building labelled covers
# --------------------------------------------------------------------------- #
MOTIFS = {
    "edge": (2, [(0, 1)]),
    "tri": (3, [(0, 1), (0, 2), (1, 2)]),
    "path3": (3, [(0, 1), (1, 2)]),
    "c4": (4, [(0, 1), (1, 2), (2, 3), (3, 0)]),
    "k4": (4, [(0, 1), (0, 2), (0, 3), (1, 2), (1, 3), (2, 3)]),
    "diamond": (4, [(0, 1), (1, 2), (2, 3), (3, 0), (0, 2)]),
    "star3": (4, [(0, 1), (0, 2), (0, 3)]),
    "c5": (5, [(0, 1), (1, 2), (2, 3), (3, 4), (4, 0)]),
    "paw": (4, [(0, 1), (1, 2), (2, 0), (2, 3)]),
}


def build_cover(rng, n_motifs, kinds, mode, relabel=None, isolated=0, graph_cls=nx.Graph):
    """Edge-disjoint motif cover; `mode` is 'tree' (one shared vertex) or 'mesh'
    (several shared vertices, motif rejected when it would reuse an edge)."""
    G = graph_cls()
    next_v = 0
    uid = 0
    verts = []
    for _ in range(n_motifs):
        kind = rng.choice(kinds)
        size, tmpl = MOTIFS[kind]
        for _try in range(20):
            if not verts:
                chosen = list(range(next_v, next_v + size))
            elif mode == "tree":
                chosen = [rng.choice(verts)] + list(range(next_v, next_v + size - 1))
            else:
                n_old = rng.randint(1, min(size, len(verts)))
                old = rng.sample(verts, n_old)
                chosen = old + list(range(next_v, next_v + size - n_old))
            rng.shuffle(chosen)
            edges = [(chosen[a], chosen[b]) for a, b in tmpl]
            if any(G.has_edge(a, b) for a, b in edges):
                continue
            break
        else:
            continue
        for v in chosen:
            if v not in verts:
                verts.append(v)
        next_v = max(verts) + 1
        names = [relabel(v) if relabel else v for v in chosen]
        nedges = [(relabel(a), relabel(b)) if relabel else (a, b) for a, b in edges]
        label = f"{len(tmpl)}{size}-{names}-{nedges}-{uid}"
        for a, b in nedges:
            G.add_edge(a, b, CoverLabel=label)
        uid += 1
    for k in range(isolated):
        G.add_node(relabel(next_v + k) if relabel else next_v + k)
    return G


def dump_state(tag, mp):
    h = getattr(mp, "_H_tau", None)
    out(tag, "H_tau", show(h))
    out(tag, "phi", show(getattr(mp, "_phi", "<unset>")))
    out(tag, "AE.cs", show(mp._AE._connected_subgraphs))
    out(tag, "AE.ec", show(mp._AE._edge_combinations))


def graph_fingerprint(G):
    return show([(n, dict(d)) for n, d in G.nodes(data=True)]) + show(
        [(a, b, dict(d)) for a, b, d in G.edges(data=True)]
    )


# --------------------------------------------------------------------------- #
# 1. valid covers: many graphs, query orders, repeated queries on one object
# --------------------------------------------------------------------------- #
rng = random.Random(99)
PHIS = [0.0, 1.0, 0.5, 0.13, 0.9, 0.3333333333333333, 0.5, 0.0, 0.77, 1.0]
KIND_SETS = [
    ["edge"],
    ["tri"],
    ["edge", "tri"],
    ["c4", "diamond"],
    ["k4", "edge"],
    ["path3", "star3", "paw"],
    ["c5", "tri", "edge"],
    list(MOTIFS),
]
case = 0
for kinds in KIND_SETS:
    for mode in ("tree", "mesh"):
        for n_motifs in (1, 2, 4, 7):
            for iterations in (0, 1, 3):
                case += 1
                G = build_cover(rng, n_motifs, kinds, mode, isolated=(case % 3 == 0) * 2)
                before = graph_fingerprint(G)
                mp = MessagePassing(G, iterations=iterations)
                tag = f"V{case}"
                out(tag, kinds, mode, n_motifs, iterations, G.number_of_nodes(), G.number_of_edges())
                phis = list(PHIS)
                rng.shuffle(phis)
                for phi in phis[:6]:
                    attempt(f"{tag} same phi={phi!r}", lambda: mp.theoretical(phi))
                    attempt(
                        f"{tag} fresh phi={phi!r}",
                        lambda: MessagePassing(G, iterations=iterations).theoretical(phi),
                    )
                dump_state(tag, mp)
                out(tag, "graph untouched", before == graph_fingerprint(G))

# default iteration count, a few larger covers
for k in range(4):
    G = build_cover(rng, 9, list(MOTIFS), "mesh" if k % 2 else "tree")
    mp = MessagePassing(G)
    for phi in (0.2, 0.6, 0.2, 1.0, 0.0):
        attempt(f"D{k} phi={phi}", lambda: mp.theoretical(phi))
    dump_state(f"D{k}", mp)

# string vertices, digraph, multigraph, self loops
G = build_cover(rng, 5, ["tri", "edge", "c4"], "mesh", relabel=lambda v: "n%d" % v)
mp = MessagePassing(G, iterations=4)
for phi in (0.4, 0.8, 0.4):
    attempt(f"S phi={phi}", lambda: mp.theoretical(phi))
dump_state("S", mp)

G = build_cover(rng, 5, ["tri", "edge", "c4"], "tree", graph_cls=nx.DiGraph)
mp = MessagePassing(G, iterations=3)
for phi in (0.4, 0.8, 0.4):
    attempt(f"DG phi={phi}", lambda: mp.theoretical(phi))
dump_state("DG", mp)

G = build_cover(rng, 4, ["tri", "edge"], "tree", graph_cls=nx.MultiGraph)
mp = MessagePassing(G, iterations=2)
attempt("MG", lambda: mp.theoretical(0.5))
dump_state("MG", mp)

G = build_cover(rng, 3, ["tri", "edge"], "tree")
G.add_edge(0, 0, CoverLabel="11-[0]-[(0, 0)]-77")
mp = MessagePassing(G, iterations=3)
for phi in (0.3, 0.7):
    attempt(f"LOOP phi={phi}", lambda: mp.theoretical(phi))
dump_state("LOOP", mp)

# --------------------------------------------------------------------------- #
# 2. odd phi values and odd constructor arguments
# --------------------------------------------------------------------------- #
G = build_cover(rng, 5, ["tri", "edge", "diamond"], "mesh")
ODD_PHIS = [
    -0.5, 1.5, 2, 0, 1, True, False, float("nan"), float("inf"), -float("inf"), 1e-320, 1e308,
    0.5 + 0.25j, 0j, complex(0.3, -0.0), np.float64(0.4), np.float32(0.4), np.int64(1),
    np.array([0.1, 0.9]), fractions.Fraction(1, 3), decimal.Decimal("0.5"), "0.5", None, [0.5], (0.5,),
]
mp = MessagePassing(G, iterations=3)
for k, phi in enumerate(ODD_PHIS):
    attempt(f"P{k} same {show(phi)}", lambda: mp.theoretical(phi))
    dump_state(f"P{k}", mp)
    attempt(f"P{k} fresh {show(phi)}", lambda: MessagePassing(G, iterations=3).theoretical(phi))
    attempt(f"P{k} after", lambda: mp.theoretical(0.5))

for k, its in enumerate([0, -1, -5, True, False, 2.0, "3", None, np.int64(2)]):
    def run():
        m = MessagePassing(G, iterations=its)
        r = m.theoretical(0.45)
        dump_state(f"I{k}", m)
        return r
    attempt(f"I{k} iterations={show(its)}", run)

attempt("cover_type", lambda: MessagePassing(G, "anything", 2).theoretical(0.45))
attempt("cover_type kw", lambda: MessagePassing(G, cover_type=None, iterations=2).theoretical(0.45))

# --------------------------------------------------------------------------- #
# 3. broken inputs: error paths through theoretical / calculate_H_tau
# --------------------------------------------------------------------------- #
def broken_cases():
    cases = []
    cases.append(("empty", nx.Graph()))
    g = nx.Graph(); g.add_nodes_from([1, 2, 3]); cases.append(("only isolated", g))
    g = nx.Graph(); g.add_edge(0, 1); cases.append(("no label", g))
    g = nx.Graph(); g.add_edge(0, 1, CoverLabel=None); cases.append(("label None", g))
    g = nx.Graph(); g.add_edge(0, 1, CoverLabel=5); cases.append(("label int", g))
    g = nx.Graph(); g.add_edge(0, 1, CoverLabel=""); cases.append(("label empty", g))
    g = nx.Graph(); g.add_edge(0, 1, CoverLabel="x"); cases.append(("label x", g))
    g = nx.Graph(); g.add_edge(0, 1, CoverLabel="7"); cases.append(("label 7", g))
    g = nx.Graph(); g.add_edge(0, 1, CoverLabel="1-[0, 1]-3"); cases.append(("label 3 fields", g))
    g = nx.Graph(); g.add_edge(0, 1, CoverLabel="1-[0, 1-[(0, 1)]-3"); cases.append(("bad literal", g))
    g = nx.Graph(); g.add_edge(0, 1, CoverLabel="1-[0, 1]-[(0, 1)]-a"); cases.append(("bad id", g))
    g = nx.Graph(); g.add_edge(0, 1, CoverLabel="1-5-[(0, 1)]-3"); cases.append(("vertices not iterable", g))
    g = nx.Graph(); g.add_edge(0, 1, CoverLabel="1-[0, 1]-7-3"); cases.append(("edges not iterable", g))
    g = nx.Graph(); g.add_edge(0, 1, CoverLabel="1-[0, 1]-[(0, 1, 2, 3)]-3"); cases.append(("edge 4-tuple", g))
    g = nx.Graph(); g.add_edge(0, 1, CoverLabel="1-[0, 1]-[]-3"); cases.append(("no edges in label", g))
    g = nx.Graph(); g.add_edge(0, 1, CoverLabel="1-[]-[(0, 1)]-3"); cases.append(("no vertices in label", g))
    g = nx.Graph(); g.add_edge(0, 1, CoverLabel="1-[0, 1, 9]-[(0, 1), (1, 9)]-3"); cases.append(("vertex 9 not in G", g))
    g = nx.Graph(); g.add_edge(0, 1, CoverLabel="1-[9, 0, 1]-[(0, 1), (1, 9)]-3"); cases.append(("vertex 9 first", g))
    g = nx.Graph(); g.add_edge(0, 1, CoverLabel="1-[5, 6]-[(5, 6)]-3"); cases.append(("label of other vertices", g))
    g = nx.Graph(); g.add_edge(0, 1, CoverLabel="1-[0, 1]-[(5, 6)]-3"); cases.append(("label edges elsewhere", g))
    g = nx.Graph(); g.add_edge(0, 1, CoverLabel="1-[0, 1]-[(0, 1), (1, 2)]-3"); cases.append(("label edge extra", g))
    g = nx.Graph(); g.add_edge(0, 1, CoverLabel="1-[[0], 1]-[(0, 1)]-3"); cases.append(("unhashable vertex", g))
    g = nx.Graph(); g.add_edge(0, 1, CoverLabel="1-[0, 1, 1, 0]-[(0, 1), (0, 1)]-3"); cases.append(("duplicates", g))
    g = nx.Graph(); g.add_edge(-1, 1, CoverLabel="1-[-1, 1]-[(-1, 1)]-3"); cases.append(("negative vertex", g))
    g = nx.Graph(); g.add_edge(0, 1, CoverLabel="1-[0, 1]-[(0, 1)]--3"); cases.append(("negative id", g))
    g = nx.Graph()
    g.add_edge(0, 1, CoverLabel="1-[0, 1]-[(0, 1)]-0")
    g.add_edge(1, 2)
    cases.append(("second edge unlabelled", g))
    g = nx.Graph()
    g.add_edge(0, 1, CoverLabel="1-[0, 1]-[(0, 1)]-0")
    g.add_edge(1, 2, CoverLabel="1-[1, 2]-[(1, 2)]-0")
    cases.append(("same id two motifs", g))
    g = nx.Graph()
    g.add_edge(0, 1, CoverLabel="3-[0, 1, 2]-[(0, 1), (0, 2), (1, 2)]-0")
    g.add_edge(1, 2, CoverLabel="3-[0, 1, 2]-[(0, 1), (0, 2), (1, 2)]-0")
    g.add_edge(0, 2, CoverLabel="1-[0, 2]-[(0, 2)]-1")
    cases.append(("overlapping motifs", g))
    g = nx.Graph()
    g.add_edge(0, 1, CoverLabel="3-[0, 1, 2]-[(0, 1), (0, 2), (1, 2)]-0")
    g.add_edge(1, 2, CoverLabel="3-[0, 1, 2]-[(0, 1), (0, 2), (1, 2)]-0")
    g.add_edge(2, 3, CoverLabel="1-[2, 3]-[(2, 3)]-1")
    cases.append(("triangle missing an edge", g))
    g = nx.Graph()
    g.add_edge(0, 1, CoverLabel="2-[0, 1, 2, 3]-[(0, 1), (2, 3)]-0")
    g.add_edge(2, 3, CoverLabel="2-[0, 1, 2, 3]-[(0, 1), (2, 3)]-0")
    g.add_edge(1, 2, CoverLabel="1-[1, 2]-[(1, 2)]-1")
    cases.append(("disconnected motif", g))
    g = nx.Graph()
    g.add_edge(0, 1, CoverLabel="1-[0, 1]-[(0, 1)]-0")
    g.add_edge(1, 2, CoverLabel="1-[2, 1]-[(2, 1)]-1")
    g.add_edge(2, 0, CoverLabel="1-[0, 2]-[(2, 0)]-2")
    cases.append(("triangle covered by edges", g))
    return cases


for name, g in broken_cases():
    for its in (0, 2):
        for phi in (0.0, 0.6, "z"):
            def run():
                m = MessagePassing(g, iterations=its)
                try:
                    return m.theoretical(phi)
                finally:
                    dump_state(f"B[{name}|{its}|{phi}]", m)
            attempt(f"B[{name}|{its}|{phi}]", run)

attempt("G None", lambda: MessagePassing(None).theoretical(0.5))
attempt("G dict", lambda: MessagePassing({0: {1: {}}}).theoretical(0.5))

# --------------------------------------------------------------------------- #
# 4. calculate_H_tau and resolve_equation called directly
# --------------------------------------------------------------------------- #
G = build_cover(rng, 6, ["tri", "edge", "diamond", "c4"], "mesh")
labels = sorted({d["CoverLabel"] for _, _, d in G.edges(data=True)})
mp = MessagePassing(G, iterations=2)
attempt("direct before theoretical", lambda: mp.calculate_H_tau(0, labels[0]))
dump_state("direct0", mp)
attempt("resolve before theoretical", lambda: mp.resolve_equation(0, labels[0], {}))
mp.theoretical(0.35)
mixin = MessagePassingMixin("x", G)
for lab in labels:
    vs = mixin.get_vertices_in_motif(lab)
    for focal in list(vs) + [12345, "q", None]:
        attempt(f"calc focal={focal!r} {lab}", lambda: mp.calculate_H_tau(focal, lab))
    prods = {v: rng.random() for v in vs}
    for focal in list(vs) + [12345]:
        attempt(f"resolve focal={focal!r} {lab}", lambda: mp.resolve_equation(focal, lab, prods))
        attempt(f"resolve nofocal focal={focal!r} {lab}", lambda: mp.resolve_equation(
            focal, lab, {v: u for v, u in prods.items() if v != focal}))
    attempt(f"resolve empty prods {lab}", lambda: mp.resolve_equation(vs[0], lab, {}))
    attempt(f"resolve str prods {lab}", lambda: mp.resolve_equation(vs[0], lab, {v: "u" for v in vs}))
dump_state("direct1", mp)
for lab in ["", "x", "1-[0, 1]", "1-[0, 99]-[(0, 99)]-500", "1-[0, 1]-[(0, 1)]-x", None, 3]:
    attempt(f"calc badlabel {lab!r}", lambda: mp.calculate_H_tau(0, lab))
    attempt(f"resolve badlabel {lab!r}", lambda: mp.resolve_equation(0, lab, {0: 0.5, 1: 0.5}))
dump_state("direct2", mp)
mp._H_tau.pop(next(iter(mp._H_tau)))
for lab in labels:
    for focal in mixin.get_vertices_in_motif(lab):
        attempt(f"calc after pop focal={focal!r} {lab}", lambda: mp.calculate_H_tau(focal, lab))
dump_state("direct3", mp)
attempt("theoretical after pokes", lambda: mp.theoretical(0.35))
dump_state("direct4", mp)

for lab in ["31-[1, 2, 3]-[(1, 2)]-4", "a-b-c-5", "-[]--6", "1-(1, 2)-{3: 4}-+7", "1-[1]-[2]- 8 "]:
    for fn in ("get_motif_topology", "get_motif_ID", "get_vertices_in_motif", "get_edges_in_motif"):
        attempt(f"mixin {fn} {lab!r}", lambda: getattr(mixin, fn)(lab))
attempt("mixin label", lambda: mixin.get_edge_cover_label(*next(iter(G.edges()))))
attempt("mixin label missing", lambda: mixin.get_edge_cover_label(0, 99999))

# --------------------------------------------------------------------------- #
# 5. AutomatedEquation directly
# --------------------------------------------------------------------------- #
def motif_graph(rng, n, p_edge, name, us=True, cls=nx.Graph):
    while True:
        H = nx.gnp_random_graph(n, p_edge, seed=rng.randint(0, 10**6))
        if n == 1 or nx.is_connected(H):
            break
    perm = list(range(10, 10 + n))
    rng.shuffle(perm)
    H = nx.relabel_nodes(H, dict(zip(range(n), perm)))
    H = cls(H)
    H.name = name
    if us:
        nx.set_node_attributes(H, {v: rng.random() for v in H.nodes()}, "u")
    return H


ae = AutomatedEquation()
for k in range(40):
    n = rng.randint(1, 5)
    H = motif_graph(rng, n, rng.choice([0.4, 0.7, 1.0]), f"m{k}")
    fp = graph_fingerprint(H)
    for root in list(H.nodes()) + [999]:
        for p in (0.0, 1.0, rng.random(), rng.random()):
            attempt(f"AE{k} root={root} p={p!r}", lambda: ae.automated_equation(H, p, root))
        attempt(f"AE{k} cs root={root}", lambda: ae.get_connected_subgraphs(H, root))
        attempt(f"AE{k} us root={root}", lambda: ae.get_us(H, root))
    attempt(f"AE{k} ec", lambda: ae.get_edge_combinations(H, sorted(H.nodes())))
    attempt(f"AE{k} ec again", lambda: ae.get_edge_combinations(H, sorted(H.nodes())))
    out(f"AE{k} untouched", fp == graph_fingerprint(H))
out("AE caches", show(ae._connected_subgraphs), show(ae._edge_combinations))

# fresh cache per call, odd p, odd graphs
H = motif_graph(rng, 4, 0.8, "odd")
for k, p in enumerate(ODD_PHIS):
    attempt(f"AEP{k} {show(p)}", lambda: AutomatedEquation().automated_equation(H, p, 10))
H2 = motif_graph(rng, 4, 0.8, "nou", us=False)
attempt("AE no u", lambda: AutomatedEquation().automated_equation(H2, 0.5, 10))
attempt("AE no u p=0", lambda: AutomatedEquation().automated_equation(H2, 0, 10))
H3 = motif_graph(rng, 4, 0.8, "stru")
nx.set_node_attributes(H3, {v: "s" for v in H3}, "u")
attempt("AE str u", lambda: AutomatedEquation().automated_equation(H3, 0.5, 10))
H4 = motif_graph(rng, 4, 0.9, "loop")
H4.add_edge(10, 10)
H4.add_edge(12, 12)
for root in (10, 11, 12, 13):
    attempt(f"AE selfloop root={root}", lambda: AutomatedEquation().automated_equation(H4, 0.37, root))
H5 = nx.Graph(name="disc")
H5.add_edges_from([(1, 2), (3, 4), (4, 5)])
nx.set_node_attributes(H5, {v: 0.1 * v for v in H5}, "u")
for root in (1, 3, 4):
    attempt(f"AE disconnected root={root}", lambda: AutomatedEquation().automated_equation(H5, 0.37, root))
attempt("AE disconnected ec", lambda: AutomatedEquation().get_edge_combinations(H5, [1]))
H6 = motif_graph(rng, 4, 0.8, "dir", cls=nx.DiGraph)
attempt("AE digraph", lambda: AutomatedEquation().automated_equation(H6, 0.37, 10))
H7 = motif_graph(rng, 4, 0.8, "multi", cls=nx.MultiGraph)
H7.add_edge(10, 11)
H7.add_edge(10, 11)
attempt("AE multigraph", lambda: AutomatedEquation().automated_equation(H7, 0.37, 10))
attempt("AE empty graph", lambda: AutomatedEquation().automated_equation(nx.Graph(), 0.37, 0))
H8 = nx.Graph(name="single"); H8.add_node(4, u=0.2)
attempt("AE single node", lambda: AutomatedEquation().automated_equation(H8, 0.37, 4))
attempt("AE G None", lambda: AutomatedEquation().automated_equation(None, 0.37, 4))
attempt("AE root unhashable", lambda: AutomatedEquation().automated_equation(H, 0.37, [10]))
attempt("AE root None", lambda: AutomatedEquation().automated_equation(H, 0.37, None))

# one cache, colliding names: results of the first graph are served for the second
ae = AutomatedEquation()
A = nx.Graph(name="same"); A.add_edges_from([(1, 2), (2, 3), (3, 1)])
B = nx.Graph(name="same"); B.add_edges_from([(1, 2), (2, 3), (3, 4), (4, 1), (1, 3)])
C = nx.Graph(name="same"); C.add_edges_from([("1", 7), (7, 8)])
for X in (A, B, C):
    nx.set_node_attributes(X, {v: 0.25 for v in X}, "u")
for X, nm in ((A, "A"), (B, "B"), (C, "C"), (A, "A2")):
    for root in (1, "1", 2):
        attempt(f"AE collide {nm} root={root!r}", lambda: ae.automated_equation(X, 0.6, root))
out("AE collide caches", show(ae._connected_subgraphs), show(ae._edge_combinations))

# backtracking helper called directly
for args in [
    ({1}, {2, 3}, {1}, 3),
    ({1}, {2, 3}, {1}, 1),
    ({1}, {2, 3}, {1}, 0),
    ({1, 2, 3}, {2, 3}, set(), 2),
    (set(), {1}, set(), 5),
    ({1}, set(), {1}, 5),
]:
    def run():
        res = []
        r = AutomatedEquation()._get_connected_subgraphs(A, args[0], args[1], args[2], res, args[3])
        return (r, res)
    attempt(f"AE backtrack {args}", run)

out("RNG", rng_digest())
sys.stdout.write("\n".join(LINES) + "\n")
h = hashlib.sha256("\n".join(LINES).encode()).hexdigest()
sys.stdout.write(f"DIGEST {h} lines={len(LINES)}\n")
