"""gcmstatic - repository-specific static analysis engine for PeterStAndrews/gcmpy.

Pure stdlib `ast` (+ networkx for dominators).  Nothing in here imports or executes
gcmpy; every component works on the parsed source of the tree under analysis.
"""
