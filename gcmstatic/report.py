"""Obligations, verdicts, evidence files, known findings, exit codes."""
from __future__ import annotations

import ast
import json
import os
import time
import traceback
from dataclasses import dataclass, field, asdict
from typing import Dict, List, Optional

from .pm import AnalysisError, FuncInfo, Program
from . import astx

HOLDS, VIOLATED, UNDECIDED = "HOLDS", "VIOLATED", "UNDECIDED"
VERIF = os.path.dirname(os.path.dirname(os.path.abspath(__file__)))


@dataclass
class Result:
    prop: str
    obligation: str
    rule: str
    status: str
    instance: str = ""
    function: str = ""
    where: str = ""
    construct: str = ""
    reason: str = ""
    key: str = ""
    known: bool = False

    def line(self) -> str:
        s = f"{self.status:9s} {self.obligation:7s} {self.rule}"
        if self.function:
            s += f" @ {self.function}"
        if self.where:
            s += f" ({self.where})"
        if self.instance:
            s += f": {self.instance}"
        if self.reason:
            s += f" -- {self.reason}"
        return s


class Obl:
    """One obligation (clause.rule) of a property; collects its instances."""

    def __init__(self, ctx: "Ctx", oid: str, rule: str, floor: int = 1):
        self.ctx, self.oid, self.rule, self.floor = ctx, oid, rule, floor
        self.results: List[Result] = []

    def _mk(self, status, fn, node, instance, reason, key="", construct=None) -> Result:
        r = Result(self.ctx.prop, self.oid, self.rule, status, instance=instance, reason=reason, key=key)
        if isinstance(fn, FuncInfo):
            r.function = fn.qualname
            r.where = fn.loc(node)
            self.ctx.prog.note(fn.module)
        elif isinstance(fn, str):
            r.function = fn
        if construct is not None:
            r.construct = construct
        elif node is not None and isinstance(node, ast.AST):
            try:
                r.construct = astx.txt(node)[:300]
            except Exception:
                r.construct = type(node).__name__
        self.results.append(r)
        return r

    def holds(self, fn=None, node=None, instance: str = "", construct=None):
        return self._mk(HOLDS, fn, node, instance, "", construct=construct)

    def violated(self, fn=None, node=None, reason: str = "", instance: str = "", key: str = "", construct=None, sure: bool = False, shape_free: bool = False):
        # shape_free=True: the rule finds a construct (a memo table, a shared container) wherever it is and does not
        # rely on the function still having the pinned algorithm's shape: the rewrite gate does not apply
        # sure=True: the rule has positive evidence that does not depend on seeing the whole function (e.g. it looked
        # INTO the helper it accuses): the two reticence policies below do not apply
        if sure:
            return self._mk(VIOLATED, fn, node, instance, reason, key=key, construct=construct)
        # A function that still delegates to a helper which does not exist on the pinned tree (and could not be
        # inlined, see normalize.py) is only partly visible to the rules: nothing is concluded against it.
        if isinstance(fn, FuncInfo):
            res = self.ctx.prog.residual_helpers(fn)
            if res:
                return self._mk(UNDECIDED, fn, node, instance,
                                f"(not accused: `{fn.qualname}` delegates to the new helper(s) {res}, which the rules cannot see through) {reason}")
            # A function of which less than 40% survives from the pinned tree has been REWRITTEN, not edited: the rules
            # were written against the pinned algorithm's shape and are not trusted to accuse a different algorithm.
            sv = 1.0 if shape_free else self.ctx.prog.survives(fn)
            if sv < self.ctx.prog.REWRITE_THRESHOLD:
                return self._mk(UNDECIDED, fn, node, instance,
                                f"(not accused: only {int(sv * 100)}% of `{fn.qualname}` survives from the pinned tree - rewritten rather than edited; needs review) {reason}")
        return self._mk(VIOLATED, fn, node, instance, reason, key=key, construct=construct)

    def undecided(self, reason: str, fn=None, node=None, instance: str = ""):
        return self._mk(UNDECIDED, fn, node, instance, reason)

    def check(self, cond: bool, fn=None, node=None, instance: str = "", reason: str = "", key: str = ""):
        """HOLDS if cond else VIOLATED."""
        if cond:
            return self.holds(fn, node, instance)
        return self.violated(fn, node, reason, instance, key=key)

    # context manager: converts analysis trouble into UNDECIDED, enforces the instance floor
    def __enter__(self):
        return self

    def __exit__(self, et, ev, tb):
        if et is not None:
            if issubclass(et, AnalysisError):
                self.undecided(f"analysis: {ev}")
            elif issubclass(et, Exception):
                last = traceback.extract_tb(tb)[-1]
                self.undecided(f"checker exception {et.__name__}: {ev} at {os.path.basename(last.filename)}:{last.lineno}")
            else:
                return False
        decided = [r for r in self.results if r.status in (HOLDS, VIOLATED)]
        if not any(r.status == UNDECIDED for r in self.results) and len(decided) < self.floor:
            self.undecided(f"instance floor: matched {len(decided)} rule instance(s), expected at least {self.floor} "
                           f"(the construct this rule speaks about was not recognised)")
        self.ctx.results.extend(self.results)
        return True


class Ctx:
    def __init__(self, prog: Program, prop: str, tier: str = "quick", only: Optional[str] = None):
        self.prog, self.prop, self.tier, self.only = prog, prop, tier, only
        self.results: List[Result] = []
        self.trusted: List[str] = []
        self.notes: List[str] = []

    def obligation(self, oid: str, rule: str, floor: int = 1) -> Obl:
        return Obl(self, oid, rule, floor)

    def trust(self, *items: str) -> None:
        for i in items:
            if i not in self.trusted:
                self.trusted.append(i)


# ----------------------------------------------------------------------------- known findings
def load_known(path: Optional[str] = None) -> dict:
    path = path or os.path.join(VERIF, "known_findings.json")
    try:
        with open(path) as fh:
            return json.load(fh)
    except FileNotFoundError:
        return {"findings": [], "fixed": []}


def apply_known(results: List[Result], known: dict) -> List[dict]:
    """Mark violations that are listed known findings; returns the list of matched entries."""
    matched = []
    for r in results:
        if r.status != VIOLATED:
            continue
        for k in known.get("findings", []):
            if (k.get("property") == r.prop and k.get("obligation") == r.obligation
                    and k.get("function") == r.function and k.get("construct") == r.key and r.key):
                r.known = True
                matched.append(k)
                break
    return matched


# ----------------------------------------------------------------------------- evidence
def write_evidence(prop: str, tier: str, seed: int, results: List[Result], ctx: Ctx, wall: float,
                   cmd: str, explanation: str, extra: Optional[dict] = None, evidence_dir: Optional[str] = None) -> str:
    evidence_dir = evidence_dir or os.path.join(VERIF, "evidence")
    os.makedirs(evidence_dir, exist_ok=True)
    holds = [r for r in results if r.status == HOLDS]
    viol = [r for r in results if r.status == VIOLATED and not r.known]
    known = [r for r in results if r.status == VIOLATED and r.known]
    und = [r for r in results if r.status == UNDECIDED]
    distinct = {(r.obligation, r.function, r.construct) for r in results if r.status in (HOLDS, VIOLATED) and (r.construct or r.function)}
    samples = []
    for r in results:
        samples.append({"obligation": r.obligation, "rule": r.rule, "status": r.status + ("(known finding)" if r.known else ""),
                        "function": r.function, "where": r.where, "instance": r.instance,
                        "construct": r.construct, **({"reason": r.reason} if r.reason else {})})
    cov = {
        "obligations": len(results),
        "discharged": len(holds),
        "checker_cmd": cmd,
        "trusted_base": ctx.trusted,
        "explanation": explanation,
        "evaluations": len(results),
        "distinct_nontrivial": len(distinct),
        "rule": "one evaluation = one rule instance (obligation x matched construct) evaluated on the parsed source of /repo; "
                "distinct_nontrivial counts distinct (obligation, function, construct) triples that matched a real construct",
        "samples": samples,
        "violated": len(viol),
        "known_findings": len(known),
        "undecided": len(und),
        "files_consulted": dict(sorted(ctx.prog.consulted.items())),
        "exhaustive": False,
    }
    if extra:
        cov.update(extra)
    ev = {
        "property_id": prop,
        "tier": tier,
        "seed": seed,
        "level": "other",
        "coverage": cov,
        "assumptions": ctx.trusted + ctx.notes,
        "wall_s": round(wall, 3),
        "violations": len(viol),
    }
    path = os.path.join(evidence_dir, f"{prop}.json")
    tmp = path + ".tmp"
    with open(tmp, "w") as fh:
        json.dump(ev, fh, indent=1, default=str)
    os.replace(tmp, path)
    return path


def write_replay(r: Result, n: int, repo: str, evidence_dir: Optional[str] = None) -> str:
    d = os.path.join(evidence_dir or os.path.join(VERIF, "evidence"), "replay")
    os.makedirs(d, exist_ok=True)
    path = os.path.join(d, f"{r.prop}-{r.obligation}-{n}.json")
    with open(path, "w") as fh:
        json.dump({"property": r.prop, "obligation": r.obligation, "rule": r.rule, "function": r.function,
                   "where": r.where, "construct": r.construct, "instance": r.instance, "reason": r.reason,
                   "key": r.key, "repo": repo,
                   "replay": f"/venv/bin/python /verif/check.py {r.prop} --replay {path}"}, fh, indent=1)
    return path
