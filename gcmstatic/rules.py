"""Shared rule helpers: effects on access-path roots (with aliasing and callee summaries),
copy discipline, loop/iteration helpers, comparison orientation."""
from __future__ import annotations

import ast
import copy
from dataclasses import dataclass
from typing import Dict, Iterable, List, Optional, Set, Tuple

from . import astx, tm
from .astx import Scope, txt
from .pm import AnalysisError, FuncInfo, Program

EXTERNAL_MUTATORS = {
    # dotted external name -> index of the argument that is mutated
    "networkx.set_node_attributes": 0,
    "networkx.set_edge_attributes": 0,
    "random.shuffle": 0,
    "networkx.relabel_nodes": None,
}


@dataclass
class Effect:
    node: ast.AST          # the statement/call performing the effect
    kind: str              # 'store' | 'augstore' | 'del' | 'call:<method>' | 'ext:<name>' | 'callee:<qualname>' | 'rebind'
    root: str              # root local name the effect is applied through
    path: str              # text of the receiver / target access path

    def __repr__(self):
        return f"<{self.kind} on {self.path}>"


def aliases_of(scope: Scope, roots: Iterable[str], include_elements: bool = True) -> Set[str]:
    """Locals that (may) alias a root or a part of it: `a = root`, `a = root.x[y]`, loop/comprehension
    targets iterating a rooted expression, tuple-unpacked parts.  Copies (`.copy()`, list(), [:]...) are
    not aliases."""
    out = set(roots)
    changed = True
    while changed:
        changed = False
        for name, sites in scope.assigns.items():
            if name in out:
                continue
            for st in sites:
                v = st.value
                if _rooted_alias_expr(v, out):
                    out.add(name)
                    changed = True
                    break
        if include_elements:
            for name, sites in scope.other_binds.items():
                if name in out:
                    continue
                for st in sites:
                    it = None
                    if isinstance(st, (ast.For, ast.comprehension)):
                        it = st.iter
                        # unwrap enumerate/zip/reversed/iter
                        its = _iter_sources(it)
                        if any(_rooted_alias_expr(x, out) for x in its):
                            out.add(name)
                            changed = True
                            break
                    elif isinstance(st, ast.Assign):
                        if _rooted_alias_expr(st.value, out):
                            out.add(name)
                            changed = True
                            break
    return out


def _iter_sources(it: ast.AST) -> List[ast.AST]:
    if isinstance(it, ast.Call) and it.args and txt(it.func).split(".")[-1] in ("enumerate", "zip", "reversed", "iter", "grouper", "islice", "batched", "chunked", "partition"):
        out = []
        for a in it.args:
            out += _iter_sources(a)
        return out
    return [it]


def _rooted_alias_expr(v: ast.AST, roots: Set[str]) -> bool:
    n = v
    while isinstance(n, (ast.Attribute, ast.Subscript)):
        if isinstance(n, ast.Subscript) and isinstance(n.slice, ast.Slice):
            return False  # a slice is a copy
        n = n.value
    return isinstance(n, ast.Name) and n.id in roots


def effects_on(prog: Program, fn: FuncInfo, roots: Iterable[str], depth: int = 3, scope: Optional[Scope] = None) -> List[Effect]:
    """Write effects applied (directly or via resolved repo callees) to objects reachable from the given
    root locals/parameters of fn."""
    scope = scope or Scope(fn.node)
    al = aliases_of(scope, roots)
    out: List[Effect] = []
    for n in astx.walk_fn(fn.node):
        if isinstance(n, (ast.Assign, ast.AnnAssign, ast.AugAssign)):
            targets = n.targets if isinstance(n, ast.Assign) else [n.target]
            for t in targets:
                for tt in (t.elts if isinstance(t, (ast.Tuple, ast.List)) else [t]):
                    if isinstance(tt, (ast.Subscript, ast.Attribute)):
                        r = astx.root_name(tt)
                        if r in al:
                            out.append(Effect(n, "augstore" if isinstance(n, ast.AugAssign) else "store", r, txt(tt)))
        elif isinstance(n, ast.Delete):
            for t in n.targets:
                if isinstance(t, (ast.Subscript, ast.Attribute)):
                    r = astx.root_name(t)
                    if r in al:
                        out.append(Effect(n, "del", r, txt(t)))
        elif isinstance(n, ast.Call):
            f = n.func
            if isinstance(f, ast.Attribute) and f.attr in (astx.MUTATOR_METHODS | astx.GRAPH_MUTATORS):
                r = astx.root_name(f.value)
                if r in al:
                    out.append(Effect(n, f"call:{f.attr}", r, txt(f.value)))
            ext = prog.external(fn.module, f)
            if ext in EXTERNAL_MUTATORS and EXTERNAL_MUTATORS[ext] is not None and len(n.args) > EXTERNAL_MUTATORS[ext]:
                a = n.args[EXTERNAL_MUTATORS[ext]]
                r = astx.root_name(a)
                if r in al and not _is_copy_expr(a):
                    out.append(Effect(n, f"ext:{ext}", r, txt(a)))
            # repo callees that mutate the parameter the root is passed as
            if depth > 0:
                callee = resolve_call(prog, fn, n)
                if callee is not None:
                    params = callee.params
                    offset = 1 if (callee.cls is not None and not callee.is_static and params and params[0] in ("self", "cls")) else 0
                    for i, a in enumerate(n.args):
                        r = astx.root_name(a)
                        if r in al and _rooted_alias_expr(a, al) and i + offset < len(params):
                            sub = effects_on(prog, callee, [params[i + offset]], depth - 1)
                            if sub:
                                out.append(Effect(n, f"callee:{callee.qualname}", r, txt(a)))
    return out


def _is_copy_expr(a: ast.AST) -> bool:
    if isinstance(a, ast.Call):
        nm = txt(a.func)
        if nm in ("list", "tuple", "sorted", "dict", "set", "copy.copy", "copy.deepcopy") or nm.endswith(".copy"):
            return True
    if isinstance(a, ast.Subscript) and isinstance(a.slice, ast.Slice):
        return True
    return False


def copy_root(a: ast.AST) -> Optional[str]:
    """Root name of the object a copy expression copies: list(x) / x[:] / sorted(x) / x.copy() -> 'x'."""
    if isinstance(a, ast.Call):
        if isinstance(a.func, ast.Attribute) and a.func.attr == "copy":
            return astx.root_name(a.func.value)
        if a.args:
            return astx.root_name(a.args[0])
        return None
    return astx.root_name(a)


def resolve_call(prog: Program, fn: FuncInfo, call: ast.Call, recv_cls=None) -> Optional[FuncInfo]:
    """Resolve a call to a repo function: self.m() via the MRO of recv_cls (default: fn's class),
    Cls.m() / Cls() (-> __init__), bare names via module functions/imports, nested helpers."""
    f = call.func
    if isinstance(f, ast.Attribute) and isinstance(f.value, ast.Name):
        if f.value.id == "self":
            ci = recv_cls or fn.cls
            if ci is not None:
                return prog.method(ci, f.attr)
        if f.value.id in prog.classes:
            return prog.method(prog.classes[f.value.id], f.attr)
    if isinstance(f, ast.Attribute) and isinstance(f.value, ast.Call) and txt(f.value.func) == "super":
        ci = recv_cls or fn.cls
        if ci is not None:
            for c in prog.mro(ci)[1:]:
                if f.attr in c.methods:
                    return c.methods[f.attr]
        return None
    if isinstance(f, ast.Name):
        # nested helper of this function or an enclosing one
        p = fn
        while p is not None:
            if f.id in p.nested:
                return p.nested[f.id]
            p = p.parent
        if f.id in fn.module.functions:
            return fn.module.functions[f.id]
        if f.id in prog.classes:
            return prog.method(prog.classes[f.id], "__init__")
        tgt = fn.module.imports.get(f.id)
        if tgt:
            nm = tgt.split(".")[-1]
            modn = ".".join(tgt.split(".")[:-1])
            mi = prog.modules.get(modn)
            if mi is not None and nm in mi.functions:
                return mi.functions[nm]
            if mi is not None and nm in mi.classes:
                return prog.method(mi.classes[nm], "__init__")
            if mi is not None and nm in mi.imports:
                # re-export through a package __init__
                t2 = mi.imports[nm]
                m2 = prog.modules.get(".".join(t2.split(".")[:-1]))
                if m2 is not None and t2.split(".")[-1] in m2.functions:
                    return m2.functions[t2.split(".")[-1]]
    return None


def is_copy_of(scope: Scope, name: str, src_names: Iterable[str]) -> bool:
    """Local `name` has the single definition `<src>.copy()` / nx.Graph(<src>) / copy.deepcopy(<src>)."""
    v = scope.single_def(name, allow_mutated=True)
    return v is not None and copy_source(v) in set(src_names)


def copy_source(v: ast.AST) -> Optional[str]:
    """'g' for g.copy(), nx.Graph(g), copy.deepcopy(g), g.copy(as_view=False); attr paths as text."""
    if isinstance(v, ast.Call):
        f = v.func
        if isinstance(f, ast.Attribute) and f.attr == "copy" and not v.args:
            if any(k.arg == "as_view" and not (isinstance(k.value, ast.Constant) and k.value.value is False) for k in v.keywords):
                return None
            return txt(f.value)
        if txt(f) in ("nx.Graph", "networkx.Graph", "copy.deepcopy", "deepcopy") and len(v.args) == 1:
            return txt(v.args[0])
    return None


# ----------------------------------------------------------------------------- comparisons
def orient_compare(cmp: ast.Compare) -> Optional[Tuple[str, ast.AST, ast.AST]]:
    """Single comparison as (op, left, right) with op in {'<','<=','>','>=','==','!='}."""
    if len(cmp.ops) != 1:
        return None
    ops = {ast.Lt: "<", ast.LtE: "<=", ast.Gt: ">", ast.GtE: ">=", ast.Eq: "==", ast.NotEq: "!="}
    o = ops.get(type(cmp.ops[0]))
    if o is None:
        return None
    return o, cmp.left, cmp.comparators[0]


FLIP = {"<": ">", "<=": ">=", ">": "<", ">=": "<=", "==": "==", "!=": "!="}
NEGATE = {"<": ">=", "<=": ">", ">": "<=", ">=": "<", "==": "!=", "!=": "=="}


def compare_with_pivot(cmp_node: ast.AST, is_pivot, negated: bool = False) -> Optional[Tuple[str, ast.AST]]:
    """Normalise `pivot OP other` (pivot recognised by predicate is_pivot on an AST side):
    returns (op, other) meaning  pivot <op> other.  Handles `not (...)`."""
    n = cmp_node
    while True:
        if isinstance(n, ast.UnaryOp) and isinstance(n.op, ast.Not):
            negated = not negated
            n = n.operand
        elif isinstance(n, ast.Call) and isinstance(n.func, ast.Name) and n.func.id == "bool" and len(n.args) == 1 and not n.keywords:
            n = n.args[0]       # bool(<test>) has the truth value of <test>
        else:
            break
    if not isinstance(n, ast.Compare):
        return None
    oc = orient_compare(n)
    if oc is None:
        return None
    op, l, r = oc
    if is_pivot(l) and not is_pivot(r):
        pass
    elif is_pivot(r) and not is_pivot(l):
        op, l, r = FLIP[op], r, l
    else:
        return None
    if negated:
        op = NEGATE[op]
    return op, r


# ----------------------------------------------------------------------------- misc
def enum_member(n: ast.AST, enum_name: str) -> Optional[str]:
    """'FAST' for `GCMAlgorithmTypes.FAST` (optionally `.value`)."""
    if isinstance(n, ast.Attribute) and n.attr == "value":
        n = n.value
    if isinstance(n, ast.Attribute) and isinstance(n.value, ast.Name) and n.value.id == enum_name:
        return n.attr
    return None


def full_iteration_of(it: ast.AST, scope: Scope, accepted_texts: Iterable[str]) -> Optional[bool]:
    """Is the iterable expression (after inlining) one of the accepted 'whole collection' spellings
    (possibly wrapped in list()/tuple()/iter())?  None = not recognised."""
    r = scope.resolve(it)
    while isinstance(r, ast.Call) and txt(r.func) in ("list", "tuple", "iter") and len(r.args) == 1 and not r.keywords:
        r = r.args[0]
    t = txt(r)
    if t in set(accepted_texts):
        return True
    if isinstance(r, ast.Subscript):
        return False
    return None


def loop_body_stmts(loop: ast.AST) -> List[ast.stmt]:
    return list(astx.stmts_in(loop.body))


def unconditional_jumps(body: List[ast.stmt]) -> List[ast.stmt]:
    """break/continue/return statements at the top level of a loop body (not under an if)."""
    return [s for s in body if isinstance(s, (ast.Break, ast.Continue, ast.Return))]


def term_of(expr: ast.AST, scope: Optional[Scope] = None, env=None, call_hook=None, keep=(), allow_mutated: bool = False) -> tuple:
    e = scope.resolve(expr, keep=keep, allow_mutated=allow_mutated) if scope is not None else expr
    return tm.translate(e, env, call_hook)


# ----------------------------------------------------------------------------- loop-carried memo tables
def memo_lookup(fn_node: ast.AST, scope: Scope, expr: ast.AST):
    """If expr is `D[key]` where D is a local dict/table filled by exactly one store `D[key2] = V` in this
    function, return (D, key, store statement); else None."""
    if not (isinstance(expr, ast.Subscript) and isinstance(expr.value, ast.Name)):
        return None
    D = expr.value.id
    init = scope.assigns.get(D, [])
    if len(init) != 1 or txt(init[0].value) not in ("{}", "dict()"):
        return None
    stores = [n for n in astx.walk_fn(fn_node) if isinstance(n, ast.Assign) and len(n.targets) == 1 and isinstance(n.targets[0], ast.Subscript)
              and isinstance(n.targets[0].value, ast.Name) and n.targets[0].value.id == D]
    if len(stores) != 1:
        return None
    return D, expr.slice, stores[0]


def memo_key_gaps(scope: Scope, D: str, store: ast.Assign) -> List[str]:
    """Induction variables of loops that enclose the store but not the table's definition, on which the stored
    value depends and which are missing from the store's key: the entry computed in one iteration is then
    served to another iteration it is wrong for."""
    par = scope.parents
    ddef = scope.assigns[D][0]
    outer = [l for l in par.loops_of(store) if not par.inside(ddef, l)]
    ind = set()
    for l in outer:
        for n in ast.walk(l.target):
            if isinstance(n, ast.Name):
                ind.add(n.id)
    # the key must CONTAIN the induction variable as a component (depending on it through a computed
    # value - a length, a hash, a name - does not make the key determine it)
    key = store.targets[0].slice
    key_names = set(astx.names_in(key))
    if isinstance(key, ast.Name):
        d = scope.single_def(key.id, allow_mutated=True)
        if isinstance(d, (ast.Tuple, ast.Name)):
            key_names |= astx.names_in(d)
    val_names = names_closure(scope, store.value, stop=ind | key_names, ignore_ctx=list(par.ancestors(store)))  # what the key pins down needs no further look
    return sorted((val_names & ind) - key_names)


def names_closure(scope: Scope, expr: ast.AST, stop=(), ignore_ctx=()) -> Set[str]:
    """Names an expression depends on (data and control dependence inside one function): through local
    definitions, tuple unpacking, loop targets (their iterables), values pushed into it by mutator calls /
    element stores, and the loops and tests that enclose those writes.  Names in `stop` are not expanded."""
    out: Set[str] = set()
    work = [expr]
    seen = set()
    par = scope.parents

    ign = {id(x) for x in ignore_ctx}

    def control(st):
        for a in par.ancestors(st):
            if id(a) in ign:
                continue  # context shared with the statement under study: not part of how the value is computed
            if isinstance(a, (ast.For, ast.While)):
                work.append(a.iter if isinstance(a, ast.For) else a.test)
            elif isinstance(a, ast.If):
                work.append(a.test)
            elif isinstance(a, (ast.FunctionDef, ast.AsyncFunctionDef)):
                break

    while work:
        e = work.pop()
        for n in ast.walk(e):
            if isinstance(n, ast.Name) and n.id not in seen:
                seen.add(n.id)
                out.add(n.id)
                if n.id in stop:
                    continue
                for st in scope.assigns.get(n.id, []):
                    work.append(st.value)
                    control(st)
                for st in scope.other_binds.get(n.id, []):
                    if isinstance(st, (ast.Assign, ast.AnnAssign)) and st.value is not None:
                        work.append(st.value)  # tuple-unpacking assignment
                    elif isinstance(st, ast.AugAssign):
                        work.append(st.value)
                        control(st)
                    elif isinstance(st, (ast.For, ast.comprehension)):
                        work.append(st.iter)
                for st in scope.mutated.get(n.id, []):
                    if isinstance(st, ast.Call):
                        work.extend(st.args)
                        control(st)
                    elif isinstance(st, (ast.Assign, ast.AugAssign)):
                        work.append(st.value)
                        control(st)
    return out


# ----------------------------------------------------------------------------- dispatch on an enum parameter
def dispatch_arms(prog, fn: FuncInfo, tparam: str, enum_name: str):
    """Arms of a dispatch on the parameter `tparam` over the members of `enum_name`.

    Recognised spellings (all equivalent): an if/elif chain, consecutive `if t == M: return ...` statements
    (early returns), `match t: case Enum.M: return ...`, and a table lookup `TABLE[t](args)` / `TABLE[t]` where
    TABLE is a dict literal keyed by enum members (local, class attribute or module global).
    Returns (arms, complete): arms maps member -> ast.Return (real or synthesised for the table form);
    complete is False when some statement was not understood (then "member has no arm" cannot be concluded).
    The first arm for a member wins (later ones are unreachable)."""
    arms: Dict[str, ast.Return] = {}
    state = {"complete": True}
    sc = Scope(fn.node)

    def member_of(test):
        r = compare_with_pivot(test, lambda x: txt(x) == tparam or txt(x) == tparam + ".value")
        if r and r[0] == "==":
            return enum_member(r[1], enum_name)
        if isinstance(test, ast.Compare) and len(test.ops) == 1 and isinstance(test.ops[0], ast.Is) and txt(test.left) == tparam:
            return enum_member(test.comparators[0], enum_name)
        return None

    def table_of(expr):
        d = sc.resolve(expr)
        if isinstance(d, ast.Name):
            for st in fn.module.tree.body:
                if isinstance(st, ast.Assign) and any(isinstance(t, ast.Name) and t.id == d.id for t in st.targets):
                    d = st.value
        if isinstance(d, ast.Attribute) and isinstance(d.value, ast.Name) and d.value.id in ("self", "cls") | ({fn.cls.name} if fn.cls else set()) and fn.cls:
            v = prog.class_attr(fn.cls, d.attr)
            if v is not None:
                d = v
        return d if isinstance(d, ast.Dict) else None

    def walk(stmts) -> bool:
        """returns True when control cannot fall through the end of stmts"""
        for s in astx.strip_logging(stmts):
            if isinstance(s, ast.Expr) and isinstance(s.value, ast.Constant):
                continue
            if isinstance(s, ast.If):
                mem = member_of(s.test)
                if mem is None:
                    state["complete"] = False
                    return False
                body = astx.strip_logging(s.body)
                if len(body) == 1 and isinstance(body[0], ast.Return):
                    arms.setdefault(mem, body[0])
                else:
                    rs = [x for b in body for x in ast.walk(b) if isinstance(x, ast.Return)]
                    if len(rs) == 1 and isinstance(body[-1], ast.Return):
                        r0 = ast.Return(value=Scope(fn.node).resolve(body[-1].value) if body[-1].value is not None else None)
                        ast.copy_location(r0, body[-1])
                        arms.setdefault(mem, r0)
                    else:
                        state["complete"] = False
                if s.orelse:
                    if walk(s.orelse):
                        return True
                continue
            if hasattr(ast, "Match") and isinstance(s, ast.Match) and txt(s.subject) in (tparam, tparam + ".value"):
                for case in s.cases:
                    p = case.pattern
                    if isinstance(p, ast.MatchValue) and case.guard is None:
                        mem = enum_member(p.value, enum_name)
                        body = astx.strip_logging(case.body)
                        if mem is not None and len(body) == 1 and isinstance(body[0], ast.Return):
                            arms.setdefault(mem, body[0])
                            continue
                    if isinstance(p, ast.MatchAs) and p.pattern is None:
                        arms.setdefault("<default>", case.body[-1])
                        continue
                    state["complete"] = False
                continue
            # a linear scan of a literal table of (member, value) rows:  for k, c in ROWS: if t == k: return f(c)
            if isinstance(s, ast.For) and not s.orelse and isinstance(s.target, ast.Tuple) and len(s.target.elts) == 2 \
                    and all(isinstance(e, ast.Name) for e in s.target.elts):
                kname, cname = s.target.elts[0].id, s.target.elts[1].id
                rows = sc.resolve(s.iter)
                if isinstance(rows, ast.Name):
                    for st_ in fn.module.tree.body:
                        if isinstance(st_, ast.Assign) and any(isinstance(t, ast.Name) and t.id == rows.id for t in st_.targets):
                            rows = st_.value
                pairs = None
                if isinstance(rows, (ast.Tuple, ast.List)) and all(isinstance(r, (ast.Tuple, ast.List)) and len(r.elts) == 2 for r in rows.elts):
                    pairs = [(r.elts[0], r.elts[1]) for r in rows.elts]
                elif isinstance(rows, ast.Call) and isinstance(rows.func, ast.Attribute) and rows.func.attr == "items" and not rows.args:
                    d = table_of(rows.func.value)
                    if d is not None and all(k is not None for k in d.keys):
                        pairs = list(zip(d.keys, d.values))
                body = astx.strip_logging(s.body)
                ok = pairs is not None and len(body) == 1 and isinstance(body[0], ast.If) and not body[0].orelse
                if ok:
                    r = compare_with_pivot(body[0].test, lambda x: txt(x) == tparam or txt(x) == tparam + ".value")
                    ib = astx.strip_logging(body[0].body)
                    ok = bool(r) and r[0] == "==" and isinstance(r[1], ast.Name) and r[1].id == kname and len(ib) == 1 and isinstance(ib[0], ast.Return) \
                        and ib[0].value is not None and kname not in astx.names_in(ib[0].value)
                if ok:
                    for kexp, cexp in pairs:
                        mem = enum_member(kexp, enum_name)
                        if mem is None:
                            state["complete"] = False
                            continue

                        class _Sub(ast.NodeTransformer):
                            def visit_Name(self, n, cexp=cexp):
                                return copy.deepcopy(cexp) if n.id == cname and isinstance(n.ctx, ast.Load) else n
                        r0 = ast.Return(value=_Sub().visit(copy.deepcopy(ib[0].value)))
                        ast.copy_location(r0, ib[0])
                        ast.fix_missing_locations(r0)
                        arms.setdefault(mem, r0)
                    continue
                state["complete"] = False
                return False
            if isinstance(s, ast.Raise):
                arms.setdefault("<default>", s)
                return True
            if isinstance(s, ast.Return):
                v = sc.resolve(s.value) if s.value is not None else None
                # TABLE[t](args) / TABLE[t]
                call_args = None
                sub = v
                if isinstance(v, ast.Call) and isinstance(v.func, ast.Subscript):
                    sub, call_args = v.func, v
                if isinstance(sub, ast.Subscript) and txt(sub.slice) in (tparam, tparam + ".value"):
                    d = table_of(sub.value)
                    if d is not None and all(k is not None for k in d.keys):
                        for k, val in zip(d.keys, d.values):
                            mem = enum_member(k, enum_name)
                            if mem is None:
                                state["complete"] = False
                                continue
                            rv = val if call_args is None else ast.Call(func=val, args=call_args.args, keywords=call_args.keywords)
                            r0 = ast.Return(value=rv)
                            ast.copy_location(r0, s)
                            ast.fix_missing_locations(r0)
                            arms.setdefault(mem, r0)
                        return True
                arms.setdefault("<default>", s)
                if v is not None and tparam in astx.names_in(v):
                    state["complete"] = False   # a default that still looks at the type: not understood
                return True
            if isinstance(s, (ast.Assign, ast.AnnAssign)) and not (tparam in {x.id for t in (s.targets if isinstance(s, ast.Assign) else [s.target]) for x in ast.walk(t) if isinstance(x, ast.Name)}):
                continue  # a local definition (resolved through Scope where used)
            state["complete"] = False
            return False
        return False

    walk(fn.body)
    return arms, state["complete"]


# ----------------------------------------------------------------------------- path conditions
def _always_jumps(stmts) -> bool:
    if not stmts:
        return False
    last = stmts[-1]
    if isinstance(last, (ast.Return, ast.Continue, ast.Break, ast.Raise)):
        return True
    if isinstance(last, ast.If) and last.orelse:
        return _always_jumps(last.body) and _always_jumps(last.orelse)
    return False


def _contains_jump(s) -> bool:
    for x in ast.walk(s):
        if isinstance(x, (ast.Return, ast.Continue, ast.Break, ast.Raise)):
            return True
    return False


def _leave_condition(stmts):
    """When does control leave the enclosing block from inside `stmts` (by continue / break / return / raise)?
    Returns False (never), True (always), an expression (exactly when it is true) or None (not expressible).
    Only the last statement may jump; `if` nests are followed: `if a: if b: continue` leaves when `a and b`."""
    if not stmts:
        return False
    if any(_contains_jump(s) for s in stmts[:-1]):
        return None
    last = stmts[-1]
    if isinstance(last, (ast.Return, ast.Continue, ast.Break, ast.Raise)):
        return True
    if not _contains_jump(last):
        return False
    if isinstance(last, ast.If):
        b, e = _leave_condition(last.body), _leave_condition(last.orelse)
        if b is None or e is None:
            return None
        parts = []
        for cond, branch_test in ((b, last.test), (e, ast.UnaryOp(op=ast.Not(), operand=last.test))):
            if cond is False:
                continue
            if cond is True:
                parts.append(branch_test)
            else:
                parts.append(ast.BoolOp(op=ast.And(), values=[branch_test, cond]))
        if not parts:
            return False
        out = parts[0] if len(parts) == 1 else ast.BoolOp(op=ast.Or(), values=parts)
        ast.copy_location(out, last)
        ast.fix_missing_locations(out)
        out._anchor = last          # for reporting: the statement this synthetic condition comes from
        return out
    return None


class Conds(list):
    """path conditions; `complete` is False when some earlier statement may leave the block in a way that could not
    be expressed (then the ABSENCE of a condition proves nothing)."""
    complete = True


def path_conditions(parents, node: ast.AST, upto: Optional[ast.AST] = None):
    """Conditions under which `node` is reached, relative to the entry of `upto` (a loop: one iteration of its
    body; a function: its body; None: the function root):  [(test_expr, polarity)], outermost first.

    Both spellings of a guard are understood: an enclosing `if T:` (polarity by branch) and a preceding sibling
    statement that leaves the block (continue / break / return / raise) under some condition L - what follows runs
    under `not L`; L is read off nested ifs (`if a: if b: continue` leaves when `a and b`).  Loops between node and
    upto contribute nothing (their guards are relative to their own iterations) but the walk continues through them."""
    out = Conds()
    child = parents.stmt_of(node) if not isinstance(node, ast.stmt) else node
    cur = child
    complete = True
    while cur is not None and cur is not upto:
        par = parents.parent(cur)
        if par is None:
            break
        # which block of par holds cur?
        for field in ("body", "orelse", "finalbody", "handlers"):
            blk = getattr(par, field, None)
            if isinstance(blk, list) and any(cur is s for s in blk):
                idx = [i for i, s in enumerate(blk) if s is cur][0]
                conds_here = []
                for s in blk[:idx]:
                    if not _contains_jump(s):
                        continue
                    if isinstance(s, (ast.For, ast.While)):
                        # break / continue inside belong to that loop; a return / raise inside may leave us
                        if any(isinstance(x, (ast.Return, ast.Raise)) for x in ast.walk(s)):
                            complete = False
                        continue
                    if isinstance(s, ast.If):
                        lc = _leave_condition([s])
                        if lc is None:
                            complete = False
                        elif lc is True or lc is False:
                            pass
                        elif _always_jumps(s.body) and not _contains_jump(ast.Module(body=s.orelse, type_ignores=[])):
                            conds_here.append((s.test, False))
                        elif s.orelse and _always_jumps(s.orelse) and not _contains_jump(ast.Module(body=s.body, type_ignores=[])):
                            conds_here.append((s.test, True))
                        else:
                            conds_here.append((lc, False))
                    elif isinstance(s, (ast.Try, ast.With)):
                        complete = False
                if isinstance(par, ast.If) and field in ("body", "orelse"):
                    conds_here.insert(0, (par.test, field == "body"))
                if isinstance(par, ast.While) and field == "body" and par is not upto:
                    conds_here.insert(0, (par.test, True))
                out[:0] = conds_here
                break
        if isinstance(par, (ast.FunctionDef, ast.AsyncFunctionDef, ast.Lambda)):
            break
        cur = par
    out.complete = complete
    return out


def cond_atoms(test: ast.AST, polarity: bool):
    """Flatten a condition known to be `polarity` into atomic facts [(expr, polarity)]:
    (A and B) true -> A true, B true; (A or B) false -> A false, B false; not X flips."""
    while isinstance(test, ast.UnaryOp) and isinstance(test.op, ast.Not):
        test, polarity = test.operand, not polarity
    if isinstance(test, ast.BoolOp):
        if (isinstance(test.op, ast.And) and polarity) or (isinstance(test.op, ast.Or) and not polarity):
            out = []
            for v in test.values:
                out += cond_atoms(v, polarity)
            return out
    return [(test, polarity)]


def known_facts(parents, node, upto=None):
    """Atomic facts holding when node executes (see path_conditions / cond_atoms)."""
    out = []
    for t, pol in path_conditions(parents, node, upto):
        out += cond_atoms(t, pol)
    return out


def canon_fact(expr: ast.AST, polarity: bool):
    """(text, polarity) with the comparison spelled canonically: `a != b` -> ('a == b', not p) with operands sorted,
    `x not in S` -> ('x in S', not p), `a > b` -> ('b < a', p), `a >= b` -> ('b <= a', p); `not e` flips."""
    while isinstance(expr, ast.UnaryOp) and isinstance(expr.op, ast.Not):
        expr, polarity = expr.operand, not polarity
    if isinstance(expr, ast.Compare) and len(expr.ops) == 1:
        op, l, r = expr.ops[0], txt(expr.left), txt(expr.comparators[0])
        if isinstance(op, (ast.Eq, ast.NotEq)):
            a, b = sorted([l, r])
            return f"{a} == {b}", polarity == isinstance(op, ast.Eq)
        if isinstance(op, (ast.Is, ast.IsNot)):
            a, b = sorted([l, r])
            return f"{a} is {b}", polarity == isinstance(op, ast.Is)
        if isinstance(op, (ast.In, ast.NotIn)):
            return f"{l} in {r}", polarity == isinstance(op, ast.In)
        if isinstance(op, ast.Lt):
            return f"{l} < {r}", polarity
        if isinstance(op, ast.Gt):
            return f"{r} < {l}", polarity
        if isinstance(op, ast.LtE):
            return f"{r} < {l}", not polarity
        if isinstance(op, ast.GtE):
            return f"{l} < {r}", not polarity
    return txt(expr), polarity


def canon_facts(facts):
    return {canon_fact(e, p) for e, p in facts}


def path_term(parents, scope: Scope, node: ast.AST, upto=None, keep=()) -> tuple:
    """Canonical term (tm boolean normal form) of the condition under which `node` runs, relative to the entry of
    `upto` (see path_conditions); every test is resolved through single-definition locals first (except `keep`)."""
    terms = []
    for t, pol in path_conditions(parents, node, upto):
        tt = tm.translate(scope.resolve(t, keep=tuple(keep)))
        terms.append(tt if pol else tm.mk_not(tt))
    if not terms:
        return tm.atom_poly(("boolconst", True))
    return tm.canon(tm.mk_bool("And", tuple(terms)))


def cond_term(src: str) -> tuple:
    return tm.canon(tm.parse(src))


def rename_roles(fn: FuncInfo, mapping: Dict[str, str]) -> bool:
    """Rename locals / parameters of fn IN PLACE (on this Program's private syntax tree) so that the variables playing
    known roles carry the names the rules were written with; the rules then do not depend on what the repository
    calls them.  Returns False (nothing renamed) when a canonical name is already used for something else."""
    mapping = {a: b for a, b in mapping.items() if a != b}
    if not mapping:
        return True
    used = {n.id for n in ast.walk(fn.node) if isinstance(n, ast.Name)} | {a.arg for a in ast.walk(fn.node) if isinstance(a, ast.arg)}
    if any(b in used and b not in mapping for b in mapping.values()):
        return False
    if len(set(mapping.values())) != len(mapping):
        return False
    for n in ast.walk(fn.node):
        if isinstance(n, ast.Name) and n.id in mapping:
            n.id = mapping[n.id]
        elif isinstance(n, ast.arg) and n.arg in mapping:
            n.arg = mapping[n.arg]
    return True


def as_comprehension(scope: Scope, name: str) -> Optional[ast.ListComp]:
    """The list comprehension that the accumulation `name = []; for T in IT: [if C:] name.append(E)` abbreviates
    (synthetic node carrying the original sub-expressions), or None.  Conditions: `name` is bound once to an empty
    list, exactly one statement mutates it - that append, which is the only statement of its (possibly guarded) loop
    body position - and the loop has no break / continue / else."""
    sites = scope.assigns.get(name, [])
    if len(sites) != 1 or scope.n_bindings(name) != 1:
        return None
    v = sites[0].value
    if not ((isinstance(v, ast.List) and not v.elts) or (isinstance(v, ast.Call) and txt(v.func) == "list" and not v.args)):
        return None
    muts = scope.mutated.get(name, [])
    if len(muts) != 1:
        return None
    call = muts[0]
    if not (isinstance(call, ast.Call) and isinstance(call.func, ast.Attribute) and call.func.attr == "append" and len(call.args) == 1):
        return None
    par = scope.parents
    st = par.stmt_of(call)
    if not (isinstance(st, ast.Expr) and st.value is call):
        return None
    loops = par.loops_of(st)
    if not loops or not isinstance(loops[0], ast.For) or loops[0].orelse:
        return None
    lp = loops[0]
    if any(isinstance(x, (ast.Break, ast.Continue, ast.Return)) for b in lp.body for x in ast.walk(b)):
        return None
    # the loop body is exactly the (nested-if guarded) append
    ifs = []
    body = lp.body
    while True:
        if len(body) != 1:
            return None
        s = body[0]
        if s is st:
            break
        if isinstance(s, ast.If) and not s.orelse:
            ifs.append(s.test)
            body = s.body
            continue
        return None
    # the definition must precede the loop in the same block or an enclosing one
    if sites[0].lineno > lp.lineno:
        return None
    comp = ast.ListComp(elt=call.args[0], generators=[ast.comprehension(target=lp.target, iter=lp.iter, ifs=ifs, is_async=0)])
    return ast.copy_location(comp, lp)


def term_at(parents, scope: Scope, expr: ast.AST, at_stmt: ast.stmt, keep=()) -> tuple:
    """Term of `expr` as evaluated just before `at_stmt`: like term_of, but locals that are bound on several paths
    in the statements preceding at_stmt IN ITS OWN BLOCK (e.g. `if c: n = 0 else: n = a - b`) are replaced by the
    summarised value of that block prefix (an if-expression), instead of being left as uninterpreted symbols."""
    from . import conform as _cf
    par = parents.parent(at_stmt)
    blk = None
    for field in ("body", "orelse", "finalbody"):
        b = getattr(par, field, None)
        if isinstance(b, list) and any(at_stmt is s for s in b):
            blk = b
    e = scope.resolve(expr, keep=tuple(keep))
    if blk is None:
        return tm.translate(e)
    idx = [i for i, s in enumerate(blk) if s is at_stmt][0]
    prefix = blk[:idx]
    bound_in_prefix = {n.id for s in prefix for n in ast.walk(s) if isinstance(n, ast.Name) and isinstance(n.ctx, ast.Store)}
    need = [n for n in sorted(astx.names_in(e)) if n in bound_in_prefix and n not in keep and scope.n_bindings(n) > 1]
    if not need:
        return tm.translate(e)
    free = sorted({n.id for s in prefix for n in ast.walk(s) if isinstance(n, ast.Name) and isinstance(n.ctx, ast.Load)} - bound_in_prefix - {"self"})
    env = {}
    for nm in need:
        t = _cf.snippet_term(prefix, nm, ["self"] + free) if any(isinstance(n, ast.Name) and n.id == "self" for s in prefix for n in ast.walk(s)) else _cf.snippet_term(prefix, nm, free)
        names = free
        for i, fn_ in enumerate(names):
            t = tm.subst(t, f"${i}", tm.sym(fn_))
        # attributes of self: the same spelling as a plain translation uses (dotted symbol)
        t = tm._map_any(t, lambda a_: tm.sym("self." + a_[2]) if a_[0] == "attr" and a_[1] == tm.sym("self") and isinstance(a_[2], str) else None)
        env[nm] = t
    return tm.canon(tm.Translator(env).tr(e))
