"""Term normaliser: Python arithmetic expressions -> canonical polynomial normal form.

A term is a polynomial with rational coefficients over *atoms*; exponents are terms themselves, so
`pow(p, n - k) * pow(1 - p, k)` has a normal form.  Atoms: free symbols (names, attribute paths),
opaque calls with normalised arguments, subscripts with normalised index, wrapped sums (a sum used as
the base of a power), reductions (sum / product over a domain with a bound variable), and `opaque`
(a construct the translation does not know - it makes any comparison *undecided*, never violated).

Equality is structural equality of normal forms: sound by the commutative-ring axioms and the rewrite
rules listed in `Translator`.  Nothing here evaluates a term at a point or asks a solver.
"""
from __future__ import annotations

import ast
from fractions import Fraction
from typing import Dict, List, Optional, Tuple

from . import astx

# A poly is a tuple ('P', ((mono, coeff), ...)) with monos sorted; a mono is a tuple of (atom, exp-poly)
# sorted; atoms are tuples whose first element names the kind.


def txt_(n) -> str:
    return astx.txt(n)


def _key(x) -> str:
    return repr(x)


def P(d: Dict[tuple, Fraction]) -> tuple:
    items = [(m, c) for m, c in d.items() if c != 0]
    items.sort(key=lambda mc: _key(mc[0]))
    return ("P", tuple(items))


def const(c) -> tuple:
    c = Fraction(c)
    return P({(): c})


ZERO, ONE = const(0), const(1)


def atom_poly(a: tuple) -> tuple:
    return P({((a, ONE),): Fraction(1)})


def sym(name: str) -> tuple:
    return atom_poly(("sym", name))


def as_dict(p: tuple) -> Dict[tuple, Fraction]:
    return dict(p[1])


def is_const(p: tuple) -> Optional[Fraction]:
    items = p[1]
    if not items:
        return Fraction(0)
    if len(items) == 1 and items[0][0] == ():
        return items[0][1]
    return None


def add(a: tuple, b: tuple) -> tuple:
    d = as_dict(a)
    for m, c in b[1]:
        d[m] = d.get(m, Fraction(0)) + c
    return P(d)


def neg(a: tuple) -> tuple:
    return P({m: -c for m, c in a[1]})


def sub(a, b):
    return add(a, neg(b))


def _mono_mul(m1: tuple, m2: tuple) -> tuple:
    d: Dict[tuple, tuple] = {}
    for at, e in m1 + m2:
        d[at] = add(d[at], e) if at in d else e
    items = [(at, e) for at, e in d.items() if is_const(e) != 0]
    items.sort(key=lambda ae: _key(ae[0]))
    return tuple(items)


def mul(a: tuple, b: tuple) -> tuple:
    d: Dict[tuple, Fraction] = {}
    for m1, c1 in a[1]:
        for m2, c2 in b[1]:
            m = _mono_mul(m1, m2)
            d[m] = d.get(m, Fraction(0)) + c1 * c2
    return P(d)


def single_mono(p: tuple) -> Optional[Tuple[tuple, Fraction]]:
    if len(p[1]) == 1:
        return p[1][0]
    return None


def power(base: tuple, e: tuple) -> tuple:
    ce = is_const(e)
    if ce is not None:
        if ce == 0:
            return ONE
        if ce == 1:
            return base
    cb = is_const(base)
    if cb is not None and ce is not None and ce.denominator == 1:
        if cb == 0 and ce < 0:
            return atom_poly(("opaque", "division by zero"))
        return const(cb ** int(ce))
    sm = single_mono(base)
    if sm is not None:
        m, c = sm
        # (c * prod f_i^x_i)^e = c^e * prod f_i^(x_i*e)
        if ce is not None and ce.denominator == 1:
            if c == 0:
                return atom_poly(("opaque", "division by zero")) if ce < 0 else ZERO
            newm = tuple(sorted(((at, mul(x, e)) for at, x in m), key=lambda ae: _key(ae[0])))
            newm = tuple((at, x) for at, x in newm if is_const(x) != 0)
            return P({newm: c ** int(ce)})
        if c == 1:
            newm = tuple((at, mul(x, e)) for at, x in m)
            newm = tuple((at, x) for at, x in newm if is_const(x) != 0)
            return P({tuple(sorted(newm, key=lambda ae: _key(ae[0]))): Fraction(1)})
        if c > 0:
            newm = [(at, mul(x, e)) for at, x in m] + [(("num", c), e)]
            newm = tuple(sorted(((at, x) for at, x in newm if is_const(x) != 0), key=lambda ae: _key(ae[0])))
            return P({newm: Fraction(1)})
    if ce is not None and ce.denominator == 1 and 0 < ce <= 6:
        r = ONE
        for _ in range(int(ce)):
            r = mul(r, base)
        return r
    return P({((("wrap", base), e),): Fraction(1)})


def div(a: tuple, b: tuple) -> tuple:
    return mul(a, power(b, const(-1)))


# ----------------------------------------------------------------------------- sequences
SEQ_KINDS = {"tuple", "list", "seq", "upd", "concat", "repeat"}


def single_atom(p: tuple):
    """The atom a if p == a (coefficient 1, exponent 1), else None."""
    sm = single_mono(p)
    if sm and sm[1] == 1 and len(sm[0]) == 1 and is_const(sm[0][0][1]) == 1:
        return sm[0][0][0]
    return None


def is_seq_kind(p: tuple) -> bool:
    a = single_atom(p)
    if a is None:
        return False
    if a[0] in SEQ_KINDS:
        return True
    if a[0] == "call" and a[1] in ("tuple", "list", "sorted"):
        return True
    if a[0] == "sub":
        b = single_atom(a[1])
        if b is not None and b[0] == "seq" and is_seq_kind(b[1]):
            return True
    return False


def max_level(x) -> int:
    m = -1
    for leaf in leaves(x):
        if leaf.startswith("#") and leaf[1:].split(".")[0].isdigit():
            m = max(m, int(leaf[1:].split(".")[0]))
    return m


def index_form(d, bv: tuple):
    """(domain, element) with sequence iteration rewritten to index iteration."""
    if isinstance(d, tuple) and d and d[0] == "iter":
        T = d[1]
        if isinstance(T, tuple) and T and T[0] == "dom":
            return index_form(T[1], bv)      # iterating [v for v in D] / a range bound to a name iterates D
        return ("range", ZERO, length_of(T)), subscript(T, bv)
    if isinstance(d, tuple) and d and d[0] == "dom":
        return index_form(d[1], bv)
    if isinstance(d, tuple) and d and d[0] in ("items", "values") and len(d) == 2:
        T = d[1]
        a = single_atom(T)
        if a is not None and a[0] == "dictacc":
            # a table built in this function: {K(v): V(v) for v in D} - its items are (K(v), V(v)), v in D
            if len(a) == 2 and len(a[1]) == 1 and a[1][0][0] == "set" and len(a[1][0][3]) == 1 and not a[1][0][3][0][2]:
                kind, key, val, ctx = a[1][0]
                d0, l0 = ctx[0][0], ctx[0][1]
                dom_k, elem_k = index_form(("iter", norm_iter(atom_poly(("seq", key, d0, l0)))), bv)
                dom_v, elem_v = index_form(("iter", norm_iter(atom_poly(("seq", val, d0, l0)))), bv)
                if dom_k == dom_v:
                    return dom_k, (atom_poly(("tuple", (elem_k, elem_v))) if d[0] == "items" else elem_v)
            return d, bv
        Tk = norm_iter(T)
        if isinstance(Tk, tuple) and Tk and Tk[0] == "dom":
            return d, bv
        key = subscript(Tk, bv)
        val = subscript(T, key)
        return ("range", ZERO, length_of(Tk)), (atom_poly(("tuple", (key, val))) if d[0] == "items" else val)
    if isinstance(d, tuple) and d and d[0] == "zip" and len(d) >= 3:
        # zip(A, B, ..) of equally long sequences: index loop over the first with element (A[i], B[i], ..)
        parts = [index_form(x, bv) for x in d[1:]]
        if all(isinstance(dm, tuple) and dm and dm[0] == "range" and dm[1] == ZERO for dm, _ in parts):
            return parts[0][0], atom_poly(("tuple", tuple(e for _, e in parts)))
        return d, bv
    if isinstance(d, tuple) and d and d[0] == "enumerate":
        inner, elem = index_form(d[1], bv)
        if isinstance(inner, tuple) and inner[0] == "range" and inner[1] == ZERO:
            return inner, mk_tuple((add(bv, d[2]), elem))
        return d, bv
    return d, bv


def length_of(t: tuple) -> tuple:
    """len(t): literal displays have a constant length, an unfiltered comprehension over range(lo, hi) has
    hi - lo elements, list()/tuple()/.keys() wrappers do not change the length."""
    t = norm_iter(t)
    if isinstance(t, tuple) and t and t[0] == "dom":
        d = t[1]
        if isinstance(d, tuple) and d[0] == "range":
            return sub(d[2], d[1])
        return atom_poly(("call", "len", (t,)))
    a = single_atom(t)
    if a is not None and a[0] in ("list", "tuple"):
        return const(len(a[1]))
    if a is not None and a[0] == "seq" and isinstance(a[2], tuple) and a[2][0] == "range":
        return sub(a[2][2], a[2][1])
    if a is not None and a[0] == "sub" and len(a[2]) == 1 and isinstance(a[2][0], tuple) and a[2][0] and a[2][0][0] == "slice" \
            and a[2][0][1] == "None" and a[2][0][3] == "None" and isinstance(a[2][0][2], tuple):
        # len(x[:u]) = u when 0 <= u <= len(x): u = len(x) // c with c >= 1
        u = single_atom(a[2][0][2])
        if u is not None and u[0] == "floordiv" and u[1] == length_of(a[1]) and is_const(u[2]) is not None and is_const(u[2]) >= 1:
            return a[2][0][2]
    return atom_poly(("call", "len", (t,)))


def norm_iter(t: tuple) -> tuple:
    """Iteration domain of a value: list(x)/tuple(x) iterate x, d.keys() iterates d."""
    a = single_atom(t)
    while a is not None and a[0] == "call" and ((a[1] in ("list", "tuple", "iter") and len(a[2]) == 1) or (a[1] == ".keys" and len(a[2]) == 1)):
        t = a[2][0]
        a = single_atom(t)
    if a is not None and a[0] == "dictacc" and len(a) == 2 and len(a[1]) == 1 and a[1][0][0] == "set" and len(a[1][0][3]) == 1 and not a[1][0][3][0][2]:
        # iterating {K(v): .. for v in D} visits the keys K(v), v in D (distinct keys: every such table in the
        # package is keyed by the elements of a product / a support list)
        kind, key, val, ctx = a[1][0]
        return norm_iter(atom_poly(("seq", key, ctx[0][0], ctx[0][1])))
    if a is not None and a[0] == "seq" and single_atom(a[1]) == ("sym", f"#{a[3]}"):
        return ("dom", a[2])  # [v for v in D] iterates D
    return t


def mk_tuple(elts: tuple) -> tuple:
    """Tuple display with the eta rule (b[0], b[1]) = b for a bound variable b that is unpacked as a pair
    (loop variables over edges; Python's own 2-target unpacking guarantees the length)."""
    if len(elts) == 2:
        a0, a1 = single_atom(elts[0]), single_atom(elts[1])
        if a0 is not None and a1 is not None and a0[0] == "sub" and a1[0] == "sub" and a0[1] == a1[1] \
                and a0[2] == (const(0),) and a1[2] == (const(1),):
            b = single_atom(a0[1])
            if b is not None and b[0] == "sym" and (b[1].startswith("#") or b[1].startswith("@")):
                return a0[1]
            if b is not None and b[0] == "sub" and len(b[2]) == 1:
                ib = single_atom(b[2][0])
                if ib is not None and ib[0] == "sym" and (ib[1].startswith("#") or ib[1].startswith("@")):
                    return a0[1]  # the loop element X[#k], unpacked as a pair
    return atom_poly(("tuple", elts))


def concat(a: tuple, b: tuple) -> tuple:
    parts = []
    for x in (a, b):
        ax = single_atom(x)
        if ax is not None and ax[0] == "concat":
            parts.extend(ax[1])
        else:
            parts.append(x)
    return atom_poly(("concat", tuple(parts)))


def upd(base: tuple, idx: tuple, val: tuple) -> tuple:
    """Sequence `base` with element idx replaced by val (models t = list(x); t[i] = v)."""
    a = single_atom(base)
    if a is not None and a[0] == "upd":
        b0, updates = a[1], dict(a[2])
    else:
        b0, updates = _strip_seq_conv(base), {}
    try:
        if idx == neg(length_of(b0)):
            idx = ZERO          # x[-len(x)] is x[0]
    except Exception:
        pass
    updates[idx] = val
    return atom_poly(("upd", b0, tuple(sorted(updates.items(), key=lambda kv: _key(kv[0])))))


def _strip_seq_conv(p: tuple) -> tuple:
    """list(x) / tuple(x) hold the same elements as x."""
    a = single_atom(p)
    while a is not None and a[0] == "call" and a[1] in ("list", "tuple") and len(a[2]) == 1:
        p = a[2][0]
        a = single_atom(p)
    return p


def subscript(base: tuple, idx: tuple) -> tuple:
    a = single_atom(base)
    if a is not None and a[0] == "call" and a[1] in ("list", "tuple") and len(a[2]) == 1:
        return subscript(a[2][0], idx)
    if a is not None and a[0] == "upd":
        for k, v in a[2]:
            if k == idx:
                return v
        ci = is_const(idx)
        if ci is not None and all(is_const(k) is not None for k, _ in a[2]):
            return subscript(a[1], idx)
        if all(_provably_distinct(k, idx) for k, _ in a[2]):
            return subscript(a[1], idx)
    if a is not None and a[0] == "seq" and isinstance(a[2], tuple) and a[2][0] == "range":
        # element idx of [f(v) for v in range(lo, hi)] is f(lo + idx)   (beta reduction; in-range index assumed)
        return subst(a[1], f"#{a[3]}", add(a[2][1], idx))
    if a is not None and a[0] in ("tuple", "list"):
        ci = is_const(idx)
        if ci is not None and ci.denominator == 1 and -len(a[1]) <= ci < len(a[1]):
            return a[1][int(ci)]
        if a[0] == "list":
            base = atom_poly(("tuple", a[1]))      # [a, b, c][i] is (a, b, c)[i]
    return atom_poly(("sub", base, (idx,)))


def _provably_distinct(a: tuple, b: tuple) -> bool:
    d = is_const(sub(a, b))
    return d is not None and d != 0


# ----------------------------------------------------------------------------- substitution / queries
def subst(p, name: str, repl: tuple):
    """Replace the symbol `name` by poly repl everywhere (including inside atoms and exponents)."""
    return _map(p, lambda a: repl if a == ("sym", name) else None)


def _map(p: tuple, f) -> tuple:
    out = ZERO
    for m, c in p[1]:
        t = const(c)
        for at, e in m:
            e2 = _map(e, f)
            r = f(at)
            if r is None:
                r = atom_poly(_map_atom(at, f))
            t = mul(t, power(r, e2))
        out = add(out, t)
    return out


def _map_atom(at: tuple, f) -> tuple:
    def rec(x):
        if isinstance(x, tuple) and x and x[0] == "P":
            return _map(x, f)
        if isinstance(x, tuple):
            return tuple(rec(y) for y in x)
        return x
    return (at[0],) + tuple(rec(x) for x in at[1:])


def leaves(p) -> set:
    """Leaf vocabulary: symbol names and opaque call names."""
    out = set()

    def rec(x):
        if isinstance(x, tuple):
            if x and x[0] == "sym":
                out.add(x[1])
                return
            if x and x[0] == "call":
                out.add(x[1] + "()")
            if x and x[0] == "opaque":
                out.add("?opaque")
            for y in x:
                rec(y)
    rec(p)
    return out


def has_opaque(p) -> bool:
    return "?opaque" in leaves(p)


def degree_in(p: tuple, name: str) -> Optional[int]:
    """Degree of p as a polynomial in symbol `name`, or None if name occurs inside an atom/exponent."""
    deg = 0
    target = ("sym", name)
    for m, c in p[1]:
        for at, e in m:
            if at == target:
                ce = is_const(e)
                if ce is None or ce.denominator != 1 or ce < 0:
                    return None
                deg = max(deg, int(ce))
            else:
                if name in leaves(at):
                    return None
            if name in leaves(e):
                return None
    return deg


def coeff_in(p: tuple, name: str, k: int) -> tuple:
    """Coefficient (a poly free of `name`) of name^k."""
    target = ("sym", name)
    d: Dict[tuple, Fraction] = {}
    for m, c in p[1]:
        kk = 0
        rest = []
        for at, e in m:
            if at == target:
                kk = int(is_const(e))
            else:
                rest.append((at, e))
        if kk == k:
            mm = tuple(rest)
            d[mm] = d.get(mm, Fraction(0)) + c
    return P(d)


# ----------------------------------------------------------------------------- pretty printing
def show(p) -> str:
    if not (isinstance(p, tuple) and p and p[0] == "P"):
        return _show_atom(p)
    if not p[1]:
        return "0"
    parts = []
    for m, c in p[1]:
        fs = []
        for at, e in m:
            s = _show_atom(at)
            ce = is_const(e)
            if ce == 1:
                fs.append(s)
            else:
                fs.append(f"{s}^({show(e)})")
        body = "*".join(fs)
        if not body:
            parts.append(str(c))
        elif c == 1:
            parts.append(body)
        elif c == -1:
            parts.append("-" + body)
        else:
            parts.append(f"{c}*{body}")
    return " + ".join(parts).replace("+ -", "- ")


def _show_atom(at) -> str:
    if not isinstance(at, tuple):
        return str(at)
    k = at[0]
    if k == "sym":
        return at[1]
    if k == "num":
        return str(at[1])
    if k == "wrap":
        return "(" + show(at[1]) + ")"
    if k == "call":
        return f"{at[1]}(" + ", ".join(show(x) for x in at[2]) + ")"
    if k == "sub":
        return f"{show(at[1])}[" + ", ".join(show(x) for x in at[2]) + "]"
    if k in ("sum", "prod", "seq"):
        return f"{k}<{show(at[1])} | {_show_dom(at[2])}>"
    if k == "dictacc":
        return "dict{" + "; ".join(f"{e[0]} [{show(e[1])}] {show(e[2])} for " + ", ".join(_show_dom(c[0]) + ("" if not c[2] else " if " + " and ".join(show(q) for q in c[2])) for c in e[3]) for e in at[1]) + "}"
    if k == "opaque":
        return f"?{at[1]}?"
    return k + "(" + ", ".join(_show_dom(x) if isinstance(x, tuple) else str(x) for x in at[1:]) + ")"


def _show_dom(d) -> str:
    if isinstance(d, tuple) and d and d[0] == "range":
        return f"range({show(d[1])},{show(d[2])})"
    if isinstance(d, tuple) and d and d[0] == "P":
        return show(d)
    if isinstance(d, tuple) and d and isinstance(d[0], str):
        return d[0] + "(" + ", ".join(_show_dom(x) for x in d[1:]) + ")"
    if isinstance(d, tuple):
        return "(" + ", ".join(_show_dom(x) for x in d) + ")"
    return str(d)


# ----------------------------------------------------------------------------- translation
EXP_NAMES = {"np.exp", "numpy.exp", "math.exp", "exp"}
POW_NAMES = {"pow", "math.pow", "np.power", "numpy.power"}
IDENT_CALLS = {"float", "np.float64", "numpy.float64"}
FACT_NAMES = {"factorial", "math.factorial", "np.math.factorial", "scipy.special.factorial"}
E_ATOM = atom_poly(("sym", "e"))


class Translator:
    """Python expression AST -> term.

    env maps local names to terms (bound variables, substituted locals); names not in env become
    free symbols.  `call_hook(name, node, tr)` lets a check supply meaning for repo-specific calls
    (e.g. inline a nested helper); it returns a term or None.
    Rewrites applied: ring axioms; float(x)=x; x+0.0=x; exp(x)=e^x; pow/**; a/b=a*b^-1;
    Pow(a,x)*Pow(a,y)=Pow(a,x+y); (a^x)^y=a^(x*y) for monomial a; int(q/2)=q/2 and q//2=q/2 when q has
    two consecutive integer factors; sum()/comprehension -> sum-reduction atom with de Bruijn bound
    variable; affine sum over range closed by Faulhaber.
    """

    def __init__(self, env: Optional[Dict[str, tuple]] = None, call_hook=None, depth: int = 0):
        self.env = dict(env or {})
        self.call_hook = call_hook
        self.depth = depth

    def child(self, extra: Dict[str, tuple]) -> "Translator":
        t = Translator(self.env, self.call_hook, self.depth + 1)
        t.env.update(extra)
        t._base_level = getattr(self, "_base_level", 0)
        return t

    def opaque(self, node) -> tuple:
        return atom_poly(("opaque", astx.txt(node)[:80] if isinstance(node, ast.AST) else str(node)))

    def tr(self, n: ast.AST) -> tuple:
        m = getattr(self, "t_" + type(n).__name__, None)
        if m is None:
            return self.opaque(n)
        return m(n)

    # --- leaves
    def t_Constant(self, n):
        v = n.value
        if isinstance(v, bool):
            return const(int(v))
        if isinstance(v, int):
            return const(v)
        if isinstance(v, float):
            return const(Fraction(v).limit_denominator(10**12) if v == v and abs(v) != float("inf") else 0)
        if isinstance(v, str):
            return atom_poly(("str", v))
        return self.opaque(n)

    def t_Name(self, n):
        if n.id in self.env:
            return self.env[n.id]
        return sym(n.id)

    def t_Attribute(self, n):
        p = astx.attr_path(n)
        if p is not None and p in self.env:
            return self.env[p]  # attribute tracked as a pseudo-variable (self._jdd)
        if p is not None:
            root = p.split(".")[0]
            if root in self.env:
                return atom_poly(("attr", self.env[root], ".".join(p.split(".")[1:])))
            return sym(p)
        return atom_poly(("attr", self.tr(n.value), n.attr))

    def _key_term(self, e):
        """A KEY (subscript index / left operand of `in`) written `a + b` with no numeric constant in it is, in this
        code base, the concatenation of two tuples - ORDERED - not a commutative sum (`ejk[left + right]` vs
        `ejk[right + left]` are the row and the column convention).  Without this `+` would be read as arithmetic."""
        if isinstance(e, ast.BinOp) and isinstance(e.op, ast.Add) and not any(isinstance(x, ast.Constant) and isinstance(x.value, (int, float)) for x in ast.walk(e)):
            return concat(self._key_term(e.left), self._key_term(e.right))
        return self.tr(e)

    def t_Subscript(self, n):
        if isinstance(n.value, ast.Attribute) and n.value.attr == "degree" and not isinstance(n.slice, (ast.Slice, ast.Tuple)):
            # G.degree[v] is G.degree(v) (DegreeView.__call__ on a single node returns self[node])
            return self.tr(ast.copy_location(ast.Call(func=n.value, args=[n.slice], keywords=[]), n))
        base = self.tr(n.value)
        idx = n.slice
        if not isinstance(idx, ast.Slice):
            return subscript(base, self._key_term(idx))  # x[a, b] is x[(a, b)]
        if isinstance(idx, ast.Tuple):
            ix = tuple(self.tr(e) for e in idx.elts)
        elif isinstance(idx, ast.Slice):
            ix = (("slice", self.tr(idx.lower) if idx.lower else "None", self.tr(idx.upper) if idx.upper else "None",
                   self.tr(idx.step) if idx.step else "None"),)
        else:
            ix = (self.tr(idx),)
        ba = single_atom(base)
        if isinstance(idx, ast.Slice) and idx.lower is None and idx.upper is None and idx.step is None:
            return base         # x[:] holds the elements of x, in order
        if isinstance(idx, ast.Slice) and ba is not None and ba[0] in ("tuple", "list") and idx.lower is None and idx.upper is None \
                and isinstance(idx.step, ast.UnaryOp) and isinstance(idx.step.op, ast.USub) and isinstance(idx.step.operand, ast.Constant) and idx.step.operand.value == 1:
            return atom_poly((ba[0], tuple(reversed(ba[1]))))      # (a, b)[::-1] = (b, a)
        if isinstance(idx, ast.Slice) and ba is not None and ba[0] == "call" and ba[1] in ("list", "tuple") and len(ba[2]) == 1:
            # a slice of list(x) / tuple(x) is the list / tuple of the slice of x
            return atom_poly(("call", ba[1], (atom_poly(("sub", ba[2][0], ix)),)))
        return atom_poly(("sub", base, ix))

    def t_Tuple(self, n):
        return mk_tuple(tuple(self.tr(e) for e in n.elts))

    def t_List(self, n):
        return atom_poly(("list", tuple(self.tr(e) for e in n.elts)))

    # --- arithmetic
    def t_UnaryOp(self, n):
        v = self.tr(n.operand)
        if isinstance(n.op, ast.USub):
            return neg(v)
        if isinstance(n.op, ast.UAdd):
            return v
        if isinstance(n.op, ast.Not):
            return mk_not(v)
        return self.opaque(n)

    def t_BinOp(self, n):
        a, b = self.tr(n.left), self.tr(n.right)
        op = n.op
        if isinstance(op, ast.Add):
            if is_seq_kind(a) or is_seq_kind(b):
                return concat(a, b)
            return add(a, b)
        if isinstance(op, ast.Mult) and (is_seq_kind(a) or is_seq_kind(b)):
            sq, k = (a, b) if is_seq_kind(a) else (b, a)
            return atom_poly(("repeat", sq, k))
        if isinstance(op, ast.Sub):
            return sub(a, b)
        if isinstance(op, ast.Mult):
            return mul(a, b)
        if isinstance(op, ast.Div):
            return div(a, b)
        if isinstance(op, ast.Pow):
            return power(a, b)
        if isinstance(op, ast.FloorDiv):
            cb = is_const(b)
            if cb == 2 and _has_consecutive_factors(a):
                return div(a, b)
            ca = is_const(a)
            if ca is not None and cb is not None and cb != 0:
                return const(ca // cb)
            return atom_poly(("floordiv", a, b))
        if isinstance(op, ast.Mod):
            return atom_poly(("mod", a, b))
        return self.opaque(n)

    def t_Compare(self, n):
        if len(n.ops) == 1:
            left = self._key_term(n.left) if isinstance(n.ops[0], (ast.In, ast.NotIn)) else self.tr(n.left)
            return mk_cmp(type(n.ops[0]).__name__, left, self.tr(n.comparators[0]))
        # a OP b OP c  =  (a OP b) and (b OP c)   (the middle operand is a pure term here)
        terms = [self.tr(n.left)] + [self.tr(c) for c in n.comparators]
        return mk_bool("And", tuple(mk_cmp(type(o).__name__, terms[i], terms[i + 1]) for i, o in enumerate(n.ops)))

    def t_BoolOp(self, n):
        # `x or []` / `x or {}` is a VALUE default (x if truthy, else a fresh container), not a truth value: whether it equals
        # `d.get(k, [])` depends on what the table holds - not modelled
        if isinstance(n.op, ast.Or) and any((isinstance(v, (ast.List, ast.Dict, ast.Tuple, ast.Set)) and not getattr(v, "elts", getattr(v, "keys", None)))
                                            or (isinstance(v, ast.Call) and astx.txt(v.func) in ("list", "dict", "set", "tuple") and not v.args and not v.keywords) for v in n.values[1:]):
            return atom_poly(("opaque", f"{astx.txt(n)[:50]} (value default)"))
        return mk_bool(type(n.op).__name__, tuple(self.tr(v) for v in n.values))

    def t_IfExp(self, n):
        return mk_ifexp(self.tr(n.test), self.tr(n.body), self.tr(n.orelse))

    # --- calls
    def t_Call(self, n):
        name = astx.txt(n.func)
        if self.call_hook is not None:
            r = self.call_hook(name, n, self)
            if r is not None:
                return r
        args = n.args
        if any(isinstance(a, ast.Starred) for a in args):
            return atom_poly(("call", name, tuple(self.tr(a.value if isinstance(a, ast.Starred) else a) for a in args) + (("star",),)))
        kw = tuple(sorted((k.arg or "**", self.tr(k.value)) for k in n.keywords))
        if name in EXP_NAMES and len(args) == 1 and not kw:
            return power(E_ATOM, self.tr(args[0]))
        if name in POW_NAMES and len(args) == 2 and not kw:
            return power(self.tr(args[0]), self.tr(args[1]))
        if name in IDENT_CALLS and len(args) == 1 and not kw:
            return self.tr(args[0])
        if name == "sorted" and len(args) == 1 and not kw:
            # itertools.product of ascending pools (ranges) is already emitted in ascending lexicographic order, all tuples
            # distinct: sorting it changes nothing
            v = self.tr(args[0])
            a = single_atom(v)
            if a is not None and a[0] == "call" and a[1] in ("product", "itertools.product") and len(a[2]) == 2 and a[2][1] == ("star",):
                pools = single_atom(a[2][0])
                if pools is not None and pools[0] == "seq":
                    pool = single_atom(pools[1])
                    while pool is not None and pool[0] == "call" and pool[1] in ("list", "tuple") and len(pool[2]) == 1:
                        pool = single_atom(pool[2][0])
                    if pool is not None and pool[0] == "seq" and isinstance(pool[2], tuple) and pool[2][0] == "range" and single_atom(pool[1]) == ("sym", f"#{pool[3]}"):
                        return atom_poly(("call", "list", (v,)))
        if name in FACT_NAMES and len(args) == 1 and not kw:
            return atom_poly(("call", "factorial", (self.tr(args[0]),)))
        if name in ("comb", "math.comb", "scipy.special.comb") and len(args) == 2 and not kw and is_const(self.tr(args[1])) == 2:
            n_ = self.tr(args[0])
            return div(mul(n_, sub(n_, ONE)), const(2))        # C(n, 2) = n (n - 1) / 2
        if name in ("prod", "math.prod") and len(args) == 1 and not kw and isinstance(args[0], (ast.GeneratorExp, ast.ListComp)):
            pass        # handled with the reductions below when present
        if name == "int" and len(args) == 1 and not kw:
            v = self.tr(args[0])
            c = is_const(v)
            if c is not None:
                return const(int(c))
            if _is_half_of_consecutive(v):
                return v
            if _is_integer_valued(v):
                return v
            return atom_poly(("call", "int", (v,)))
        if name == "sum" and len(args) in (1, 2) and not kw:
            r = self.reduction("sum", args[0])
            if r is not None:
                return add(r, self.tr(args[1])) if len(args) == 2 else r
        if name in ("math.prod", "prod", "np.prod", "numpy.prod") and len(args) == 1 and not kw:
            r = self.reduction("prod", args[0])
            if r is not None:
                return r
        if name in ("math.prod", "prod") and len(args) == 1 and len(kw) == 1 and kw[0][0] == "start":
            r = self.reduction("prod", args[0])     # math.prod(xs, start=s) = s * prod(xs)
            if r is not None:
                return mul(kw[0][1], r)
        if name == "len" and len(args) == 1 and not kw:
            a0 = args[0]
            if isinstance(a0, ast.Attribute) and a0.attr in ("nodes", "edges"):
                a0 = ast.copy_location(ast.Call(func=a0, args=[], keywords=[]), a0)   # len(G.edges) = len(G.edges())
            return length_of(self.tr(a0))
        if isinstance(n.func, ast.Attribute) and not args and not kw and n.func.attr in ("number_of_edges", "number_of_nodes", "order", "size"):
            # networkx synonyms: G.number_of_edges() = G.size() = len(G.edges()), G.number_of_nodes() = G.order() = len(G.nodes())
            view = "edges" if n.func.attr in ("number_of_edges", "size") else "nodes"
            inner = ast.Call(func=ast.Attribute(value=n.func.value, attr=view, ctx=ast.Load()), args=[], keywords=[])
            return length_of(self.tr(ast.fix_missing_locations(ast.copy_location(inner, n))))
        if name in ("abs", "np.abs", "numpy.abs", "math.fabs", "np.fabs") and len(args) == 1:
            return atom_poly(("call", "abs", (self.tr(args[0]),)))
        if name in ("list", "tuple") and len(args) == 1 and not kw:
            if isinstance(args[0], ast.Call) and txt_(args[0].func) == "range":
                lvl = self._level()
                dom, elem, lvl = self.domain_elem(args[0], lvl)
                return atom_poly(("seq", elem, dom, lvl))  # list(range(..)) = [v for v in range(..)]
            inner = self.tr(args[0])
            ia = single_atom(inner)
            if name == "list" and ia is not None and ia[0] == "seq":
                return inner       # list(<generator / comprehension>) is that list
            if ia is not None and ia[0] == "call" and ia[1] == ".keys" and len(ia[2]) == 1:
                inner = ia[2][0]  # list(d.keys()) = list(d)
            if ia is not None and ia[0] == "call" and ia[1] in ("list", "tuple") and len(ia[2]) == 1:
                inner = ia[2][0]  # tuple(list(x)) = tuple(x)
            return atom_poly(("call", name, (inner,)))
        if name in ("max", "min") and len(args) >= 2 and not kw and not any(isinstance(a_, ast.Starred) for a_ in args):
            return mk_minmax(name, tuple(self.tr(a_) for a_ in args))
        if name == "range" and 1 <= len(args) <= 2 and not kw:
            # a range used as a VALUE (handed to product(), len(), indexing) is the list of its elements
            lvl = self._level()
            dom, elem, lvl = self.domain_elem(n, lvl)
            return atom_poly(("seq", elem, dom, lvl))
        if name == "map" and len(args) == 2 and not kw and isinstance(args[0], (ast.Name, ast.Attribute, ast.Lambda)):
            # map(f, X) = (f(x) for x in X)
            if isinstance(args[0], ast.Lambda) and len(args[0].args.args) == 1:
                var = args[0].args.args[0].arg
                elt = args[0].body
            else:
                var = "__map_v"
                elt = ast.Call(func=args[0], args=[ast.Name(id=var, ctx=ast.Load())], keywords=[])
            g = ast.GeneratorExp(elt=elt, generators=[ast.comprehension(target=ast.Name(id=var, ctx=ast.Store()), iter=args[1], ifs=[], is_async=0)])
            return self.tr(ast.fix_missing_locations(ast.copy_location(g, n)))
        if name == "dict.fromkeys" and len(args) in (1, 2) and not kw:
            # dict.fromkeys(K, v) = {k: v for k in K}
            lvl = self._level()
            dom, elem, lvl = self.domain_elem(args[0], lvl)
            val = self.tr(args[1]) if len(args) == 2 else atom_poly(("sym", "None"))
            return atom_poly(("dictacc", (("set", elem, val, ((dom, lvl, ()),)),)))
        if name == "dict" and len(args) == 1 and not kw and isinstance(args[0], ast.Call) and astx.txt(args[0].func) == "zip" and len(args[0].args) == 2 and not args[0].keywords:
            # dict(zip(K, V)) = {k: v for k, v in zip(K, V)}
            lvl_ = self._level()
            k_, v_ = f"zk{lvl_}", f"zv{lvl_}"
            gen = ast.GeneratorExp(elt=ast.Tuple(elts=[ast.Name(id=k_, ctx=ast.Load()), ast.Name(id=v_, ctx=ast.Load())], ctx=ast.Load()),
                                   generators=[ast.comprehension(target=ast.Tuple(elts=[ast.Name(id=k_, ctx=ast.Store()), ast.Name(id=v_, ctx=ast.Store())], ctx=ast.Store()),
                                                                 iter=args[0], ifs=[], is_async=0)])
            return self.tr(ast.fix_missing_locations(ast.copy_location(ast.Call(func=ast.Name(id="dict", ctx=ast.Load()), args=[gen], keywords=[]), n)))
        if name == "dict" and len(args) == 1 and not kw:
            a0d = single_atom(self.tr(args[0]))
            if a0d is not None and a0d[0] == "dictacc":
                return self.tr(args[0])     # dict(d) holds the entries of d
        if name == "dict" and len(args) == 1 and not kw:
            inner = single_atom(self.tr(args[0]))
            if inner is not None and inner[0] == "seq":
                body = single_atom(inner[1])
                dom, conds = inner[2], ()
                if isinstance(dom, tuple) and dom and dom[0] == "filter":
                    dom, conds = dom[1], tuple(dom[2])
                if body is not None and body[0] == "tuple" and len(body[1]) == 2:
                    # dict((k, v) for ...) = {k: v for ...}
                    return atom_poly(("dictacc", (("set", body[1][0], body[1][1], ((dom, inner[3], conds),)),)))
        if isinstance(n.func, ast.Attribute) and n.func.attr in ("items", "values") and not args and not kw:
            # d.items() / d.values() as a VALUE: the list of (key, d[key]) / of d[key], in key order
            lvl = self._level()
            T = self.tr(n.func.value)
            lvl = max(lvl, max_level(T) + 1)
            dom, elem = index_form((n.func.attr, T), sym(f"#{lvl}"))
            if isinstance(dom, tuple) and dom and dom[0] == "range":
                return atom_poly(("seq", elem, dom, lvl))
        if isinstance(n.func, ast.Attribute) and n.func.attr in ("nodes", "edges") and not args and not kw:
            return self.tr(n.func)      # networkx: G.nodes() / G.edges() are the views G.nodes / G.edges
        targs = tuple(self.tr(a) for a in args)
        if not isinstance(n.func, (ast.Name, ast.Attribute)):
            # call of a computed callee, e.g. a callback table entry self._arr_fp[i](deg)
            return atom_poly(("apply", self.tr(n.func), targs + kw))
        if isinstance(n.func, ast.Attribute) and isinstance(n.func.value, ast.Name) and n.func.value.id == "self":
            # a repo method reads the elements of a sequence argument: tuple(x) / list(x) hand it the same elements
            targs = tuple(_strip_seq_conv(a_) for a_ in targs)
        if isinstance(n.func, ast.Attribute) and astx.attr_path(n.func) is None:
            # method call on a computed receiver
            return atom_poly(("call", "." + n.func.attr, (self.tr(n.func.value),) + targs + kw))
        if isinstance(n.func, ast.Attribute):
            root = astx.root_name(n.func)
            if root in self.env:
                return atom_poly(("call", "." + n.func.attr, (self.tr(n.func.value),) + targs + kw))
        return atom_poly(("call", name, targs + kw))

    # --- reductions
    def domain(self, it: ast.AST):
        """Normalised iteration domain."""
        if isinstance(it, ast.Call) and astx.txt(it.func) == "range" and not it.keywords:
            a = [self.tr(x) for x in it.args]
            if len(a) == 1:
                return ("range", ZERO, a[0])
            if len(a) == 2:
                return ("range", a[0], a[1])
            if len(a) == 3:
                if is_const(a[2]) == 1:
                    return ("range", a[0], a[1])
                return ("range3", a[0], a[1], a[2])
        if isinstance(it, ast.Call) and astx.txt(it.func) in ("list", "tuple", "iter") and len(it.args) == 1 and not it.keywords:
            return self.domain(it.args[0])
        if isinstance(it, ast.Call) and astx.txt(it.func) == "enumerate" and it.args and all(k.arg == "start" for k in it.keywords) and len(it.keywords) <= 1:
            start = self.tr(it.args[1]) if len(it.args) == 2 else (self.tr(it.keywords[0].value) if it.keywords else ZERO)
            return ("enumerate", self.domain(it.args[0]), start)
        if isinstance(it, ast.Call) and astx.txt(it.func) == "zip" and not it.keywords:
            return ("zip",) + tuple(self.domain(a) for a in it.args)
        if isinstance(it, ast.Call) and isinstance(it.func, ast.Attribute) and it.func.attr == "keys" and not it.args:
            return self.domain(it.func.value)  # iterating d.keys() is iterating d
        if isinstance(it, ast.Call) and isinstance(it.func, ast.Attribute) and it.func.attr == "nodes" and not it.args and len(it.keywords) == 1 \
                and it.keywords[0].arg == "data" and isinstance(it.keywords[0].value, ast.Constant) and it.keywords[0].value.value is True:
            # networkx: for n, attrs in G.nodes(data=True)  =  for n in G.nodes: attrs = G.nodes[n]
            return ("items", self.tr(it.func))
        if isinstance(it, ast.Call) and isinstance(it.func, ast.Attribute) and it.func.attr in ("items", "values") and not it.args and not it.keywords:
            # for k, v in d.items()  =  for k in d: v = d[k]
            return (it.func.attr, self.tr(it.func.value))
        return ("iter", norm_iter(self.tr(it)))

    def domain_elem(self, it: ast.AST, level: int):
        """(domain, element term) in *index form*: iterating a sequence value T is iterating
        range(0, len(T)) with element T[#level]; enumerate adds the index; so `for x in X`,
        `for i, x in enumerate(X)` and `for i in range(len(X)): X[i]` coincide."""
        d = self.domain(it)
        level = max(level, max_level(d) + 1)  # never capture a bound variable that occurs inside the domain
        bv = sym(f"#{level}")
        dom, elem = index_form(d, bv)
        return dom, elem, level

    def bind(self, target: ast.AST, level: int, elem: Optional[tuple] = None) -> Dict[str, tuple]:
        """Bound-variable environment for a loop/comprehension target at de Bruijn level: a name target is
        the bound variable #level itself, tuple targets are its components #level[i] (so `for u, v in E`
        and `for e in E: u, v = e` coincide)."""
        env = {}
        bv = elem if elem is not None else sym(f"#{level}")

        def rec(t, val):
            if isinstance(t, ast.Name):
                env[t.id] = val
            elif isinstance(t, (ast.Tuple, ast.List)):
                for i, e in enumerate(t.elts):
                    rec(e, subscript(val, const(i)))
            elif isinstance(t, ast.Starred):
                rec(t.value, atom_poly(("rest", val)))
        rec(target, bv)
        return env

    def reduction(self, op: str, arg: ast.AST) -> Optional[tuple]:
        if isinstance(arg, (ast.ListComp, ast.GeneratorExp)):
            return self.comp_reduction(op, arg.elt, arg.generators)
        # sum(x) over an opaque iterable
        lvl = self._level()
        dom, elem, lvl = self.domain_elem(arg, lvl)
        return make_reduce(op, elem, dom, lvl)

    def comp_reduction(self, op: str, elt: ast.AST, gens: List[ast.comprehension]) -> tuple:
        g = gens[0]
        level = self._level()
        dom, elem, level = self.domain_elem(g.iter, level)
        inner = self.child(self.bind(g.target, level, elem))
        if g.ifs:
            dom = ("filter", dom, norm_conds(inner.tr(c) for c in g.ifs))
        if len(gens) > 1:
            body = inner.comp_reduction(op, elt, gens[1:])
        else:
            body = inner.tr(elt)
        return make_reduce(op, body, dom, level)

    def t_Dict(self, n):
        if not n.keys:
            return atom_poly(("emptydict",))
        return atom_poly(("dict", tuple((self.tr(k) if k is not None else "**", self.tr(v)) for k, v in zip(n.keys, n.values))))

    def t_Set(self, n):
        return atom_poly(("set", tuple(sorted((self.tr(e) for e in n.elts), key=_key))))

    def _level(self) -> int:
        lv = getattr(self, "_base_level", 0)
        for v in self.env.values():
            for leaf in leaves(v):
                if leaf.startswith("#") and leaf[1:].split(".")[0].isdigit():
                    lv = max(lv, int(leaf[1:].split(".")[0]) + 1)
        return lv

    def t_ListComp(self, n):
        g = n.generators[0]
        level = self._level()
        dom, elem, level = self.domain_elem(g.iter, level)
        inner = self.child(self.bind(g.target, level, elem))
        if g.ifs:
            dom = ("filter", dom, norm_conds(inner.tr(c) for c in g.ifs))
        if len(n.generators) > 1:
            return self.opaque(n)
        body = inner.tr(n.elt)
        if isinstance(n, ast.ListComp) and not g.ifs and isinstance(dom, tuple) and dom and dom[0] == "range" and is_const(body) is not None and dom[1] == ZERO:
            # [c for _ in range(n)] is [c] * n for a constant c
            return atom_poly(("repeat", atom_poly(("list", (body,))), dom[2]))
        return atom_poly(("seq", body, dom, level))

    t_GeneratorExp = t_ListComp

    def t_DictComp(self, n):
        if len(n.generators) != 1:
            return self.opaque(n)
        g = n.generators[0]
        level = self._level()
        dom, elem, level = self.domain_elem(g.iter, level)
        inner = self.child(self.bind(g.target, level, elem))
        conds = norm_conds(inner.tr(c) for c in g.ifs)
        return atom_poly(("dictacc", (("set", inner.tr(n.key), inner.tr(n.value), ((dom, level, conds),)),)))

    def t_JoinedStr(self, n):
        parts = []
        for v in n.values:
            if isinstance(v, ast.Constant):
                parts.append(("lit", v.value))
            elif isinstance(v, ast.FormattedValue):
                parts.append(("fmt", self.tr(v.value), v.conversion, astx.txt(v.format_spec) if v.format_spec else ""))
        return atom_poly(("fstr", tuple(parts)))


# ----------------------------------------------------------------------------- boolean normal form
_CMP_NEG = {"Eq": "NotEq", "NotEq": "Eq", "Lt": "GtE", "GtE": "Lt", "Gt": "LtE", "LtE": "Gt", "In": "NotIn", "NotIn": "In", "Is": "IsNot", "IsNot": "Is"}


def mk_cmp(op: str, a: tuple, b: tuple) -> tuple:
    """Comparisons are oriented (> and >= become < and <=) and symmetric ones have their operands sorted, so the
    spelling `0 < n` / `n > 0` and `a == b` / `b == a` coincide."""
    if op == "Gt":
        op, a, b = "Lt", b, a
    elif op == "GtE":
        op, a, b = "LtE", b, a
    if op in ("In", "NotIn"):
        # membership does not depend on the container being a list, tuple, set or sorted copy of the same elements
        bb = single_atom(b)
        while bb is not None and bb[0] == "call" and bb[1] in ("list", "tuple", "set", "frozenset", "sorted") and len(bb[2]) == 1:
            b = bb[2][0]
            bb = single_atom(b)
    if op in ("Eq", "NotEq", "Is", "IsNot") and _key(b) < _key(a):
        a, b = b, a
    return atom_poly(("cmp", op, a, b))


def _literal(t: tuple):
    """(positive atom, sign) of a non-compound boolean term."""
    a = single_atom(t)
    if a is not None and a[0] == "not":
        p, sg = _literal(a[1])
        return p, not sg
    if a is not None and a[0] == "cmp" and len(a) == 4:
        op, x, y = a[1], a[2], a[3]
        if op in ("NotEq", "NotIn", "IsNot"):
            return atom_poly(("cmp", _CMP_NEG[op], x, y)), False
        if op in ("Lt", "LtE") and _key(y) < _key(x):
            # Lt(x, y) = not LtE(y, x): the positive form is the one whose first operand sorts first
            return atom_poly(("cmp", "LtE" if op == "Lt" else "Lt", y, x)), False
    return t, True


def _neg_literal(t: tuple) -> tuple:
    a = single_atom(t)
    if a is not None and a[0] == "not":
        return a[1]
    if a is not None and a[0] == "cmp" and a[1] in _CMP_NEG:
        return mk_cmp(_CMP_NEG[a[1]], a[2], a[3])
    return atom_poly(("not", t))


def _formula(t: tuple):
    a = single_atom(t)
    if a is not None and a[0] == "bool" and len(a) == 3:
        return ("and" if a[1] == "And" else "or", [_formula(x) for x in a[2]])
    if a is not None and a[0] == "not":
        b = single_atom(a[1])
        if b is not None and b[0] == "bool":
            return ("not", _formula(a[1]))
    if a is not None and a[0] == "boolconst":
        return ("const", a[1])
    c = is_const(t)
    if c is not None and c in (0, 1) and False:
        return ("const", bool(c))
    p, sg = _literal(t)
    return ("lit", p, sg)


def _eval(f, val) -> bool:
    k = f[0]
    if k == "lit":
        return val[f[1]] == f[2]
    if k == "const":
        return f[1]
    if k == "not":
        return not _eval(f[1], val)
    if k == "and":
        return all(_eval(x, val) for x in f[1])
    return any(_eval(x, val) for x in f[1])


def _atoms_of(f, out):
    if f[0] == "lit":
        if f[1] not in out:
            out.append(f[1])
    elif f[0] == "not":
        _atoms_of(f[1], out)
    elif f[0] in ("and", "or"):
        for x in f[1]:
            _atoms_of(x, out)


MAX_BOOL_ATOMS = 7


def bool_canon(t: tuple) -> tuple:
    """Canonical form of a propositional combination (and / or / not over comparisons and other terms, which are
    taken as independent atoms): the disjunction of ALL prime implicants (Blake canonical form), which is unique for
    the boolean function - so any two equivalent spellings of a condition coincide:  `A or (not A and not B)` =
    `A or not B`, De Morgan, absorption, `not (a and b)` = `not a or not b`."""
    f = _formula(t)
    if f[0] == "lit":
        return f[1] if f[2] else _neg_literal(f[1])
    atoms: list = []
    _atoms_of(f, atoms)
    atoms.sort(key=_key)
    n = len(atoms)
    if n > MAX_BOOL_ATOMS:
        return t
    minterms = []
    for bits in range(1 << n):
        val = {a: bool((bits >> i) & 1) for i, a in enumerate(atoms)}
        if _eval(f, val):
            minterms.append(bits)
    if not minterms:
        return atom_poly(("boolconst", False))
    if len(minterms) == 1 << n:
        return atom_poly(("boolconst", True))
    # Quine-McCluskey: implicants as (value, mask) with mask bits = don't care
    cur = {(m, 0) for m in minterms}
    primes = set()
    while cur:
        used = set()
        nxt = set()
        lst = sorted(cur)
        for i, (v1, m1) in enumerate(lst):
            for v2, m2 in lst[i + 1:]:
                if m1 != m2:
                    continue
                d = v1 ^ v2
                if d and d & (d - 1) == 0:
                    nxt.add((v1 & ~d, m1 | d))
                    used.add((v1, m1))
                    used.add((v2, m2))
        primes |= cur - used
        cur = nxt
    terms = []
    for v, m in primes:
        lits = []
        for i, a in enumerate(atoms):
            if (m >> i) & 1:
                continue
            lits.append(a if (v >> i) & 1 else _neg_literal(a))
        lits.sort(key=_key)
        terms.append(lits[0] if len(lits) == 1 else atom_poly(("bool", "And", tuple(lits))))
    terms.sort(key=_key)
    if len(terms) == 1:
        return terms[0]
    return atom_poly(("bool", "Or", tuple(terms)))


def mk_not(v: tuple) -> tuple:
    """Negation, canonicalised (see bool_canon)."""
    a = single_atom(v)
    if a is not None and a[0] == "boolconst":
        return atom_poly(("boolconst", not a[1]))
    if a is not None and a[0] == "bool":
        return bool_canon(atom_poly(("not", v)))
    return _neg_literal(v)


def mk_bool(op: str, values) -> tuple:
    """and / or, canonicalised (see bool_canon)."""
    values = tuple(values)
    if len(values) == 1:
        return bool_canon(values[0])
    return bool_canon(atom_poly(("bool", op, values)))


def lower_bound(t: tuple):
    """A constant the term is known not to go below (None when nothing is known): len(..) >= 0, factorial(..) >= 1,
    floor division of a non-negative term by a positive constant >= 0, constants themselves."""
    c = is_const(t)
    if c is not None:
        return c
    a = single_atom(t)
    if a is None:
        # c * (x^2 - x) or c * (x^2 + x), c > 0, x one (integer-valued) atom: a positive multiple of a product of consecutive integers
        try:
            d = as_dict(t)
            if len(d) == 2:
                (m1, c1), (m2, c2) = list(d.items())
                for (ma, ca), (mb, cb) in (((m1, c1), (m2, c2)), ((m2, c2), (m1, c1))):
                    if abs(ca) == abs(cb) and ca > 0:
                        q = _mono_quot(ma, mb)
                        if q is not None and len(dict(mb)) == 1 and q in dict(mb) and is_const(dict(mb)[q]) == 1:
                            return Fraction(0)
        except Exception:
            pass
        return None
    if a[0] == "call" and a[1] == "len":
        return Fraction(0)
    if a[0] == "call" and a[1] in ("factorial", "math.factorial"):
        return Fraction(1)
    if a[0] == "floordiv" and len(a) == 3:
        d = is_const(a[2])
        n = lower_bound(a[1])
        if d is not None and d > 0 and n is not None and n >= 0:
            return Fraction(0)
    return None


def mk_minmax(name: str, args) -> tuple:
    """max / min of terms: commutative, nested calls of the same kind flattened, duplicates dropped"""
    flat = []
    for v in args:
        av = single_atom(v)
        if av is not None and av[0] == "call" and av[1] == name and all(isinstance(z, tuple) and z and z[0] == "P" for z in av[2]):
            flat.extend(av[2])
        else:
            flat.append(v)
    uniq = []
    for v in sorted(flat, key=_key):
        if v not in uniq:
            uniq.append(v)
    # a clamp that cannot bind: max(c, X) = X when X >= c is known (a length / count is >= 0, a factorial >= 1), min(c, X) = c then
    if len(uniq) == 2:
        for c_, other in ((uniq[0], uniq[1]), (uniq[1], uniq[0])):
            cv = is_const(c_)
            lb = lower_bound(other)
            if cv is not None and lb is not None and lb >= cv:
                return other if name == "max" else c_
    if len(uniq) == 1:
        return uniq[0]
    return atom_poly(("call", name, tuple(uniq)))


def mk_ifexp(c: tuple, a: tuple, b: tuple) -> tuple:
    """a if c else b, with the condition oriented canonically: `x if not c else y` = `y if c else x`."""
    if a == b:
        return a
    ca = single_atom(c)
    if ca is not None and ca[0] == "boolconst":
        return a if ca[1] else b
    # a if a > b else b  =  max(a, b);   a if a < b else b  =  min(a, b)
    if ca is not None and ca[0] == "cmp" and ca[1] in ("Lt", "LtE"):
        x, y = ca[2], ca[3]          # condition: x < y  (or x <= y)
        if a == y and b == x:
            return mk_minmax("max", (x, y))
        if a == x and b == y:
            return mk_minmax("min", (x, y))
    nc = mk_not(c)
    _, sign = _literal(c)
    ca = single_atom(c)
    compound = ca is not None and ca[0] == "bool"
    if (not compound and not sign) or (compound and _key(nc) < _key(c)):
        c, a, b = nc, b, a
    return atom_poly(("ifexp", c, a, b))


def exclusive(c1, c2) -> bool:
    """The condition lists (conjunctions) c1 and c2 cannot hold together (propositionally)."""
    both = mk_bool("And", tuple(c1) + tuple(c2))
    a = single_atom(both)
    return a is not None and a[0] == "boolconst" and a[1] is False


def norm_conds(conds) -> tuple:
    """A list of conditions means their conjunction: canonicalised as one formula, then split at the top-level and."""
    conds = tuple(conds)
    if not conds:
        return ()
    c = mk_bool("And", conds)
    a = single_atom(c)
    if a is not None and a[0] == "boolconst" and a[1] is True:
        return ()
    if a is not None and a[0] == "bool" and a[1] == "And":
        return tuple(a[2])
    return (c,)


def make_reduce(op: str, body: tuple, dom, level: int) -> tuple:
    """sum/prod of body (bound variable #level) over dom; closes affine sums over ranges."""
    bv = f"#{level}"
    if op == "sum" and isinstance(dom, tuple) and dom[0] == "range":
        lo, hi = dom[1], dom[2]
        if bv not in leaves(lo) and bv not in leaves(hi):
            deg = degree_in(body, bv)
            if deg is not None and deg <= 2:
                # Faulhaber: sum_{v=lo}^{hi-1} (a + b v + c v^2)
                a, b = coeff_in(body, bv, 0), coeff_in(body, bv, 1)
                c = coeff_in(body, bv, 2) if deg == 2 else ZERO
                n = sub(hi, lo)
                s0 = n
                s1 = div(sub(mul(hi, sub(hi, ONE)), mul(lo, sub(lo, ONE))), const(2))

                def sq(x):  # sum_{v=0}^{x-1} v^2 = (x-1)x(2x-1)/6
                    return div(mul(mul(sub(x, ONE), x), sub(mul(const(2), x), ONE)), const(6))
                s2 = sub(sq(hi), sq(lo))
                return add(add(mul(a, s0), mul(b, s1)), mul(c, s2))
    if op == "sum" and bv not in _dom_leaves(dom):
        # linearity: sum_x (c1*A1(x) + c2*A2(x)) = c1*sum_x A1(x) + c2*sum_x A2(x), with every factor that
        # does not mention the bound variable pulled out of the sum
        out = ZERO
        for m, c in body[1]:
            dep, indep = [], []
            for at, e in m:
                (dep if (_mentions_bv(at, bv) or _mentions_bv(e, bv)) else indep).append((at, e))
            dep_p = P({tuple(dep): Fraction(1)})
            indep_p = P({tuple(indep): c})
            if not dep:
                red = atom_poly(("sum", ONE, dom, level))  # = |dom|
            else:
                red = atom_poly(("sum", dep_p, dom, level))
            out = add(out, mul(indep_p, red))
        return out
    return atom_poly((op, body, dom, level))


def _mentions_bv(x, bv: str) -> bool:
    for l in leaves(x):
        if l == bv or l.startswith(bv + "."):
            return True
    return False


def _dom_leaves(dom) -> set:
    return leaves(dom)


def _factors_of_single(p: tuple):
    sm = single_mono(p)
    if sm is None:
        return None
    return sm


def _has_consecutive_factors(p: tuple) -> bool:
    """p is (up to an integer coefficient) a product containing x and x+-1 for some integer-valued term x:
    then p is even and p//2 == p/2.  Products are stored expanded, so test the expanded shapes
    c*(x^2 + x) and c*(x^2 - x) with x a single symbol-like atom, and the general wrapped form."""
    d = as_dict(p)
    # expanded x*(x+1) = x^2 + x ; x*(x-1) = x^2 - x ; allow a common integer factor and extra symbol factors
    if len(d) == 2:
        (m1, c1), (m2, c2) = list(d.items())
        for (ma, ca), (mb, cb) in (((m1, c1), (m2, c2)), ((m2, c2), (m1, c1))):
            # ma = mb * x  (one more power of a single atom)
            if abs(ca) == abs(cb) and ca.denominator == 1:
                q = _mono_quot(ma, mb)
                if q is not None:
                    return True
    # (y)*(y+1) where y is affine: try substitution-free general check on three-term expansions
    if _affine_consecutive(p):
        return True
    return False


def _mono_quot(ma: tuple, mb: tuple):
    """If ma == mb * x for a single atom x (exponent 1), return x."""
    da, db = dict(ma), dict(mb)
    diff = []
    for at in set(da) | set(db):
        ea = is_const(da.get(at, ZERO))
        eb = is_const(db.get(at, ZERO))
        if ea is None or eb is None:
            return None
        if ea != eb:
            diff.append((at, ea - eb))
    if len(diff) == 1 and diff[0][1] == 1:
        return diff[0][0]
    return None


def _affine_consecutive(p: tuple) -> bool:
    """p == c * y * (y + 1) or c * y * (y - 1) for an affine integer form y = s + k (s a symbol-ish poly,
    k integer)?  Decide by trying y candidates built from the symbols of p: y = (sum of degree-1 part)."""
    # collect symbols
    syms = sorted(l for l in leaves(p) if not l.endswith("()") and not l.startswith("?"))
    if not syms or len(syms) > 3:
        return False
    # candidate y: sum of +-symbols plus integer offset in -3..3
    import itertools
    for signs in itertools.product((1, -1), repeat=len(syms)):
        base = ZERO
        for s, sg in zip(syms, signs):
            base = add(base, mul(const(sg), sym(s)))
        for k in range(-3, 4):
            y = add(base, const(k))
            for cand in (mul(y, add(y, ONE)), mul(y, sub(y, ONE))):
                for c in (1, -1, 2, -2):
                    if mul(const(c), cand) == p:
                        return True
    return False


def _is_half_of_consecutive(v: tuple) -> bool:
    return _has_consecutive_factors(mul(v, const(2)))


def _is_integer_valued(v: tuple) -> bool:
    """Polynomial with integer coefficients over symbols only (no calls/opaques): int() is identity on
    integer arguments - used only for int(pow(n, n-2))-style wrappers where the argument is integral."""
    return False


# ----------------------------------------------------------------------------- canonical bound variables
REDUCE_KINDS = ("sum", "prod", "seq")


def rename_bound(x, old: str, new: str):
    """Rename symbols old / old.* to new / new.* everywhere in a term or nested tuple structure."""
    def f(at):
        if at[0] == "sym" and (at[1] == old or at[1].startswith(old + ".")):
            return atom_poly(("sym", new + at[1][len(old):]))
        return None
    return _map_any(x, f)


def _map_any(x, f):
    if isinstance(x, tuple) and x and x[0] == "P":
        return _map(x, f)
    if isinstance(x, tuple):
        return tuple(_map_any(y, f) for y in x)
    return x


def canon(x, depth: int = 0):
    """Alpha-rename bound variables of reductions by nesting depth (@0, @1, ...), innermost last."""
    if isinstance(x, tuple) and x and x[0] == "P":
        out = ZERO
        for m, c in x[1]:
            t = const(c)
            for at, e in m:
                t = mul(t, power(canon_atom(at, depth), canon(e, depth)))
            out = add(out, t)
        return out
    if isinstance(x, tuple) and len(x) == 3 and x[0] == "filter" and isinstance(x[2], tuple):
        return ("filter", canon(x[1], depth), norm_conds(canon(c, depth) for c in x[2]))
    if isinstance(x, tuple):
        return tuple(canon(y, depth) for y in x)
    return x


def canon_atom(at: tuple, depth: int) -> tuple:
    if at[0] in REDUCE_KINDS and len(at) == 4:
        op, body, dom, lvl = at
        new = f"@{depth}"
        body2 = canon(rename_bound(body, f"#{lvl}", new), depth + 1)
        dom2 = canon(rename_bound(dom, f"#{lvl}", new), depth + 1)
        return atom_poly((op, body2, dom2, depth))
    if at[0] == "first" and len(at) == 5:
        _, val, dom, cond, lvl = at
        new = f"@{depth}"
        return atom_poly(("first", canon(rename_bound(val, f"#{lvl}", new), depth + 1), canon(rename_bound(dom, f"#{lvl}", new), depth + 1),
                          canon(rename_bound(cond, f"#{lvl}", new), depth + 1), depth))
    if at[0] == "dictacc":
        ents = []
        for kind, key, val, ctx in at[1]:
            frames = [list(fr) for fr in ctx]  # [dom, lvl, conds]
            d = depth
            for i, fr in enumerate(frames):
                old, new = f"#{fr[1]}", f"@{d}"
                key, val = rename_bound(key, old, new), rename_bound(val, old, new)
                fr[2] = rename_bound(tuple(fr[2]), old, new)
                for later in frames[i + 1:]:
                    later[0] = rename_bound(later[0], old, new)
                    later[2] = rename_bound(tuple(later[2]), old, new)
                fr[1] = d
                d += 1
            ctx2 = tuple((canon(fr[0], d), fr[1], norm_conds(canon(c, d) for c in fr[2])) for fr in frames)
            e_new = (kind, canon(key, d), canon(val, d), ctx2)
            if kind == "set":
                # D[k] = a ... D[k] = b over the same iteration: the later store wins
                ents = [e for e in ents if not (e[0] == "set" and e[1] == e_new[1] and e[3] == e_new[3])]
            ents.append(e_new)
        # `D[k] = D[k] * c`  is  `D[k] *= c`;  `D[k] = D[k] + c`  is  `D[k] += c`   (D = the table's own previous content)
        base_t = at[2] if len(at) > 2 else None
        if base_t is not None:
            def _rescale(e):
                kind, key, val, ctx = e
                if kind != "set":
                    return e
                old = subscript(base_t, key)
                oa = single_atom(old)
                if oa is None:
                    return e
                sm = single_mono(val)
                if sm is not None:
                    mono, coef = sm
                    exps = dict(mono)
                    if exps.get(oa) == ONE or exps.get(oa) == const(1):
                        rest = P({tuple(sorted(((a_, e_) for a_, e_ in mono if a_ != oa), key=_key)): coef})
                        if oa not in {x for x in _atoms_in(rest)}:
                            return ("scale", key, rest, ctx)
                diff = sub(val, old)
                if oa not in {x for x in _atoms_in(diff)}:
                    return ("inc", key, diff, ctx)
                return e
            ents = [_rescale(e) for e in ents]
        # `if k not in D: D[k] = 0` before `D[k] += v` is the default of the increment form D[k] = D.get(k, 0) + v
        def _is_default_init(e):
            kind, key, val, ctx = e
            if kind != "set" or val != ZERO or not ctx or len(ctx[-1][2]) != 1:
                return False
            c = single_atom(ctx[-1][2][0])
            if c is None or c[0] != "cmp" or c[1] != "NotIn" or c[2] != key:
                return False
            r = single_atom(c[3])
            if r is None or r[0] != "running":
                return False
            bare = ctx[:-1] + ((ctx[-1][0], ctx[-1][1], ()),)
            return any(e2[0] == "inc" and e2[1] == key and e2[3] == bare for e2 in ents)
        ents = [e for e in ents if not _is_default_init(e)]
        ents.sort(key=_key)
        rest = tuple(canon(y, depth) for y in at[2:])
        return atom_poly(("dictacc", tuple(ents)) + rest)
    if at[0] == "cmp" and len(at) == 4:
        return mk_cmp(at[1], canon(at[2], depth), canon(at[3], depth))
    if at[0] == "bool" and len(at) == 3:
        return mk_bool(at[1], tuple(canon(y, depth) for y in at[2]))
    if at[0] == "not" and len(at) == 2:
        return mk_not(canon(at[1], depth))
    if at[0] == "ifexp" and len(at) == 4:
        return mk_ifexp(canon(at[1], depth), canon(at[2], depth), canon(at[3], depth))
    if at[0] == "call" and at[1] in ("max", "min") and len(at) == 3 and len(at[2]) >= 2 and all(isinstance(z, tuple) and z and z[0] == "P" for z in at[2]):
        return mk_minmax(at[1], tuple(canon(z, depth) for z in at[2]))
    return atom_poly((at[0],) + tuple(canon(y, depth) for y in at[1:]))


def _atoms_in(p):
    """all atoms (tuples that are atom keys of monomials) occurring anywhere in a term"""
    out = []

    def rec(x):
        if isinstance(x, tuple) and x and x[0] == "P":
            for m, c in x[1]:
                for at, e in m:
                    out.append(at)
                    rec(at)
                    rec(e)
        elif isinstance(x, tuple):
            for y in x:
                rec(y)
    rec(p)
    return out


def translate(expr: ast.AST, env=None, call_hook=None) -> tuple:
    return Translator(env, call_hook).tr(expr)


def parse(src: str, env=None, call_hook=None) -> tuple:
    """Reference formulas are written as Python expression strings and go through the same translation."""
    return translate(ast.parse(src, mode="eval").body, env, call_hook)


def equal(a: tuple, b: tuple) -> bool:
    return a == b


def compare(a: tuple, b: tuple) -> str:
    """'equal' | 'different' | 'undecided'.

    different only when neither side contains an opaque construct and both sides speak about the same
    leaf vocabulary (then distinct normal forms are distinct functions of the leaves, up to the
    incompleteness of the rewrite set which the self-test twins probe)."""
    if a == b:
        return "equal"
    a, b = canon(a), canon(b)
    if a == b:
        return "equal"
    if has_opaque(a) or has_opaque(b):
        return "undecided"
    if leaves(a) == leaves(b):
        return "different"
    # a leaf missing on one side: different functions unless the extra leaf cancels (it would have been
    # cancelled by the normal form if it did polynomially)
    return "different"
