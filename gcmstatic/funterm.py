"""Summarise a small function as a term of its parameters (syntax-directed abstract interpretation over
the term algebra of tm; nothing is executed and no path is handed to a solver).

Understood: straight-line assignments; element updates of local lists (t = list(x); t[i] -= 1 -> upd);
augmented assignments; `for` loops whose body contributes to accumulators defined outside the loop with
+= / -= / *= (-> sum / prod reductions), list.append (-> seq), dict / table stores D[k] = v and
D[k] = D.get(k, c) + v / D[k] += v (-> dictacc entries with their loop domains and guards); `if` with
straight-line branches (env merge through ifexp, contributions carry the guard); `if c: continue`;
early `return`; nested helper functions (inlined); `try` bodies (handlers ignored).  Everything else
makes the affected names *opaque*, so comparisons come out undecided, never violated.
"""
from __future__ import annotations

import ast
from typing import Dict, List, Optional, Tuple

from . import astx, tm
from .astx import txt

OPQ = lambda why: tm.atom_poly(("opaque", why))


def varname(n: ast.AST) -> Optional[str]:
    """Name of a tracked variable: a local Name, or an attribute path rooted at self (pseudo-variable)."""
    if isinstance(n, ast.Name):
        return n.id
    p = astx.attr_path(n)
    if p is not None and p.split(".")[0] == "self" and p.count(".") == 1:
        return p
    return None


class Frame:
    def __init__(self, dom, level):
        self.dom, self.level = dom, level
        self.pending: Dict[str, List[tuple]] = {}  # name -> [(op, payload, conds)]
        self.conds: List[tuple] = []


class FunTerm:
    def __init__(self, call_hook=None, inline_funcs: Optional[Dict[str, ast.AST]] = None, depth: int = 0, self_env=None):
        self.call_hook = call_hook
        self.inline_funcs = dict(inline_funcs or {})
        self.depth = depth
        self.frames: List[Frame] = []
        self.env: Dict[str, tuple] = {}
        self.defdepth: Dict[str, int] = {}
        self.top_conds: List[tuple] = []

    # ------------------------------------------------------------------ public
    def of_function(self, fn_node: ast.AST, args: Optional[List[tuple]] = None, extra_env=None) -> tuple:
        params = [a.arg for a in fn_node.args.posonlyargs + fn_node.args.args]
        self.env = dict(extra_env or {})
        if args is not None:
            off = 1 if params and params[0] in ("self", "cls") and len(args) == len(params) - 1 else 0
            for p, a in zip(params[off:], args):
                self.env[p] = a
        for p in params:
            self.defdepth[p] = 0
        body = fn_node.body
        if body and isinstance(body[0], ast.Expr) and isinstance(body[0].value, ast.Constant) and isinstance(body[0].value.value, str):
            body = body[1:]
        for st in body:
            if isinstance(st, ast.FunctionDef):
                self.inline_funcs.setdefault(st.name, st)
        self._mutated_names = _mutated_anywhere(body)
        self._order = {}
        def _number(n_):
            self._order[id(n_)] = len(self._order)
            for c_ in ast.iter_child_nodes(n_):
                _number(c_)
        for st_ in body:
            _number(st_)
        self._mutation_lines = _mutation_lines(body, self._order)
        r = self.block(body)
        if self._poisoned:
            return OPQ(self._poisoned)
        return r if r is not None else OPQ("no return value")

    _poisoned = None

    def first_match(self, st: ast.For):
        """Search idiom `for x in D: if c(x): return f(x)` (outside other loops) -> ('first', f, D, c, level)."""
        if self.frames or st.orelse or len(st.body) != 1 or not isinstance(st.body[0], ast.If):
            return None
        iff = st.body[0]
        if iff.orelse or len(iff.body) != 1 or not isinstance(iff.body[0], ast.Return) or iff.body[0].value is None:
            return None
        tr0 = self.translator()
        level = self.fresh_level()
        dom, elem, level = tr0.domain_elem(st.iter, level)
        inner = tr0.child(tr0.bind(st.target, level, elem))
        return tm.atom_poly(("first", inner.tr(iff.body[0].value), dom, inner.tr(iff.test), level))

    def final_env(self) -> Dict[str, tuple]:
        return self.env

    # ------------------------------------------------------------------ expression translation
    def translator(self) -> tm.Translator:
        me = self

        def hook(name, node, tr):
            if me.call_hook is not None:
                r = me.call_hook(name, node, tr)
                if r is not None:
                    return r
            if name in me.inline_funcs and me.depth < 4 and not node.keywords and not any(isinstance(a, ast.Starred) for a in node.args):
                f = me.inline_funcs[name]
                sub = FunTerm(me.call_hook, {k: v for k, v in me.inline_funcs.items() if k != name}, me.depth + 1)
                closure = {k: v for k, v in tr.env.items()}
                return sub.of_function(f, [tr.tr(a) for a in node.args], extra_env=closure)
            if name == "sum" and len(node.args) == 1 and isinstance(node.args[0], ast.Name) and node.args[0].id in tr.env:
                a = tm.single_atom(tr.env[node.args[0].id])
                if a is not None and a[0] == "seq":
                    return tm.make_reduce("sum", a[1], a[2], a[3])
            if isinstance(node.func, ast.Attribute) and node.func.attr == "get" and isinstance(node.func.value, ast.Name) \
                    and node.func.value.id in tr.env and len(node.args) in (1, 2):
                return tm.atom_poly(("call", ".get", (tr.env[node.func.value.id],) + tuple(tr.tr(a) for a in node.args)))
            return None
        env = self.env
        running = {nm for f in self.frames for nm in f.pending}
        if running:
            env = dict(self.env)
            for nm in running:
                # the value of an accumulator while its loop is still running is not its initial value
                env[nm] = tm.atom_poly(("running", nm, self.env.get(nm, tm.sym(nm))))
        t = tm.Translator(env, hook)
        t._base_level = len(self.frames)
        return t

    def tr(self, e: ast.AST) -> tuple:
        return self.translator().tr(e)

    # ------------------------------------------------------------------ statements
    def cur_depth(self) -> int:
        return len(self.frames)

    def conds(self) -> tuple:
        return tuple(self.frames[-1].conds) if self.frames else tuple(self.top_conds)

    def define(self, name: str, val: tuple) -> None:
        self.env[name] = val
        self.defdepth[name] = self.cur_depth()
        for f in self.frames:
            f.pending.pop(name, None) if self.defdepth[name] >= self.frames.index(f) + 1 else None

    def contribute(self, name: str, op: str, payload) -> None:
        if not self.frames:
            self.env[name] = OPQ(f"contribution to {name} outside a loop")
            return
        self.frames[-1].pending.setdefault(name, []).append((op, payload, self.conds()))

    def block(self, stmts: List[ast.stmt]) -> Optional[tuple]:
        i = 0
        while i < len(stmts):
            st = stmts[i]
            rest = stmts[i + 1:]
            if isinstance(st, (ast.FunctionDef, ast.Pass, ast.Import, ast.ImportFrom, ast.Global, ast.Nonlocal)):
                pass
            elif isinstance(st, ast.Expr):
                self.expr_stmt(st.value)
            elif isinstance(st, (ast.Assign, ast.AnnAssign)):
                if st.value is not None:
                    targets = st.targets if isinstance(st, ast.Assign) else [st.target]
                    for t in targets:
                        self.assign(t, st.value)
                    # aliasing: `a = b = {}` / `a = <tracked container b>` make two names for ONE mutable object; the
                    # summariser tracks values per name, so when either name is mutated later both are given up
                    names = [varname(t) for t in targets if varname(t) is not None and not isinstance(t, ast.Subscript)]
                    src = varname(st.value) if isinstance(st.value, (ast.Name, ast.Attribute)) else None
                    group = set(names) | ({src} if src is not None and src in self.env else set())
                    mutable_value = not isinstance(st.value, (ast.Constant, ast.Tuple, ast.JoinedStr, ast.Compare))
                    muts = getattr(self, "_mutated_names", set())
                    if len(group) > 1 and mutable_value and (group & muts):
                        for nm_ in group:
                            self.env[nm_] = OPQ(f"{nm_} shares a mutable object with {sorted(group - {nm_})}")
            elif isinstance(st, ast.AugAssign):
                self.augassign(st)
            elif isinstance(st, ast.Return):
                if self.frames:
                    self.opaque_all(f"return inside loop")
                    self._poisoned = "return inside a loop"
                    return OPQ("return inside a loop")
                return self.tr(st.value) if st.value is not None else tm.atom_poly(("none",))
            elif isinstance(st, ast.For):
                fm = self.first_match(st)
                if fm is not None:
                    r_rest = self.block(rest)
                    return tm.atom_poly(("firstor", fm, r_rest if r_rest is not None else tm.atom_poly(("none",))))
                self.for_loop(st)
            elif isinstance(st, ast.While):
                self.opaque_assigned(st, "while loop")
            elif isinstance(st, ast.If):
                r = self.if_stmt(st, rest)
                if r is not None:
                    return r[0]
                if self._consumed_rest:
                    return None
            elif isinstance(st, ast.Try):
                r = self.block(st.body)
                # a handler that does not re-raise resumes after a HALF-executed body (and may write on its own): what the names
                # written in the body / the handler hold afterwards is not the body's summary
                swallowing = [h for h in st.handlers if not (h.body and isinstance(h.body[-1], ast.Raise))]
                if swallowing:
                    for nm_ in _written_names(st.body) | set().union(*[_written_names(h.body) for h in swallowing]):
                        self.env[nm_] = OPQ(f"{nm_} is written inside a try whose handler swallows the exception")
                if r is not None:
                    return r
                if st.orelse:
                    r = self.block(st.orelse)
                    if r is not None:
                        return r
                if st.finalbody:        # the normal path runs it after the body
                    r = self.block(st.finalbody)
                    if r is not None:
                        return r
            elif isinstance(st, ast.Raise):
                return tm.atom_poly(("raise",))
            elif isinstance(st, (ast.Continue,)):
                return None
            elif isinstance(st, ast.Break):
                self.opaque_all("break")
                return None
            elif isinstance(st, ast.Delete):
                for t in st.targets:
                    r = astx.root_name(t)
                    if r:
                        self.env[r] = OPQ(f"del on {r}")
            elif isinstance(st, ast.With):
                r = self.block(st.body)
                if r is not None:
                    return r
            else:
                self.opaque_assigned(st, type(st).__name__)
            i += 1
        return None

    _consumed_rest = False

    def expr_stmt(self, v: ast.AST) -> None:
        if isinstance(v, ast.Constant):
            return
        if isinstance(v, ast.Call) and "logger" in txt(v.func).lower():
            return
        if isinstance(v, ast.Call) and isinstance(v.func, ast.Attribute) and varname(v.func.value) is not None:
            nm, meth = varname(v.func.value), v.func.attr
            if meth == "append" and len(v.args) == 1:
                el = self.tr(v.args[0])
                cur = self.env.get(nm)
                if self.defdepth.get(nm, 0) == self.cur_depth() and cur is not None:
                    a = tm.single_atom(cur)
                    if a is not None and a[0] == "list":
                        self.env[nm] = tm.atom_poly(("list", a[1] + (el,)))
                        return
                    self.env[nm] = tm.concat(cur, tm.atom_poly(("list", (el,))))
                    return
                if nm in self.env:
                    self.contribute(nm, "seq", el)
                    return
            if meth == "add" and len(v.args) == 1 and nm in self.env:
                el = self.tr(v.args[0])
                if self.defdepth.get(nm, 0) < self.cur_depth():
                    self.contribute(nm, "dict", ("add", el, tm.ONE))
                    return
            if meth == "update" and len(v.args) == 1 and not v.keywords and nm in self.env and self.defdepth.get(nm, 0) == self.cur_depth():
                # D.update(<pairs or dict>) at the level where D is defined: the entries of dict(<arg>) are stored into D
                arg = tm.single_atom(self.tr(ast.Call(func=ast.Name(id="dict", ctx=ast.Load()), args=[v.args[0]], keywords=[])))
                if arg is not None and arg[0] == "dictacc" and len(arg) == 2:
                    self.materialise(nm, "dict", ("entries", arg[1]))
                    return
            if meth in astx.MUTATOR_METHODS and nm in self.env:
                self.env[nm] = OPQ(f"{nm}.{meth}(...)")
                return
        # group-by idiom:  D.setdefault(k, []).append(e)   =   D[k] = D.get(k, []) + [e]
        if isinstance(v, ast.Call) and isinstance(v.func, ast.Attribute) and v.func.attr == "append" and len(v.args) == 1 and isinstance(v.func.value, ast.Call) \
                and isinstance(v.func.value.func, ast.Attribute) and v.func.value.func.attr == "setdefault" and len(v.func.value.args) == 2 \
                and isinstance(v.func.value.args[1], ast.List) and not v.func.value.args[1].elts and varname(v.func.value.func.value) in self.env:
            D_ = v.func.value.func.value
            K_ = v.func.value.args[0]
            tgt_ = ast.Subscript(value=D_, slice=K_, ctx=ast.Store())
            val_ = ast.BinOp(left=ast.Call(func=ast.Attribute(value=D_, attr="get", ctx=ast.Load()), args=[K_, ast.List(elts=[], ctx=ast.Load())], keywords=[]),
                             op=ast.Add(), right=ast.List(elts=[v.args[0]], ctx=ast.Load()))
            ast.copy_location(tgt_, v)
            ast.copy_location(val_, v)
            ast.fix_missing_locations(tgt_)
            ast.fix_missing_locations(val_)
            self.assign(tgt_, val_)
            return
        # any other call: a tracked container that is the (possibly indirect) receiver - `D.setdefault(k, []).append(e)`,
        # `D[k].append(e)` - or that is passed to a function not known to be pure may be modified by it: given up
        PURE = {"len", "sorted", "sum", "tuple", "list", "set", "frozenset", "dict", "min", "max", "enumerate", "zip", "range", "print", "isinstance", "str", "int",
                "float", "abs", "any", "all", "repr", "iter", "next", "map", "filter", "reversed", "round", "bool", "id", "type", "hash"}
        if isinstance(v, ast.Call):
            r = v.func
            while isinstance(r, (ast.Attribute, ast.Call, ast.Subscript)):
                r = r.func if isinstance(r, ast.Call) else r.value
                nm_r = varname(r) if isinstance(r, (ast.Name, ast.Attribute)) else None
                if nm_r is not None and nm_r in self.env and isinstance(v.func, ast.Attribute) and v.func.attr in astx.MUTATOR_METHODS:
                    self.env[nm_r] = OPQ(f"{nm_r} modified through {txt(v.func)[:40]}")
                    break
            fname = txt(v.func)
            if fname.split(".")[-1] not in PURE:
                for a_ in list(v.args) + [k.value for k in v.keywords]:
                    nm_a = varname(a_) if isinstance(a_, (ast.Name, ast.Attribute)) else None
                    if nm_a is not None and nm_a in self.env:
                        at_ = tm.single_atom(self.env[nm_a])
                        if at_ is not None and at_[0] in ("list", "seq", "dictacc", "emptydict", "dict", "concat", "upd", "set"):
                            self.env[nm_a] = OPQ(f"{nm_a} passed to {fname[:40]}")

    def assign(self, t: ast.AST, value: ast.AST) -> None:
        if varname(t) is not None:
            nm = varname(t)
            if isinstance(value, ast.BinOp) and isinstance(value.op, (ast.Add, ast.Mult, ast.Sub)) and nm in self.env \
                    and self.defdepth.get(nm, 0) < self.cur_depth():
                for a, b, flipped in ((value.left, value.right, False), (value.right, value.left, True)):
                    if varname(a) == nm and not any(varname(x) == nm for x in ast.walk(b) if isinstance(x, (ast.Name, ast.Attribute))):
                        if flipped and isinstance(value.op, ast.Sub):
                            continue
                        self.augassign(ast.AugAssign(target=t, op=value.op, value=b))
                        return
            self.define(nm, self.tr(value))
        elif isinstance(t, (ast.Tuple, ast.List)) and all(isinstance(e, ast.Name) for e in t.elts):
            tv = self.tr(value)
            for k, e in enumerate(t.elts):
                self.define(e.id, tm.subscript(tv, tm.const(k)))
        elif isinstance(t, (ast.Tuple, ast.List)):
            # simultaneous assignment: every right-hand side is evaluated in the PRE-state, then the stores
            # happen left to right (so `d[k1], d[k2] = d.get(k1)+w, d.get(k2)+w` is NOT two increments)
            vals = None
            if isinstance(value, (ast.Tuple, ast.List)) and len(value.elts) == len(t.elts):
                vals = [self.tr(v) for v in value.elts]
            else:
                tv = self.tr(value)
                vals = [tm.subscript(tv, tm.const(k)) for k in range(len(t.elts))]
            for e, v in zip(t.elts, vals):
                if varname(e) is not None and not isinstance(e, ast.Subscript):
                    self.define(varname(e), v)
                elif isinstance(e, ast.Subscript) and varname(e.value) is not None:
                    nm = varname(e.value)
                    if nm not in self.env:
                        self.env[nm] = self.translator().tr(ast.parse(nm, mode="eval").body) if "." in nm else tm.sym(nm)
                        self.defdepth.setdefault(nm, 0)
                    key = self.tr(e.slice)
                    if self.defdepth.get(nm, 0) == self.cur_depth() and not txt_is_empty_dict(self.env[nm]) and not (tm.single_atom(self.env[nm]) or ("",))[0] == "dictacc":
                        self.env[nm] = tm.upd(self.env[nm], key, v)
                    else:
                        self.contribute(nm, "dict", ("set", key, v))
                else:
                    r = astx.root_name(e)
                    if r and r in self.env:
                        self.env[r] = OPQ(f"store into {txt(e)}")
        elif isinstance(t, ast.Subscript) and varname(t.value) is not None and isinstance(value, ast.Name) \
                and any(ln > getattr(self, "_order", {}).get(id(t), 10 ** 9) for ln in getattr(self, "_mutation_lines", {}).get(value.id, [])):
            # `D[k] = q` and q is filled in place AFTERWARDS: D holds a reference, not the value q has now
            nm = varname(t.value)
            self.env[nm] = OPQ(f"{nm} holds a reference to {value.id}, which is modified in place later")
            for f_ in self.frames:
                f_.pending.pop(nm, None)
        elif isinstance(t, ast.Subscript) and varname(t.value) is not None:
            nm = varname(t.value)
            key = self.tr(t.slice)
            if nm not in self.env:
                if "." in nm:
                    self.env[nm] = self.translator().tr(ast.parse(nm, mode="eval").body)
                    self.defdepth[nm] = 0
                else:
                    return
            cur = self.env[nm]
            a = tm.single_atom(cur)
            is_dict = a is not None and a[0] in ("dictacc",) or txt_is_empty_dict(cur)
            inc = self.increment_form(nm, t.slice, value)
            if self.defdepth.get(nm, 0) == self.cur_depth() and not is_dict:
                self.env[nm] = tm.upd(cur, key, self.tr(value))
                return
            if inc is not None:
                self.contribute(nm, "dict", ("inc", key, inc))
            else:
                self.contribute(nm, "dict", ("set", key, self.tr(value)))
            if not self.frames:
                self.flush_top(nm)
        else:
            r = astx.root_name(t)
            if r and r in self.env:
                self.env[r] = OPQ(f"store into {txt(t)}")

    def conds_active(self) -> bool:
        return bool(self.conds())

    def flush_top(self, nm: str) -> None:
        """Dict stores outside any loop: materialise immediately as entries with an empty context."""
        pass

    def increment_form(self, nm: str, key_node: ast.AST, value: ast.AST) -> Optional[tuple]:
        """value == D.get(key, c) + inc  or  D[key] + inc  -> term of inc."""
        if not (isinstance(value, ast.BinOp) and isinstance(value.op, (ast.Add, ast.Sub))):
            return None
        for a, b, flip in ((value.left, value.right, False), (value.right, value.left, True)):
            if flip and isinstance(value.op, ast.Sub):
                continue
            is_get = isinstance(a, ast.Call) and isinstance(a.func, ast.Attribute) and a.func.attr == "get" \
                and txt(a.func.value) == nm and a.args and astx.same(a.args[0], key_node) \
                and (len(a.args) == 1 or (astx.const_value(a.args[1]) == 0))
            is_sub = isinstance(a, ast.Subscript) and txt(a.value) == nm and astx.same(a.slice, key_node)
            if is_get or is_sub:
                v = self.tr(b)
                return tm.neg(v) if isinstance(value.op, ast.Sub) else v
        return None

    def augassign(self, st: ast.AugAssign) -> None:
        t = st.target
        if varname(t) is not None and not isinstance(t, ast.Subscript):
            nm = varname(t)
            if any(varname(x) == nm for x in ast.walk(st.value) if isinstance(x, (ast.Name, ast.Attribute))) and self.defdepth.get(nm, 0) < self.cur_depth():
                self.env[nm] = OPQ(f"{nm} reads its own running value")
                return
            v = self.tr(st.value)
            if self.defdepth.get(nm, 0) >= self.cur_depth() or nm not in self.env:
                cur = self.env.get(nm, tm.sym(nm))
                self.env[nm] = _apply(st.op, cur, v)
                self.defdepth.setdefault(nm, self.cur_depth())
                return
            if isinstance(st.op, ast.Add):
                self.contribute(nm, "sum", v)
            elif isinstance(st.op, ast.Sub):
                self.contribute(nm, "sum", tm.neg(v))
            elif isinstance(st.op, ast.Mult):
                self.contribute(nm, "prod", v)
            elif isinstance(st.op, ast.Div):
                self.contribute(nm, "prod", tm.power(v, tm.const(-1)))
            else:
                self.env[nm] = OPQ(f"aug {type(st.op).__name__} in loop")
        elif isinstance(t, ast.Subscript) and varname(t.value) is not None and (varname(t.value) in self.env or "." in varname(t.value)):
            nm = varname(t.value)
            if nm not in self.env:
                self.env[nm] = self.translator().tr(ast.parse(nm, mode="eval").body)
                self.defdepth[nm] = 0
            key = self.tr(t.slice)
            v = self.tr(st.value)
            cur = self.env[nm]
            a = tm.single_atom(cur)
            is_dict = (a is not None and a[0] == "dictacc") or txt_is_empty_dict(cur)
            if self.defdepth.get(nm, 0) == self.cur_depth() and not is_dict:
                self.env[nm] = tm.upd(cur, key, _apply(st.op, tm.subscript(cur, key), v))
                return
            if isinstance(st.op, ast.Add):
                self.contribute(nm, "dict", ("inc", key, v))
            elif isinstance(st.op, ast.Sub):
                self.contribute(nm, "dict", ("inc", key, tm.neg(v)))
            elif isinstance(st.op, ast.Mult):
                self.contribute(nm, "dict", ("scale", key, v))
            elif isinstance(st.op, ast.Div):
                self.contribute(nm, "dict", ("scale", key, tm.power(v, tm.const(-1))))
            else:
                self.env[nm] = OPQ("aug store")
        else:
            r = astx.root_name(t)
            if r and r in self.env:
                self.env[r] = OPQ(f"augmented store into {txt(t)}")

    def opaque_assigned(self, st: ast.AST, why: str) -> None:
        for n in ast.walk(st):
            if isinstance(n, ast.Name) and isinstance(n.ctx, ast.Store):
                self.env[n.id] = OPQ(why)
                self.defdepth[n.id] = self.cur_depth()
            if isinstance(n, ast.Call) and isinstance(n.func, ast.Attribute) and isinstance(n.func.value, ast.Name) and n.func.attr in astx.MUTATOR_METHODS:
                self.env[n.func.value.id] = OPQ(why)

    def opaque_all(self, why: str) -> None:
        for f in self.frames:
            for nm in list(f.pending):
                self.env[nm] = OPQ(why)
                f.pending.pop(nm)
        self._poison = why

    _poison = None

    # ------------------------------------------------------------------ if
    def if_stmt(self, st: ast.If, rest: List[ast.stmt]):
        """Returns (term,) when the if/rest produce the function's return value, else None.  When a branch ends
        in `continue`, the rest of the enclosing block is executed here under the complementary guard and
        self._consumed_rest is set."""
        self._consumed_rest = False
        cond = self.tr(st.test)
        ncond = tm.mk_not(cond)
        body, orelse = list(st.body), list(st.orelse)
        b_cont = bool(body) and isinstance(body[-1], ast.Continue)
        e_cont = bool(orelse) and isinstance(orelse[-1], ast.Continue)
        b_ret = any(isinstance(x, (ast.Return, ast.Raise)) for x in body)
        e_ret = any(isinstance(x, (ast.Return, ast.Raise)) for x in orelse)
        if (b_ret or e_ret) and not self.frames:
            env0, dd0 = dict(self.env), dict(self.defdepth)
            r1 = self.branch(body, cond)
            if r1 is None:
                r1 = self.block(rest)
            env1 = self.env
            self.env, self.defdepth = dict(env0), dict(dd0)
            r2 = self.branch(orelse, ncond) if orelse else None
            if r2 is None:
                r2 = self.block(rest)
            # what the names (attributes) hold when the function is left depends on the path taken: an early `return` leaves
            # them as they were at that point (a raising path leaves nothing to look at)
            RAISE_ = tm.atom_poly(("raise",))
            env2 = self.env
            if r1 == RAISE_:
                pass
            elif r2 == RAISE_:
                self.env = env1
            else:
                merged = {}
                self.env = dict(env0)
                tr_ = self.translator()
                self.env = env2
                for nm in set(env1) | set(env2):
                    v1, v2 = env1.get(nm), env2.get(nm)
                    if "." in nm and nm not in env0 and (v1 is None) != (v2 is None):
                        # an attribute one path never touched still holds what it held on entry
                        try:
                            held = tr_.tr(ast.parse(nm, mode="eval").body)
                        except Exception:
                            held = None
                        v1, v2 = (held if v1 is None else v1), (held if v2 is None else v2)
                    if v1 is None or v2 is None:
                        merged[nm] = v1 if v1 is not None else v2
                    elif v1 == v2:
                        merged[nm] = v1
                    else:
                        merged[nm] = tm.mk_ifexp(cond, v1, v2)
                self.env = merged
            if r1 is None or r2 is None:
                return (OPQ("partial return"),)
            if r1 == r2:
                return (r1,)
            return (tm.mk_ifexp(cond, r1, r2),)
        if b_ret or e_ret:
            self.opaque_all("return inside loop")
            return None
        env0, dd0 = dict(self.env), dict(self.defdepth)
        self.branch(body[:-1] if b_cont else body, cond)
        if e_cont and not b_cont:
            # rest runs only on the body's path
            self.push_cond(cond)
            self.block(rest)
            self.pop_cond()
            self._consumed_rest = True
        env1 = dict(self.env)
        self.env, self.defdepth = dict(env0), dict(dd0)
        self.branch(orelse[:-1] if e_cont else orelse, ncond)
        if b_cont and not e_cont:
            self.push_cond(ncond)
            self.block(rest)
            self.pop_cond()
            self._consumed_rest = True
        env2 = self.env
        merged = {}
        for nm in set(env1) | set(env2):
            v1, v2 = env1.get(nm), env2.get(nm)
            if v1 is None or v2 is None:
                merged[nm] = v1 if v1 is not None else v2
            elif v1 == v2:
                merged[nm] = v1
            else:
                merged[nm] = tm.mk_ifexp(cond, v1, v2)
        self.env = merged
        if b_cont and e_cont:
            self._consumed_rest = True
        return None

    def push_cond(self, c):
        (self.frames[-1].conds if self.frames else self.top_conds).append(c)

    def pop_cond(self):
        (self.frames[-1].conds if self.frames else self.top_conds).pop()

    def branch(self, stmts, cond):
        self.push_cond(cond)
        try:
            return self.block(stmts)
        finally:
            self.pop_cond()

    # ------------------------------------------------------------------ loops
    def for_loop(self, st: ast.For) -> None:
        tr0 = self.translator()
        level = self.fresh_level()
        dom, elem, level = tr0.domain_elem(st.iter, level)
        f = Frame(dom, level)
        outer_conds = self.conds()
        saved = {}
        bound = tr0.bind(st.target, level, elem)
        for nm, v in bound.items():
            saved[nm] = (self.env.get(nm), self.defdepth.get(nm))
        # accumulators of this loop: names defined outside that the body writes into; while the loop runs
        # their value is not the initial one
        for nm in _written_names(st.body):
            if "." in nm and nm not in self.env:
                self.env[nm] = tr0.tr(ast.parse(nm, mode="eval").body)
                self.defdepth[nm] = 0
            if nm in self.env and nm not in bound:
                f.pending.setdefault(nm, [])
        self.frames.append(f)
        for nm, v in bound.items():
            self.env[nm] = v
            self.defdepth[nm] = self.cur_depth()
        names_before = set(self.env)
        self.block(list(st.body))
        self.frames.pop()
        # loop-local names do not escape with a meaningful value
        for nm in list(self.env):
            if self.defdepth.get(nm, 0) > self.cur_depth():
                if nm in saved and saved[nm][0] is not None:
                    self.env[nm], self.defdepth[nm] = saved[nm]
                else:
                    self.env[nm] = OPQ(f"{nm} after loop")
                    self.defdepth[nm] = self.cur_depth()
        if st.orelse:
            self.block(st.orelse)
        # `for x in L: x[i] -= 1` / `x.append(..)` changes the ELEMENTS of L in place: what L (and anything it was built
        # from by reference) holds afterwards is not what the summary of L says
        touched = _element_mutations(st.body) & set(bound)
        if touched:
            for n_ in ast.walk(st.iter):
                nm_ = varname(n_) if isinstance(n_, (ast.Name, ast.Attribute)) else None
                if nm_ and nm_ in self.env:
                    self.env[nm_] = OPQ(f"elements of {nm_} modified in place through {sorted(touched)}")
                    f.pending.pop(nm_, None)
        # close the frame: fold the contributions
        for nm, contribs in f.pending.items():
            if not contribs:
                continue
            ops = {c[0] for c in contribs}
            if len(ops) != 1:
                self.env[nm] = OPQ(f"mixed accumulation into {nm}")
                continue
            op = ops.pop()
            if op in ("sum", "prod", "seq") and len(contribs) > 1:
                contribs = _merge_exclusive(contribs)
            if op in ("sum", "prod"):
                groups: Dict[tuple, tuple] = {}
                for _, term, conds in contribs:
                    if conds in groups:
                        groups[conds] = tm.add(groups[conds], term) if op == "sum" else tm.mul(groups[conds], term)
                    else:
                        groups[conds] = term
                total = tm.ZERO if op == "sum" else tm.ONE
                for conds, body in groups.items():
                    d = ("filter", dom, tm.norm_conds(conds)) if conds else dom
                    red = tm.make_reduce(op, body, d, level)
                    total = tm.add(total, red) if op == "sum" else tm.mul(total, red)
                payload = total
            elif op == "seq":
                if len(contribs) != 1:
                    self.env[nm] = OPQ(f"several appends to {nm} per iteration")
                    continue
                _, body, conds = contribs[0]
                d = ("filter", dom, tm.norm_conds(conds)) if conds else dom
                a = tm.single_atom(body)
                payload = tm.atom_poly(("seq", body, d, level))
            else:  # dict entries
                ents = []
                for _, ent, conds in contribs:
                    if ent[0] == "entries":
                        for kind, key, val, ctx in ent[1]:
                            ents.append((kind, key, val, ((dom, level, tuple(conds)),) + ctx))
                    else:
                        kind, key, val = ent
                        ents.append((kind, key, val, ((dom, level, tuple(conds)),)))
                payload = ("entries", tuple(ents))
            if self.defdepth.get(nm, 0) >= self.cur_depth() or not self.frames:
                self.materialise(nm, op, payload)
            else:
                self.frames[-1].pending.setdefault(nm, []).append((op, payload, self.conds()))

    def materialise(self, nm: str, op: str, payload) -> None:
        cur = self.env.get(nm, tm.sym(nm))
        if op == "sum":
            self.env[nm] = tm.add(cur, payload)
        elif op == "prod":
            self.env[nm] = tm.mul(cur, payload)
        elif op == "seq":
            a = tm.single_atom(cur)
            if a is not None and a[0] == "list" and a[1] == ():
                self.env[nm] = payload
            else:
                self.env[nm] = tm.concat(cur, payload)
        else:
            a = tm.single_atom(cur)
            old = ()
            base = None
            if a is not None and a[0] == "dictacc":
                old = a[1]
                base = a[2] if len(a) > 2 else None
            elif txt_is_empty_dict(cur):
                base = None
            else:
                base = cur
            ents = old + payload[1]
            # element-wise update of a whole list:  for i in range(len(L)): L[i] op= v   ->  [L[i] op v for i ...]
            if base is not None and not old and len(payload[1]) == 1:
                kind, key, val, ctx = payload[1][0]
                if len(ctx) == 1 and not ctx[0][2] and isinstance(ctx[0][0], tuple) and ctx[0][0][0] == "range" and ctx[0][0][1] == tm.ZERO \
                        and ctx[0][0][2] == tm.length_of(base) and key == tm.sym(f"#{ctx[0][1]}"):
                    cur_el = tm.subscript(base, key)
                    new_el = {"scale": tm.mul(cur_el, val), "inc": tm.add(cur_el, val), "set": val}.get(kind)
                    if new_el is not None:
                        self.env[nm] = tm.atom_poly(("seq", new_el, ctx[0][0], ctx[0][1]))
                        return
            self.env[nm] = tm.atom_poly(("dictacc", tuple(ents)) + ((base,) if base is not None else ()))

    def fresh_level(self) -> int:
        lv = len(self.frames)
        for v in self.env.values():
            for leaf in tm.leaves(v):
                if leaf.startswith("#") and leaf[1:].split(".")[0].isdigit():
                    lv = max(lv, int(leaf[1:].split(".")[0]) + 1)
        for f in self.frames:
            lv = max(lv, f.level + 1)
        return lv


def _mutated_anywhere(body) -> set:
    """names whose object is modified in place somewhere in body (element store, augmented element store, mutator call)"""
    out = set()
    for st in body:
        for n in ast.walk(st):
            if isinstance(n, (ast.Assign, ast.AugAssign, ast.Delete)):
                for t in (n.targets if isinstance(n, (ast.Assign, ast.Delete)) else [n.target]):
                    for e in (t.elts if isinstance(t, (ast.Tuple, ast.List)) else [t]):
                        if isinstance(e, ast.Subscript) and varname(e.value):
                            out.add(varname(e.value))
            elif isinstance(n, ast.Call) and isinstance(n.func, ast.Attribute) and n.func.attr in astx.MUTATOR_METHODS and varname(n.func.value):
                out.add(varname(n.func.value))
    return out


def _mutation_lines(body, order=None) -> Dict[str, List[int]]:
    """positions (pre-order index in the function body - spliced code keeps foreign line numbers) at which a name's object is
    modified in place"""
    order = order or {}
    out: Dict[str, List[int]] = {}
    for st in body:
        for n in ast.walk(st):
            if isinstance(n, (ast.Assign, ast.AugAssign, ast.Delete)):
                for t in (n.targets if isinstance(n, (ast.Assign, ast.Delete)) else [n.target]):
                    for e in (t.elts if isinstance(t, (ast.Tuple, ast.List)) else [t]):
                        if isinstance(e, ast.Subscript) and varname(e.value):
                            out.setdefault(varname(e.value), []).append(order.get(id(n), -1))
            elif isinstance(n, ast.Call) and isinstance(n.func, ast.Attribute) and n.func.attr in astx.MUTATOR_METHODS and varname(n.func.value):
                out.setdefault(varname(n.func.value), []).append(order.get(id(n), -1))
    return out


def _merge_exclusive(contribs):
    """Contributions of the SAME term made on mutually exclusive branches of one iteration (if / elif / else arms)
    are one contribution under the disjunction of the branch conditions."""
    out = []
    for c in contribs:
        op, body, conds = c
        merged = False
        for i, (op2, body2, conds2) in enumerate(out):
            if op2 == op and body2 == body and conds and conds2 and tm.exclusive(conds, conds2):
                disj = tm.mk_bool("Or", (tm.mk_bool("And", tuple(conds)), tm.mk_bool("And", tuple(conds2))))
                out[i] = (op, body, list(tm.norm_conds((disj,))))
                merged = True
                break
        if not merged:
            out.append(c)
    return out


def _written_names(body) -> set:
    """Tracked variables a loop body accumulates into (subscript / augmented stores, append/add calls);
    plain re-binding `x = ...` makes x a loop-local temporary instead."""
    out, rebound = set(), set()
    for st in body:
        for n in ast.walk(st):
            if isinstance(n, ast.Assign):
                for t in n.targets:
                    if isinstance(t, ast.Subscript) and varname(t.value):
                        out.add(varname(t.value))
                    elif varname(t):
                        v = n.value
                        own = isinstance(v, ast.BinOp) and (varname(v.left) == varname(t) or varname(v.right) == varname(t))
                        (out if own else rebound).add(varname(t))
            elif isinstance(n, ast.AugAssign):
                t = n.target
                if isinstance(t, ast.Subscript) and varname(t.value):
                    out.add(varname(t.value))
                elif varname(t):
                    out.add(varname(t))
            elif isinstance(n, ast.Call) and isinstance(n.func, ast.Attribute) and n.func.attr in ("append", "add", "extend", "update", "setdefault") and varname(n.func.value):
                out.add(varname(n.func.value))
    return out - rebound


def _element_mutations(body) -> set:
    """Names whose OBJECT a loop body modifies in place: subscript / attribute stores and deletes, mutator method calls."""
    out = set()
    for st in body:
        for n in ast.walk(st):
            tgts = []
            if isinstance(n, ast.Assign):
                for t in n.targets:
                    tgts.extend(t.elts if isinstance(t, (ast.Tuple, ast.List)) else [t])
            elif isinstance(n, (ast.AugAssign, ast.AnnAssign)):
                tgts = [n.target]
            elif isinstance(n, ast.Delete):
                tgts = list(n.targets)
            for t in tgts:
                if isinstance(t, (ast.Subscript, ast.Attribute)) and isinstance(t.value, ast.Name):
                    out.add(t.value.id)
            if isinstance(n, ast.Call) and isinstance(n.func, ast.Attribute) and isinstance(n.func.value, ast.Name) and n.func.attr in astx.MUTATOR_METHODS:
                out.add(n.func.value.id)
    return out


def txt_is_empty_dict(p: tuple) -> bool:
    a = tm.single_atom(p)
    return a is not None and ((a[0] == "opaque" and a[1] in ("{}",)) or (a[0] == "call" and a[1] in ("dict", "set", "Counter", "defaultdict") and not a[2]) or a[0] == "emptydict")


def _apply(op, a, b):
    if isinstance(op, ast.Add):
        if tm.is_seq_kind(a) or tm.is_seq_kind(b):
            return tm.concat(a, b)
        return tm.add(a, b)
    if isinstance(op, ast.Sub):
        return tm.sub(a, b)
    if isinstance(op, ast.Mult):
        return tm.mul(a, b)
    if isinstance(op, ast.Div):
        return tm.div(a, b)
    if isinstance(op, ast.Pow):
        return tm.power(a, b)
    if isinstance(op, ast.FloorDiv):
        return tm.atom_poly(("floordiv", a, b))
    return OPQ(f"aug {type(op).__name__}")
