"""Program model: modules, import maps, classes (with MRO), functions, anchors."""
from __future__ import annotations

import ast
import hashlib
import os
import warnings
from dataclasses import dataclass, field
from typing import Dict, Iterator, List, Optional


class AnalysisError(Exception):
    """Something the analysis needs is missing or not understood (exit 2, never a violation)."""


@dataclass
class FuncInfo:
    name: str
    qualname: str
    module: "ModuleInfo"
    node: ast.AST
    cls: Optional["ClassInfo"] = None
    parent: Optional["FuncInfo"] = None
    nested: Dict[str, "FuncInfo"] = field(default_factory=dict)

    @property
    def params(self) -> List[str]:
        a = self.node.args
        return [x.arg for x in a.posonlyargs + a.args + a.kwonlyargs]

    @property
    def decorators(self) -> List[str]:
        return [ast.unparse(d) for d in self.node.decorator_list]

    @property
    def is_static(self) -> bool:
        return "staticmethod" in self.decorators

    @property
    def body(self) -> List[ast.stmt]:
        b = self.node.body
        if b and isinstance(b[0], ast.Expr) and isinstance(b[0].value, ast.Constant) and isinstance(b[0].value.value, str):
            return b[1:]
        return b

    @property
    def file(self) -> str:
        return self.module.relpath

    def loc(self, node: Optional[ast.AST] = None) -> str:
        n = node if node is not None and hasattr(node, "lineno") else self.node
        return f"{self.file}:{n.lineno}"

    def __repr__(self):
        return f"<Func {self.qualname}>"


@dataclass
class ClassInfo:
    name: str
    module: "ModuleInfo"
    node: ast.ClassDef
    base_names: List[str] = field(default_factory=list)
    methods: Dict[str, FuncInfo] = field(default_factory=dict)
    class_attrs: Dict[str, ast.AST] = field(default_factory=dict)

    def __repr__(self):
        return f"<Class {self.name}>"


@dataclass
class ModuleInfo:
    name: str  # dotted
    path: str
    relpath: str
    source: str
    tree: ast.Module
    imports: Dict[str, str] = field(default_factory=dict)  # local name -> dotted target
    functions: Dict[str, FuncInfo] = field(default_factory=dict)
    classes: Dict[str, ClassInfo] = field(default_factory=dict)
    digest: str = ""


class Program:
    def __init__(self, repo_root: str, package: str = "gcmpy"):
        self.repo_root = os.path.abspath(repo_root)
        self.package = package
        self.modules: Dict[str, ModuleInfo] = {}
        self.classes: Dict[str, ClassInfo] = {}
        self.functions: Dict[str, FuncInfo] = {}
        self.consulted: Dict[str, str] = {}
        self._load()

    # ------------------------------------------------------------------ loading
    def _load(self) -> None:
        pkg_dir = os.path.join(self.repo_root, self.package)
        if not os.path.isdir(pkg_dir):
            raise AnalysisError(f"package directory {pkg_dir} not found")
        pending = []
        for dirpath, dirnames, filenames in os.walk(pkg_dir):
            dirnames[:] = sorted(d for d in dirnames if d != "__pycache__")
            for fn in sorted(filenames):
                if not fn.endswith(".py"):
                    continue
                path = os.path.join(dirpath, fn)
                rel = os.path.relpath(path, self.repo_root)
                try:
                    with open(path, "rb") as fh:
                        raw = fh.read()
                    src = raw.decode("utf-8")
                    with warnings.catch_warnings():
                        warnings.simplefilter("ignore")
                        tree = ast.parse(src, filename=rel)
                except (OSError, SyntaxError, UnicodeDecodeError) as e:
                    raise AnalysisError(f"cannot parse {rel}: {e}")
                modname = rel[:-3].replace(os.sep, ".")
                if modname.endswith(".__init__"):
                    modname = modname[: -len(".__init__")]
                mi = ModuleInfo(modname, path, rel, src, tree, digest=hashlib.sha256(raw).hexdigest()[:16])
                self.modules[modname] = mi
                pending.append((mi, fn == "__init__.py"))
        # canonicalise refactoring-introduced helpers / unrolled loops away before any rule looks (normalize.py)
        from gcmstatic.normalize import normalize_program
        self.normalized = normalize_program({m.name: m.tree for m, _ in pending})
        for mi, is_pkg in pending:
            self._index_module(mi, is_pkg=is_pkg)

    def _index_module(self, mi: ModuleInfo, is_pkg: bool) -> None:
        # function-local imports count too (approximation: module-wide visibility)
        for st in ast.walk(mi.tree):
            if isinstance(st, ast.Import) and st not in mi.tree.body:
                for a in st.names:
                    mi.imports.setdefault(a.asname or a.name.split(".")[0], a.name if a.asname else a.name.split(".")[0])
            elif isinstance(st, ast.ImportFrom) and st not in mi.tree.body and not st.level:
                for a in st.names:
                    mi.imports.setdefault(a.asname or a.name, f"{st.module}.{a.name}")
        for st in mi.tree.body:
            if isinstance(st, ast.Import):
                for a in st.names:
                    mi.imports[a.asname or a.name.split(".")[0]] = a.name if a.asname else a.name.split(".")[0]
            elif isinstance(st, ast.ImportFrom):
                base = st.module or ""
                if st.level:
                    parts = mi.name.split(".")
                    if not is_pkg:
                        parts = parts[:-1]
                    parts = parts[: len(parts) - (st.level - 1)]
                    base = ".".join(parts + ([st.module] if st.module else []))
                for a in st.names:
                    mi.imports[a.asname or a.name] = f"{base}.{a.name}"
            elif isinstance(st, (ast.FunctionDef, ast.AsyncFunctionDef)):
                fi = FuncInfo(st.name, st.name, mi, st)
                mi.functions[st.name] = fi
                self._register_func(fi)
            elif isinstance(st, ast.ClassDef):
                ci = ClassInfo(st.name, mi, st, [ast.unparse(b) for b in st.bases])
                mi.classes[st.name] = ci
                if st.name in self.classes:
                    raise AnalysisError(f"duplicate class name {st.name}")
                self.classes[st.name] = ci
                for cst in st.body:
                    if isinstance(cst, (ast.FunctionDef, ast.AsyncFunctionDef)):
                        decos = [ast.unparse(d) for d in cst.decorator_list]
                        if any(d.endswith(".setter") for d in decos):
                            key = cst.name + ".setter"
                        else:
                            key = cst.name
                        fi = FuncInfo(cst.name, f"{st.name}.{key}", mi, cst, cls=ci)
                        ci.methods[key] = fi
                        self._register_func(fi)
                    elif isinstance(cst, ast.Assign):
                        for t in cst.targets:
                            if isinstance(t, ast.Name):
                                ci.class_attrs[t.id] = cst.value
                    elif isinstance(cst, ast.AnnAssign) and isinstance(cst.target, ast.Name) and cst.value is not None:
                        ci.class_attrs[cst.target.id] = cst.value

    def _register_func(self, fi: FuncInfo) -> None:
        self.functions[fi.qualname] = fi
        for st in ast.walk(fi.node):
            if st is fi.node:
                continue
            if isinstance(st, (ast.FunctionDef, ast.AsyncFunctionDef)) and self._direct_parent_func(fi.node, st):
                sub = FuncInfo(st.name, f"{fi.qualname}.{st.name}", fi.module, st, cls=None, parent=fi)
                fi.nested[st.name] = sub
                self._register_func(sub)

    @staticmethod
    def _direct_parent_func(outer: ast.AST, inner: ast.AST) -> bool:
        # inner is nested directly in outer (not in a deeper nested def)
        stack = [(outer, 0)]
        while stack:
            n, depth = stack.pop()
            for ch in ast.iter_child_nodes(n):
                if ch is inner:
                    return depth == 0
                if isinstance(ch, (ast.FunctionDef, ast.AsyncFunctionDef, ast.Lambda)):
                    stack.append((ch, depth + 1))
                else:
                    stack.append((ch, depth))
        return False

    # ------------------------------------------------------------------ queries
    def cls(self, name: str) -> ClassInfo:
        if name not in self.classes:
            raise AnalysisError(f"anchor class {name} not found in {self.package}")
        ci = self.classes[name]
        self.consulted[ci.module.relpath] = ci.module.digest
        return ci

    def func(self, qualname: str) -> FuncInfo:
        """Anchor lookup: 'Class.method', 'function' or 'outer.inner'.  For methods the MRO is NOT
        followed (use method()); a missing anchor is an AnalysisError."""
        fi = self.functions.get(qualname)
        if fi is None:
            raise AnalysisError(f"anchor function {qualname} not found in {self.package}")
        self.consulted[fi.module.relpath] = fi.module.digest
        return fi

    def has_func(self, qualname: str) -> bool:
        return qualname in self.functions

    def bases(self, ci: ClassInfo) -> List[ClassInfo]:
        out = []
        for b in ci.base_names:
            nm = b.split(".")[-1]
            if nm in self.classes:
                out.append(self.classes[nm])
        return out

    def mro(self, ci: ClassInfo) -> List[ClassInfo]:
        # single inheritance everywhere in the package; a linearisation by DFS is the C3 order then
        out, seen = [], set()

        def rec(c):
            if c.name in seen:
                return
            seen.add(c.name)
            out.append(c)
            for b in self.bases(c):
                rec(b)

        rec(ci)
        return out

    def method(self, ci: ClassInfo, name: str) -> Optional[FuncInfo]:
        for c in self.mro(ci):
            if name in c.methods:
                fi = c.methods[name]
                self.consulted[fi.module.relpath] = fi.module.digest
                return fi
        return None

    def class_attr(self, ci: ClassInfo, name: str) -> Optional[ast.AST]:
        for c in self.mro(ci):
            if name in c.class_attrs:
                return c.class_attrs[name]
        return None

    def subclasses(self, ci: ClassInfo) -> List[ClassInfo]:
        return [c for c in self.classes.values() if c is not ci and ci in self.mro(c)]

    def residual_helpers(self, fn: FuncInfo) -> List[str]:
        """Names of repo functions called (directly) by fn that do not exist on the pinned tree: helpers introduced by
        a later edit that the normaliser could not inline."""
        cache = self.__dict__.setdefault("_residual", {})
        if fn.qualname in cache:
            return cache[fn.qualname]
        from gcmstatic.normalize import load_vocabulary
        vocab = self.__dict__.setdefault("_vocab", load_vocabulary())
        out = []
        if vocab:
            new = {}
            for q, f in self.functions.items():
                if q not in vocab and not (f.parent is not None and f.parent.qualname in vocab and False):
                    new.setdefault(f.name, q)
            if new:
                for n in ast.walk(fn.node):
                    if isinstance(n, ast.Call):
                        nm = n.func.attr if isinstance(n.func, ast.Attribute) else (n.func.id if isinstance(n.func, ast.Name) else None)
                        if nm in new and new[nm] != fn.qualname:
                            # a nested function of fn itself is part of fn
                            if self.functions[new[nm]].parent is fn:
                                continue
                            # `d.pop(k)`, `G.copy()`, `s.add(x)` on some object are the container's / graph's own methods, not
                            # a new repo method that happens to share the name (only self.m() / cls.m() / Class.m() / m() count)
                            from gcmstatic.normalize import _library_method_names
                            if isinstance(n.func, ast.Attribute) and (nm in _CONTAINER_METHODS or nm in _library_method_names()) and not (
                                    isinstance(n.func.value, ast.Name) and (n.func.value.id in ("self", "cls") or n.func.value.id in self.classes)):
                                continue
                            out.append(nm)
        cache[fn.qualname] = sorted(set(out))
        return cache[fn.qualname]

    REWRITE_THRESHOLD = 0.40

    def survives(self, fn: FuncInfo) -> float:
        """Fraction (multiset Jaccard of abstract statement tokens) of fn that is still the pinned function; 1.0 when
        the pinned tree has no function of that name."""
        shapes = self.__dict__.get("_shapes")
        if shapes is None:
            try:
                import json as _json
                shapes = _json.load(open(os.path.join(os.path.dirname(os.path.dirname(os.path.abspath(__file__))), "known_functions.json"))).get("shapes", {})
            except Exception:
                shapes = {}
            self.__dict__["_shapes"] = shapes
        ref = shapes.get(fn.qualname)
        if ref is None or len(ref) < 15:
            return 1.0     # unknown, or too small for the measure to mean anything (a one-line edit changes most of it)
        return shape_similarity(ref, shape_tokens(fn.node))

    def all_functions(self) -> Iterator[FuncInfo]:
        return iter(self.functions.values())

    def resolve_name(self, mi: ModuleInfo, name: str) -> str:
        """Dotted target of a module-level name: repo definition or external path."""
        if name in mi.functions:
            return f"{mi.name}.{name}"
        if name in mi.classes:
            return f"{mi.name}.{name}"
        return mi.imports.get(name, name)

    def external(self, mi: ModuleInfo, expr: ast.AST) -> Optional[str]:
        """Dotted external path of a Name/Attribute chain rooted at an import, e.g. random.shuffle,
        networkx.set_node_attributes, itertools.combinations; None if not rooted at an import."""
        parts = []
        n = expr
        while isinstance(n, ast.Attribute):
            parts.append(n.attr)
            n = n.value
        if not isinstance(n, ast.Name):
            return None
        if n.id not in mi.imports:
            return None
        return ".".join([mi.imports[n.id]] + list(reversed(parts)))

    def enum_value(self, enum_cls: str, member: str):
        ci = self.classes.get(enum_cls)
        if ci is None:
            return None
        v = ci.class_attrs.get(member)
        if isinstance(v, ast.Constant):
            return v.value
        return None

    def note(self, mi: ModuleInfo) -> None:
        self.consulted[mi.relpath] = mi.digest


_CONTAINER_METHODS = {m for ty in (dict, list, set, tuple, str, frozenset) for m in dir(ty) if not m.startswith("__")}


# ----------------------------------------------------------------------------- how much of a function is still the pinned one
def shape_tokens(fn_node: ast.AST) -> List[str]:
    """One token per statement / call of the function: node type plus the types of its direct children, names and
    constants abstracted away.  Used only to measure how much of a function survives from the pinned tree."""
    out = []
    for n in ast.walk(fn_node):
        if isinstance(n, (ast.stmt, ast.Call, ast.Compare, ast.BinOp)) and n is not fn_node:
            kids = [type(c).__name__ for c in ast.iter_child_nodes(n) if not isinstance(c, (ast.expr_context, ast.operator, ast.cmpop, ast.boolop, ast.unaryop))]
            extra = ""
            if isinstance(n, ast.Call):
                extra = n.func.attr if isinstance(n.func, ast.Attribute) else (n.func.id if isinstance(n.func, ast.Name) else "")
            elif isinstance(n, (ast.Compare,)):
                extra = ",".join(type(o).__name__ for o in n.ops)
            elif isinstance(n, ast.BinOp):
                extra = type(n.op).__name__
            out.append(f"{type(n).__name__}:{extra}:{'.'.join(kids)}")
    return out


def shape_similarity(a: List[str], b: List[str]) -> float:
    from collections import Counter
    ca, cb = Counter(a), Counter(b)
    inter = sum((ca & cb).values())
    union = sum((ca | cb).values())
    return 1.0 if union == 0 else inter / union
