"""Formula conformance: a repo function's summarised term against reference implementations written in the
checker as Python source (the formula the property names, in its simplest spelling).  Both sides go through
the same parser, the same function summariser and the same normaliser, so there is no second semantics to
trust.  Parameters are matched positionally, so renaming a parameter in the repo changes nothing."""
from __future__ import annotations

import ast
import textwrap
from typing import Dict, List, Optional, Sequence, Tuple

from . import tm
from .funterm import FunTerm
from .pm import FuncInfo


def _params(fn_node) -> List[str]:
    ps = [a.arg for a in fn_node.args.posonlyargs + fn_node.args.args]
    return ps[1:] if ps and ps[0] in ("self", "cls") else ps


def _anonymise_running(t: tuple) -> tuple:
    """`running(<name>, init)` marks the value an accumulator has while its loop runs; the accumulator's NAME is the
    repository's choice and must not matter: names are replaced by acc0, acc1, ... in order of first appearance."""
    names: List[str] = []

    def collect(x):
        if isinstance(x, tuple):
            if len(x) == 3 and x[0] == "running" and isinstance(x[1], str):
                if x[1] not in names:
                    names.append(x[1])
            for y in x:
                collect(y)
    collect(t)
    if not names:
        return t
    mapping = {n: f"acc{i}" for i, n in enumerate(names)}

    def rec(x):
        if isinstance(x, tuple):
            if len(x) == 3 and x[0] == "running" and isinstance(x[1], str):
                return ("running", mapping[x[1]], rec(x[2]))
            return tuple(rec(y) for y in x)
        return x
    return rec(t)


def term_of_node(fn_node: ast.AST, call_hook=None, inline: Optional[Dict[str, ast.AST]] = None, extra_env=None) -> tuple:
    ps = _params(fn_node)
    args = [tm.sym(f"${i}") for i in range(len(ps))]
    ft = FunTerm(call_hook, inline)
    all_ps = [a.arg for a in fn_node.args.posonlyargs + fn_node.args.args]
    if len(all_ps) != len(ps):
        args = [tm.sym("self")] + args
    return _anonymise_running(tm.canon(ft.of_function(fn_node, args, extra_env=extra_env)))


def term_of_fn(fn: FuncInfo, call_hook=None, inline=None) -> tuple:
    return term_of_node(fn.node, call_hook, inline)


def term_of_src(src: str, call_hook=None, inline=None) -> tuple:
    mod = ast.parse(textwrap.dedent(src))
    fns = [n for n in mod.body if isinstance(n, ast.FunctionDef)]
    inl = dict(inline or {})
    for f in fns[:-1]:
        inl[f.name] = f
    return term_of_node(fns[-1], call_hook, inl)


def attr_term_of_node(fn_node: ast.AST, attr: str, call_hook=None, inline=None) -> tuple:
    """Final value of the pseudo-variable `self.<attr>` after the function body (for effectful helpers)."""
    ps = _params(fn_node)
    args = [tm.sym(f"${i}") for i in range(len(ps))]
    all_ps = [a.arg for a in fn_node.args.posonlyargs + fn_node.args.args]
    if len(all_ps) != len(ps):
        args = [tm.sym("self")] + args
    ft = FunTerm(call_hook, inline)
    ft.of_function(fn_node, args)
    v = ft.final_env().get(f"self.{attr}")
    if v is None:
        return tm.atom_poly(("opaque", f"self.{attr} is not written"))
    return _anonymise_running(tm.canon(v))


def conform_attr(o, fn: FuncInfo, attr: str, refs: Sequence[str], what: str, call_hook=None, inline=None, node=None) -> str:
    extra = helper_inlines(getattr(o.ctx, "prog", None), fn, refs)
    code_inline = dict(inline or {})
    code_inline.update(extra)
    t = attr_term_of_node(fn.node, attr, call_hook, code_inline)
    rts = []
    for r in refs:
        mod = ast.parse(textwrap.dedent(r))
        rts.append(attr_term_of_node([n for n in mod.body if isinstance(n, ast.FunctionDef)][-1], attr, call_hook, inline))
    return _verdict(o, fn, t, rts, what, node)


def _new_helper_calls(o, t) -> List[str]:
    """Calls, inside the normal form, of repo functions that do not exist on the pinned tree (helpers introduced by a
    refactoring that could not be inlined): the term is then not comparable with the reference formula."""
    prog = getattr(getattr(o, "ctx", None), "prog", None)
    if prog is None:
        return []
    from .normalize import load_vocabulary
    vocab = load_vocabulary()
    if not vocab:
        return []
    new = {q.split(".")[-1] for q in prog.functions if q not in vocab}
    out = []
    for leaf in tm.leaves(t):
        if leaf.endswith("()"):
            nm = leaf[:-2].lstrip(".").split(".")[-1]
            if nm in new:
                out.append(nm)
    return sorted(set(out))


def _verdict(o, fn, t, rts, what, node):
    for rt in rts:
        if t == rt:
            o.holds(fn, node or fn.node, f"{what}: normal form equals the reference formula", construct=tm.show(t)[:400])
            return "equal"
    nh = _new_helper_calls(o, t)
    if nh:
        o.undecided(f"{what}: the code goes through the new helper(s) {nh}, which could not be inlined", fn, node or fn.node)
        return "undecided"
    if tm.has_opaque(t):
        o.undecided(f"{what}: the function contains a construct the summariser does not understand: {tm.show(t)[:200]}", fn, node or fn.node)
        return "undecided"
    # The same repo method called with MORE arguments than in any reference spelling: a parameter was added to it (a memo
    # table, an option).  What the callee does with it is not part of this formula: not comparable.
    def _arities(x, acc):
        if isinstance(x, tuple):
            if len(x) == 3 and x[0] == "call" and isinstance(x[1], str) and x[1].startswith(".") and isinstance(x[2], tuple):
                acc.setdefault(x[1], set()).add(len(x[2]))
            for y in x:
                _arities(y, acc)
        return acc
    ta = _arities(t, {})
    ra = {}
    for rt in rts:
        _arities(rt, ra)
    # a buffer that is created once, outside the loop, and overwritten in every iteration (`row = [0] * n` hoisted out of
    # `for k: row[0] = k; d[tuple(row)] = ..`) is summarised as a loop-carried value; whether each iteration overwrites all
    # that the previous one wrote is not decided here
    def _is_buffer_init(init):
        # a SCRATCH buffer: a fresh fixed-size container (`[0] * n`, a display of constants, numpy zeros / empty) that every
        # iteration overwrites.  An accumulator that starts empty or at a number, a list built by appends, or an existing object
        # updated in place is not one: what it makes of the formula is compared as usual
        if not (isinstance(init, tuple) and init and init[0] == "P"):
            return False
        a = tm.single_atom(init)
        if a is None:
            return False
        if a[0] == "repeat":
            return True
        if a[0] in ("list", "tuple") and len(a) == 2 and a[1] and all(tm.is_const(e_) is not None for e_ in a[1]):
            return True
        if a[0] == "call" and isinstance(a[1], str) and a[1].split(".")[-1] in ("zeros", "empty", "ones", "full"):
            return True
        return False

    def _has_running(x):
        return isinstance(x, tuple) and ((len(x) == 3 and x[0] == "running" and _is_buffer_init(x[2])) or any(_has_running(y) for y in x))
    if _has_running(t) and not any(_has_running(rt) for rt in rts):
        o.undecided(f"{what}: the code keeps a mutable buffer across the iterations of a loop (hoisted out of it): not comparable with the formula", fn, node or fn.node)
        return "undecided"
    # The same formula, but the NUMBER OF ITERATIONS of a reduction is read off another sequence than in the reference
    # (`for p, m in zip(self._probs, jd)` against `for i in range(len(jd))`): equal whenever the zipped sequences have
    # equal lengths - an invariant of the callers, not decided here.  A length used as a VALUE (a divisor, a factor) is
    # not touched by this.
    def _erase_counts(x, inrange=False):
        if isinstance(x, tuple):
            if inrange and len(x) == 3 and x[0] == "call" and x[1] == "len":
                return ("sym", "$count")
            if x and x[0] == "range":
                return ("range",) + tuple(_erase_counts(y, True) for y in x[1:])
            return tuple(_erase_counts(y, inrange) for y in x)
        return x
    try:
        te = tm.canon(_erase_counts(t))
        if any(te == tm.canon(_erase_counts(rt)) for rt in rts):
            o.undecided(f"{what}: the formula is the reference's, but an iteration count is taken from another sequence (`len(..)` of a different operand): "
                        f"equal when the sequences have equal lengths, which is not decided here", fn, node or fn.node)
            return "undecided"
    except Exception:
        pass
    # `max(n, 1)` on a count (n >= 0): the clamp binds only when the counted collection is EMPTY - typically a divisor inside a loop over
    # that very collection, which then does not run.  Equal to the formula everywhere else; the empty case is not decided here.
    def _erase_unit_clamp(x):
        if isinstance(x, tuple):
            if len(x) == 3 and x[0] == "call" and x[1] == "max" and isinstance(x[2], tuple) and len(x[2]) == 2:
                for c_, other in ((x[2][0], x[2][1]), (x[2][1], x[2][0])):
                    try:
                        if tm.is_const(c_) == 1 and tm.lower_bound(other) == 0:
                            oa = tm.single_atom(other)
                            return _erase_unit_clamp(oa) if oa is not None else x
                    except Exception:
                        pass
            return tuple(_erase_unit_clamp(y) for y in x)
        return x
    try:
        tc = tm.canon(_erase_unit_clamp(t))
        if tc != t and any(tc == rt for rt in rts):
            o.undecided(f"{what}: the formula is the reference's up to `max(<count>, 1)`: the clamp binds only for an empty collection, a case not decided here", fn, node or fn.node)
            return "undecided"
    except Exception:
        pass
    more = sorted(nm for nm, ns in ta.items() if nm in ra and max(ns) > max(ra[nm]))
    if more:
        o.undecided(f"{what}: the code calls {more} with more arguments than the formula does (a parameter was added to it): not comparable", fn, node or fn.node)
        return "undecided"
    # A mutation of the formula (operator, index, bound, dropped or swapped factor) speaks the vocabulary of the
    # reference.  A term that brings in library calls / attributes / functions that no reference spelling mentions is a
    # different WAY of computing something - the rewrite rules are not complete for that, so it is not accused.
    known = set()
    for rt in rts:
        known |= tm.leaves(rt)
    import builtins as _b
    plain = set(dir(_b)) | {m for ty in (dict, list, set, tuple, str, frozenset) for m in dir(ty)}

    def _is_foreign(l):
        if l.endswith("()"):
            nm = l[:-2].lstrip(".")
            return nm.split(".")[-1] not in plain or ("." in nm and nm.split(".")[0] not in ("self",))
        return "." in l and not l.startswith("self.") and not l.startswith("$") and not l.startswith("@") and not l.startswith("#")
    foreign = sorted(l for l in tm.leaves(t) - known if _is_foreign(l))
    if foreign:
        o.undecided(f"{what}: the code uses {foreign[:4]}, which no reference spelling of the formula mentions: not comparable", fn, node or fn.node)
        return "undecided"
    # A term that distinguishes MORE cases than any reference spelling (extra if-expressions: a fast path, an
    # empty-input branch) is a restructuring the rewrite rules cannot be expected to fold back; a wrong special case
    # would need a rule of its own (cf. the UNDECIDED shortcut of seed C16-min-degree-shortcut).
    def _n_if(x):
        n_ = 0
        if isinstance(x, tuple):
            if x and x[0] == "ifexp":
                n_ += 1
            for y in x:
                n_ += _n_if(y)
        return n_
    # One extra case selected by `<parameter> == <constant>` whose other branch IS the formula: evaluate the formula at that point.
    # Equal -> the shortcut agrees with the formula there (holds).  Different, with both sides plain polynomials after the substitution
    # (no sums / products left that might still fold) -> the shortcut returns something else than the formula does at that point.
    try:
        at = tm.single_atom(t)
        if at is not None and at[0] == "ifexp" and len(at) == 4:
            ca = tm.single_atom(at[1])
            if ca is not None and ca[0] == "cmp" and ca[1] == "Eq":
                lhs, rhs = ca[2], ca[3]
                for sy, cv in ((lhs, rhs), (rhs, lhs)):
                    sa = tm.single_atom(sy)
                    if sa is not None and sa[0] == "sym" and tm.is_const(cv) is not None:
                        for rt in rts:
                            if at[3] == rt:
                                special = tm.canon(tm.subst(at[2], sa[1], cv))
                                formula = tm.canon(tm.subst(rt, sa[1], cv))
                                if special == formula:
                                    o.holds(fn, node or fn.node, f"{what}: the extra case `{tm.show(at[1])}` returns what the formula gives at that point; elsewhere the normal form "
                                                                 "equals the reference formula", construct=tm.show(t)[:400])
                                    return "equal"
                                def _plain(x):
                                    return not any(isinstance(y, tuple) and y and y[0] in ("sum", "prod", "seq", "reduce", "ifexp", "opaque") for y in _walk(x))
                                def _walk(x):
                                    if isinstance(x, tuple):
                                        yield x
                                        for y in x:
                                            yield from _walk(y)
                                if _plain(special) and _plain(formula):
                                    o.violated(fn, node or fn.node, f"{what}: the shortcut for `{tm.show(at[1])}` returns  {tm.show(special)[:120]}  but the formula gives  "
                                                                    f"{tm.show(formula)[:120]}  at that point")
                                    return "different"
    except Exception:
        pass
    if _n_if(t) > max(_n_if(rt) for rt in rts):
        o.undecided(f"{what}: the code distinguishes more cases than the formula ({_n_if(t)} conditional(s)): not comparable", fn, node or fn.node)
        return "undecided"
    o.violated(fn, node or fn.node, f"{what}: code normalises to  {tm.show(t)[:600]}  but the formula is  {tm.show(rts[0])[:600]}",
               construct=tm.show(t)[:400])
    return "different"


def helper_inlines(prog, fn: FuncInfo, refs: Sequence[str]) -> Dict[str, ast.AST]:
    """Methods of fn's class that fn calls as self.X(...) and that the reference formulas do not mention: helpers
    introduced by a refactoring.  They are inlined (on the code side) so that a correct extraction into a helper
    normalises to the same term; a helper the summariser cannot follow makes the obligation undecided."""
    if prog is None or fn.cls is None:
        return {}
    mentioned = set()
    for r in refs:
        for n in ast.walk(ast.parse(textwrap.dedent(r))):
            if isinstance(n, ast.Call) and isinstance(n.func, ast.Attribute) and isinstance(n.func.value, ast.Name) and n.func.value.id == "self":
                mentioned.add(n.func.attr)
    out = {}
    for n in ast.walk(fn.node):
        if isinstance(n, ast.Call) and isinstance(n.func, ast.Attribute) and isinstance(n.func.value, ast.Name) and n.func.value.id == "self" \
                and n.func.attr not in mentioned and n.func.attr != fn.name:
            m = prog.method(fn.cls, n.func.attr)
            if m is not None:
                out[f"self.{n.func.attr}"] = m.node
    return out


def conform(o, fn: FuncInfo, refs: Sequence[str], what: str, call_hook=None, inline=None, node=None, prog=None) -> str:
    """Record HOLDS if fn's term equals one of the reference terms, VIOLATED if it is a different closed
    term, UNDECIDED if it contains constructs the summariser does not know."""
    if prog is None:
        prog = getattr(o.ctx, "prog", None)
    extra = helper_inlines(prog, fn, refs)
    if extra:
        inline = dict(inline or {})
        inline.update(extra)
    t = term_of_fn(fn, call_hook, inline)
    rts = [term_of_src(r, call_hook, inline) for r in refs]
    return _verdict(o, fn, t, rts, what, node)


def snippet_term(stmts, result: str, params: Sequence[str], call_hook=None, inline=None) -> tuple:
    """Normal form of the value of local `result` after running `stmts` in isolation, as a function of the named
    free variables `params` (positional: $0, $1, ...).  Used to compare ONE loop of a larger function with a
    reference spelling of that loop."""
    import copy
    fn = ast.FunctionDef(name="_snippet", args=ast.arguments(posonlyargs=[], args=[ast.arg(arg=p) for p in params], vararg=None, kwonlyargs=[], kw_defaults=[], kwarg=None, defaults=[]),
                         body=[copy.deepcopy(s) for s in stmts] + [ast.Return(value=ast.Name(id=result, ctx=ast.Load()))], decorator_list=[], returns=None, type_comment=None)
    try:
        fn.type_params = []
    except Exception:
        pass
    ast.fix_missing_locations(fn)
    return term_of_node(fn, call_hook, inline)
