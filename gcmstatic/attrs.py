"""Instance-attribute state discipline: definite assignment (must-analysis on the CFG) with callee
summaries, upward-exposed reads, kill / store effect sets.

For a receiver class C and a method m the summary says
  exposed[a]  : sites where `self.a` is read (loaded, subscript-stored into, augmented, mutated) on some path
                from m's entry on which `self.a` has not been (re)bound since entry   (upward-exposed reads)
  must        : attributes definitely (re)bound on every path to m's normal exit
  kills[a]    : every site (transitively, flow-insensitive) that rebinds `self.a`
  stores[a]   : every site that writes *into* the object held by `self.a` (subscript / augmented store,
                mutator method), transitively
`self.m(...)` calls are resolved through C's MRO (so overriding is respected) and summarised
bottom-up; recursion is cut with an empty summary (the recursive helpers in the package touch no state).
"""
from __future__ import annotations

import ast
from dataclasses import dataclass, field
from typing import Dict, List, Optional, Set, Tuple

import networkx as nx

from . import astx
from .astx import txt
from .cfg import CFG, ENTRY, EXIT, RAISE
from .pm import ClassInfo, FuncInfo, Program


@dataclass
class Summary:
    exposed: Dict[str, List[Tuple[FuncInfo, ast.AST]]] = field(default_factory=dict)
    must: Set[str] = field(default_factory=set)
    kills: Dict[str, List[Tuple[FuncInfo, ast.AST]]] = field(default_factory=dict)
    stores: Dict[str, List[Tuple[FuncInfo, ast.AST, str]]] = field(default_factory=dict)
    reads: Dict[str, List[Tuple[FuncInfo, ast.AST]]] = field(default_factory=dict)
    calls: List[FuncInfo] = field(default_factory=list)
    maybe_exposed: Dict[str, List[Tuple[FuncInfo, ast.AST]]] = field(default_factory=dict)


class AttrState:
    def __init__(self, prog: Program, cls: ClassInfo, recv: str = "self"):
        self.prog, self.cls, self.recv = prog, cls, recv
        self.memo: Dict[str, Summary] = {}
        self.stack: List[str] = []

    # ---------------------------------------------------------------- helpers
    def is_attr(self, name: str) -> bool:
        """Is `self.name` instance state (not a method / property / class attribute)?"""
        if self.prog.method(self.cls, name) is not None:
            return False
        return True

    def is_class_attr(self, name: str) -> bool:
        return self.prog.class_attr(self.cls, name) is not None

    def _self_attr(self, n: ast.AST) -> Optional[str]:
        if isinstance(n, ast.Attribute) and isinstance(n.value, ast.Name) and n.value.id == self.recv:
            return n.attr
        return None

    # ---------------------------------------------------------------- events of one CFG node
    def events(self, fn: FuncInfo, st: ast.AST) -> List[tuple]:
        """Ordered events for the part of `st` that the CFG node stands for:
        ('read', attr, node) | ('assign', attr, node) | ('store', attr, node, kind) | ('call', FuncInfo, node)"""
        ev: List[tuple] = []

        def expr(e):
            if e is None:
                return
            if isinstance(e, (ast.FunctionDef, ast.AsyncFunctionDef, ast.Lambda, ast.ClassDef)):
                return
            if isinstance(e, ast.Call):
                f = e.func
                a = self._self_attr(f)
                if a is not None:
                    m = self.prog.method(self.cls, a)
                    for x in e.args:
                        expr(x.value if isinstance(x, ast.Starred) else x)
                    for k in e.keywords:
                        expr(k.value)
                    if m is not None:
                        ev.append(("call", m, e))
                    else:
                        ev.append(("read", a, f))  # callback stored in an attribute
                    return
                # setattr(self, "name", v) binds the attribute; with a computed name every attribute may be bound
                if isinstance(f, ast.Name) and f.id == "setattr" and len(e.args) == 3 and isinstance(e.args[0], ast.Name) and e.args[0].id == self.recv:
                    expr(e.args[1])
                    expr(e.args[2])
                    if isinstance(e.args[1], ast.Constant) and isinstance(e.args[1].value, str):
                        ev.append(("assign", e.args[1].value, e))
                    else:
                        ev.append(("assign-any", None, e))
                    return
                # super().m(...)
                if isinstance(f, ast.Attribute) and isinstance(f.value, ast.Call) and txt(f.value.func) == "super":
                    for x in e.args:
                        expr(x.value if isinstance(x, ast.Starred) else x)
                    for k in e.keywords:
                        expr(k.value)
                    mro = self.prog.mro(fn.cls) if fn.cls is not None else []
                    for c in mro[1:]:
                        if f.attr in c.methods:
                            ev.append(("call", c.methods[f.attr], e))
                            break
                    return
                # mutator method on self.attr (possibly deeper: self.x[k].append)
                if isinstance(f, ast.Attribute) and f.attr in (astx.MUTATOR_METHODS | astx.GRAPH_MUTATORS):
                    base = f.value
                    while isinstance(base, ast.Subscript):
                        base = base.value
                    a2 = self._self_attr(base)
                    if a2 is not None:
                        expr(f.value)
                        for x in e.args:
                            expr(x.value if isinstance(x, ast.Starred) else x)
                        for k in e.keywords:
                            expr(k.value)
                        ev.append(("store", a2, e, f"call:{f.attr}"))
                        return
                expr(f)
                for x in e.args:
                    expr(x.value if isinstance(x, ast.Starred) else x)
                for k in e.keywords:
                    expr(k.value)
                return
            a = self._self_attr(e)
            if a is not None:
                m = self.prog.method(self.cls, a)
                if m is not None and "property" in m.decorators:
                    ev.append(("call", m, e))
                elif m is None:
                    ev.append(("read", a, e))
                return
            for ch in ast.iter_child_nodes(e):
                if isinstance(ch, ast.expr) or isinstance(ch, (ast.comprehension, ast.keyword, ast.Starred, ast.FormattedValue, ast.JoinedStr, ast.Slice)):
                    if isinstance(ch, ast.comprehension):
                        expr(ch.iter)
                        for c in ch.ifs:
                            expr(c)
                    else:
                        expr(ch)

        def target(t, aug=False):
            a = self._self_attr(t)
            if a is not None:
                # `self.p = v` where p is a property with a setter runs the setter
                ps = self.prog.method(self.cls, a + ".setter")
                if ps is not None:
                    if aug:
                        pg = self.prog.method(self.cls, a)
                        if pg is not None:
                            ev.append(("call", pg, t))
                    ev.append(("call", ps, t))
                    return
                if aug:
                    ev.append(("read", a, t))
                ev.append(("assign", a, t))
                return
            if isinstance(t, (ast.Tuple, ast.List)):
                for e in t.elts:
                    target(e, aug)
                return
            if isinstance(t, ast.Starred):
                target(t.value, aug)
                return
            if isinstance(t, (ast.Subscript, ast.Attribute)):
                base = t
                while isinstance(base, (ast.Subscript, ast.Attribute)) and self._self_attr(base) is None:
                    if isinstance(base, ast.Subscript):
                        expr(base.slice)
                    base = base.value
                a2 = self._self_attr(base)
                if a2 is not None:
                    ev.append(("read", a2, base))
                    ev.append(("store", a2, t, "augstore" if aug else "store"))
                else:
                    expr(base)

        if isinstance(st, ast.Assign):
            expr(st.value)
            for t in st.targets:
                target(t)
        elif isinstance(st, ast.AnnAssign):
            if st.value is not None:
                expr(st.value)
                target(st.target)
        elif isinstance(st, ast.AugAssign):
            expr(st.value)
            target(st.target, aug=True)
        elif isinstance(st, (ast.Expr, ast.Return)):
            expr(st.value)
        elif isinstance(st, (ast.If, ast.While)):
            expr(st.test)
        elif isinstance(st, (ast.For, ast.AsyncFor)):
            expr(st.iter)
            target(st.target)
        elif isinstance(st, (ast.With, ast.AsyncWith)):
            for it in st.items:
                expr(it.context_expr)
        elif isinstance(st, ast.Raise):
            expr(st.exc)
        elif isinstance(st, ast.Delete):
            for t in st.targets:
                base = t
                while isinstance(base, (ast.Subscript, ast.Attribute)) and self._self_attr(base) is None:
                    base = base.value
                a2 = self._self_attr(base)
                if a2 is not None and base is not t:
                    ev.append(("read", a2, base))
                    ev.append(("store", a2, t, "del"))
        elif isinstance(st, ast.Assert):
            expr(st.test)
        return ev

    # ---------------------------------------------------------------- summaries
    def summary(self, fn: FuncInfo) -> Summary:
        key = fn.qualname
        if key in self.memo:
            return self.memo[key]
        if key in self.stack:
            return Summary()
        self.stack.append(key)
        try:
            s = self._compute(fn)
        finally:
            self.stack.pop()
        self.memo[key] = s
        return s

    def _compute(self, fn: FuncInfo) -> Summary:
        self.prog.note(fn.module)
        cfg = CFG(fn.node)
        g = cfg.g
        s = Summary()
        node_events = {n: self.events(fn, cfg.stmt[n]) for n in cfg.nodes()}
        # flow-insensitive effect sets
        for n, evs in node_events.items():
            for e in evs:
                if e[0] == "assign":
                    s.kills.setdefault(e[1], []).append((fn, cfg.stmt[n]))
                elif e[0] == "assign-any":
                    s.kills.setdefault("*", []).append((fn, cfg.stmt[n]))
                elif e[0] == "store":
                    s.stores.setdefault(e[1], []).append((fn, cfg.stmt[n], e[3]))
                elif e[0] == "read":
                    s.reads.setdefault(e[1], []).append((fn, e[2]))
                elif e[0] == "call":
                    cs = self.summary(e[1])
                    if e[1] not in s.calls:
                        s.calls.append(e[1])
                    for a, v in cs.kills.items():
                        s.kills.setdefault(a, []).extend(v)
                    for a, v in cs.stores.items():
                        s.stores.setdefault(a, []).extend(v)
                    for a, v in cs.reads.items():
                        s.reads.setdefault(a, []).extend(v)
        # must-assigned forward analysis
        TOP = None
        IN: Dict[int, Optional[frozenset]] = {n: TOP for n in g.nodes}
        OUT: Dict[int, Optional[frozenset]] = {n: TOP for n in g.nodes}
        IN[ENTRY] = frozenset()
        OUT[ENTRY] = frozenset()
        order = list(nx.dfs_postorder_nodes(g, ENTRY))
        order.reverse()
        exposed_at: Dict[Tuple[int, int], Tuple[str, ast.AST, FuncInfo]] = {}

        def transfer(n, state, record):
            st = set(state)
            for i, e in enumerate(node_events.get(n, [])):
                if e[0] == "read":
                    if e[1] not in st and record:
                        exposed_at[(n, i)] = (e[1], e[2], fn)
                elif e[0] == "assign":
                    st.add(e[1])
                elif e[0] == "call":
                    cs = self.summary(e[1])
                    if record:
                        for a, sites in cs.exposed.items():
                            if a not in st:
                                for j, (f2, nd) in enumerate(sites):
                                    exposed_at[(n, i, j, a)] = (a, nd, f2)
                    st |= cs.must
            return frozenset(st)

        changed = True
        it = 0
        while changed and it < 50:
            changed = False
            it += 1
            for n in order:
                if n == ENTRY:
                    continue
                acc = TOP
                for p in g.predecessors(n):
                    labs = g[p][n]["labels"]
                    src = IN[p] if labs == {"exc"} else OUT[p]
                    if src is TOP:
                        continue
                    acc = src if acc is TOP else (acc & src)
                if acc is TOP:
                    continue
                if IN[n] != acc:
                    IN[n] = acc
                    changed = True
                out = transfer(n, acc, False) if n >= 0 else acc
                if OUT[n] != out:
                    OUT[n] = out
                    changed = True
        for n in order:
            if n >= 0 and IN[n] is not TOP:
                transfer(n, IN[n], True)
        for k, (a, nd, f2) in exposed_at.items():
            s.exposed.setdefault(a, []).append((f2, nd))
        if "*" in s.kills:
            # attributes bound by computed name (setattr(self, name, v)): which reads are exposed is not known
            s.maybe_exposed, s.exposed = s.exposed, {}
        s.must = set(IN[EXIT]) if IN[EXIT] is not TOP else set()
        self._last_in = IN
        return s

    # ---------------------------------------------------------------- region effects
    def region_effects(self, fn: FuncInfo, stmts: List[ast.stmt]):
        """(kills, stores) attr -> sites for a list of statements (with callees, transitively)."""
        kills: Dict[str, list] = {}
        stores: Dict[str, list] = {}
        for st in astx.stmts_in(stmts):
            for e in self.events(fn, st):
                if e[0] == "assign":
                    kills.setdefault(e[1], []).append((fn, st))
                elif e[0] == "store":
                    stores.setdefault(e[1], []).append((fn, st, e[3]))
                elif e[0] == "call":
                    cs = self.summary(e[1])
                    for a, v in cs.kills.items():
                        kills.setdefault(a, []).extend(v)
                    for a, v in cs.stores.items():
                        stores.setdefault(a, []).extend(v)
        return kills, stores
