"""Statement-level control-flow graph per function, dominators / post-dominators, path queries.

Nodes are the simple statements plus one header node per compound statement (`if` test, `for`
iteration step, `while` test, `with` entry, `try` entry, `except` handler entry).  Virtual nodes:
ENTRY, EXIT (normal return / fall off the end) and RAISE (exceptional exit).  Exceptional edges
exist only where the function itself says so: `raise`, and from every statement of a `try` body to
each of its handlers.
"""
from __future__ import annotations

import ast
from typing import Dict, Iterable, List, Optional, Set, Tuple

import networkx as nx

ENTRY, EXIT, RAISE = -1, -2, -3


def _always_true(test: ast.AST) -> bool:
    return isinstance(test, ast.Constant) and bool(test.value) is True


class CFG:
    def __init__(self, fn_node: ast.AST):
        self.fn = fn_node
        self.g = nx.DiGraph()
        self.stmt: Dict[int, ast.AST] = {}
        self.ids: Dict[int, int] = {}
        self._n = 0
        self.g.add_nodes_from([ENTRY, EXIT, RAISE])
        body = fn_node.body
        ends = self._seq(body, [(ENTRY, None)], loop=None, handlers=[])
        for e, lab in ends:
            self._edge(e, EXIT, lab)
        self._idom = None
        self._ipdom = None

    # -------------------------------------------------------------- construction
    def _new(self, st: ast.AST) -> int:
        nid = self._n
        self._n += 1
        self.g.add_node(nid)
        self.stmt[nid] = st
        self.ids[id(st)] = nid
        return nid

    def _edge(self, a: int, b: int, lab=None) -> None:
        if self.g.has_edge(a, b):
            labs = self.g[a][b]["labels"]
            labs.add(lab)
        else:
            self.g.add_edge(a, b, labels={lab})

    def _link(self, preds: List[Tuple[int, Optional[str]]], nid: int) -> None:
        for p, lab in preds:
            self._edge(p, nid, lab)

    def _seq(self, stmts, preds, loop, handlers):
        """Wire a statement list; preds = [(node, edge label)] flowing in; returns the open ends."""
        for st in stmts:
            if not preds:
                # unreachable code: still create nodes so lookups work
                pass
            preds = self._stmt(st, preds, loop, handlers)
        return preds

    def _stmt(self, st, preds, loop, handlers):
        if isinstance(st, ast.If):
            n = self._new(st)
            self._link(preds, n)
            self._exc(n, handlers)
            t_end = self._seq(st.body, [(n, "T")], loop, handlers)
            if st.orelse:
                f_end = self._seq(st.orelse, [(n, "F")], loop, handlers)
            else:
                f_end = [(n, "F")]
            return t_end + f_end
        if isinstance(st, (ast.For, ast.AsyncFor)):
            n = self._new(st)
            self._link(preds, n)
            self._exc(n, handlers)
            frame = {"head": n, "breaks": []}
            b_end = self._seq(st.body, [(n, "T")], frame, handlers)
            self._link(b_end, n)
            out = self._seq(st.orelse, [(n, "F")], loop, handlers) if st.orelse else [(n, "F")]
            return out + frame["breaks"]
        if isinstance(st, ast.While):
            n = self._new(st)
            self._link(preds, n)
            self._exc(n, handlers)
            frame = {"head": n, "breaks": []}
            b_end = self._seq(st.body, [(n, "T")], frame, handlers)
            self._link(b_end, n)
            out = []
            if not _always_true(st.test):
                out = self._seq(st.orelse, [(n, "F")], loop, handlers) if st.orelse else [(n, "F")]
            return out + frame["breaks"]
        if isinstance(st, ast.Try):
            n = self._new(st)
            self._link(preds, n)
            hnodes = []
            for h in st.handlers:
                hn = self._new(h)
                hnodes.append(hn)
            inner_handlers = hnodes + ([] if st.handlers and any(_catches_all(h) for h in st.handlers) else handlers)
            b_end = self._seq(st.body, [(n, None)], loop, inner_handlers)
            if st.orelse:
                b_end = self._seq(st.orelse, b_end, loop, handlers)
            ends = list(b_end)
            for h, hn in zip(st.handlers, hnodes):
                ends += self._seq(h.body, [(hn, None)], loop, handlers)
            if st.finalbody:
                ends = self._seq(st.finalbody, ends, loop, handlers)
            return ends
        if isinstance(st, (ast.With, ast.AsyncWith)):
            n = self._new(st)
            self._link(preds, n)
            self._exc(n, handlers)
            return self._seq(st.body, [(n, None)], loop, handlers)
        # simple statements
        n = self._new(st)
        self._link(preds, n)
        self._exc(n, handlers)
        if isinstance(st, ast.Return):
            self._edge(n, EXIT)
            return []
        if isinstance(st, ast.Raise):
            if not handlers:
                self._edge(n, RAISE)
            return []
        if isinstance(st, ast.Break):
            if loop is not None:
                loop["breaks"].append((n, None))
            return []
        if isinstance(st, ast.Continue):
            if loop is not None:
                self._edge(n, loop["head"])
            return []
        return [(n, None)]

    def _exc(self, n: int, handlers: List[int]) -> None:
        for h in handlers:
            self._edge(n, h, "exc")

    # -------------------------------------------------------------- lookups
    def node(self, st: ast.AST) -> int:
        nid = self.ids.get(id(st))
        if nid is None:
            raise KeyError(f"statement not in CFG: {ast.dump(st)[:80]}")
        return nid

    def has(self, st: ast.AST) -> bool:
        return id(st) in self.ids

    def nodes(self) -> List[int]:
        return [n for n in self.g.nodes if n >= 0]

    # -------------------------------------------------------------- dominance
    def _dom(self):
        if self._idom is None:
            self._idom = dict(nx.immediate_dominators(self.g, ENTRY))
            self._idom[ENTRY] = ENTRY
        return self._idom

    def _pdom(self):
        if self._ipdom is None:
            r = self.g.reverse(copy=True)
            self._ipdom = dict(nx.immediate_dominators(r, EXIT))
            self._ipdom[EXIT] = EXIT
        return self._ipdom

    @staticmethod
    def _chain(idom, n, top):
        seen = set()
        while n not in seen:
            seen.add(n)
            yield n
            if n == top or n not in idom:
                return
            n = idom[n]

    def dominates(self, a: ast.AST, b: ast.AST) -> bool:
        """Every path ENTRY -> b passes a (a is b counts)."""
        na, nb = self.node(a), self.node(b)
        idom = self._dom()
        if nb not in idom:
            return True  # b unreachable: vacuous
        return na in set(self._chain(idom, nb, ENTRY))

    def postdominates(self, a: ast.AST, b: ast.AST) -> bool:
        """Every path b -> normal EXIT passes a."""
        na, nb = self.node(a), self.node(b)
        ip = self._pdom()
        if nb not in ip:
            return True  # b cannot reach normal exit
        return na in set(self._chain(ip, nb, EXIT))

    def reaches_exit(self, a: ast.AST) -> bool:
        return nx.has_path(self.g, self.node(a), EXIT)

    # -------------------------------------------------------------- reachability
    def _resolve(self, x) -> int:
        return x if isinstance(x, int) else self.node(x)

    def path_exists(self, src, dst, avoiding: Iterable = (), skip_exc: bool = False) -> bool:
        """Is there a path of >= 1 edge from src to dst that does not pass through `avoiding`
        (src and dst themselves may be in avoiding)?"""
        s, d = self._resolve(src), self._resolve(dst)
        av = {self._resolve(x) for x in avoiding}
        seen = set()
        stack = [s]
        first = True
        while stack:
            n = stack.pop()
            for m in self.g.successors(n):
                if skip_exc and self.g[n][m]["labels"] == {"exc"}:
                    continue
                if m == d:
                    return True
                if m in seen or m in av:
                    continue
                seen.add(m)
                stack.append(m)
        return False

    def every_path_passes(self, src, dst, via: Iterable) -> bool:
        return not self.path_exists(src, dst, avoiding=via)

    def succ(self, st, label=None) -> List[int]:
        n = self._resolve(st)
        return [m for m in self.g.successors(n) if label is None or label in self.g[n][m]["labels"]]

    def reachable_from_entry(self, st) -> bool:
        return self.path_exists(ENTRY, st)


def _catches_all(h: ast.ExceptHandler) -> bool:
    if h.type is None:
        return True
    return isinstance(h.type, ast.Name) and h.type.id in ("Exception", "BaseException")


def handler_always_raises(h: ast.ExceptHandler) -> bool:
    """The repo's constructor idiom: `except Exception as e: raise (...)`."""
    def always(stmts) -> bool:
        for s in stmts:
            if isinstance(s, ast.Raise):
                return True
            if isinstance(s, ast.If) and s.orelse and always(s.body) and always(s.orelse):
                return True
        return False
    return always(h.body)
