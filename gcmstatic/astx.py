"""AST utilities: structural patterns with metavariables, local scopes with single-definition
inlining, parent maps, canonical text."""
from __future__ import annotations

import ast
import copy
import re
from typing import Callable, Dict, Iterable, Iterator, List, Optional, Tuple

MV = "__MV_"

MUTATOR_METHODS = {
    "append", "extend", "pop", "remove", "insert", "clear", "update", "add", "discard", "sort",
    "reverse", "setdefault", "popitem",
}
GRAPH_MUTATORS = {
    "add_edge", "add_edges_from", "add_node", "add_nodes_from", "remove_edge", "remove_edges_from",
    "remove_node", "remove_nodes_from", "add_weighted_edges_from", "clear_edges",
}


# ----------------------------------------------------------------------------- text
def txt(node: ast.AST) -> str:
    """Canonical one-line text of a node (ast.unparse: whitespace/parenthesis/quote independent)."""
    if node is None:
        return "None"
    if isinstance(node, list):
        return "; ".join(txt(n) for n in node)
    return " ".join(ast.unparse(node).split())


def same(a: ast.AST, b: ast.AST) -> bool:
    return dump(a) == dump(b)


def dump(a: ast.AST) -> str:
    return ast.dump(strip_ctx(a), annotate_fields=False, include_attributes=False)


class _CtxStripper(ast.NodeTransformer):
    def generic_visit(self, node):
        node = super().generic_visit(node)
        if hasattr(node, "ctx"):
            node.ctx = ast.Load()
        return node


def strip_ctx(node: ast.AST) -> ast.AST:
    return _CtxStripper().visit(copy.deepcopy(node))


# ----------------------------------------------------------------------------- patterns
def pat(src: str, mode: str = "eval") -> ast.AST:
    """Parse a pattern.  `$x` is a metavariable (binds any expression; repeated occurrences must bind
    structurally equal expressions), `$_` is a wildcard.  In call argument lists a trailing `*$ARGS` (any
    metavariable whose name starts with ARGS) absorbs the remaining positional arguments and `**$kw` any
    keywords; any other `*$x` matches a starred argument."""
    s = re.sub(r"\$(\w+)", lambda m: MV + m.group(1), src)
    if mode == "eval":
        return ast.parse(s, mode="eval").body
    mod = ast.parse(s)
    return mod.body[0] if len(mod.body) == 1 else mod.body


def _is_mv(n: ast.AST) -> Optional[str]:
    if isinstance(n, ast.Name) and n.id.startswith(MV):
        return n.id[len(MV):]
    return None


class Bindings(dict):
    """Metavariable bindings of a successful match.  Always truthy (also when the pattern has no metavariables), so
    that `match(p1, n) or match(p2, n)` means what it says."""

    def __bool__(self):
        return True


def match(p: ast.AST, n: ast.AST, b: Optional[Dict[str, ast.AST]] = None) -> Optional[Dict[str, ast.AST]]:
    """Structural match of pattern p against node n; returns bindings or None."""
    b = Bindings() if b is None else b
    return b if _m(p, n, b) else None


def _m(p, n, b) -> bool:
    if isinstance(p, ast.AST):
        mv = _is_mv(p)
        if mv is not None:
            if mv == "_":
                return isinstance(n, ast.AST)
            if not isinstance(n, ast.AST):
                return False
            if mv in b:
                return same(b[mv], n)
            b[mv] = n
            return True
        if isinstance(p, ast.Expr) and isinstance(n, ast.Expr):
            return _m(p.value, n.value, b)
        if type(p) is not type(n):
            return False
        if isinstance(p, ast.Call):
            return _m_call(p, n, b)
        if isinstance(p, ast.Attribute):
            # attribute names may be metavariables too: x.__MV_name
            if p.attr.startswith(MV):
                key = p.attr[len(MV):]
                if key != "_":
                    if key in b and not (isinstance(b[key], str) and b[key] == n.attr):
                        return False
                    b[key] = n.attr
                return _m(p.value, n.value, b)
        for f in p._fields:
            if f in ("ctx", "type_comment", "lineno", "col_offset", "end_lineno", "end_col_offset", "kind"):
                continue
            if not _m(getattr(p, f, None), getattr(n, f, None), b):
                return False
        return True
    if isinstance(p, list):
        if not isinstance(n, list) or len(p) != len(n):
            return False
        return all(_m(x, y, b) for x, y in zip(p, n))
    return p == n


def _m_call(p: ast.Call, n: ast.Call, b) -> bool:
    if not _m(p.func, n.func, b):
        return False
    pargs = list(p.args)
    rest_mv = None
    if pargs and isinstance(pargs[-1], ast.Starred) and (_is_mv(pargs[-1].value) or "").startswith("ARGS"):
        rest_mv = _is_mv(pargs[-1].value)
        pargs = pargs[:-1]
    if rest_mv is None:
        if len(pargs) != len(n.args):
            return False
    elif len(n.args) < len(pargs):
        return False
    for x, y in zip(pargs, n.args):
        if not _m(x, y, b):
            return False
    if rest_mv is not None:
        b[rest_mv] = list(n.args[len(pargs):])
    pk = {k.arg: k.value for k in p.keywords if k.arg is not None}
    any_kw = any(k.arg is None and _is_mv(k.value) is not None for k in p.keywords)
    nk = {k.arg: k.value for k in n.keywords if k.arg is not None}
    if any(k.arg is None for k in n.keywords) and not any_kw:
        return False
    if not any_kw and set(pk) != set(nk):
        return False
    for k, v in pk.items():
        if k not in nk or not _m(v, nk[k], b):
            return False
    return True


def find(root, p: ast.AST, pred: Optional[Callable] = None) -> List[Tuple[ast.AST, Dict[str, ast.AST]]]:
    """All (node, bindings) under root (a node or list of nodes) matching pattern p, in source order."""
    out = []
    for n in walk(root):
        b = match(p, n)
        if b is not None and (pred is None or pred(n, b)):
            out.append((n, b))
    return out


def walk(root, into_defs: bool = False) -> Iterator[ast.AST]:
    """Pre-order walk in source order; does not descend into nested function/class/lambda bodies
    unless into_defs."""
    stack = list(reversed(root)) if isinstance(root, list) else [root]
    first = True
    while stack:
        n = stack.pop()
        yield n
        if not first and not into_defs and isinstance(n, (ast.FunctionDef, ast.AsyncFunctionDef, ast.ClassDef, ast.Lambda)):
            continue
        first = False
        stack.extend(reversed(list(ast.iter_child_nodes(n))))


def walk_fn(fn_node: ast.AST, into_defs: bool = False) -> Iterator[ast.AST]:
    """Walk the body of a function definition (not its decorators/annotations/defaults)."""
    for st in fn_node.body:
        for n in _walk_stmt(st, into_defs):
            yield n


def _walk_stmt(n, into_defs):
    yield n
    if not into_defs and isinstance(n, (ast.FunctionDef, ast.AsyncFunctionDef, ast.ClassDef, ast.Lambda)):
        return
    for ch in ast.iter_child_nodes(n):
        yield from _walk_stmt(ch, into_defs)


# ----------------------------------------------------------------------------- parents
class Parents:
    def __init__(self, root: ast.AST):
        self.root = root
        self.p: Dict[int, ast.AST] = {}
        for n in ast.walk(root):
            for ch in ast.iter_child_nodes(n):
                self.p[id(ch)] = n

    def parent(self, n: ast.AST) -> Optional[ast.AST]:
        return self.p.get(id(n))

    def ancestors(self, n: ast.AST) -> Iterator[ast.AST]:
        n = self.parent(n)
        while n is not None:
            yield n
            n = self.parent(n)

    def stmt_of(self, n: ast.AST) -> Optional[ast.stmt]:
        if hasattr(n, "_anchor"):
            return n._anchor   # synthetic condition built by rules._leave_condition: report at the statement it summarises
        while n is not None and not isinstance(n, ast.stmt):
            n = self.parent(n)
        return n

    def block_of(self, st: ast.AST) -> Optional[list]:
        """the statement list that holds statement st"""
        st = self.stmt_of(st)
        par = self.parent(st) if st is not None else None
        if par is None:
            return None
        for f in ("body", "orelse", "finalbody"):
            b = getattr(par, f, None)
            if isinstance(b, list) and any(x is st for x in b):
                return b
        for h in getattr(par, "handlers", []) or []:
            if any(x is st for x in h.body):
                return h.body
        return None

    def loops_of(self, n: ast.AST) -> List[ast.AST]:
        """Enclosing for/while loops (innermost first) in whose *body* n lies (not orelse, not header)."""
        out = []
        child = n
        for a in self.ancestors(n):
            if isinstance(a, (ast.For, ast.While)) and any(child is s for s in a.body):
                out.append(a)
            if isinstance(a, (ast.FunctionDef, ast.AsyncFunctionDef, ast.Lambda)):
                break
            child = a
        return out

    def comps_of(self, n: ast.AST) -> List[ast.AST]:
        return [a for a in self.ancestors(n) if isinstance(a, (ast.ListComp, ast.SetComp, ast.GeneratorExp, ast.DictComp))]

    def inside(self, n: ast.AST, container: ast.AST) -> bool:
        return n is container or any(a is container for a in self.ancestors(n))

    def branch_of(self, n: ast.AST, if_node: ast.If) -> Optional[str]:
        """'body' / 'orelse' / 'test' if n lies inside that part of if_node."""
        child = n
        for a in self.ancestors(n):
            if a is if_node:
                if child is if_node.test:
                    return "test"
                if any(child is s for s in if_node.body):
                    return "body"
                if any(child is s for s in if_node.orelse):
                    return "orelse"
                return None
            child = a
        return None


# ----------------------------------------------------------------------------- scopes / inlining
class Scope:
    """Binding sites of local names in one function body; single-definition inlining.

    A local is *inlinable* when it has exactly one binding site in the function, that site is a plain
    `x = expr` / `x: T = expr` with x the only target, x is not a parameter, not a loop/with/except/
    comprehension target, never the target of an augmented assignment, and (unless allow_mutated) never
    mutated through a subscript store, `del`, or a known mutator method.
    """

    def __init__(self, fn_node: ast.AST):
        self.fn = fn_node
        self.params = [a.arg for a in fn_node.args.posonlyargs + fn_node.args.args + fn_node.args.kwonlyargs]
        if fn_node.args.vararg:
            self.params.append(fn_node.args.vararg.arg)
        if fn_node.args.kwarg:
            self.params.append(fn_node.args.kwarg.arg)
        self.assigns: Dict[str, List[ast.stmt]] = {}
        self.other_binds: Dict[str, List[ast.AST]] = {}
        self.mutated: Dict[str, List[ast.AST]] = {}
        self.parents = Parents(fn_node)
        for n in walk_fn(fn_node):
            if isinstance(n, ast.Assign):
                if len(n.targets) == 1 and isinstance(n.targets[0], ast.Name):
                    self.assigns.setdefault(n.targets[0].id, []).append(n)
                else:
                    for t in n.targets:
                        self._bind_target(t, n)
            elif isinstance(n, ast.AnnAssign):
                if isinstance(n.target, ast.Name) and n.value is not None:
                    self.assigns.setdefault(n.target.id, []).append(n)
                elif n.value is not None:
                    self._bind_target(n.target, n)
            elif isinstance(n, ast.AugAssign):
                self._bind_target(n.target, n, aug=True)
            elif isinstance(n, (ast.For, ast.AsyncFor)):
                self._bind_target(n.target, n)
            elif isinstance(n, ast.comprehension):
                self._bind_target(n.target, n)
            elif isinstance(n, (ast.With, ast.AsyncWith)):
                for it in n.items:
                    if it.optional_vars is not None:
                        self._bind_target(it.optional_vars, n)
            elif isinstance(n, ast.ExceptHandler) and n.name:
                self.other_binds.setdefault(n.name, []).append(n)
            elif isinstance(n, ast.NamedExpr):
                self._bind_target(n.target, n)
            elif isinstance(n, ast.Delete):
                for t in n.targets:
                    r = root_name(t)
                    if r:
                        self.mutated.setdefault(r, []).append(n)
            elif isinstance(n, (ast.FunctionDef, ast.AsyncFunctionDef, ast.ClassDef)) and n is not fn_node:
                self.other_binds.setdefault(n.name, []).append(n)
            elif isinstance(n, ast.Call) and isinstance(n.func, ast.Attribute) and n.func.attr in (MUTATOR_METHODS | GRAPH_MUTATORS):
                r = n.func.value
                if isinstance(r, ast.Name):
                    self.mutated.setdefault(r.id, []).append(n)

    def _bind_target(self, t: ast.AST, site: ast.AST, aug: bool = False) -> None:
        if isinstance(t, ast.Name):
            self.other_binds.setdefault(t.id, []).append(site)
        elif isinstance(t, (ast.Tuple, ast.List)):
            for e in t.elts:
                self._bind_target(e, site)
        elif isinstance(t, ast.Starred):
            self._bind_target(t.value, site)
        elif isinstance(t, (ast.Subscript, ast.Attribute)):
            r = t.value
            if isinstance(r, ast.Name):
                self.mutated.setdefault(r.id, []).append(site)

    def is_local(self, name: str) -> bool:
        return name in self.assigns or name in self.other_binds or name in self.params

    def n_bindings(self, name: str) -> int:
        return len(self.assigns.get(name, [])) + len(self.other_binds.get(name, [])) + (1 if name in self.params else 0)

    def single_def(self, name: str, allow_mutated: bool = False) -> Optional[ast.AST]:
        if name in self.params:
            return None
        if name in self.other_binds:
            # `a, b = X` with X a pure attribute path / name: a is X[0], b is X[1]
            ob = self.other_binds[name]
            if len(ob) == 1 and name not in self.assigns and isinstance(ob[0], ast.Assign) and len(ob[0].targets) == 1 \
                    and isinstance(ob[0].targets[0], (ast.Tuple, ast.List)) and (allow_mutated or name not in self.mutated):
                tg = ob[0].targets[0]
                v = ob[0].value
                pure = v
                while isinstance(pure, ast.Attribute):
                    pure = pure.value
                if isinstance(pure, ast.Name) and all(isinstance(e, ast.Name) for e in tg.elts) and not (isinstance(v, ast.Name) and v.id == name):
                    idx = [i for i, e in enumerate(tg.elts) if e.id == name]
                    if len(idx) == 1:
                        return ast.copy_location(ast.Subscript(value=copy.deepcopy(v), slice=ast.Constant(value=idx[0]), ctx=ast.Load()), v)
            return None
        a = self.assigns.get(name, [])
        if len(a) != 1:
            return None
        if not allow_mutated and name in self.mutated:
            return None
        return a[0].value

    def def_stmt(self, name: str) -> Optional[ast.stmt]:
        a = self.assigns.get(name, [])
        if len(a) == 1 and name not in self.other_binds and name not in self.params:
            return a[0]
        return None

    def resolve(self, expr: ast.AST, depth: int = 8, allow_mutated: bool = False, keep=()) -> ast.AST:
        """Copy of expr with inlinable locals substituted by their defining expressions (names in `keep`
        are left alone)."""
        sc = self
        keep = set(keep)

        class T(ast.NodeTransformer):
            def __init__(self, d, bound):
                self.d = d
                self.bound = bound

            def visit_Name(self, node):
                if node.id in self.bound or self.d <= 0 or node.id in keep:
                    return node
                v = sc.single_def(node.id, allow_mutated)
                if v is None:
                    return node
                return T(self.d - 1, self.bound).visit(copy.deepcopy(v))

            def _comp(self, node):
                bound = set(self.bound)
                for g in node.generators:
                    for nm in ast.walk(g.target):
                        if isinstance(nm, ast.Name):
                            bound.add(nm.id)
                return T(self.d, bound).generic_visit(node)

            visit_ListComp = visit_SetComp = visit_GeneratorExp = visit_DictComp = _comp

            def visit_Lambda(self, node):
                bound = set(self.bound) | {a.arg for a in node.args.args}
                return T(self.d, bound).generic_visit(node)

        return T(depth, set()).visit(copy.deepcopy(expr))

    def deref(self, expr: ast.AST, allow_mutated: bool = False, unwrap: tuple = ("list", "tuple")) -> ast.AST:
        """Follow Name -> single definition (original nodes, no inner substitution), unwrapping
        list()/tuple() conversions."""
        seen = 0
        while seen < 10:
            seen += 1
            if isinstance(expr, ast.Name):
                v = self.single_def(expr.id, allow_mutated)
                if v is None:
                    return expr
                expr = v
            elif isinstance(expr, ast.Call) and txt(expr.func) in unwrap and len(expr.args) == 1 and not expr.keywords:
                expr = expr.args[0]
            else:
                return expr
        return expr

    def rtxt(self, expr: ast.AST) -> str:
        return txt(self.resolve(expr))


def root_name(n: ast.AST) -> Optional[str]:
    """Root Name of an access path x.a[b].c -> 'x' (calls are not followed)."""
    while isinstance(n, (ast.Attribute, ast.Subscript, ast.Starred)):
        n = n.value
    return n.id if isinstance(n, ast.Name) else None


def attr_path(n: ast.AST) -> Optional[str]:
    """'self._jdd' for Attribute chains rooted at a Name, else None."""
    parts = []
    while isinstance(n, ast.Attribute):
        parts.append(n.attr)
        n = n.value
    if isinstance(n, ast.Name):
        return ".".join([n.id] + list(reversed(parts)))
    return None


def self_attr(n: ast.AST) -> Optional[str]:
    """x for the expression `self.x` (exactly one level)."""
    if isinstance(n, ast.Attribute) and isinstance(n.value, ast.Name) and n.value.id == "self":
        return n.attr
    return None


def names_in(n: ast.AST) -> set:
    return {x.id for x in ast.walk(n) if isinstance(x, ast.Name)}


def const_value(n: ast.AST):
    """Python value of a numeric constant expression (handles unary +/-), else None."""
    if isinstance(n, ast.Constant) and isinstance(n.value, (int, float)) and not isinstance(n.value, bool):
        return n.value
    if isinstance(n, ast.UnaryOp) and isinstance(n.op, (ast.USub, ast.UAdd)):
        v = const_value(n.operand)
        if v is None:
            return None
        return -v if isinstance(n.op, ast.USub) else v
    return None


def strip_logging(stmts: List[ast.stmt]) -> List[ast.stmt]:
    """Statements minus pure logging calls (self._logger.debug(...)), which no rule cares about."""
    out = []
    for s in stmts:
        if isinstance(s, ast.Expr) and isinstance(s.value, ast.Call):
            f = s.value.func
            if isinstance(f, ast.Attribute) and f.attr in ("debug", "info", "warning", "error") and "logger" in txt(f.value).lower():
                continue
        out.append(s)
    return out


def is_call_to(n: ast.AST, *names: str) -> bool:
    """Call whose callee text (unparsed) is one of names."""
    return isinstance(n, ast.Call) and txt(n.func) in names


def call_name(n: ast.AST) -> Optional[str]:
    return txt(n.func) if isinstance(n, ast.Call) else None


def stmts_in(body: List[ast.stmt]) -> Iterator[ast.stmt]:
    """All statements in a body, recursively (not into nested defs)."""
    for s in body:
        yield s
        for f in ("body", "orelse", "finalbody"):
            sub = getattr(s, f, None)
            if isinstance(sub, list) and not isinstance(s, (ast.FunctionDef, ast.AsyncFunctionDef, ast.ClassDef)):
                yield from stmts_in(sub)
        if isinstance(s, ast.Try):
            for h in s.handlers:
                yield from stmts_in(h.body)


class _Aug:
    """View of `x op= e` and of its plain spelling `x = x op e` (name targets) as one shape."""
    __slots__ = ("node", "target", "op", "value")

    def __init__(self, node, target, op, value):
        self.node, self.target, self.op, self.value = node, target, op, value


def as_aug(s: ast.AST) -> Optional[_Aug]:
    if isinstance(s, ast.AugAssign):
        return _Aug(s, s.target, s.op, s.value)
    if isinstance(s, ast.Assign) and len(s.targets) == 1 and isinstance(s.targets[0], ast.Name) and isinstance(s.value, ast.BinOp):
        t = s.targets[0].id
        if isinstance(s.value.left, ast.Name) and s.value.left.id == t:
            return _Aug(s, s.targets[0], s.value.op, s.value.right)
        if isinstance(s.value.right, ast.Name) and s.value.right.id == t and isinstance(s.value.op, (ast.Add, ast.Mult)) \
                and not any(isinstance(x, (ast.List, ast.Tuple, ast.Constant)) and isinstance(getattr(x, "value", 0), str) or isinstance(x, (ast.List, ast.Tuple)) for x in ast.walk(s.value.left)):
            return _Aug(s, s.targets[0], s.value.op, s.value.left)   # e + x / e * x on numbers
    return None
